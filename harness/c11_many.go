package main

import (
	"fmt"
	"math/rand"
	"strconv"
	"strings"

	"github.com/semihalev/twig"
)

// C11 (s6) — how OFTEN include tags have run in a scope, and how DEEP the chain of including templates is, is not part
// of what a template sees.
//
// (a) repetition: one include tag (every target kind × every option set), or a unit of several, is executed N times in
// ONE scope — by a for loop over a list of the render data, over a range, by nested loops, inside a block / a
// conditional of the loop body, in a macro body, in an included template, or written out N times — for N on a ladder
// around the usual limits (…, 64, 100, 128, 256, 1000, 1024 and their neighbours). Behind the repetition the same scope
// runs one include of every kind (plain, with, only, ignore missing of a missing and of an existing template, computed
// name, a template that includes further, sandboxed) and reads its own variables again.
// (b) depth: a chain of D includes (a template including itself with a counter; a chain of D distinct templates), for D
// on the same kind of ladder, every level reading its variables again after the include returns.
// (c) every case is rendered twice on the same engine.
//
// The expected text is computed here from the scope rule alone; a sample of the cases also runs through the Lean
// pipeline (compareCase).

var c11ManyNames = []string{"a", "b", "c", "d", "w", "r"}

func c11ManyView(names []string) string {
	var sb strings.Builder
	for _, n := range names {
		sb.WriteString("{% if " + n + " is defined %}" + n + "={{ " + n + " }};{% else %}" + n + "=U;{% endif %}")
	}
	return sb.String()
}

func c11ManyViewOut(names []string, s map[string]string) string {
	var sb strings.Builder
	for _, n := range names {
		if v, ok := s[n]; ok {
			sb.WriteString(n + "=" + v + ";")
		} else {
			sb.WriteString(n + "=U;")
		}
	}
	return sb.String()
}

// one include tag of the repeated unit
type c11ManyTag struct {
	target                        int // index into c11ManyTargets
	ignore, with, only, sandboxed bool
}

const (
	c11TChild    = iota // 'child'
	c11TComputed        // 'chi' ~ 'ld'
	c11TRow             // 'row_' ~ r: exists for some rows only (an optional per-row partial)
	c11TMissing         // 'nosuch'
	c11TMissingC        // 'nos' ~ 'uch'
	c11TOpt             // a template that itself has optional partials that do not exist
	c11TExt             // a template that extends a layout (which has an optional partial that does not exist)
	c11TargetCount
)

var c11ManyTargetNames = []string{"child", "computed", "per-row", "missing", "missing-computed", "child-with-missing-partials", "child-extends"}

func (t c11ManyTag) src(rExpr string) string {
	var name string
	switch t.target {
	case c11TChild:
		name = "'child'"
	case c11TComputed:
		name = "'chi' ~ 'ld'"
	case c11TRow:
		name = "'row_' ~ " + rExpr
	case c11TMissing:
		name = "'nosuch'"
	case c11TMissingC:
		name = "'nos' ~ 'uch'"
	case c11TOpt:
		name = "'opt'"
	default:
		name = "'ext'"
	}
	s := "{% include " + name
	if t.ignore {
		s += " ignore missing"
	}
	if t.with {
		s += " with {'c': 'with-c', 'a': b ~ '!', 'w': " + rExpr + "}"
	}
	if t.only {
		s += " only"
	}
	if t.sandboxed {
		s += " sandboxed"
	}
	return s + " %}"
}

func (t c11ManyTag) String() string {
	s := c11ManyTargetNames[t.target]
	for _, o := range []struct {
		on   bool
		name string
	}{{t.ignore, "ignore missing"}, {t.with, "with"}, {t.only, "only"}, {t.sandboxed, "sandboxed"}} {
		if o.on {
			s += " " + o.name
		}
	}
	return s
}

// the templates every case of the sweep has
func c11ManyTemplates() map[string]string {
	v := c11ManyView(c11ManyNames)
	writes := "{% set a = 'child-a' %}{% set b = 'child-b' %}{% set zz = 1 %}{% for c in [7, 8] %}{% set d = c %}{% endfor %}{% set r = 'child-r' %}"
	fv := c11ManyView(c11ManyNames[:4])
	return map[string]string{
		"child":  "<" + v + ">" + writes,
		"row_0":  "R<" + v + ">" + writes,
		"row_2":  "R<" + v + ">" + writes,
		"opt":    "O<" + v + ">{% include 'nosuch' ignore missing %}{% include 'nos' ~ 'uch2' ignore missing with {'q': 1} only %}" + writes,
		"ext":    "{% extends 'lay' %}{% block v %}<" + v + ">{% endblock %}",
		"lay":    "E{% block v %}{% endblock %}{% include 'nosuch' ignore missing %}{% set c = 'lay-c' %}",
		"fchild": "F(" + fv + "){% set a = 'f-a' %}{% set c = 'f-c2' %}",
		"fmid":   "M{% for q in [1, 2] %}{% include 'fchild' %}{% endfor %}{% include 'nosuch' ignore missing %}",
	}
}

// what one execution of the tag renders where the including template reads `s` and the row value is `rv` (has = there is one)
func (t c11ManyTag) out(s map[string]string, rv string, has bool, tpls map[string]string) string {
	scope := map[string]string{}
	if !t.only {
		for k, v := range s {
			scope[k] = v
		}
	}
	if t.with {
		scope["c"] = "with-c"
		scope["a"] = s["b"] + "!"
		scope["w"] = rv
	}
	view := "<" + c11ManyViewOut(c11ManyNames, scope) + ">"
	switch t.target {
	case c11TChild, c11TComputed:
		return view
	case c11TRow:
		if _, ok := tpls["row_"+rv]; ok {
			return "R" + view
		}
		return ""
	case c11TOpt:
		return "O" + view
	case c11TExt:
		return "E" + view
	}
	return ""
}

// the includes that follow the repetition in the same scope, and what they render there
func c11ManyFollow(s map[string]string, policy bool) (src, want string) {
	names := c11ManyNames[:4]
	with := map[string]string{"c": "f-c"}
	over := func(base, w map[string]string) map[string]string {
		m := map[string]string{}
		for k, v := range base {
			if k != "r" && k != "w" {
				m[k] = v
			}
		}
		for k, v := range w {
			m[k] = v
		}
		return m
	}
	plain := "F(" + c11ManyViewOut(names, over(s, nil)) + ")"
	withOut := "F(" + c11ManyViewOut(names, over(s, with)) + ")"
	onlyWith := "F(" + c11ManyViewOut(names, over(nil, with)) + ")"
	only := "F(" + c11ManyViewOut(names, nil) + ")"
	steps := [][2]string{
		{"{% include 'fchild' %}", plain},
		{"{% include 'fchild' with {'c': 'f-c'} %}", withOut},
		{"{% include 'fchild' with {'c': 'f-c'} only %}", onlyWith},
		{"{% include 'fchild' only %}", only},
		{"{% include 'nosuch' ignore missing %}", ""},
		{"{% include 'nosuch' ignore missing with {'c': 1} only %}", ""},
		{"{% include 'fch' ~ 'ild' ignore missing %}", plain},
		{"{% include 'fmid' %}", "M" + plain + plain},
		{"{% for q in [1, 2] %}{% include 'fchild' ignore missing with {'c': 'f-c'} %}{% endfor %}", withOut + withOut},
	}
	if policy {
		steps = append(steps, [2]string{"{% include 'fchild' sandboxed %}", plain}, [2]string{"{% include 'fchild' with {'c': 'f-c'} only sandboxed %}", onlyWith},
			[2]string{"{% include 'nosuch' ignore missing sandboxed %}", ""})
	}
	var a, b strings.Builder
	for i, st := range steps {
		a.WriteString(strconv.Itoa(i) + ":" + st[0])
		b.WriteString(strconv.Itoa(i) + ":" + st[1])
	}
	return a.String(), b.String()
}

const (
	c11FData     = iota // for r in rows (a list of the render data)
	c11FRange           // for r in range(1, N)
	c11FUnrolled        // the unit written out N times
	c11FNested          // two nested loops
	c11FBlock           // the unit in a block of the loop body, text around it
	c11FIf              // the unit in a conditional of the loop body
	c11FFollowIn        // an include of a template that exists behind the unit in every iteration
	c11FMacro           // the loop (and what follows it) in a macro body
	c11FMid             // the loop (and what follows it) in an included template
	c11FormCount
)

var c11ManyFormNames = []string{"loop-over-data", "loop-over-range", "unrolled", "nested-loops", "block-in-loop", "if-in-loop", "existing-include-in-every-iteration", "macro-body", "included-template"}

type c11ManyCase struct {
	unit []c11ManyTag
	form int
	n    int
}

func (mc c11ManyCase) policy() bool {
	for _, t := range mc.unit {
		if t.sandboxed {
			return true
		}
	}
	return false
}

// build returns the templates, the render data and the expected output
func (mc c11ManyCase) build() (map[string]string, map[string]any, string) {
	tpls := c11ManyTemplates()
	policy := mc.policy()
	ctx := map[string]any{"a": "ctx-a", "d": "ctx-d"}
	state := map[string]string{"a": "ctx-a", "b": "set-b", "d": "ctx-d"}
	pre := "{% set b = 'set-b' %}"
	probe := "(" + c11ManyView(c11ManyNames[:4]) + ")"
	probeOut := "(" + c11ManyViewOut(c11ManyNames[:4], state) + ")"
	followSrc, followOut := c11ManyFollow(state, policy)

	unitSrc := func(rExpr string) string {
		var sb strings.Builder
		for _, t := range mc.unit {
			sb.WriteString(t.src(rExpr))
		}
		return sb.String()
	}
	unitOut := func(rv string, has bool) string {
		s := state
		if has {
			s = map[string]string{"r": rv}
			for k, v := range state {
				s[k] = v
			}
		}
		var sb strings.Builder
		for _, t := range mc.unit {
			sb.WriteString(t.out(s, rv, has, tpls))
		}
		return sb.String()
	}
	rowVal := func(i int) string { return strconv.Itoa(i % 4) }
	rows := func(n int) []interface{} {
		xs := make([]interface{}, n)
		for i := range xs {
			xs[i] = rowVal(i)
		}
		return xs
	}
	var body, want strings.Builder
	n := mc.n
	switch mc.form {
	case c11FRange:
		body.WriteString("{% for r in range(1, " + strconv.Itoa(n) + ") %}" + unitSrc("r") + "{% endfor %}")
		for i := 1; i <= n; i++ {
			want.WriteString(unitOut(strconv.Itoa(i), true))
		}
	case c11FUnrolled:
		for i := 0; i < n; i++ {
			body.WriteString(unitSrc("'" + rowVal(i) + "'"))
			want.WriteString(unitOut(rowVal(i), false))
		}
	case c11FNested:
		outer := (n + 3) / 4
		ctx["outer"], ctx["rows"] = rows(outer), rows(4)
		body.WriteString("{% for o in outer %}{% for r in rows %}" + unitSrc("r") + "{% endfor %}{% endfor %}")
		for i := 0; i < outer*4; i++ {
			want.WriteString(unitOut(rowVal(i), true))
		}
	default:
		ctx["rows"] = rows(n)
		open, shut := "", ""
		switch mc.form {
		case c11FBlock:
			open, shut = "[{% block bl %}", "{% endblock %}]"
		case c11FIf:
			open, shut = "{% if r != 'x' %}", "{% else %}never{% endif %}"
		case c11FFollowIn:
			shut = "{% include 'fchild' %}"
		}
		body.WriteString("{% for r in rows %}" + open + unitSrc("r") + shut + "{% endfor %}")
		for i := 0; i < n; i++ {
			switch mc.form {
			case c11FBlock:
				want.WriteString("[" + unitOut(rowVal(i), true) + "]")
			case c11FFollowIn:
				want.WriteString(unitOut(rowVal(i), true) + "F(" + c11ManyViewOut(c11ManyNames[:4], state) + ")")
			default:
				want.WriteString(unitOut(rowVal(i), true))
			}
		}
	}
	inner := body.String() + "|" + followSrc
	innerOut := want.String() + "|" + followOut
	var main string
	switch mc.form {
	case c11FMacro:
		main = pre + probe + "{% macro mk() %}" + inner + "{% endmacro %}{{ mk() }}" + probe + followSrc
	case c11FMid:
		tpls["mid"] = inner
		main = pre + probe + "{% include 'mid' %}" + probe + followSrc
	default:
		main = pre + probe + inner + probe
		followOut = ""
	}
	tpls["main"] = main
	// only the templates the unit can reach (what is registered besides does not matter to the case)
	used := map[int]bool{}
	for _, t := range mc.unit {
		used[t.target] = true
	}
	for name, tgs := range map[string][]int{"child": {c11TChild, c11TComputed}, "row_0": {c11TRow}, "row_2": {c11TRow}, "opt": {c11TOpt}, "ext": {c11TExt}, "lay": {c11TExt}} {
		keep := false
		for _, tg := range tgs {
			keep = keep || used[tg]
		}
		if !keep {
			delete(tpls, name)
		}
	}
	return tpls, ctx, probeOut + innerOut + probeOut + followOut
}

func (mc c11ManyCase) describe() string {
	var us []string
	for _, t := range mc.unit {
		us = append(us, t.String())
	}
	return fmt.Sprintf("%d × [%s], %s", mc.n, strings.Join(us, " + "), c11ManyFormNames[mc.form])
}

var c11ManyPolicy = &PolicySpec{Filters: []string{"upper", "default", "escape"}, Functions: []string{"range", "mk"}}

// c11RenderTwice renders the case on one fresh engine twice
func c11RenderTwice(tpls map[string]string, main string, ctx map[string]any, policy bool) (first, second RenderResult) {
	var eng *twig.Engine
	first = guarded(func() (string, error) {
		eng = twig.New()
		if policy {
			p := &twig.DefaultSecurityPolicy{AllowedFilters: map[string]bool{}, AllowedFunctions: map[string]bool{}, AllowedTags: map[string]bool{}}
			for _, f := range c11ManyPolicy.Filters {
				p.AllowedFilters[f] = true
			}
			for _, f := range c11ManyPolicy.Functions {
				p.AllowedFunctions[f] = true
			}
			eng.EnableSandbox(p)
		}
		for _, n := range sortedKeys(tpls) {
			if err := eng.RegisterString(n, tpls[n]); err != nil {
				return "", fmt.Errorf("parsing error: %w", err)
			}
		}
		c, _ := deepCopy(map[string]interface{}(ctx)).(map[string]interface{})
		return eng.Render(main, c)
	})
	if first.Class == "panic" || first.Class == "timeout" || eng == nil {
		return first, first
	}
	second = guarded(func() (string, error) {
		c, _ := deepCopy(map[string]interface{}(ctx)).(map[string]interface{})
		return eng.Render(main, c)
	})
	return first, second
}

func c11ManyCheck(e *Env, mc c11ManyCase, model bool) error {
	r := e.Rep
	tpls, ctx, want := mc.build()
	policy := mc.policy()
	r.Seen("many:"+mc.describe(), true)
	r.Hit("many-form:" + c11ManyFormNames[mc.form])
	replay := func(got RenderResult) map[string]any {
		rp := map[string]any{"kind": "render", "templates": tpls, "main": "main", "ctx": ctx, "want": want, "got": got.Out, "class": got.Class, "err": fmt.Sprint(got.Err), "case": mc.describe()}
		if policy {
			rp["policy"] = map[string]any{"filters": c11ManyPolicy.Filters, "functions": c11ManyPolicy.Functions}
		}
		return rp
	}
	first, second := c11RenderTwice(tpls, "main", ctx, policy)
	if first.Class != "" || first.Out != want {
		r.Violate(Violation{Key: "include-count-changes-scope", What: fmt.Sprintf("%s, then one include of every kind in the same scope: got %s (%s %v), expected %s — what an include tag renders and what the including template reads and can include afterwards does not depend on how many include tags ran in that scope before", mc.describe(), c11Around(first.Out, want), first.Class, first.Err, c11Around(want, first.Out)),
			Broken: "theorem C11_non_interference / C11_ignore_missing (a repeated include; implementation-only oracle)", Replay: replay(first)})
		return nil
	}
	if second.Class != first.Class || second.Out != first.Out {
		r.Violate(Violation{Key: "include-second-render", What: fmt.Sprintf("%s: the second render on the same engine gives %s (%s %v), the first %s", mc.describe(), c11Around(second.Out, first.Out), second.Class, second.Err, c11Around(first.Out, second.Out)),
			Broken: "theorem C11_non_interference (the same includer rendered twice; implementation-only oracle)", Replay: replay(second)})
		return nil
	}
	if model {
		c := &Case{Templates: tpls, Main: "main", Ctx: ctx, FailAt: -1}
		if policy {
			c.Policy = c11ManyPolicy
		}
		if _, _, _, err := compareCase(e, c, "render-model-c11", "correspondence (Lean pipeline vs real engine) on repeated includes"); err != nil {
			return err
		}
	}
	return nil
}

// the part of `got` where it starts to differ from `ref`
func c11Around(got, ref string) string {
	i := 0
	for i < len(got) && i < len(ref) && got[i] == ref[i] {
		i++
	}
	from := i - 60
	if from < 0 {
		from = 0
	}
	to := i + 120
	if to > len(got) {
		to = len(got)
	}
	return fmt.Sprintf("%q (offset %d of %d)", got[from:to], from, len(got))
}

// every tag the sweep knows: target kind × option set (a missing template only with `ignore missing`: without it the
// render fails, which the random part of the runner covers)
func c11ManyAllTags() []c11ManyTag {
	var out []c11ManyTag
	for tg := 0; tg < c11TargetCount; tg++ {
		for m := 0; m < 16; m++ {
			t := c11ManyTag{target: tg, ignore: m&1 != 0, with: m&2 != 0, only: m&4 != 0, sandboxed: m&8 != 0}
			if (tg == c11TRow || tg == c11TMissing || tg == c11TMissingC) && !t.ignore {
				continue
			}
			out = append(out, t)
		}
	}
	return out
}

// the counts: around the powers of two and of ten a limit, a table size or a counter width is likely to be
func c11ManyLadder(e *Env) []int {
	if e.Thorough() {
		// (every count up to 300 × every tag × every form took hours: the thorough tier takes a denser ladder, all
		// forms for every tag up to 129 repetitions and rotating forms above; the random part draws the other counts)
		return []int{1, 2, 3, 5, 9, 16, 17, 33, 64, 65, 99, 100, 101, 102, 127, 128, 129, 200, 255, 256, 257, 300, 511, 512, 513, 1000, 1024, 1025, 2049, 4097}
	}
	return []int{1, 3, 17, 65, 101, 129, 257, 1025}
}

func c11ManyRandomCase(rg *rand.Rand, tags []c11ManyTag, ladder []int) c11ManyCase {
	mc := c11ManyCase{form: rg.Intn(c11FormCount)}
	for k := 1 + rg.Intn(3); k > 0; k-- {
		mc.unit = append(mc.unit, pick(rg, tags))
	}
	mc.n = pick(rg, ladder)
	if rg.Intn(2) == 0 {
		mc.n = 1 + rg.Intn(300)
	}
	return mc
}

func c11Many(e *Env) error {
	r := e.Rep
	tags := c11ManyAllTags()
	ladder := c11ManyLadder(e)
	// deterministic: every tag × every form × the ladder (small counts first: the first count that breaks is reported)
	tick := 0
	for ni, n := range ladder {
		for ti, t := range tags {
			bare := t.ignore && !t.with && !t.only && !t.sandboxed
			for form := 0; form < c11FormCount; form++ {
				if r.Full() {
					return nil
				}
				// quick tier: the bare `ignore missing` tags in every form at every count; every other tag in a third
				// of the forms per count (rotating: three neighbouring counts of the ladder cover all forms), and in
				// one form at the counts above 129 (a third of them above 257)
				if e.Thorough() && !bare && n > 129 && (ti+form+ni)%3 != 0 {
					continue
				}
				if !e.Thorough() && !bare {
					if n <= 129 && (ti+form+ni)%3 != 0 {
						continue
					}
					if n > 129 && n <= 257 && (ti+form+ni)%c11FormCount != 0 {
						continue
					}
					if n > 257 && (ti+form+ni)%(3*c11FormCount) != 0 {
						continue
					}
				}
				tick++
				model := n <= 129 && form != c11FUnrolled && tick%29 == 0
				if err := c11ManyCheck(e, c11ManyCase{unit: []c11ManyTag{t}, form: form, n: n}, model); err != nil {
					return err
				}
			}
		}
	}
	// random: units of 1-3 tags, any form, any count
	rg := e.Rng
	for i, n := 0, e.N(100, 3000); i < n && !r.Full(); i++ {
		if err := c11ManyCheck(e, c11ManyRandomCase(rg, tags, ladder), i%10 == 0); err != nil {
			return err
		}
	}
	return c11Deep(e)
}

// (b) depth: D includes below each other
func c11Deep(e *Env) error {
	r := e.Rep
	depths := []int{1, 2, 10, 65, 99, 100, 101, 129, 257, 300}
	if e.Thorough() {
		depths = append(depths, 3, 16, 17, 31, 32, 33, 63, 64, 127, 128, 150, 200, 255, 256, 400, 500, 511, 512, 513, 700)
	}
	view := c11ManyView(c11ManyNames[:4])
	for _, d := range depths {
		for m := 0; m < 16 && !r.Full(); m++ {
			ignore, only, sandboxed, distinct := m&1 != 0, m&2 != 0, m&4 != 0, m&8 != 0
			// every level: its number, its view, the include of the next level (the innermost: an optional partial
			// that does not exist), its number and view again
			opts := ""
			if ignore {
				opts += " ignore missing"
			}
			tpls := map[string]string{}
			ctx := map[string]any{"a": "ctx-a", "d": "ctx-d"}
			var want string
			level := func(k int) map[string]string {
				s := map[string]string{"c": "c" + strconv.Itoa(k)}
				if !only {
					s["a"], s["d"] = "ctx-a", "ctx-d"
				}
				if k == d {
					s["a"], s["d"] = "ctx-a", "ctx-d"
				}
				return s
			}
			tail := ""
			if only {
				tail += " only"
			}
			if sandboxed {
				tail += " sandboxed"
			}
			if distinct {
				// D+1 distinct templates; the level number is written into each
				for k := d; k >= 0; k-- {
					name := "main"
					if k < d {
						name = "lv" + strconv.Itoa(k)
					}
					next := "{% include 'nosuch' ignore missing %}"
					if k > 0 {
						next = "{% include 'lv" + strconv.Itoa(k-1) + "'" + opts + " with {'c': 'c" + strconv.Itoa(k-1) + "'}" + tail + " %}"
					}
					pre := ""
					if k == d {
						pre = "{% set c = 'c" + strconv.Itoa(k) + "' %}"
					}
					tpls[name] = pre + "[" + strconv.Itoa(k) + view + next + "{% set b = 'late' %}" + "/" + strconv.Itoa(k) + "{{ c }}]"
				}
			} else {
				// one template including itself with a counter
				ctx["n"] = d
				tpls["main"] = "{% set c = 'c' ~ n %}[{{ n }}" + view + "{% if n > 0 %}{% include 'main'" + opts + " with {'n': n - 1}" + tail + " %}{% else %}{% include 'nosuch' ignore missing %}{% endif %}{% set b = 'late' %}/{{ n }}{{ c }}]"
			}
			var open, shut strings.Builder
			for k := d; k >= 0; k-- {
				open.WriteString("[" + strconv.Itoa(k) + c11ManyViewOut(c11ManyNames[:4], level(k)))
			}
			for k := 0; k <= d; k++ {
				shut.WriteString("/" + strconv.Itoa(k) + "c" + strconv.Itoa(k) + "]")
			}
			want = open.String() + shut.String()
			desc := fmt.Sprintf("a chain of %d includes (with%s%s, %s)", d, opts, tail, map[bool]string{true: "distinct templates", false: "one template including itself with a counter"}[distinct])
			r.Seen("deep:"+desc, true)
			r.Hit("deep-include-chain")
			first, second := c11RenderTwice(tpls, "main", ctx, sandboxed)
			if first.Class != "" || first.Out != want || second.Class != "" || second.Out != want {
				got := first
				if first.Class == "" && first.Out == want {
					got = second
				}
				rp := map[string]any{"kind": "render", "templates": tpls, "main": "main", "ctx": ctx, "want": want, "got": got.Out, "class": got.Class, "err": fmt.Sprint(got.Err), "case": desc}
				if sandboxed {
					rp["policy"] = map[string]any{"filters": c11ManyPolicy.Filters, "functions": c11ManyPolicy.Functions}
				}
				r.Violate(Violation{Key: "include-depth", What: fmt.Sprintf("%s: got %s (%s %v), expected %s — an include renders the named template at every nesting depth, and every level reads its own variables after the include returns", desc, c11Around(got.Out, want), got.Class, got.Err, c11Around(want, got.Out)),
					Broken: "theorem C11_visibility / C11_non_interference (nesting depth; implementation-only oracle)", Replay: rp})
			}
		}
	}
	return nil
}
