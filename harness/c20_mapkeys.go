package main

import (
	"fmt"
	"reflect"
	"sort"
	"strings"
)

// C20, one more dimension of "x.name and x['name'] on maps yield the value of that key … and an empty value when there
// is none":
//
//   (H) MAP CONTENTS × KEY ASKED × WAY THE KEY IS WRITTEN. The maps of the zoo hold a handful of identifier-like keys
//       and the name pool asks for identifiers, so a lookup that — when the key is absent — answers with the value
//       stored under SOME OTHER key (a fallback through a number, a trimmed / folded / printed form of the key, a
//       default key such as "0", "" or "<nil>") is never asked the question that shows it. Here: a pool of keys that
//       look like numbers, booleans, nil, blanks, differ in case or padding only, next to ordinary names;
//         - exhaustively, for every key K of the pool a map holding K alone, and for every K the map holding every key
//           BUT K, each in every map shape (map[string]interface{}, map[string]string, map[string]int, a named map
//           type, a named key type, map[interface{}]… that also holds the int 0 and true, pointers to maps), asked for
//           every name N of the pool: every (present K, asked N) pair;
//         - random subsets of the pool plus random keys;
//       each asked as x.N (identifiers), x['N'] (literal) and through four computed routes in one template — x[k] with
//       k a context string, a {% set %} variable, a concatenation, a loop variable over a sequence of strings — and
//       compared with the map read directly by package reflect (c20Expect), printed through the same `{{ v }}`.
//       Then the same contents as map[string]interface{} go through compareCase (Lean model TwigModel.Render.getItem vs
//       the real engine) in templates that also index with integer literals and integer / boolean / null variables,
//       index a map held inside a map, and loop over key lists: for those index forms the expected value is the model's.
//
// The first part is an implementation-only oracle (direct computation in Go); the second is correspondence through
// the Lean model.

// c20KeyPool: no quote, no backslash (the keys are also written as '…' literals).
var c20KeyPool = []string{
	"0", "1", "2", "-1", "-0", "00", "01", "10", "1.0", "0.0", "1.5", "1e0", "+1", "0x0", "9223372036854775807",
	"", " ", "0 ", " 0", "true", "false", "nil", "null", "<nil>", "none",
	"name", "Name", "NAME", "name ", "a", "A", "ab", "k", "x", "length", "first", "keys", "title", "é", "a.b", "[0]",
}

type c20MapShape struct {
	name  string
	build func(keys []string) any
}

func c20MapVal(k string) string { return "V(" + k + ")" }

func c20MapShapes() []c20MapShape {
	ptr := func(m any) any {
		p := reflect.New(reflect.TypeOf(m))
		p.Elem().Set(reflect.ValueOf(m))
		return p.Interface()
	}
	smap := func(keys []string) any {
		m := map[string]interface{}{}
		for i, k := range keys {
			switch i % 5 {
			case 3:
				m[k] = 1000 + i
			default:
				m[k] = c20MapVal(k)
			}
		}
		return m
	}
	imap := func(keys []string) any {
		m := map[string]int{}
		for i, k := range keys {
			m[k] = 1000 + i
		}
		return m
	}
	return []c20MapShape{
		{"map[string]interface{}", smap},
		{"map[string]string", func(keys []string) any {
			m := map[string]string{}
			for _, k := range keys {
				m[k] = c20MapVal(k)
			}
			return m
		}},
		{"map[string]int", imap},
		{"c20Named", func(keys []string) any {
			m := c20Named{}
			for i, k := range keys {
				m[k] = 1000 + i
			}
			return m
		}},
		{"map[c20StrKey]string", func(keys []string) any {
			m := map[c20StrKey]string{}
			for _, k := range keys {
				m[c20StrKey(k)] = c20MapVal(k)
			}
			return m
		}},
		{"map[interface{}]string", func(keys []string) any {
			// string keys next to keys of other types that print like some of them
			m := map[interface{}]string{0: "int-0", 1: "int-1", true: "bool-true", 1.5: "float-1.5"}
			for _, k := range keys {
				m[k] = c20MapVal(k)
			}
			return m
		}},
		{"*map[string]interface{}", func(keys []string) any { return ptr(smap(keys)) }},
		{"*map[string]int", func(keys []string) any { return ptr(imap(keys)) }},
	}
}

const c20ComputedSrc = "{{ x[k] }}\x1e{% set j = k %}{{ x[j] }}\x1e{{ x['' ~ k] }}\x1e{% for q in ks %}{{ x[q] }}{% endfor %}"

var c20ComputedRoutes = []string{"x[k], k a context string", "x[j] after {% set j = k %}", "x['' ~ k]", "x[q], q the loop variable over [k]"}

// renderComputed: the four computed routes of one key, or the error / panic text in every slot.
func (g *c20Eng) renderComputed(x any, k string) (outs []string) {
	fail := func(s string) []string { return []string{s, s, s, s} }
	defer func() {
		if p := recover(); p != nil {
			outs = fail("<panic>")
		}
	}()
	const tn = "c20:computed"
	if !g.have[tn] {
		if err := g.e.RegisterString(tn, c20ComputedSrc); err != nil {
			return fail("<err:register:" + err.Error() + ">")
		}
		g.have[tn] = true
	}
	s, err := g.e.Render(tn, map[string]interface{}{"x": x, "k": k, "ks": []string{k}})
	if err != nil {
		return fail("<err:" + err.Error() + ">")
	}
	parts := strings.Split(s, "\x1e")
	if len(parts) != 4 {
		return fail("<split:" + s + ">")
	}
	return parts
}

// checkComputed: x[<computed key>] against direct reflection (oracle 1) and against the first answer (oracle 2).
func (c *c20Run) checkComputed(o *c20Obj, name, phase string) bool {
	r := c.e.Rep
	outs := c.g.renderComputed(o.val, name)
	c.lookup += len(outs)
	want, _, _ := c20Expect(o.val, name, true)
	wantStr := c.g.print(want)
	r.Hit("phase:" + phase)
	for i, got := range outs {
		key := fmt.Sprintf("%s\x00%s\x00computed%d", o.label, name, i)
		r.Seen(key, wantStr != "")
		if wantStr == "" {
			r.Hit("expect:empty")
		} else {
			r.Hit("expect:value")
		}
		replay := map[string]any{"kind": "computed-item", "object": o.label, "go_type": fmt.Sprintf("%T", o.val), "layout": o.spec,
			"value": truncate(fmt.Sprintf("%+v", o.val), 300), "expr": c20ComputedRoutes[i], "k": name, "template": c20ComputedSrc,
			"got": got, "want": wantStr, "phase": phase, "lookups_before": c.lookup - len(outs)}
		if got != wantStr {
			k := "item-wrong-value"
			if got == "<panic>" {
				k = "attr-panic"
			}
			if r.Violate(Violation{Key: k,
				What:   fmt.Sprintf("%s with k = %q on %s renders %q, the map read directly gives %q (phase %s)", c20ComputedRoutes[i], name, o.label, truncate(got, 60), truncate(wantStr, 60), phase),
				Broken: "theorem C20_attribute_right no longer describes the code (implementation-only oracle 1, computed keys)",
				Replay: replay}) {
				return false
			}
		}
		if prev, ok := c.first[key]; ok {
			if prev != got {
				if r.Violate(Violation{Key: "attr-history-dependent",
					What:   fmt.Sprintf("%s with k = %q on %s rendered %q earlier and %q now (phase %s)", c20ComputedRoutes[i], name, o.label, truncate(prev, 60), truncate(got, 60), phase),
					Broken: "theorem C20_history_independent no longer describes the code (implementation-only oracle 2, computed keys)",
					Replay: replay}) {
					return false
				}
			}
		} else {
			c.first[key] = got
		}
	}
	return true
}

// c20MapKeys is part (H).
func c20MapKeys(c *c20Run) error {
	e, r := c.e, c.e.Rep
	pool := c20KeyPool
	shapes := c20MapShapes()
	without := func(k string) []string {
		var ks []string
		for _, p := range pool {
			if p != k {
				ks = append(ks, p)
			}
		}
		return ks
	}
	type content struct {
		label string
		keys  []string
		ask   []string // names asked (nil = the whole pool)
	}
	var contents []content
	contents = append(contents, content{"empty", nil, nil}, content{"all", pool, nil})
	for _, k := range pool {
		contents = append(contents, content{fmt.Sprintf("only[%q]", k), []string{k}, nil})
	}
	for _, k := range pool {
		// everything but K: only K and a few others are worth asking (the other keys are present and were asked above)
		contents = append(contents, content{fmt.Sprintf("all-but[%q]", k), without(k), []string{k, "zz", pool[e.Rng.Intn(len(pool))]}})
	}
	randKey := func() string {
		const al = "01-. aAeEnN"
		n := e.Rng.Intn(4)
		b := make([]byte, n)
		for i := range b {
			b[i] = al[e.Rng.Intn(len(al))]
		}
		return string(b)
	}
	for i := 0; i < e.N(24, 400); i++ {
		seen := map[string]bool{}
		var ks []string
		for n := 1 + e.Rng.Intn(6); len(ks) < n; {
			k := pool[e.Rng.Intn(len(pool))]
			if e.Rng.Intn(4) == 0 {
				k = randKey()
			}
			if !seen[k] {
				seen[k] = true
				ks = append(ks, k)
			}
		}
		ask := append([]string{}, pool...)
		for j := 0; j < 6; j++ {
			ask = append(ask, randKey())
		}
		contents = append(contents, content{fmt.Sprintf("random%d%q", i, ks), ks, ask})
	}
	r.Sample(map[string]any{"kind": "map-keys", "pool": pool, "shapes": len(shapes), "contents": len(contents)})

	// 1. direct oracle, every shape
	var smaps []content // contents replayed through the model below
	for ci, ct := range contents {
		if r.Full() {
			return nil
		}
		ask := ct.ask
		if ask == nil {
			ask = pool
		}
		for si, sh := range shapes {
			// random contents: two shapes each (map[string]interface{} and one other), everything else: every shape
			if strings.HasPrefix(ct.label, "random") && si != 0 && si != 1+ci%(len(shapes)-1) {
				continue
			}
			o := &c20Obj{label: "map:" + sh.name + ":" + ct.label, val: sh.build(ct.keys), vi: -1}
			r.Hit("map-shape:" + sh.name)
			for _, n := range ask {
				if c20PlainName.MatchString(n) && !c.check(o, n, false, "map-keys") {
					return nil
				}
				if !c.check(o, n, true, "map-keys") || !c.checkComputed(o, n, "map-keys") {
					return nil
				}
			}
			// once more, in another order (the answers of the first pass are in c.first)
			if strings.HasPrefix(ct.label, "only") && si < 3 {
				for i := len(ask) - 1; i >= 0; i -= 3 {
					if !c.check(o, ask[i], true, "map-keys-again") || !c.checkComputed(o, ask[i], "map-keys-again") {
						return nil
					}
				}
			}
		}
		if !strings.HasPrefix(ct.label, "all-but") {
			smaps = append(smaps, ct)
		}
	}

	// 2. the Lean model: literal, integer, boolean, null and looped indices on map[string]interface{}, also nested
	if e.Model == nil {
		return nil
	}
	forceOracles = true
	defer func() { forceOracles = false }()
	lit := func(s string) string { return "'" + s + "'" }
	for ci, ct := range smaps {
		if r.Full() {
			return nil
		}
		m := map[string]interface{}{}
		for i, k := range ct.keys {
			if i%5 == 3 {
				m[k] = 1000 + i
			} else {
				m[k] = c20MapVal(k)
			}
		}
		// the keys asked: every key of the map, and a rotating window of the pool (the whole pool for small budgets of contents)
		askSet := map[string]bool{"zz": true}
		for _, k := range ct.keys {
			askSet[k] = true
		}
		for i := 0; i < 12; i++ {
			askSet[pool[(ci*5+i)%len(pool)]] = true
		}
		ask := make([]string, 0, len(askSet))
		for k := range askSet {
			ask = append(ask, k)
		}
		sort.Strings(ask)
		ks := make([]interface{}, len(ask))
		var lits strings.Builder
		for i, k := range ask {
			ks[i] = k
			fmt.Fprintf(&lits, "[{{ m[%s] }}]", lit(k))
			if i%4 == 0 {
				fmt.Fprintf(&lits, "[{{ o.in[%s] }}][{{ o[%s][%s] }}]", lit(k), lit("in"), lit(k))
			}
			if c20PlainName.MatchString(k) && i%2 == 0 {
				fmt.Fprintf(&lits, "[{{ m.%s }}][{{ o.in.%s }}]", k, k)
			}
		}
		ctx := map[string]any{"m": m, "o": map[string]interface{}{"in": deepCopy(m), "0": "o-zero"}, "ks": ks,
			"is": []interface{}{0, 1, -1, 2, 10, 1000}, "s0": "0", "i0": 0, "i1": 1, "t": true, "f": false, "n": nil, "e": ""}
		tpls := map[string]string{
			"strings": lits.String() + "|{% for k in ks %}[{{ m[k] }}]{% endfor %}|{% for k in ks %}{% set j = k %}[{{ o.in[j] }}]{% endfor %}|[{{ m[s0] }}][{{ m[e] }}][{{ m['' ~ i0] }}][{{ m[s0 ~ ''] }}]",
			"ints":    "[{{ m[0] }}][{{ m[1] }}][{{ m[2] }}][{{ m[10] }}][{{ m[-1] }}][{{ m[i0] }}][{{ m[i1] }}][{{ m[i0 + 1] }}][{{ o.in[0] }}]|{% for i in is %}[{{ m[i] }}]{% endfor %}",
			"others":  "[{{ m[t] }}][{{ m[f] }}][{{ m[n] }}][{{ m[true] }}][{{ m[false] }}][{{ m[null] }}][{{ m[undefined_name] }}]",
		}
		for _, main := range []string{"strings", "ints", "others"} {
			cs := &Case{Templates: map[string]string{main: tpls[main]}, Main: main, Ctx: ctx, FailAt: -1}
			r.Hit("map-keys-model:" + main)
			im, _, ok, err := compareCase(e, cs, "render-model-c20", "correspondence (TwigModel.Render.getItem / getAttr vs render.go getItem / getAttribute) on maps with number-like, blank and look-alike keys: "+ct.label)
			if err != nil {
				return err
			}
			r.Seen("map-model:"+main+":"+ct.label, ok && strings.Contains(im.Out, "V("))
		}
	}
	return nil
}
