package main

import (
	"encoding/json"
	"fmt"
	"math/rand"
	"os"
	"os/exec"
	"strings"
)

// c03History (added after seeded change C03-O was missed): the bytes rendered for a template and a context must
// not depend on what the PROCESS rendered before. The engine keeps process-wide tables (what it learned about a
// Go type's fields and methods, pooled objects, …): whatever they hold after an earlier render of some other
// template or some other value must not change a later render.
//
// Oracle (implementation-only, exactly the relation the property states — "rendering again, in the same or
// another process, gives identical output"): one list of cases is rendered, each case on a fresh engine, in
// several pristine child processes, each child walking the list in another order (forward, backward, random
// permutations); the parent renders them too (yet another history). The reference for every case is that case
// ALONE in a pristine child process (a process start costs ~4 ms): every history must give the same bytes. A
// difference is narrowed down to "case alone" vs "one earlier case, then the case".
//
// New input dimension: context values that are Go structs with fields, value-receiver methods, pointer-receiver
// methods, embedded structs (by value and by pointer), each handed in by value AND by pointer, top-level, inside
// lists and inside maps — the same Go type reaches the engine along different routes in different cases.
// Where Go's own semantics fix the answer (field, value-receiver method, pointer-receiver method through a
// pointer) the expected bytes are also computed directly in Go.

// ---- struct material --------------------------------------------------------------------------------

// c03Acct: a field pair, a value-receiver method and two pointer-receiver methods
type c03Acct struct {
	Owner string
	Cents int
}

func (a c03Acct) Label() string { return "L:" + a.Owner }
func (a *c03Acct) Balance() string {
	c := a.Cents
	sign := ""
	if c < 0 {
		sign, c = "-", -c
	}
	return fmt.Sprintf("%s%d.%02d", sign, c/100, c%100)
}
func (a *c03Acct) Owes() bool { return a.Cents < 0 }

// c03Shop embeds c03Acct by value: Owner/Cents/Label are promoted to c03Shop, Balance/Owes to *c03Shop
type c03Shop struct {
	c03Acct
	Tag string
}

// C03Base / c03Club: embedded by pointer, so the pointer-receiver method is in the method set of the value too
type C03Base struct{ Owner string }

func (b *C03Base) Hello() string { return "hi " + b.Owner }

type c03Club struct {
	*C03Base
	Tag string
}

// c03Plain has the same attribute names as c03Acct, all through value receivers
type c03Plain struct {
	Owner string
	Cents int
}

func (p c03Plain) Label() string   { return "P:" + p.Owner }
func (p c03Plain) Balance() string { return fmt.Sprintf("%d¢", p.Cents) }
func (p c03Plain) Owes() bool      { return p.Cents < 0 }

// c03StructKinds: spec type names (a leading "p" hands the value in through a pointer)
var c03StructKinds = []string{"acct", "shop", "club", "plain"}

// c03BuildExtra: the struct kinds of this file (called by c03Build for spec types it does not know)
func c03BuildExtra(v c03Val) (any, bool) {
	switch v.T {
	case "acct":
		return c03Acct{Owner: v.S, Cents: int(v.I)}, true
	case "pacct":
		return &c03Acct{Owner: v.S, Cents: int(v.I)}, true
	case "shop":
		return c03Shop{c03Acct: c03Acct{Owner: v.S, Cents: int(v.I)}, Tag: "t" + v.S}, true
	case "pshop":
		return &c03Shop{c03Acct: c03Acct{Owner: v.S, Cents: int(v.I)}, Tag: "t" + v.S}, true
	case "club":
		return c03Club{C03Base: &C03Base{Owner: v.S}, Tag: "t" + v.S}, true
	case "pclub":
		return &c03Club{C03Base: &C03Base{Owner: v.S}, Tag: "t" + v.S}, true
	case "plain":
		return c03Plain{Owner: v.S, Cents: int(v.I)}, true
	case "pplain":
		return &c03Plain{Owner: v.S, Cents: int(v.I)}, true
	}
	return nil, false
}

// c03StructAttrs: the attributes read from the struct kinds; c03AttrWant gives the bytes Go's semantics demand
// ("" , false = no direct expectation: only the relation between histories is checked)
var c03StructAttrs = []string{"Owner", "Cents", "Label", "Balance", "Owes", "Tag", "Hello", "nosuch"}

func c03AttrWant(v c03Val, attr string) (string, bool) {
	kind, ptr := v.T, false
	switch v.T {
	case "pacct", "pshop", "pclub", "pplain":
		kind, ptr = v.T[1:], true
	}
	a := c03Acct{Owner: v.S, Cents: int(v.I)}
	switch attr {
	case "Owner":
		return v.S, true
	case "nosuch":
		return "", true
	case "Cents":
		if kind == "club" {
			return "", true
		}
		return fmt.Sprint(v.I), true
	case "Tag":
		if kind == "shop" || kind == "club" {
			return "t" + v.S, true
		}
		return "", true
	case "Hello":
		if kind == "club" {
			return "hi " + v.S, true // *C03Base is embedded: the method is in the method set of value and pointer
		}
		return "", true
	case "Label":
		switch kind {
		case "acct", "shop":
			return a.Label(), true
		case "plain":
			return c03Plain{Owner: v.S, Cents: int(v.I)}.Label(), true
		}
		return "", true
	case "Balance", "Owes":
		switch kind {
		case "plain":
			p := c03Plain{Owner: v.S, Cents: int(v.I)}
			if attr == "Owes" {
				return fmt.Sprint(p.Owes()), true
			}
			return p.Balance(), true
		case "acct", "shop":
			if !ptr {
				// a pointer-receiver method asked of a plain value: Go has no rule for templates here; only
				// "the same answer in every history" is required
				return "", false
			}
			if attr == "Owes" {
				return fmt.Sprint(a.Owes()), true
			}
			return a.Balance(), true
		}
		return "", true
	}
	return "", false
}

// c03StructCase: one case reading attrs (in this order) of one struct value, along one route
func c03StructCase(name string, v c03Val, attrs []string, route string) c03Case {
	var sb, want strings.Builder
	known := true
	acc := "a"
	ctx := map[string]c03Val{"a": v}
	switch route {
	case "list": // reached as a loop variable
		sb.WriteString("{% for x in l %}")
		acc = "x"
		ctx = map[string]c03Val{"l": {T: "list", L: []c03Val{v}}}
	case "map": // reached through a map entry
		acc = "m.k"
		ctx = map[string]c03Val{"m": {T: "map", K: []c03Val{c03S("k")}, L: []c03Val{v}}}
	case "set": // reached through a template variable
		sb.WriteString("{% set y = a %}")
		acc = "y"
	}
	for i, at := range attrs {
		if i > 0 {
			sb.WriteString("|")
			want.WriteString("|")
		}
		sb.WriteString("{{ " + acc + "." + at + " }}")
		w, ok := c03AttrWant(v, at)
		known = known && ok
		want.WriteString(w)
	}
	if route == "list" {
		sb.WriteString("{% endfor %}")
	}
	c := c03Case{Name: name, Tpls: map[string]string{"main": sb.String()}, Ctx: ctx}
	if known && want.Len() > 0 && !strings.ContainsAny(want.String(), "<>&\"'") {
		c.Expect = want.String()
	}
	return c
}

// c03StructCorpus: every struct kind × {value, pointer} × every single attribute and the whole attribute row
// (both directions), top-level; plus the whole row along the other routes; plus lists mixing values and
// pointers of one type in both orders. Values differ from case to case (a remembered VALUE shows as well as a
// remembered lookup).
func c03StructCorpus() []c03Case {
	var out []c03Case
	n := 0
	val := func(kind string, ptr bool) c03Val {
		n++
		t := kind
		if ptr {
			t = "p" + kind
		}
		return c03Val{T: t, S: fmt.Sprintf("o%d", n), I: int64(100*n + n%7 - 350)}
	}
	rev := make([]string, len(c03StructAttrs))
	for i, a := range c03StructAttrs {
		rev[len(rev)-1-i] = a
	}
	for _, kind := range c03StructKinds {
		for _, ptr := range []bool{false, true} {
			how := map[bool]string{false: "by value", true: "by pointer"}[ptr]
			for _, at := range c03StructAttrs {
				out = append(out, c03StructCase(fmt.Sprintf("struct %s %s: .%s", kind, how, at), val(kind, ptr), []string{at}, "top"))
			}
			out = append(out, c03StructCase(fmt.Sprintf("struct %s %s: all attributes", kind, how), val(kind, ptr), c03StructAttrs, "top"))
			out = append(out, c03StructCase(fmt.Sprintf("struct %s %s: all attributes, reversed", kind, how), val(kind, ptr), rev, "top"))
			for _, route := range []string{"list", "map", "set"} {
				out = append(out, c03StructCase(fmt.Sprintf("struct %s %s via %s: all attributes", kind, how, route), val(kind, ptr), c03StructAttrs, route))
			}
		}
		// one render that meets a value and a pointer of the type, in both orders
		for _, ptrFirst := range []bool{false, true} {
			a, b := val(kind, ptrFirst), val(kind, !ptrFirst)
			out = append(out, c03Case{Name: fmt.Sprintf("struct %s: list of a value and a pointer (pointer first: %v)", kind, ptrFirst),
				Tpls: map[string]string{"main": "{% for x in l %}{{ x.Owner }}={{ x.Balance }},{{ x.Label }},{{ x.Hello }},{{ x.Owes }};{% endfor %}"},
				Ctx:  map[string]c03Val{"l": {T: "list", L: []c03Val{a, b}}}})
		}
	}
	return out
}

func c03RandStructCase(r *rand.Rand, i int) c03Case {
	kind := pick(r, c03StructKinds)
	t := kind
	if r.Intn(2) == 0 {
		t = "p" + kind
	}
	v := c03Val{T: t, S: pick(r, []string{"ann", "bob", "", "zed", "Q q"}), I: int64(r.Intn(5000) - 1000)}
	n := 1 + r.Intn(4)
	attrs := make([]string, n)
	for j := range attrs {
		attrs[j] = pick(r, c03StructAttrs)
	}
	return c03StructCase(fmt.Sprintf("random struct case %d (%s)", i, t), v, attrs, pick(r, []string{"top", "top", "list", "map", "set"}))
}

// ---- histories ---------------------------------------------------------------------------------------

type c03HistoryIn struct {
	Cases []c03Case `json:"cases"`
	Order []int     `json:"order"` // indices into Cases, in rendering order
}

// child: render Cases[Order[0]], Cases[Order[1]], … in this (pristine) process; answer in rendering order
func c03HistoryChild(args []string) int {
	if len(args) < 1 {
		return 2
	}
	b, err := os.ReadFile(args[0])
	if err != nil {
		fmt.Fprintln(os.Stderr, err)
		return 2
	}
	var in c03HistoryIn
	if err := json.Unmarshal(b, &in); err != nil {
		fmt.Fprintln(os.Stderr, err)
		return 2
	}
	outs := make([]c03Out, 0, len(in.Order))
	for _, i := range in.Order {
		outs = append(outs, c03RenderOnce(&in.Cases[i], 0))
	}
	j, _ := json.Marshal(outs)
	fmt.Println(string(j))
	return 0
}

// c03RunHistory renders the cases in the given order in one pristine child; result indexed by CASE
func c03RunHistory(e *Env, cases []c03Case, order []int) (map[int]c03Out, error) {
	f, err := os.CreateTemp("", "c03hist-*.json")
	if err != nil {
		return nil, err
	}
	defer os.Remove(f.Name())
	b, _ := json.Marshal(c03HistoryIn{Cases: cases, Order: order})
	f.Write(b)
	f.Close()
	cmd := exec.Command(e.Self, "-child", "c03history", f.Name())
	cmd.Env = append(os.Environ(), "GODEBUG=")
	outb, err := cmd.Output()
	res := map[int]c03Out{}
	if err != nil {
		for _, i := range order {
			res[i] = c03Out{Class: "child-crash", Err: err.Error()}
		}
		return res, nil
	}
	var outs []c03Out
	if err := json.Unmarshal(outb, &outs); err != nil || len(outs) != len(order) {
		return nil, fmt.Errorf("history child answer: %q", truncate(string(outb), 200))
	}
	for k, i := range order {
		res[i] = outs[k]
	}
	return res, nil
}

func c03SameOut(a, b c03Out) bool { return a.Out == b.Out && a.Class == b.Class }

// c03HistoryCases: the struct corpus, the regression corpora, and random map / struct programs
func c03HistoryCases(e *Env) []c03Case {
	cases := c03StructCorpus()
	for _, c := range c03FixedCorpus() {
		cases = append(cases, c)
	}
	for _, c := range c03RepairedCorpus() {
		if c.ExpectErr == "" {
			cases = append(cases, c)
		}
	}
	for _, c := range c03ReentryCorpus() {
		cases = append(cases, c)
	}
	n := e.N(40, 600)
	for i := 0; i < n; i++ {
		if i%2 == 0 {
			cases = append(cases, c03RandStructCase(e.Rng, i))
		} else {
			cases = append(cases, c03GenCase(e.Rng, i))
		}
	}
	return cases
}

func c03History(e *Env) error {
	r := e.Rep
	cases := c03HistoryCases(e)
	n := len(cases)
	type history struct {
		name  string
		order []int
		outs  map[int]c03Out
	}
	fwd := make([]int, n)
	bwd := make([]int, n)
	for i := range fwd {
		fwd[i], bwd[i] = i, n-1-i
	}
	hs := []*history{{name: "child process, list order", order: fwd}, {name: "child process, reverse order", order: bwd}}
	for k := 0; k < e.N(2, 8); k++ {
		hs = append(hs, &history{name: fmt.Sprintf("child process, random order %d", k), order: e.Rng.Perm(n)})
	}
	for _, h := range hs {
		outs, err := c03RunHistory(e, cases, h.order)
		if err != nil {
			return err
		}
		h.outs = outs
		r.Hit("history-child")
	}
	// the parent process (which has rendered thousands of other things already) is one more history
	par := &history{name: "this process, list order", order: fwd, outs: map[int]c03Out{}}
	for _, i := range fwd {
		par.outs[i] = c03RenderOnce(&cases[i], 0)
	}
	hs = append(hs, par)

	// the reference: every case on its own in a pristine process (nothing rendered before it)
	alone := make([]c03Out, n)
	for i := range cases {
		o, err := c03RunHistory(e, cases, []int{i})
		if err != nil {
			return err
		}
		alone[i] = o[i]
		r.Hit("history-alone-child")
	}
	pos := func(h *history, i int) int {
		for k, j := range h.order {
			if j == i {
				return k
			}
		}
		return -1
	}
	reported, reportedExpect := 0, 0
	for i := range cases {
		if r.Full() {
			return nil
		}
		c := &cases[i]
		cj, _ := json.Marshal(c)
		base := alone[i]
		r.Seen("history:"+string(cj), base.Out != "")
		r.Hit("history-case")
		var bad *history
		for _, h := range hs {
			if !c03SameOut(h.outs[i], base) {
				bad = h
				break
			}
		}
		if bad != nil {
			if reported++; reported > 3 {
				continue // one defect shows in many cases: three examples are enough
			}
			replay := map[string]any{"kind": "history", "case": c, "out_alone": base.Out, "class_alone": base.Class, "err_alone": base.Err,
				"history": bad.name, "position": pos(bad, i), "out_in_history": bad.outs[i].Out, "class_in_history": bad.outs[i].Class, "err_in_history": bad.outs[i].Err}
			what := fmt.Sprintf("%s renders %q (%s) in a pristine process and %q (%s) in [%s] at position %d of %d", c.Name,
				truncate(base.Out, 80), base.Class, truncate(bad.outs[i].Out, 80), bad.outs[i].Class, bad.name, pos(bad, i), n)
			if bad != par {
				// narrow down to "one earlier case, then the case"
				tried := 0
				for k := pos(bad, i) - 1; k >= 0 && tried < 300; k-- {
					j := bad.order[k]
					tried++
					two, err := c03RunHistory(e, cases, []int{j, i})
					if err != nil {
						return err
					}
					if !c03SameOut(two[i], base) {
						replay["before"] = cases[j]
						replay["out_after_before"] = two[i].Out
						replay["class_after_before"] = two[i].Class
						what = fmt.Sprintf("%s (%q) renders %q (%s) in a pristine process, but %q (%s) in a process that has rendered [%s] (%q) first", c.Name, truncate(c.Tpls["main"], 80),
							truncate(base.Out, 80), base.Class, truncate(two[i].Out, 80), two[i].Class, cases[j].Name, truncate(cases[j].Tpls["main"], 80))
						break
					}
				}
			}
			r.Violate(Violation{Key: "output-depends-on-render-history", What: what,
				Broken: "C03: the rendered bytes are determined by templates and context alone (rendering again, in the same or another process, gives identical output); implementation-only oracle: the same case alone in a pristine process and after other renders",
				Replay: replay})
			continue
		}
		if strings.HasPrefix(c.Name, "struct ") || strings.HasPrefix(c.Name, "random struct") {
			r.Hit("history-struct-case")
			if c.Expect != "" && (base.Out != c.Expect || base.Class != "") {
				if reportedExpect++; reportedExpect > 3 {
					continue
				}
				r.Violate(Violation{Key: "struct-attribute-value", What: fmt.Sprintf("%s: %q renders %q (%s), Go's own field / method semantics give %q", c.Name, c.Tpls["main"], truncate(base.Out, 80), base.Class, truncate(c.Expect, 80)),
					Broken: "C03: values are printed by value (direct computation in Go of fields, value-receiver methods and pointer-receiver methods through a pointer)",
					Replay: map[string]any{"kind": "expect", "case": c, "out": base.Out, "class": base.Class, "err": base.Err, "expected": c.Expect}})
			}
		}
	}
	return nil
}

func init() { children["c03history"] = c03HistoryChild }

// c03ReplayMore re-runs a recorded "history" case (the case alone in a pristine process, then after the recorded
// earlier case) or a recorded "overlap" case (every stop position again).
func c03ReplayMore(e *Env, kind string, raw json.RawMessage) error {
	switch kind {
	case "history":
		var rc struct {
			Case   c03Case  `json:"case"`
			Before *c03Case `json:"before"`
		}
		if err := json.Unmarshal(raw, &rc); err != nil {
			return err
		}
		alone, err := c03RunHistory(e, []c03Case{rc.Case}, []int{0})
		if err != nil {
			return err
		}
		fmt.Printf("replay history: %s\n  alone in a pristine process: %q (class %q)\n", rc.Case.Name, truncate(alone[0].Out, 300), alone[0].Class)
		if rc.Before == nil {
			fmt.Println("  no single earlier case was recorded (the whole history is needed): re-run the check with the recorded seed")
			return nil
		}
		two, err := c03RunHistory(e, []c03Case{*rc.Before, rc.Case}, []int{0, 1})
		if err != nil {
			return err
		}
		fmt.Printf("  after [%s]: %q (class %q)\n  reproduced: %v\n", rc.Before.Name, truncate(two[1].Out, 300), two[1].Class, !c03SameOut(two[1], alone[0]))
		if !c03SameOut(two[1], alone[0]) {
			e.Rep.Violate(Violation{Key: "output-depends-on-render-history", What: "reproduced", Broken: "C03 (render history)", Replay: map[string]any{"case": rc.Case, "before": rc.Before}})
		}
	case "overlap":
		var rc struct {
			Case c03OverlapCase `json:"case"`
		}
		if err := json.Unmarshal(raw, &rc); err != nil {
			return err
		}
		ok := c03CheckOverlap(e, &rc.Case)
		fmt.Printf("replay overlap: %s\n  reproduced: %v\n", rc.Case.Name, !ok)
		for _, v := range e.Rep.Violations {
			fmt.Println("  " + v.What)
		}
	}
	return nil
}
