package main

import (
	"fmt"
	"math"
	"reflect"
	"sort"
	"strconv"
	"strings"
)

// C19 — the list and hash filters on EVERY Go container type a context can hold, not only the
// shapes the model's Val has ([]interface{}, []int, []string, [n]T, map[string]T).
//
// Dimension: element / key kind ∈ {int, int8…int64, uint…uint64, float32, float64 (with NaN, ±Inf, −0),
// string, bool, interface{} (mixed), named scalar types} × shape ∈ {slice, array, named slice type, nil
// slice, map, nil map} × value type of a map ∈ {string, int, float64, interface{}}. Numeric pools
// hold numbers whose numeric order differs from the order of their string forms (2 < 10, −1 > −2,
// 2.5 < 10.25) and, for floats, NaN between numbers.
//
// All oracles are implementation-only (the model has no such types). Expected values come from the
// elements the container was built from, in Go:
//   length = n = number of loop iterations; first / last = elements 0 / n−1 = what the loop shows first /
//   last; reverse = the elements backwards, an involution; sort = a permutation of the elements with no
//   inversion between ANY two positions (numeric order for []int and []float64, byte order of the string
//   forms for strings and mixed lists, either of the two for the other numeric kinds); slice against
//   f19refSlice; join = the string forms joined; merge = concatenation / later wins; default ⇔ n = 0;
//   a map is visited in ascending key order (numeric for numeric keys, bytewise for strings): keys, first,
//   the one- and two-variable for loop and `keys|first` all agree with that order computed in Go and
//   with one another; no filter modifies its input.
// Every equation is checked on the filter function called directly and on a rendered template (fresh engine).

type c19NamedInt int
type c19NamedFloat float64
type c19NamedStr string
type c19NamedInts []int
type c19NamedFloats []float64
type c19NamedStrs []string

// c19kind is one element / key kind with its pool of values (all of exactly that type).
type c19kind struct {
	name  string
	t     reflect.Type
	pool  []any
	class string       // "int" "uint" "float" "str" "bool" "any"
	named reflect.Type // a named slice type with this element, if the harness declares one
}

func c19conv(t reflect.Type, xs ...float64) []any {
	out := make([]any, len(xs))
	for i, x := range xs {
		out[i] = reflect.ValueOf(x).Convert(t).Interface()
	}
	return out
}

func c19kinds() []*c19kind {
	signed := []float64{3, 10, -1, 2, 9, 100, -2, 0, -20, 11}
	unsigned := []float64{3, 10, 1, 2, 9, 100, 200, 0, 15, 11}
	floats := []float64{3, math.NaN(), 1, 10, 2.5, -1, 10.25, math.Inf(1), math.Copysign(0, -1), 100, 0.25, -2, math.Inf(-1), 0, 9}
	strs := []string{"b", "a", "10", "9", "", "B", "é", "a b", "2", "ab"}
	var ks []*c19kind
	add := func(name string, t reflect.Type, class string, pool []any, named reflect.Type) {
		ks = append(ks, &c19kind{name: name, t: t, pool: pool, class: class, named: named})
	}
	for _, t := range []reflect.Type{reflect.TypeOf(int(0)), reflect.TypeOf(int8(0)), reflect.TypeOf(int16(0)), reflect.TypeOf(int32(0)), reflect.TypeOf(int64(0)), reflect.TypeOf(c19NamedInt(0))} {
		var named reflect.Type
		if t.Kind() == reflect.Int && t.Name() == "int" {
			named = reflect.TypeOf(c19NamedInts(nil))
		}
		add(t.String(), t, "int", c19conv(t, signed...), named)
	}
	for _, t := range []reflect.Type{reflect.TypeOf(uint(0)), reflect.TypeOf(uint8(0)), reflect.TypeOf(uint16(0)), reflect.TypeOf(uint32(0)), reflect.TypeOf(uint64(0))} {
		add(t.String(), t, "uint", c19conv(t, unsigned...), nil)
	}
	for _, t := range []reflect.Type{reflect.TypeOf(float64(0)), reflect.TypeOf(float32(0)), reflect.TypeOf(c19NamedFloat(0))} {
		var named reflect.Type
		if t.Name() == "float64" {
			named = reflect.TypeOf(c19NamedFloats(nil))
		}
		add(t.String(), t, "float", c19conv(t, floats...), named)
	}
	sp := make([]any, len(strs))
	np := make([]any, len(strs))
	for i, s := range strs {
		sp[i], np[i] = s, c19NamedStr(s)
	}
	add("string", reflect.TypeOf(""), "str", sp, reflect.TypeOf(c19NamedStrs(nil)))
	add("main.c19NamedStr", reflect.TypeOf(c19NamedStr("")), "str", np, nil)
	add("bool", reflect.TypeOf(false), "bool", []any{true, false}, nil)
	add("interface {}", reflect.TypeOf((*any)(nil)).Elem(), "any", []any{3, "10", "a", nil, 2.5, "", true, int64(7), "3", 10, "b", false}, nil)
	return ks
}

// c19repr identifies a Go value exactly (type, −0 ≠ 0, every NaN alike).
func c19repr(x any) string { return fmt.Sprintf("%T|%#v", x, x) }

func c19reprs(xs []any) string {
	parts := make([]string, len(xs))
	for i, x := range xs {
		parts[i] = c19repr(x)
	}
	return strings.Join(parts, ";")
}

// c19items: the elements of a list result, by reflection.
func c19items(x any) ([]any, bool) {
	if x == nil {
		return nil, false
	}
	rv := reflect.ValueOf(x)
	if rv.Kind() != reflect.Slice && rv.Kind() != reflect.Array {
		return nil, false
	}
	out := make([]any, rv.Len())
	for i := range out {
		out[i] = rv.Index(i).Interface()
	}
	return out, true
}

func c19num(x any) (float64, bool) {
	rv := reflect.ValueOf(x)
	switch rv.Kind() {
	case reflect.Int, reflect.Int8, reflect.Int16, reflect.Int32, reflect.Int64:
		return float64(rv.Int()), true
	case reflect.Uint, reflect.Uint8, reflect.Uint16, reflect.Uint32, reflect.Uint64:
		return float64(rv.Uint()), true
	case reflect.Float32, reflect.Float64:
		return rv.Float(), true
	}
	return 0, false
}

// c19inversion: two positions i < j whose elements are in the wrong order (any two, not only neighbours:
// with a NaN in between `<` on neighbours proves nothing). Numerically a NaN is in order with everything.
func c19inversion(xs []any, numeric bool) (int, int, bool) {
	for i := 0; i < len(xs); i++ {
		for j := i + 1; j < len(xs); j++ {
			if numeric {
				a, _ := c19num(xs[i])
				b, _ := c19num(xs[j])
				if a > b {
					return i, j, true
				}
			} else if f19goToString(xs[i]) > f19goToString(xs[j]) {
				return i, j, true
			}
		}
	}
	return 0, 0, false
}

func c19sameMultiset(a, b []any) bool {
	x, y := make([]string, len(a)), make([]string, len(b))
	for i := range a {
		x[i] = c19repr(a[i])
	}
	for i := range b {
		y[i] = c19repr(b[i])
	}
	sort.Strings(x)
	sort.Strings(y)
	return strings.Join(x, ";") == strings.Join(y, ";")
}

// ---- lists -------------------------------------------------------------------------------------

const (
	c19shapeSlice = iota
	c19shapeArray
	c19shapeNamed
	c19shapeNil
)

type c19listVal struct {
	k     *c19kind
	shape int
	elems []any
	gv    any
}

func c19mkList(k *c19kind, shape int, elems []any) c19listVal {
	n := len(elems)
	var rv reflect.Value
	switch shape {
	case c19shapeArray:
		rv = reflect.New(reflect.ArrayOf(n, k.t)).Elem()
	case c19shapeNamed:
		rv = reflect.MakeSlice(k.named, n, n)
	case c19shapeNil:
		rv = reflect.Zero(reflect.SliceOf(k.t))
	default:
		rv = reflect.MakeSlice(reflect.SliceOf(k.t), n, n)
	}
	for i, x := range elems {
		if x != nil {
			rv.Index(i).Set(reflect.ValueOf(x))
		}
	}
	return c19listVal{k: k, shape: shape, elems: elems, gv: rv.Interface()}
}

func (l c19listVal) text() string { return fmt.Sprintf("%#v", l.gv) }

// orders: which orders `sort` may use on this list. Numeric only: the typed lists of numbers proper
// ([]int, []float64). String forms only: strings, bool, mixed. Either: every other numeric kind and shape.
func (l c19listVal) orders() (numeric, stringly bool) {
	switch l.k.class {
	case "int", "float":
		if (l.shape == c19shapeSlice || l.shape == c19shapeNil) && (l.k.name == "int" || l.k.name == "float64") {
			return true, false
		}
		return true, true
	case "uint":
		return true, true
	}
	return false, true
}

func c19ordered(xs []any, numeric, stringly bool) bool {
	if numeric {
		if _, _, bad := c19inversion(xs, true); !bad {
			return true
		}
	}
	if stringly {
		if _, _, bad := c19inversion(xs, false); !bad {
			return true
		}
	}
	return false
}

const c19listSrc = "{{ v|length }}\x1e{% for x in v %}\x1f{{ x }}{% endfor %}\x1e{{ v|first }}\x1e{{ v|last }}\x1e" +
	"{% for x in v|reverse %}\x1f{{ x }}{% endfor %}\x1e{% for x in v|sort %}\x1f{{ x }}{% endfor %}\x1e{{ v|join('|') }}\x1e" +
	"{{ v|sort|first }}\x1e{{ v|sort|last }}\x1e{{ v|sort|length }}\x1e{{ v|sort|join('|') }}\x1e{{ v|reverse|first }}\x1e{{ v|reverse|last }}\x1e" +
	"{% for x in v|slice(1) %}\x1f{{ x }}{% endfor %}\x1e{% for x in v|slice(-2, 1) %}\x1f{{ x }}{% endfor %}\x1e{{ v|default('D')|length }}"

func c19checkList(e *Env, l c19listVal, tag string, viaTemplate, sliceGrid bool) {
	r := e.Rep
	n := len(l.elems)
	text := l.text()
	r.Seen("typed-list:"+text, n > 0)
	r.Hit("typed-list:" + tag)
	viol := func(key, what string) {
		f19violate(r, Violation{Key: key, What: what, Broken: "C19 equations on Go container types outside the model's Val (implementation-only oracle)",
			Replay: map[string]any{"kind": "typed-container", "value": text, "src": c19listSrc}})
	}
	numeric, stringly := l.orders()
	before := c19repr(l.gv)

	// -- the filter functions, called directly
	if x, c, d := f19call("length", l.gv); c != "" || x != n {
		viol("typed-length-loop", fmt.Sprintf("length(%s) = %v %s %s, the list has %d elements", text, x, c, d, n))
	}
	var wantFirst, wantLast any
	if n > 0 {
		wantFirst, wantLast = l.elems[0], l.elems[n-1]
	}
	if x, c, d := f19call("first", l.gv); c != "" || c19repr(x) != c19repr(wantFirst) {
		viol("typed-first-last-loop", fmt.Sprintf("first(%s) = %#v %s %s, element 0 is %#v", text, x, c, d, wantFirst))
	}
	if x, c, d := f19call("last", l.gv); c != "" || c19repr(x) != c19repr(wantLast) {
		viol("typed-first-last-loop", fmt.Sprintf("last(%s) = %#v %s %s, the last element is %#v", text, x, c, d, wantLast))
	}
	back := make([]any, n)
	for i, x := range l.elems {
		back[n-1-i] = x
	}
	rev, c, d := f19call("reverse", l.gv)
	if items, ok := c19items(rev); c != "" || !ok || c19reprs(items) != c19reprs(back) {
		viol("typed-reverse", fmt.Sprintf("reverse(%s) = %#v %s %s", text, rev, c, d))
	} else if rev2, c2, _ := f19call("reverse", rev); c2 != "" {
		viol("typed-reverse", fmt.Sprintf("reverse(reverse(%s)) fails: %s", text, c2))
	} else if items2, _ := c19items(rev2); c19reprs(items2) != c19reprs(l.elems) {
		viol("typed-reverse", fmt.Sprintf("reverse(reverse(%s)) = %#v", text, rev2))
	}
	srt, c, d := f19call("sort", l.gv)
	if items, ok := c19items(srt); c != "" || !ok {
		viol("typed-sort-not-ordered-permutation", fmt.Sprintf("sort(%s) = %#v %s %s", text, srt, c, d))
	} else if !c19sameMultiset(items, l.elems) {
		viol("typed-sort-not-ordered-permutation", fmt.Sprintf("sort(%s) = %#v is not a permutation of its input", text, srt))
	} else if !c19ordered(items, numeric, stringly) {
		i, j, _ := c19inversion(items, numeric)
		viol("typed-sort-not-ordered-permutation", fmt.Sprintf("sort(%s) = %#v is not ordered: position %d holds %#v, position %d holds %#v", text, srt, i, items[i], j, items[j]))
	} else if again, c2, _ := f19call("sort", srt); c2 != "" {
		viol("typed-sort-not-ordered-permutation", fmt.Sprintf("sort(sort(%s)) fails: %s", text, c2))
	} else if items2, _ := c19items(again); !c19ordered(items2, true, true) || !c19sameMultiset(items2, l.elems) {
		// the first result is a generic list, which sorts by string forms: either order is accepted here
		viol("typed-sort-not-ordered-permutation", fmt.Sprintf("sort(sort(%s)) = %#v", text, again))
	}
	strs := make([]string, n)
	for i, x := range l.elems {
		strs[i] = f19goToString(x)
	}
	if x, c, d := f19call("join", l.gv, "|"); c != "" || x != strings.Join(strs, "|") {
		viol("typed-join", fmt.Sprintf("join(%s, '|') = %#v %s %s, want %q", text, x, c, d, strings.Join(strs, "|")))
	}
	if x, c, d := f19call("default", l.gv, "D"); c != "" || (n == 0) != (c19repr(x) == c19repr("D")) || n > 0 && c19repr(x) != before {
		viol("typed-default", fmt.Sprintf("default(%s, 'D') = %#v %s %s", text, x, c, d))
	}
	// merge with a second list of the same type: concatenation
	other := c19mkList(l.k, l.shape, back)
	mrg, c, d := f19call("merge", l.gv, other.gv)
	if items, ok := c19items(mrg); c != "" || !ok || c19reprs(items) != c19reprs(append(append([]any{}, l.elems...), back...)) {
		viol("typed-merge", fmt.Sprintf("merge(%s, %s) = %#v %s %s", text, other.text(), mrg, c, d))
	}
	if sliceGrid {
		for s := -n - 2; s <= n+2; s++ {
			for ln := -n - 3; ln <= n+2; ln++ {
				args := []any{s}
				var lp *int64
				if ln >= -n-2 { // ln = −n−3 stands for "omitted"
					v := int64(ln)
					lp = &v
					args = append(args, ln)
				}
				from, to := f19refSlice(n, int64(s), lp)
				got, c, d := f19call("slice", l.gv, args...)
				if items, ok := c19items(got); c != "" || !ok || c19reprs(items) != c19reprs(l.elems[from:to]) {
					viol("typed-slice", fmt.Sprintf("slice(%s, %v) = %#v %s %s, Twig's index rules give elements [%d,%d)", text, args, got, c, d, from, to))
				}
				r.Hit("typed-slice-grid")
			}
		}
	}
	if after := c19repr(l.gv); after != before {
		viol("typed-input-modified", fmt.Sprintf("%s reads %s after length/first/last/reverse/sort/join/default/merge/slice were applied to it", text, after))
	}

	if !viaTemplate {
		return
	}
	// -- the same through a template; the expected elements are printed from variables of their own
	ctx := map[string]any{"v": l.gv}
	var sb strings.Builder
	sb.WriteString(c19listSrc)
	sb.WriteString("\x1e")
	for i, x := range l.elems {
		name := "e" + strconv.Itoa(i)
		ctx[name] = x
		sb.WriteString("\x1f{{ " + name + " }}")
	}
	res := renderSrc(sb.String(), ctx)
	r.Hit("typed-list-rendered")
	p := strings.Split(res.Out, "\x1e")
	if res.Class != "" || len(p) != 17 {
		viol("typed-length-loop", fmt.Sprintf("the list filters on v = %s do not render: %s %v (%d parts)", text, res.Class, res.Err, len(p)))
		return
	}
	loop := func(s string) []string { return strings.Split(s, "\x1f")[1:] }
	elems, want := loop(p[1]), loop(p[16])
	if strings.Join(elems, "\x1f") != strings.Join(want, "\x1f") {
		viol("typed-length-loop", fmt.Sprintf("a for loop over %s shows %q, its elements print as %q", text, elems, want))
		return
	}
	if p[0] != strconv.Itoa(len(elems)) {
		viol("typed-length-loop", fmt.Sprintf("%s|length = %s but the for loop runs %d times", text, p[0], len(elems)))
	}
	at := func(xs []string, i int) string {
		if i < 0 {
			i += len(xs)
		}
		if i < 0 || i >= len(xs) {
			return ""
		}
		return xs[i]
	}
	if p[2] != at(elems, 0) || p[3] != at(elems, -1) {
		viol("typed-first-last-loop", fmt.Sprintf("%s|first = %q, |last = %q; the loop starts with %q and ends with %q", text, p[2], p[3], at(elems, 0), at(elems, -1)))
	}
	revd := loop(p[4])
	for i := range revd {
		if len(revd) != len(elems) || revd[i] != elems[len(elems)-1-i] {
			viol("typed-reverse", fmt.Sprintf("a loop over %s|reverse shows %q, over the list itself %q", text, revd, elems))
			break
		}
	}
	if len(revd) != len(elems) || p[11] != at(elems, -1) || p[12] != at(elems, 0) {
		viol("typed-reverse", fmt.Sprintf("%s|reverse: loop %q, |first %q, |last %q; the list itself %q", text, revd, p[11], p[12], elems))
	}
	if p[6] != strings.Join(elems, "|") {
		viol("typed-join", fmt.Sprintf("%s|join('|') = %q, the loop shows %q", text, p[6], elems))
	}
	sorted := loop(p[5])
	a, b := append([]string{}, sorted...), append([]string{}, elems...)
	sort.Strings(a)
	sort.Strings(b)
	okOrder := false
	if numeric {
		okOrder = true
		for i := 0; i < len(sorted) && okOrder; i++ {
			for j := i + 1; j < len(sorted); j++ {
				x, _ := strconv.ParseFloat(sorted[i], 64)
				y, _ := strconv.ParseFloat(sorted[j], 64)
				if x > y {
					okOrder = false
					break
				}
			}
		}
	}
	if stringly && !okOrder {
		okOrder = true
		for i := 0; i < len(sorted) && okOrder; i++ {
			for j := i + 1; j < len(sorted); j++ {
				if sorted[i] > sorted[j] {
					okOrder = false
					break
				}
			}
		}
	}
	if strings.Join(a, "\x1f") != strings.Join(b, "\x1f") || !okOrder {
		viol("typed-sort-not-ordered-permutation", fmt.Sprintf("a loop over %s|sort shows %q: not an ordered permutation of %q", text, sorted, elems))
	}
	if p[7] != at(sorted, 0) || p[8] != at(sorted, -1) || p[9] != strconv.Itoa(len(sorted)) || p[10] != strings.Join(sorted, "|") {
		viol("typed-sort-not-ordered-permutation", fmt.Sprintf("%s|sort: the loop shows %q but |first = %q, |last = %q, |length = %s, |join = %q", text, sorted, p[7], p[8], p[9], p[10]))
	}
	from, to := f19refSlice(len(elems), 1, nil)
	if got := loop(p[13]); strings.Join(got, "\x1f") != strings.Join(elems[from:to], "\x1f") {
		viol("typed-slice", fmt.Sprintf("a loop over %s|slice(1) shows %q, the list itself %q", text, got, elems))
	}
	one := int64(1)
	from, to = f19refSlice(len(elems), -2, &one)
	if got := loop(p[14]); strings.Join(got, "\x1f") != strings.Join(elems[from:to], "\x1f") {
		viol("typed-slice", fmt.Sprintf("a loop over %s|slice(-2, 1) shows %q, the list itself %q", text, got, elems))
	}
	if wantLen := map[bool]string{true: "1", false: strconv.Itoa(n)}[n == 0]; p[15] != wantLen {
		viol("typed-default", fmt.Sprintf("%s|default('D')|length = %s", text, p[15]))
	}
}

// ---- maps --------------------------------------------------------------------------------------

type c19mapVal struct {
	k    *c19kind // key kind
	vt   reflect.Type
	keys []any // in insertion order (distinct)
	vals []any
	gv   any
}

func c19mkMap(k *c19kind, vt reflect.Type, keys, vals []any, nilMap bool) c19mapVal {
	mt := reflect.MapOf(k.t, vt)
	var rv reflect.Value
	if nilMap {
		rv = reflect.Zero(mt)
	} else {
		rv = reflect.MakeMapWithSize(mt, len(keys))
		for i, key := range keys {
			val := reflect.Zero(vt)
			if vals[i] != nil {
				val = reflect.ValueOf(vals[i])
			}
			rv.SetMapIndex(reflect.ValueOf(key), val)
		}
	}
	return c19mapVal{k: k, vt: vt, keys: keys, vals: vals, gv: rv.Interface()}
}

// text: the entries in insertion order (fmt would sort them, and cannot tell NaN keys apart).
func (m c19mapVal) text() string {
	parts := make([]string, len(m.keys))
	for i := range m.keys {
		parts[i] = fmt.Sprintf("%#v: %#v", m.keys[i], m.vals[i])
	}
	return fmt.Sprintf("map[%s]%s{%s}", m.k.t, m.vt, strings.Join(parts, ", "))
}

// order: the positions of the entries in ascending key order, computed here from the keys' values:
// numeric for numeric kinds, bytewise for strings. ok = false when the property fixes no order
// (bool and mixed keys, a NaN among float keys): then only the agreement of the views is checked.
func (m c19mapVal) order() ([]int, bool) {
	idx := make([]int, len(m.keys))
	for i := range idx {
		idx[i] = i
	}
	switch m.k.class {
	case "int", "uint", "float":
		for _, key := range m.keys {
			if f, _ := c19num(key); f != f {
				return nil, false
			}
		}
		sort.SliceStable(idx, func(a, b int) bool {
			x, _ := c19num(m.keys[idx[a]])
			y, _ := c19num(m.keys[idx[b]])
			return x < y
		})
		return idx, true
	case "str":
		sort.SliceStable(idx, func(a, b int) bool {
			return reflect.ValueOf(m.keys[idx[a]]).String() < reflect.ValueOf(m.keys[idx[b]]).String()
		})
		return idx, true
	}
	return nil, false
}

const c19mapSrc = "{{ v|length }}\x1e{% for k, x in v %}\x1f{{ k }}\x1d{{ x }}{% endfor %}\x1e{{ v|first }}\x1e{{ v|keys|join('|') }}\x1e{{ v|keys|first }}\x1e" +
	"{{ v|keys|length }}\x1e{% for x in v %}\x1f{{ x }}{% endfor %}\x1e{% for k in v|keys %}\x1f{{ k }}{% endfor %}\x1e{{ v|keys|last }}\x1e{{ v|default('D')|length }}"

func c19checkMap(e *Env, m c19mapVal, other *c19mapVal, tag string) {
	r := e.Rep
	n := len(m.keys)
	text := m.text()
	r.Seen("typed-map:"+text, n > 0)
	r.Hit("typed-map:" + tag)
	viol := func(key, what string) {
		f19violate(r, Violation{Key: key, What: what, Broken: "C19 equations on Go container types outside the model's Val (implementation-only oracle)",
			Replay: map[string]any{"kind": "typed-container", "value": text, "src": c19mapSrc}})
	}
	idx, pinned := m.order()
	before := fmt.Sprintf("%#v", m.gv)

	// -- the filter functions, called directly
	if x, c, d := f19call("length", m.gv); c != "" || x != n {
		viol("typed-length-loop", fmt.Sprintf("length(%s) = %v %s %s, the map has %d entries", text, x, c, d, n))
	}
	ks, c, d := f19call("keys", m.gv)
	keyList, ok := c19items(ks)
	if c != "" || !ok || !c19sameMultiset(keyList, m.keys) {
		viol("typed-keys", fmt.Sprintf("keys(%s) = %#v %s %s: not every key once", text, ks, c, d))
		return
	}
	if pinned {
		want := make([]any, n)
		for i, j := range idx {
			want[i] = m.keys[j]
		}
		if c19reprs(keyList) != c19reprs(want) {
			viol("typed-keys", fmt.Sprintf("keys(%s) = %#v, in key order they read %#v", text, ks, want))
		}
	}
	// first = the value under the smallest key (computed here), and under the key that `keys` lists first
	fst, c, d := f19call("first", m.gv)
	if c != "" {
		viol("typed-first-last-loop", fmt.Sprintf("first(%s): %s %s", text, c, d))
	} else {
		if pinned {
			var want, least any
			if n > 0 {
				want, least = m.vals[idx[0]], m.keys[idx[0]]
			}
			if c19repr(fst) != c19repr(want) {
				viol("typed-first-last-loop", fmt.Sprintf("first(%s) = %#v; the smallest key is %#v and holds %#v", text, fst, least, want))
			}
		}
		var under any
		if n > 0 {
			if entry := reflect.ValueOf(m.gv).MapIndex(reflect.ValueOf(keyList[0])); entry.IsValid() { // not valid: a NaN key
				under = entry.Interface()
			}
		}
		if c19repr(fst) != c19repr(under) {
			viol("typed-first-last-loop", fmt.Sprintf("first(%s) = %#v, but keys(…) starts with %#v, which holds %#v", text, fst, keyList[0], under))
		}
	}
	if x, c, d := f19call("default", m.gv, "D"); c != "" || (n == 0) != (c19repr(x) == c19repr("D")) {
		viol("typed-default", fmt.Sprintf("default(%s, 'D') = %#v %s %s", text, x, c, d))
	}
	// merge with a second map of the same type: later entries win, every key once
	if other != nil && pinned {
		if _, p2 := other.order(); p2 {
			want := reflect.MakeMap(reflect.TypeOf(m.gv))
			for _, src := range []*c19mapVal{&m, other} {
				sv := reflect.ValueOf(src.gv)
				for _, key := range src.keys {
					want.SetMapIndex(reflect.ValueOf(key), sv.MapIndex(reflect.ValueOf(key)))
				}
			}
			got, c, d := f19call("merge", m.gv, other.gv)
			if c != "" || fmt.Sprintf("%#v", got) != fmt.Sprintf("%#v", want.Interface()) {
				viol("typed-merge", fmt.Sprintf("merge(%s, %s) = %#v %s %s, want %#v", text, other.text(), got, c, d, want.Interface()))
			}
			r.Hit("typed-map-merge")
		}
	}
	if pinned {
		if after := fmt.Sprintf("%#v", m.gv); after != before {
			viol("typed-input-modified", fmt.Sprintf("%s reads %s after length/keys/first/default/merge were applied to it", text, after))
		}
	}

	// -- the same through a template; the expected rows are printed from variables of their own
	ctx := map[string]any{"v": m.gv}
	var sb strings.Builder
	sb.WriteString(c19mapSrc)
	sb.WriteString("\x1e")
	if pinned {
		for i, j := range idx {
			kn, xn := "k"+strconv.Itoa(i), "x"+strconv.Itoa(i)
			ctx[kn], ctx[xn] = m.keys[j], m.vals[j]
			sb.WriteString("\x1f{{ " + kn + " }}\x1d{{ " + xn + " }}")
		}
	}
	res := renderSrc(sb.String(), ctx)
	r.Hit("typed-map-rendered")
	p := strings.Split(res.Out, "\x1e")
	if res.Class != "" || len(p) != 11 {
		viol("typed-length-loop", fmt.Sprintf("the hash filters on v = %s do not render: %s %v (%d parts)", text, res.Class, res.Err, len(p)))
		return
	}
	loop := func(s string) []string { return strings.Split(s, "\x1f")[1:] }
	rows := loop(p[1])
	var lk, lx []string
	for _, row := range rows {
		kx := strings.SplitN(row, "\x1d", 2)
		lk, lx = append(lk, kx[0]), append(lx, kx[1])
	}
	at := func(xs []string, i int) string {
		if i < 0 {
			i += len(xs)
		}
		if i < 0 || i >= len(xs) {
			return ""
		}
		return xs[i]
	}
	if pinned && strings.Join(rows, "\x1f") != strings.Join(loop(p[10]), "\x1f") {
		viol("typed-keys", fmt.Sprintf("a for loop over %s shows the entries %q, in key order they print as %q", text, rows, loop(p[10])))
	}
	if p[0] != strconv.Itoa(len(rows)) || len(rows) != n {
		viol("typed-length-loop", fmt.Sprintf("%s|length = %s, the for loop runs %d times, the map has %d entries", text, p[0], len(rows), n))
	}
	if p[2] != at(lx, 0) {
		viol("typed-first-last-loop", fmt.Sprintf("%s|first = %q, the loop starts with %q (key %q)", text, p[2], at(lx, 0), at(lk, 0)))
	}
	if p[3] != strings.Join(lk, "|") || p[4] != at(lk, 0) || p[5] != strconv.Itoa(len(lk)) || p[8] != at(lk, -1) || strings.Join(loop(p[7]), "\x1f") != strings.Join(lk, "\x1f") {
		viol("typed-keys", fmt.Sprintf("%s: the loop shows the keys %q, but |keys|join = %q, |keys|first = %q, |keys|last = %q, |keys|length = %s, a loop over |keys %q", text, lk, p[3], p[4], p[8], p[5], loop(p[7])))
	}
	if strings.Join(loop(p[6]), "\x1f") != strings.Join(lx, "\x1f") {
		viol("typed-length-loop", fmt.Sprintf("%s: `for x in v` shows %q, `for k, x in v` shows %q", text, loop(p[6]), lx))
	}
	if wantLen := map[bool]string{true: "1", false: strconv.Itoa(n)}[n == 0]; p[9] != wantLen {
		viol("typed-default", fmt.Sprintf("%s|default('D')|length = %s", text, p[9]))
	}
}

// ---- the step ----------------------------------------------------------------------------------

// c19mapValues: value pools per value type of a map (letters that survive output escaping).
func c19mapValueTypes() []struct {
	t    reflect.Type
	pool []any
} {
	return []struct {
		t    reflect.Type
		pool []any
	}{
		{reflect.TypeOf(""), []any{"two", "ten", "p", "q", "", "é", "minus one", "Z", "r", "s"}},
		{reflect.TypeOf(0), []any{20, 100, -1, 0, 7, 3, 15, 2, 9, 10}},
		{reflect.TypeOf(float64(0)), []any{2.5, 10.25, -1.5, 0.0, 100.0, 3.0, math.NaN(), 7.0, 0.125, 9.0}},
		{reflect.TypeOf((*any)(nil)).Elem(), []any{"a", 1, nil, 2.5, true, "", "10", 9, false, "z"}},
	}
}

func c19typedContainers(e *Env) error {
	r := e.Rep
	kinds := c19kinds()
	r.Rule += " Typed containers: every element/key kind (all int, uint and float widths, string, bool, interface{}, named types) × slice, array, named slice, nil slice, map × 4 value types; " +
		"all lists of ≤ 4 elements over 5 values per kind, all key sets over 6 keys per kind, plus random longer ones; non-trivial when non-empty."
	shapesOf := func(k *c19kind) []int {
		s := []int{c19shapeSlice, c19shapeArray}
		if k.named != nil {
			s = append(s, c19shapeNamed)
		}
		return s
	}
	// 1. every list of ≤ 4 elements over the first five values of each kind, in every shape
	const width = 5
	maxLen, tplLen := 4, e.N(3, 4)
	for _, k := range kinds {
		pool := k.pool
		if len(pool) > width {
			pool = pool[:width]
		}
		for _, shape := range shapesOf(k) {
			var rec func(prefix []any)
			rec = func(prefix []any) {
				if r.Full() {
					return
				}
				n := len(prefix)
				c19checkList(e, c19mkList(k, shape, append([]any{}, prefix...)), "exhaustive", n <= tplLen && (shape == c19shapeSlice || n == 3 || e.Thorough()), n <= 2)
				if n == maxLen {
					return
				}
				for _, x := range pool {
					rec(append(prefix, x))
				}
			}
			rec(nil)
		}
		c19checkList(e, c19mkList(k, c19shapeNil, nil), "nil-slice", true, true)
	}
	// 2. every key set over the first six keys of each kind, the value type rotating with the set
	vts := c19mapValueTypes()
	for ki, k := range kinds {
		pool := k.pool
		if len(pool) > 6 {
			pool = pool[:6]
		}
		if k.class == "any" {
			pool = []any{3, "10", "a", 2.5, "3", true} // no nil key
		}
		for mask := 0; mask < 1<<len(pool); mask++ {
			if r.Full() {
				break
			}
			var keys []any
			// insertion order: descending position for odd masks, so it is never the key order by construction
			for i := range pool {
				j := i
				if mask%2 == 1 {
					j = len(pool) - 1 - i
				}
				if mask&(1<<j) != 0 {
					keys = append(keys, pool[j])
				}
			}
			for vi := 0; vi < e.N(2, 4); vi++ {
				vt := vts[(ki+mask+vi)%len(vts)]
				vals := make([]any, len(keys))
				vals2 := make([]any, len(keys))
				for i := range keys {
					vals[i] = vt.pool[(i+mask)%len(vt.pool)]
					vals2[i] = vt.pool[(i+mask+3)%len(vt.pool)]
				}
				m := c19mkMap(k, vt.t, keys, vals, false)
				// the second operand of merge: every other key of this set and the complement of the set
				var k2, v2 []any
				for i := range keys {
					if i%2 == 0 {
						k2, v2 = append(k2, keys[i]), append(v2, vals2[i])
					}
				}
				for j := range pool {
					if mask&(1<<j) == 0 && j%2 == 0 {
						k2, v2 = append(k2, pool[j]), append(v2, vt.pool[j])
					}
				}
				o := c19mkMap(k, vt.t, k2, v2, false)
				c19checkMap(e, m, &o, "exhaustive")
			}
		}
		c19checkMap(e, c19mkMap(k, vts[ki%len(vts)].t, nil, nil, true), nil, "nil-map")
	}
	// 3. random longer ones over the whole pools
	n := e.N(1200, 40000)
	for i := 0; i < n && !r.Full(); i++ {
		k := kinds[e.Rng.Intn(len(kinds))]
		if e.Rng.Intn(3) > 0 {
			ln := e.Rng.Intn(9)
			elems := make([]any, ln)
			for j := range elems {
				elems[j] = k.pool[e.Rng.Intn(len(k.pool))]
			}
			shapes := shapesOf(k)
			l := c19mkList(k, shapes[e.Rng.Intn(len(shapes))], elems)
			if i < 2 {
				r.Sample(map[string]any{"kind": "typed-list", "v": l.text()})
			}
			c19checkList(e, l, "random", true, e.Rng.Intn(8) == 0)
			continue
		}
		vt := vts[e.Rng.Intn(len(vts))]
		mk := func() c19mapVal {
			var keys, vals []any
			seen := map[string]bool{}
			for j, ln := 0, e.Rng.Intn(7); j < ln; j++ {
				key := k.pool[e.Rng.Intn(len(k.pool))]
				id := c19repr(key)
				if f, isNum := c19num(key); isNum && f == f {
					id = strconv.FormatFloat(f+0, 'g', -1, 64) // −0 and 0 are one key
				} else if isNum {
					id = "" // every NaN is a key of its own
				}
				if key == nil || id != "" && seen[id] {
					continue
				}
				seen[id] = true
				keys, vals = append(keys, key), append(vals, vt.pool[e.Rng.Intn(len(vt.pool))])
			}
			return c19mkMap(k, vt.t, keys, vals, false)
		}
		m, o := mk(), mk()
		if i < 4 {
			r.Sample(map[string]any{"kind": "typed-map", "v": m.text()})
		}
		c19checkMap(e, m, &o, "random")
	}
	return nil
}
