package main

import (
	"fmt"
	"math"
	"strconv"
	"strings"
)

// c08WordStrings (added after a defect of the unchanged tree: {{ 'nan' == 'nan' }} was false, 'inf' == 'Infinity'
// true — strconv.ParseFloat reads those words as numbers; repaired in /repo e48847d). Equality on strings is an
// equivalence that contains identity: for every text s, written as a literal or taken from the context, s == s,
// not (s != s), s in [s]; and two texts of which at least one is not a finite numeral are equal only if they are the
// same text. The texts are the spellings number parsers of various languages accept beyond plain decimals.
func c08WordStrings(e *Env) error {
	r := e.Rep
	words := []string{"nan", "NaN", "NAN", "inf", "Inf", "INF", "infinity", "Infinity", "+inf", "-inf", "+Inf", "-Infinity", "+nan", "-nan", "nan1", "inf1",
		"0x10", "0X1F", "0x1p-2", "0b101", "0o17", "017", "1_000", "1e3", "1E3", "1e", "e1", "1e+", "+1", "-1", "+-1", ".5", "5.", ".", "-", "+", "", " ", " 1", "1 ", "1\n", "\t1",
		"1,000", "1.0.0", "１", "٣", "true", "false", "null", "none", "0", "-0", "00", "0.0", "1.", "1.0", "10", "1e1"}
	numeral := func(s string) bool { // what the engine's number reader (strconv.ParseFloat) takes for a finite number: 1e3, 0x10, 1_000 …
		f, err := strconv.ParseFloat(s, 64)
		return err == nil && !math.IsNaN(f) && !math.IsInf(f, 0)
	}
	q := func(s string) string {
		return "'" + strings.NewReplacer("\\", "\\\\", "'", "\\'", "\n", "\\n", "\t", "\\t").Replace(s) + "'"
	}
	for _, s := range words {
		for _, form := range []struct{ name, src string }{
			{"context", "{{ s == s }}|{{ s != s }}|{{ s in [s] }}|{{ s == t }}|{% if s == s %}y{% else %}n{% endif %}"},
			{"literal", "{{ L == L }}|{{ L != L }}|{{ L in [L] }}|{{ L == s }}|{% if L == L %}y{% else %}n{% endif %}"},
		} {
			src := strings.ReplaceAll(form.src, "L", q(s))
			res := renderSrc(src, map[string]any{"s": s, "t": string([]byte(s))})
			r.Seen("word-string:"+form.name+":"+s, true)
			if res.Class != "" || res.Out != "true|false|true|true|y" {
				r.Violate(Violation{Key: "string-not-equal-to-itself", What: fmt.Sprintf("with s = %q, %s renders %q (%s), expected \"true|false|true|true|y\"", s, src, res.Out, res.Class),
					Broken: "C08: on strings the operators give the expected result — equality contains identity (implementation-only oracle)",
					Replay: map[string]any{"kind": "render", "templates": map[string]string{"main": src}, "main": "main", "ctx": map[string]any{"s": s, "t": s}, "want": "true|false|true|true|y", "got": res.Out, "class": res.Class}})
			}
		}
	}
	// two different texts, at least one of them not a numeral: never equal
	for i, a := range words {
		for _, b := range words[i+1:] {
			if a == b || (numeral(a) && numeral(b)) || strings.TrimSpace(a) == "" || strings.TrimSpace(b) == "" {
				continue
			}
			res := renderSrc("{{ a == b }}|{{ a != b }}", map[string]any{"a": a, "b": b})
			if res.Class == "" && res.Out != "false|true" {
				r.Violate(Violation{Key: "different-strings-equal", What: fmt.Sprintf("{{ a == b }}|{{ a != b }} with a = %q, b = %q renders %q; the texts differ and %q is not a finite numeral", a, b, res.Out, map[bool]string{true: b, false: a}[numeral(a)]),
					Broken: "C08: on strings the operators give the expected result (implementation-only oracle)",
					Replay: map[string]any{"kind": "render", "templates": map[string]string{"main": "{{ a == b }}|{{ a != b }}"}, "main": "main", "ctx": map[string]any{"a": a, "b": b}, "want": "false|true", "got": res.Out}})
			}
		}
	}
	r.Hit("word-strings")
	return nil
}
