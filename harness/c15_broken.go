package main

import (
	"fmt"
	"strings"

	"github.com/semihalev/twig"
)

// C15 over sources that cannot be SERVED: the loader has the name, but what it holds does not parse (a template edited
// into a syntax error between two calls, a half-written file, a broken first deployment) or parses and fails when it
// is rendered.
//
// The property's sentences are about who HAS the name, not about whether the text is any good: the loaders are
// consulted in registration order and the FIRST that has the name wins — so a call that has to read the loaders and
// finds an unparsable text in the first holder ends in an error (not one matching ErrTemplateNotFound: the name is
// there), reads no loader behind the holder, and neither serves nor caches any other loader's copy; what was cached
// before stays as it was (auto-reload off: it is still served). A registration of an unparsable text returns an error
// and is no registration: the name keeps what it had. A text that parses but cannot be rendered IS the source the
// configuration calls for: it is loaded, cached, re-read and shadowed exactly like any other version, only every
// render of it is an error.
//
// In a "world" (c15_content.go) a version may stand for such a text. Expected values:
//   - render-failing versions: EngineCache.step / Spec.expected (Lean) unchanged, "served v" read as "an error";
//   - unparsable versions: the Lean model has no such source, so the whole observation of every step
//     [served / error class, flags, cache keys, Load and GetModifiedTime counters] comes from c15Ref below, a direct
//     computation in Go of what the sentences say (it is run on EVERY history of C15, so on the histories without
//     unparsable sources it is tied to EngineCache.step through the engine: all three must agree);
//   - the six sentences in ecImpl.call (S1 and S5 now say "an error" where the version that must be served is one that
//     cannot be), and the pinned answers of c15BrokenCorpus, worked out by hand.

const (
	c15Sound = iota
	c15NoParse
	c15NoRender
)

// c15NoParsePool: texts the parser must reject, of different kinds (lexer and parser errors, at the start and behind
// text that looks like a good version, short and beyond 4096 bytes).
var c15NoParsePool = []string{
	"x {{ name",
	"{% if a %}x",
	"{% nosuchtag %}",
	"v1{{ 1 + }}",
	"{# unclosed",
	"{% block a %}",
	"x {% ",
	"{{ (1 }}",
	"{#" + strings.Repeat("~", 5000) + "#}v2{{",
}

// c15NoRenderPool: texts that parse and whose rendering is an error (none of them names another template).
var c15NoRenderPool = []string{
	"{{ 1 / 0 }}",
	"v2{{ nosuch() }}",
	"{{ 1|nosuchfilter }}",
	"v3{{ 5 % 0 }}",
}

func c15SrcKind(src string) int {
	for _, s := range c15NoParsePool {
		if s == src {
			return c15NoParse
		}
	}
	for _, s := range c15NoRenderPool {
		if s == src {
			return c15NoRender
		}
	}
	return c15Sound
}

func (w ecWorld) kind(v int64) int {
	if s, ok := w.odd[v]; ok {
		return c15SrcKind(s)
	}
	return c15Sound
}

// wantOut: what a call that must serve version v shows
func (w ecWorld) wantOut(v int64) int64 {
	if v >= 0 && w.kind(v) != c15Sound {
		return ecOtherErr
	}
	return v
}

// c15OpVersion: the version an operation brings in (-1: none)
func c15OpVersion(o ecOp) int64 {
	switch {
	case o.Tag == "put" && len(o.A) > 2:
		return o.A[2]
	case (o.Tag == "regstr" || o.Tag == "regtpl") && len(o.A) > 1:
		return o.A[1]
	}
	return -1
}

// uses: does the history bring in a version of this kind
func (w ecWorld) uses(ops []ecOp, kind int) bool {
	if len(w.odd) == 0 {
		return false
	}
	for _, o := range ops {
		if v := c15OpVersion(o); v >= 0 && w.kind(v) == kind {
			return true
		}
	}
	return false
}

// c15PoolCheck: the pools are what they claim to be on the tree under test (otherwise the harness, not the property,
// is off: an error, not a violation).
func c15PoolCheck() error {
	e := twig.New()
	for _, s := range c15NoParsePool {
		if _, err := e.ParseTemplate(s); err == nil {
			return fmt.Errorf("c15: pool text %.30q is meant not to parse, but ParseTemplate accepts it", s)
		}
	}
	for _, s := range c15NoRenderPool {
		t, err := e.ParseTemplate(s)
		if err != nil {
			return fmt.Errorf("c15: pool text %q is meant to parse: %v", s, err)
		}
		if out, err := t.Render(nil); err == nil {
			return fmt.Errorf("c15: pool text %q is meant to fail when rendered, gave %q", s, out)
		}
	}
	return nil
}

// ---- the reference: the sentences, computed directly ----------------------------------------------------------

type c15RefFile struct{ ver, mtime int64 }

type c15RefLoader struct {
	ts           bool
	files        map[int64]c15RefFile
	loads, stats [ecNames]int64
}

// c15RefHeld: what the engine holds under a name: a registration (loader -1) or a loader's template with the
// modification time recorded when it was read
type c15RefHeld struct {
	ver     int64
	loader  int
	lastMod int64
}

type c15Ref struct {
	w                  ecWorld
	cache, auto, debug bool
	loaders            []*c15RefLoader
	held               map[int64]c15RefHeld
}

func newC15Ref(w ecWorld) *c15Ref {
	return &c15Ref{w: w, cache: true, held: map[int64]c15RefHeld{}}
}

// consult: the loaders in registration order; the first that has the name decides the call
func (r *c15Ref) consult(n int64) int64 {
	for i, l := range r.loaders {
		l.loads[n]++
		f, has := l.files[n]
		if !has {
			continue
		}
		var lastMod int64
		if l.ts {
			l.stats[n]++
			lastMod = f.mtime
		}
		if r.w.kind(f.ver) == c15NoParse {
			return ecOtherErr // the holder's text is what the loaders call for, and it is no template: nothing changes
		}
		if r.cache {
			r.held[n] = c15RefHeld{f.ver, i, lastMod}
		}
		return r.w.wantOut(f.ver)
	}
	return ecNotFound
}

func (r *c15Ref) call(n int64) int64 {
	h, ok := r.held[n]
	switch {
	case !ok:
		return r.consult(n)
	case h.loader < 0:
		return r.w.wantOut(h.ver) // S1
	case !r.cache:
		return r.consult(n) // S2
	case !r.auto:
		return r.w.wantOut(h.ver) // S4
	}
	l := r.loaders[h.loader]
	if !l.ts {
		return r.w.wantOut(h.ver)
	}
	l.stats[n]++
	if f, has := l.files[n]; !has || f.mtime > h.lastMod {
		return r.consult(n) // S3: changed
	}
	return r.w.wantOut(h.ver) // S3: unchanged
}

// step: the observation after one operation, laid out like ecImpl.do's
func (r *c15Ref) step(o ecOp) []int64 {
	a := func(i int) int64 {
		if i < len(o.A) {
			return o.A[i]
		}
		return 0
	}
	out := int64(ecQuiet)
	switch o.Tag {
	case "cache":
		r.cache = a(0) != 0
	case "auto":
		r.auto = a(0) != 0
	case "dev":
		r.debug, r.auto, r.cache = a(0) != 0, a(0) != 0, a(0) == 0
	case "addloader":
		r.loaders = append(r.loaders, &c15RefLoader{ts: a(0) != 0, files: map[int64]c15RefFile{}})
	case "regstr", "regtpl":
		if r.w.kind(a(1)) != c15NoParse {
			r.held[a(0)%ecNames] = c15RefHeld{a(1), -1, 0}
		}
	case "put":
		if i := int(a(0)); i < len(r.loaders) {
			r.loaders[i].files[a(1)%ecNames] = c15RefFile{a(2), a(3)}
		}
	case "del":
		if i := int(a(0)); i < len(r.loaders) {
			delete(r.loaders[i].files, a(1)%ecNames)
		}
	case "touch":
		if i := int(a(0)); i < len(r.loaders) {
			if f, ok := r.loaders[i].files[a(1)%ecNames]; ok {
				r.loaders[i].files[a(1)%ecNames] = c15RefFile{f.ver, a(2)}
			}
		}
	case "load", "render":
		out = r.call(a(0) % ecNames)
	}
	var flags, mask int64
	if r.cache {
		flags |= 1
	}
	if r.auto {
		flags |= 2
	}
	if r.debug {
		flags |= 4
	}
	for n := range r.held {
		mask |= 1 << n
	}
	obs := []int64{out, flags, mask}
	for _, l := range r.loaders {
		obs = append(obs, l.loads[:]...)
	}
	for _, l := range r.loaders {
		obs = append(obs, l.stats[:]...)
	}
	return obs
}

// c15RefCompare: the first step (before any mismatch found so far) at which the engine's observation is not the
// reference's.
func c15RefCompare(w ecWorld, ops []ecOp, obs [][]int64, first *ecMismatch) *ecMismatch {
	ref := newC15Ref(w)
	for k, o := range ops {
		if first != nil && first.step <= k {
			break
		}
		want := ref.step(o)
		same := len(want) == len(obs[k])
		for i := 0; same && i < len(want); i++ {
			same = want[i] == obs[k][i]
		}
		if same {
			continue
		}
		key := "ref-counters"
		switch {
		case want[0] != obs[k][0]:
			key = "ref-served"
		case want[1] != obs[k][1]:
			key = "ref-flags"
		case want[2] != obs[k][2]:
			key = "ref-cache-keys"
		}
		return &ecMismatch{step: k, key: key,
			what:   fmt.Sprintf("engine and the sentences computed directly differ at step %d (%s) of %s[%s]", k, o, w.usedBy(ops[:k+1]), truncate(ecOpsString(ops), 300)),
			broken: "C15 read sentence by sentence (first loader that has the name wins, whatever its text; an error changes nothing in the cache; theorems C15_S1 … C15_S6 on the versions that can be served)",
			impl:   obs[k], model: want}
	}
	return first
}

// ---- worlds and histories ---------------------------------------------------------------------------------------

// c15BrokenCorpus: pinned histories; versions 20, 21 stand for unparsable texts, 30 for a render-failing one.
func c15BrokenCorpus() []ecRegression {
	ts2 := []ecOp{op("addloader", 1), op("addloader", 1)}
	cat := func(parts ...[]ecOp) []ecOp {
		var o []ecOp
		for _, p := range parts {
			o = append(o, p...)
		}
		return o
	}
	E := int64(ecOtherErr)
	return []ecRegression{
		// the first load finds a text that is no template in the first holder: the copy behind it is not an answer
		{"unparsable-first-holder-first-load", cat(ts2, []ecOp{op("put", 0, 0, 20, 10), op("put", 1, 0, 1, 10), op("render", 0), op("load", 0),
			op("put", 0, 0, 2, 11), op("render", 0), op("render", 0)}), []int64{E, E, 2, 2}},
		// edited into a syntax error between two calls, caching off; then caching on; then the edit is completed
		{"unparsable-edit-cache-off", cat(ts2, []ecOp{op("put", 0, 0, 1, 10), op("put", 1, 0, 2, 10), op("cache", 0), op("render", 0),
			op("put", 0, 0, 20, 11), op("render", 0), op("load", 0), op("cache", 1), op("render", 0), op("put", 0, 0, 3, 12), op("render", 0)}),
			[]int64{1, E, E, E, 3}},
		// auto-reload sees the newer, unparsable text: an error, and what was cached stays (served again once auto-reload is off)
		{"unparsable-edit-auto-reload", cat(ts2, []ecOp{op("put", 0, 0, 1, 10), op("put", 1, 0, 2, 10), op("auto", 1), op("render", 0),
			op("put", 0, 0, 20, 11), op("render", 0), op("load", 0), op("auto", 0), op("render", 0), op("auto", 1), op("render", 0),
			op("put", 0, 0, 3, 12), op("render", 0)}), []int64{1, E, E, 1, E, 3}},
		// an unchanged timestamp is "unchanged": not re-read, so the broken text is not seen until caching is off
		{"unparsable-edit-same-mtime", cat(ts2, []ecOp{op("put", 0, 0, 1, 10), op("put", 1, 0, 2, 10), op("auto", 1), op("render", 0),
			op("put", 0, 0, 21, 10), op("render", 0), op("cache", 0), op("render", 0)}), []int64{1, 1, E}},
		{"unparsable-edit-auto-reload-off", cat(ts2, []ecOp{op("put", 0, 0, 1, 10), op("put", 1, 0, 2, 10), op("render", 0), op("put", 0, 0, 20, 99),
			op("render", 0), op("load", 0)}), []int64{1, 1, 1}},
		// an unparsable text behind the first holder is never looked at; once it is the first holder it is the answer
		{"unparsable-later-holder", cat(ts2, []ecOp{op("put", 0, 0, 1, 10), op("put", 1, 0, 20, 10), op("render", 0), op("cache", 0), op("render", 0),
			op("del", 0, 0), op("render", 0), op("put", 0, 0, 2, 5), op("render", 0)}), []int64{1, 1, E, 2}},
		{"unparsable-only-copy", []ecOp{op("addloader", 0), op("put", 0, 1, 20, 0), op("render", 1), op("load", 1), op("render", 2), op("cache", 0),
			op("render", 1)}, []int64{E, E, ecNotFound, E}},
		{"unparsable-middle-of-three", []ecOp{op("addloader", 1), op("addloader", 0), op("addloader", 1), op("put", 1, 0, 21, 5), op("put", 2, 0, 1, 5),
			op("render", 0), op("load", 0), op("put", 0, 0, 2, 5), op("render", 0), op("del", 0, 0), op("render", 0), op("cache", 0), op("render", 0)},
			[]int64{E, E, 2, 2, E}},
		{"unparsable-in-dev-mode", cat(ts2, []ecOp{op("put", 0, 2, 1, 10), op("put", 1, 2, 2, 10), op("dev", 1), op("render", 2), op("put", 0, 2, 20, 10),
			op("render", 2), op("dev", 0), op("render", 2), op("put", 0, 2, 3, 10), op("render", 2)}), []int64{1, E, E, 3}},
		// a registration that does not parse is no registration
		{"unparsable-registration", cat(ts2, []ecOp{op("regstr", 0, 1), op("regstr", 0, 20), op("render", 0), op("regtpl", 0, 21), op("render", 0),
			op("regtpl", 0, 20), op("load", 0), op("regstr", 1, 20), op("render", 1), op("put", 1, 1, 2, 10), op("regtpl", 1, 21), op("render", 1)}),
			[]int64{1, 1, 1, ecNotFound, 2}},
		// a text that parses and cannot be rendered is loaded, cached and replaced like any other
		{"render-failing-is-served", cat(ts2, []ecOp{op("put", 0, 0, 30, 10), op("put", 1, 0, 1, 10), op("render", 0), op("load", 0), op("auto", 1),
			op("render", 0), op("put", 0, 0, 2, 11), op("render", 0), op("regstr", 0, 30), op("render", 0), op("cache", 0), op("load", 0)}),
			[]int64{E, E, E, 2, E, E}},
	}
}

func c15BrokenSetups() []ecSetup {
	return append(ecSetups(),
		// both loaders hold the name from the start (version 2 in front of version 1)
		ecSetup{"both-ts-ts", []ecOp{op("addloader", 1), op("addloader", 1), op("put", 0, 0, 2, 100), op("put", 1, 0, 1, 100)}, 1},
		ecSetup{"both-plain-ts", []ecOp{op("addloader", 0), op("addloader", 1), op("put", 0, 0, 2, 100), op("put", 1, 0, 1, 100)}, 1})
}

// c15WordUses: does the word bring in (at the position that gives it that number) one of the versions
func c15WordUses(word []int, vs []int64) bool {
	for _, v := range vs {
		if v < 10 {
			return true // the setups' own versions
		}
		if p := int(v - 10); p < len(word) {
			switch ecAlphabet[word[p]] {
			case "reg", "putHi", "putLoNewer", "putLoSame":
				return true
			}
		}
	}
	return false
}

// c15BrokenSweep: the deterministic part.
//
//	(a) the pinned histories in every backing × every rotation of the unparsable pool;
//	(b) every word of length ≤ 2 or 3 (thorough: 4) over the 10-letter alphabet, from five loader setups (in two of them both
//	    loaders hold the name from the start), in worlds where the versions written at one or two fixed positions —
//	    the setup's own (1, 2) or the word's first, second, third letter (10, 11, 12) — are unparsable, or fail
//	    when rendered; only the words that write such a version.
func c15BrokenSweep(e *Env) (bool, error) {
	r := e.Rep
	if err := c15PoolCheck(); err != nil {
		return false, err
	}
	total := 0
	np, nr := len(c15NoParsePool), len(c15NoRenderPool)
	for backing := range ecBackings {
		for rot := 0; rot < np; rot++ {
			if !e.Thorough() && backing > 0 && rot%3 != backing {
				continue // quick: all rotations on the harness map, a third of them on each library backing
			}
			w := ecWorld{backing: backing, odd: map[int64]string{20: c15NoParsePool[rot], 21: c15NoParsePool[(rot+1)%np], 30: c15NoRenderPool[rot%nr]}}
			for _, c := range c15BrokenCorpus() {
				ok, err := ecCheck(e, w, c.ops, c.name, c.want)
				total++
				if err != nil || !ok {
					return ok, err
				}
				r.Hit("broken-sweep:corpus")
			}
		}
	}
	// which versions cannot be served, and how long the words are in the quick tier (0: thorough tier only) for the
	// unparsable and the render-failing worlds; the thorough tier plays every world to length 4
	masks := []struct {
		vs                []int64
		noParse, noRender int
	}{{[]int64{2}, 3, 2}, {[]int64{1}, 2, 2}, {[]int64{10}, 3, 3}, {[]int64{11}, 3, 0}, {[]int64{12}, 3, 0}, {[]int64{1, 10}, 2, 0},
		{[]int64{2, 10}, 2, 0}, {[]int64{1, 2}, 2, 0}, {[]int64{10, 11}, 0, 0}, {[]int64{1, 11}, 0, 0}, {[]int64{10, 12}, 0, 0}}
	wn, deepest := 0, 0
	for _, kind := range []int{c15NoParse, c15NoRender} {
		for _, m := range masks {
			vs, depth := m.vs, m.noParse
			if kind == c15NoRender {
				depth = m.noRender
			}
			if e.Thorough() {
				depth = 4
			}
			if depth == 0 {
				continue
			}
			if depth > deepest {
				deepest = depth
			}
			odd := map[int64]string{}
			for i, v := range vs {
				if kind == c15NoParse {
					odd[v] = c15NoParsePool[(wn+i)%np]
				} else {
					odd[v] = c15NoRenderPool[(wn+i)%nr]
				}
			}
			w := ecWorld{backing: wn % len(ecBackings), odd: odd}
			wn++
			for _, su := range c15BrokenSetups() {
				if (vs[0] == 2 || len(vs) > 1 && vs[1] == 2) && !strings.HasPrefix(su.name, "both") {
					continue // version 2 exists only where both loaders hold the name from the start
				}
				word := []int{}
				var rec func() (bool, error)
				rec = func() (bool, error) {
					if c15WordUses(word, vs) {
						ok, err := ecCheck(e, w, ecInstantiate(su, word), "broken-sweep:"+su.name, nil)
						total++
						if err != nil || !ok {
							return ok, err
						}
					}
					if len(word) == depth {
						return true, nil
					}
					for k := range ecAlphabet {
						word = append(word, k)
						ok, err := rec()
						word = word[:len(word)-1]
						if err != nil || !ok {
							return ok, err
						}
					}
					return true, nil
				}
				if ok, err := rec(); err != nil || !ok {
					return ok, err
				}
			}
			r.Hit("broken-sweep:world")
		}
	}
	r.Note(fmt.Sprintf("broken-source sweep: %d histories (pinned histories × backings × %d unparsable texts; words up to length %d (quick tier: 2 in some worlds) × 5 setups × %d worlds with unparsable / render-failing versions)", total, np, deepest, wn))
	return true, nil
}

// c15BreakSome: a random world gets one to three versions that cannot be served (random histories number their versions
// 2, 3, … in order of appearance).
func c15BreakSome(e *Env, w *ecWorld) {
	rng := e.Rng
	if w.odd == nil {
		w.odd = map[int64]string{}
	}
	for k := 1 + rng.Intn(3); k > 0; k-- {
		v := int64(2 + rng.Intn(12))
		if rng.Intn(4) == 0 {
			w.odd[v] = c15NoRenderPool[rng.Intn(len(c15NoRenderPool))]
		} else {
			w.odd[v] = c15NoParsePool[rng.Intn(len(c15NoParsePool))]
		}
	}
}
