package main

import (
	"fmt"
	"strings"
)

// C09, the body of a loop is rendered IN FULL once per element: a statement keeps its place in the body.
//
// "A for loop renders its body once per element", "a set makes the assigned value visible to everything rendered after
// it, including later iterations and later sets": an assignment standing in a loop body therefore takes effect again in
// every iteration, exactly where it stands — at the very top of the body (a per-element reset: `{% set total = 0 %}`,
// `{% set hit = false %}`), in the middle, at the end, in a branch — whatever is assigned (a literal, a constant
// expression, a variable) and whether or not the rest of the body changes the variable afterwards. Anything that runs a
// statement of the body fewer times than there are elements, or at another place (once in front of the loop, once behind
// it, once per loop instead of once per iteration, only in the first iteration), shows as soon as the variable is read
// directly after the statement and again after the body changed it.
//
// The shared generator opens every loop body with a text node and never re-initialises a variable inside a loop, so this
// file adds
//   - a sweep: every reset value (numbers, strings, booleans, null, lists, constant expressions, variables; written as a
//     set tag and as a do assignment) × every place of the reset in the body (first node, two resets first, behind a
//     print / text / comment / whitespace-trimmed tag, last node, first node of a branch or of a nested loop's body …)
//     × every kind of sequence (literal and context lists of 0..3 elements, strings, ranges, maps) × every way the rest
//     of the body changes the variable (plain, in a nested loop, in a branch, by a do tag); the variable is read after
//     the reset, after the change and after the loop;
//   - the random control-flow programs of this property once more, with resets (and a later change and a read of the
//     same variable) put in front of, into and behind the bodies of their loops.
// Both go through compareCase: the expected output is the Lean model's.

type c09ResetGroup struct {
	name   string
	pre    string   // value of the variable before the loop
	values []string // what the reset assigns
	mods   []string // how the rest of the body changes v
	read   string   // how v is shown
}

var c09ResetGroups = []c09ResetGroup{
	{"num", "100", []string{"0", "7", "15", "-1", "0 + 0", "(0)", "init", "zero * 2"},
		[]string{
			"{% set v = v + loop.index %}",
			"{% for c in [1, 2] %}{% set v = v + c %}{% endfor %}",
			"{% if not loop.first %}{% set v = v + 10 %}{% endif %}",
			"{% do v = v + loop.length %}",
		}, "{{ v }}"},
	{"str", "'P'", []string{"''", "'x'", `"a b"`, "'' ~ ''", "empty"},
		[]string{
			"{% set v = v ~ loop.index %}",
			"{% for c in 'pq' %}{% set v = v ~ c %}{% endfor %}",
			"{% if not loop.first %}{% set v = v ~ '+' %}{% endif %}",
			"{% do v = v ~ '!' %}",
		}, "<{{ v }}>"},
	{"flag", "'pre'", []string{"false", "true", "null", "none", "not true", "f"},
		[]string{
			"{% if loop.index == 2 %}{% set v = 'hit' %}{% endif %}",
			"{% if loop.first %}{% set v = 1 %}{% elseif loop.last %}{% set v = 0 %}{% endif %}",
			"{% for c in [1, 2] %}{% if c == 2 and v %}{% set v = 'on' %}{% endif %}{% endfor %}",
		}, "{% if v %}Y{{ v }}{% elseif v is null %}N{% else %}n{% endif %}"},
	{"list", "[9]", []string{"[]", "[0]", "[[]]", "ys"},
		[]string{
			"{% set v = v|merge([loop.index]) %}",
			"{% for c in 'pq' %}{% set v = v|merge([c]) %}{% endfor %}",
		}, "({{ v|length }}:{{ v|join(',') }})"},
}

// c09ResetLayouts: the body of `{% for … %}BODY{% else %}E{% endfor %}`. @R the reset of v, @M the change of v, @P the
// read of v, @S a reset of a second variable u (always a literal), @U a change and read of u.
var c09ResetLayouts = []struct{ name, body string }{
	{"first", "@R@P@M@P"},
	{"first-two", "@S@R@P@M@P@U"},
	{"first-two-swapped", "@R@S@U@P@M@P@U"},
	{"first-three", "@S@R@S@P@M@P@U"},
	{"after-print", "@P@R@P@M@P"},
	{"last", "@M@P@R@P"},
	{"middle-twice", "@R@P@M@P@R@P@M@P"},
	{"after-text", "-@R@P@M@P"},
	{"after-comment", "{# c #}@R@P@M@P"},
	{"after-trimmed-blanks", "\n  @R\n  @P@M@P"},
	{"first-in-if", "{% if loop.index > 0 %}@R@P@M@P{% endif %}"},
	{"alone-in-if", "{% if loop.index > 0 %}@R{% endif %}@P@M@P"},
	{"first-in-else", "{% if loop.first %}a@P{% else %}@R@P{% endif %}@M@P"},
	{"first-in-inner-loop", "{% for d in [1, 2] %}@R@P@M@P,{% endfor %}"},
	{"first-before-inner-loop", "@R{% for d in [1, 2] %}@P@M@P,{% endfor %}@P"},
	{"first-in-inner-else", "{% for d in ys %}x{% else %}@R@P@M@P{% endfor %}"},
	{"only-node", "@R"},
	{"reset-then-change-only", "@R@M"},
}

// c09ResetSeqs: the for tag's variables and sequence.
var c09ResetSeqs = []string{
	"e in [4, 5, 6]", "e in xs3", "e in xs2", "e in xs1", "e in xs0", "e in 'hey'", "e in range(1, 3)", "e in range(3, 2, -1)",
	"k, e in {'a': 1, 'b': 2}", "k, e in mm", "i, e in xs3", "e in nul",
}

// c09ResetWrappers: where the loop stands. @L the loop.
var c09ResetWrappers = []string{
	"@L",
	"{% if t %}@L{% endif %}",
	"{% for o in [1, 2] %}@L/{% endfor %}",
	"{% block b %}@L{% endblock %}",
}

func c09ResetCtx() map[string]any {
	return map[string]any{
		"xs0": []interface{}{}, "xs1": []interface{}{"a"}, "xs2": []interface{}{"a", 2}, "xs3": []interface{}{3, "b", nil},
		"ys": []interface{}{}, "mm": map[string]interface{}{"b": 2, "a": 1, "c": "three"}, "nul": nil,
		"init": 0, "zero": 0, "empty": "", "t": true, "f": false,
	}
}

// c09ResetSrc spells one program of the sweep. form 0: `{% set v = X %}`, 1: `{% do v = X %}`, 2: the set tag with
// whitespace-control dashes (the blanks around it belong to nobody).
func c09ResetSrc(g c09ResetGroup, value, mod, layout, seq, wrapper string, form int, nopre bool) string {
	reset := "{% set v = " + value + " %}"
	switch form {
	case 1:
		reset = "{% do v = " + value + " %}"
	case 2:
		reset = " {%- set v = " + value + " -%} "
	}
	body := strings.NewReplacer("@R", reset, "@M", mod, "@P", g.read, "@S", "{% set u = '' %}", "@U", "{% set u = u ~ '.' %}{{ u }}").Replace(layout)
	open := "{% for " + seq + " %}"
	if strings.HasPrefix(layout, "\n") {
		open = "{% for " + seq + " -%}"
	}
	loop := open + body + "{{ e }};{% else %}E{% endfor %}"
	pre := "{% set v = " + g.pre + " %}{% set u = 'U' %}"
	if nopre {
		// the assignments in the loop body are the first ones of v and u: they outlive the loop all the same
		pre = ""
	}
	return pre + strings.ReplaceAll(wrapper, "@L", loop) + "|" + g.read + "{{ u }}"
}

func c09RunBodyResets(e *Env) error {
	r := e.Rep
	ctx := c09ResetCtx()
	seen := map[string]bool{}
	run := func(g c09ResetGroup, value, mod, layout, seq, wrapper string, form int, nopre bool) error {
		src := c09ResetSrc(g, value, mod, layout, seq, wrapper, form, nopre)
		if seen[src] || r.Full() {
			return nil
		}
		seen[src] = true
		c := &Case{Templates: map[string]string{"main": src}, Main: "main", Ctx: ctx, FailAt: -1}
		im, _, ok, err := compareCase(e, c, "render-model-c09", "correspondence render on loops whose body (re)assigns a variable that the same body changes and reads: every statement of a loop body runs once per element, where it stands")
		if err != nil {
			return err
		}
		r.Seen("body-reset:"+src, ok && im.Class == "")
		r.Hit("body-reset:" + g.name)
		return nil
	}
	seed := int(e.Seed % 1000)
	if seed < 0 {
		seed = -seed
	}
	vi := 0
	for _, g := range c09ResetGroups {
		for _, value := range g.values {
			vi++
			for li, layout := range c09ResetLayouts {
				for si, seq := range c09ResetSeqs {
					for mi, mod := range g.mods {
						for wi, wrapper := range c09ResetWrappers {
							for form := 0; form < 3; form++ {
								if !e.Thorough() {
									// quick tier: every value at the top of the body (alone and with a second reset) over every
									// sequence; every value in every other place with one sequence, change, wrapper and spelling in turn
									top := li < 2 && mi == (vi+si)%len(g.mods) && wi == (vi+si+li)%len(c09ResetWrappers) && form == (vi+si)%3
									turn := si == (vi+2*li+seed)%len(c09ResetSeqs) && mi == (vi+li+seed)%len(g.mods) && wi == (vi+li+seed)%len(c09ResetWrappers) && form == (li+seed)%3
									// … and the first sequence (three elements) with the plain spelling in every place
									plain := si == 0 && form == 0 && wi == 0 && mi == (vi+li)%len(g.mods)
									if !top && !turn && !plain {
										continue
									}
									// the plain ones also without an assignment in front of the loop
									if plain {
										if err := run(g, value, mod, layout.body, seq, wrapper, form, true); err != nil {
											return err
										}
									}
								} else if err := run(g, value, mod, layout.body, seq, wrapper, form, true); err != nil {
									return err
								}
								if err := run(g, value, mod, layout.body, seq, wrapper, form, false); err != nil {
									return err
								}
							}
						}
					}
				}
			}
		}
	}
	c09DirectResets(e)
	// the random programs, with resets in their loops
	n := e.N(300, 20000)
	for i := 0; i < n && !r.Full(); i++ {
		c := c09GenResetCase(e)
		im, _, ok, err := compareCase(e, c, "render-model-c09", "correspondence render on control-flow programs whose loop bodies re-initialise, change and read a variable")
		if err != nil {
			return err
		}
		main := c.Templates["main"]
		r.Seen("body-reset-program:"+main, ok && im.Class == "" && strings.Contains(main, "{% for"))
		r.Hit("body-reset-program")
	}
	return nil
}

// c09GenResetCase is genControlCase with loops whose bodies re-initialise a variable: for every for node of the
// generated program (at any depth) a reset `set name = <literal or constant expression>` is put at a random place of the
// body — most often the very top, in front of the text node the shared generator starts every body with, or instead of
// it — together with a later change of the same variable and a read of it. The variable is one the body (or the
// program) already assigns, a context variable, or a new one.
func c09GenResetCase(e *Env) *Case {
	g := NewGen(e.Rng)
	ctx := g.BaseCtx()
	partial := plainTpl.nodes([]GNode{NText{"<"}, NPrint{EVar{"n"}}, NPrint{EFilter{EVar{"p"}, "default", []GExpr{ELit{"-"}}}}, NText{">"}})
	var body []GNode
	for try := 0; try < 8; try++ {
		body = g.Body(3, BodyOpts{Includes: []string{"partial"}})
		if c09HasFor(body) {
			break
		}
	}
	body = c09AddResets(e, body, 0)
	st := &TplStyle{Expr: Style{Rng: e.Rng, Extra: 0.1}}
	return &Case{Templates: map[string]string{"main": st.nodes(body), "partial": partial}, Main: "main", Ctx: ctx, FailAt: -1}
}

func c09HasFor(ns []GNode) bool {
	for _, n := range ns {
		switch x := n.(type) {
		case NFor:
			return true
		case NIf:
			for _, b := range x.Bodies {
				if c09HasFor(b) {
					return true
				}
			}
			if c09HasFor(x.Else) {
				return true
			}
		}
	}
	return false
}

// c09SetNames collects the variables assigned by set tags anywhere below ns.
func c09SetNames(ns []GNode, into []string) []string {
	for _, n := range ns {
		switch x := n.(type) {
		case NSet:
			into = append(into, x.Name)
		case NFor:
			into = c09SetNames(x.Body, into)
			into = c09SetNames(x.Else, into)
		case NIf:
			for _, b := range x.Bodies {
				into = c09SetNames(b, into)
			}
			into = c09SetNames(x.Else, into)
		}
	}
	return into
}

func c09AddResets(e *Env, ns []GNode, depth int) []GNode {
	r := e.Rng
	out := make([]GNode, 0, len(ns))
	for _, n := range ns {
		switch x := n.(type) {
		case NIf:
			for i := range x.Bodies {
				x.Bodies[i] = c09AddResets(e, x.Bodies[i], depth)
			}
			x.Else = c09AddResets(e, x.Else, depth)
			n = x
		case NFor:
			body := c09AddResets(e, x.Body, depth+1)
			x.Else = c09AddResets(e, x.Else, depth)
			if depth > 0 && r.Intn(3) == 0 {
				x.Body = body
				n = x
				break
			}
			// the variable and its kind
			names := c09SetNames(body, []string{"n", "m", "s", "acc" + fmt.Sprint(depth), "tot" + fmt.Sprint(depth)})
			name := pick(r, names)
			str := name == "s" || strings.HasPrefix(name, "w") || (strings.HasPrefix(name, "tot") && r.Intn(2) == 0)
			list := strings.HasPrefix(name, "l")
			var value, change GExpr
			switch {
			case list:
				value = pick(r, []GExpr{EArr{}, EArr{[]GExpr{ELit{0}}}, EVar{"ys"}})
				change = EFilter{EVar{name}, "merge", []GExpr{EArr{[]GExpr{EAttr{EVar{"loop"}, "index"}}}}}
			case str:
				value = pick(r, []GExpr{ELit{""}, ELit{"x"}, ELit{"a b"}, EVar{"empty"}, EBin{"~", ELit{""}, ELit{"y"}}})
				change = EBin{"~", EVar{name}, pick(r, []GExpr{EAttr{EVar{"loop"}, "index"}, ELit{"+"}, EVar{x.Val}})}
			default:
				value = pick(r, []GExpr{ELit{0}, ELit{1}, ELit{7}, ELit{-1}, ELit{false}, ELit{true}, ELit{nil}, EVar{"zero"}, EBin{"+", ELit{0}, ELit{0}}})
				change = EBin{"+", EVar{name}, pick(r, []GExpr{EAttr{EVar{"loop"}, "index"}, ELit{1 + r.Intn(3)}, EAttr{EVar{"loop"}, "length"}})}
			}
			reset := []GNode{NSet{name, value}}
			if r.Intn(3) == 0 {
				reset = append(reset, NSet{"flag" + fmt.Sprint(depth), pick(r, []GExpr{ELit{false}, ELit{""}, ELit{0}})})
			}
			// the place of the reset: the generated body is  "[" print … "]"
			switch r.Intn(6) {
			case 0, 1: // the very top, in front of the opening text
				body = append(append([]GNode{}, reset...), body...)
			case 2: // the very top, the opening text gone
				if len(body) > 0 {
					if _, isText := body[0].(NText); isText {
						body = body[1:]
					}
				}
				body = append(append([]GNode{}, reset...), body...)
			case 3: // the very end
				body = append(body, reset...)
			default: // somewhere in between
				at := r.Intn(len(body) + 1)
				body = append(append(append([]GNode{}, body[:at]...), reset...), body[at:]...)
			}
			// a change and a read of the variable somewhere in the body (before or behind the reset)
			for _, extra := range [][]GNode{{NSet{name, change}}, {NText{"("}, NPrint{EVar{name}}, NText{")"}}} {
				at := r.Intn(len(body) + 1)
				body = append(append(append([]GNode{}, body[:at]...), extra...), body[at:]...)
			}
			if r.Intn(3) == 0 {
				body = append(body, NIf{Conds: []GExpr{EAttr{EVar{"loop"}, pick(r, []string{"first", "last"})}}, Bodies: [][]GNode{{NSet{name, change}}}}, NPrint{EVar{name}})
			}
			x.Body = body
			n = x
			out = append(out, n, NText{"="}, NPrint{EVar{name}})
			continue
		}
		out = append(out, n)
	}
	return out
}

// c09DirectResets: the same obligation for what the model does not run (float literals, strings with multi-byte
// characters, sequences passed as typed Go slices, arrays and maps). Implementation-only; the expected output is
// computed here: the body `reset [v] change [v]` shows, for element i of n, the reset value and the reset value followed
// by i, whatever the previous iteration left in v.
func c09DirectResets(e *Env) {
	r := e.Rep
	values := []struct{ lit, shown string }{{"0", "0"}, {"1.5", "1.5"}, {"''", ""}, {"'é'", "é"}, {"7", "7"}, {"-2", "-2"}, {"2.50", "2.5"}, {`"世 "`, "世 "}}
	type seq struct {
		name string
		tag  string // for tag variables and sequence
		ctx  func(n int) any
	}
	seqs := []seq{
		{"[]interface{}", "e in xs", func(n int) any { return make([]interface{}, n) }},
		{"[]int", "e in xs", func(n int) any { return make([]int, n) }},
		{"[]string", "e in xs", func(n int) any { return make([]string, n) }},
		{"[]float64", "i, e in xs", func(n int) any { return make([]float64, n) }},
		{"[3]bool", "e in xs", func(n int) any { return [3]bool{} }},
		{"map[string]int", "k, e in xs", func(n int) any {
			m := map[string]int{}
			for i := 0; i < n; i++ {
				m[fmt.Sprintf("k%d", i)] = i
			}
			return m
		}},
		{"map[string]interface{}", "k, e in xs", func(n int) any {
			m := map[string]interface{}{}
			for i := 0; i < n; i++ {
				m[fmt.Sprintf("k%d", i)] = i
			}
			return m
		}},
		{"string", "e in xs", func(n int) any { return string([]rune("é世😀aß")[:n]) }},
		{"range", "e in range(1, xs)", func(n int) any { return n }},
	}
	layouts := []struct {
		name, body string
		// what the body shows in iteration i (1-based) given the reset value's text and what v held when the iteration began
		want func(val, before string, i int) (out, after string)
	}{
		{"first", "@R[{{ v }}]@M[{{ v }}]", func(val, before string, i int) (string, string) {
			return "[" + val + "][" + val + fmt.Sprint(i) + "]", val + fmt.Sprint(i)
		}},
		{"first-two", "@S@R[{{ v }}{{ u }}]@M[{{ v }}]{% set u = v %}", func(val, before string, i int) (string, string) {
			return "[" + val + "-][" + val + fmt.Sprint(i) + "]", val + fmt.Sprint(i)
		}},
		{"after-print", "[{{ v }}]@R[{{ v }}]@M[{{ v }}]", func(val, before string, i int) (string, string) {
			return "[" + before + "][" + val + "][" + val + fmt.Sprint(i) + "]", val + fmt.Sprint(i)
		}},
		{"last", "[{{ v }}]@M[{{ v }}]@R", func(val, before string, i int) (string, string) {
			return "[" + before + "][" + before + fmt.Sprint(i) + "]", val
		}},
		{"first-in-branch", "{% if loop.index > 0 %}@R[{{ v }}]{% endif %}@M[{{ v }}]", func(val, before string, i int) (string, string) {
			return "[" + val + "][" + val + fmt.Sprint(i) + "]", val + fmt.Sprint(i)
		}},
	}
	maxLen := e.N(3, 5)
	for _, sq := range seqs {
		for n := 0; n <= maxLen; n++ {
			if sq.name == "[3]bool" && n != 3 || sq.name == "range" && n == 0 {
				continue
			}
			for vi, val := range values {
				for li, lay := range layouts {
					if r.Full() {
						return
					}
					if !e.Thorough() && li > 1 && (vi+li+n)%3 != int(e.Seed%3+3)%3 {
						continue
					}
					body := strings.NewReplacer("@R", "{% set v = "+val.lit+" %}", "@M", "{% set v = v ~ loop.index %}", "@S", "{% set u = '-' %}").Replace(lay.body)
					src := "{% set v = 'P' %}{% for " + sq.tag + " %}" + body + ";{% else %}E{% endfor %}|{{ v }}"
					var want strings.Builder
					before := "P"
					for i := 1; i <= n; i++ {
						var out string
						out, before = lay.want(val.shown, before, i)
						want.WriteString(out + ";")
					}
					if n == 0 {
						want.WriteString("E")
					}
					want.WriteString("|" + before)
					res := renderSrc(src, map[string]any{"xs": sq.ctx(n)})
					r.Seen(fmt.Sprintf("body-reset-direct:%s:%d:%s", sq.name, n, src), n > 1)
					r.Hit("body-reset-direct")
					if res.Class != "" || res.Out != want.String() {
						r.Violate(Violation{Key: "loop-body-reset", What: fmt.Sprintf("a loop over a %s of %d elements whose body (%s) assigns %s to v renders %q (%s), expected %q: the body is rendered in full once per element", sq.name, n, lay.name, val.lit, truncate(res.Out, 120), res.Class, truncate(want.String(), 120)),
							Broken: "theorems C09_for_items / C09_set_visible no longer describe the code (implementation-only oracle: float literals, multi-byte strings and typed Go sequences are outside the model)",
							Replay: map[string]any{"kind": "src", "src": src, "seq": sq.name, "n": n, "want": want.String(), "got": res.Out, "class": res.Class}})
					}
				}
			}
		}
	}
}
