package main

import (
	"fmt"
	"strings"
)

// C04 — literal text is emitted exactly; comments and verbatim bodies are inert.

func init() { register("C04", runC04) }

func runC04(e *Env) error {
	r := e.Rep
	if e.Replay != "" && c04Replay(e) {
		return nil
	}
	rg := e.Rng
	r.Rule = "(a) tag-free byte strings render as themselves; (b) literal chunks (multi-byte, invalid UTF-8, NUL, lone braces, %, quotes, line breaks) interleaved with print tags of marker variables and comments: " +
		"output = chunks interleaved with values, each chunk exactly once and in order; (c) comment bodies containing tags/calls are never evaluated (spy counters); (d) verbatim bodies render the same under different contexts; " +
		"(e) chunks around tags with partly scannable content (unclosed quotes, backslashes, bytes without a scanner rule, empty tags): model and unit-by-unit concatenation; (f) *Template objects held across re-registration, other parses and setting changes keep rendering their own text; (g) comment-shaped sources (escaped openers, comment syntax in string literals, comments next to trimming delimiters) and every generated source by every route into an engine (compiled forms, loaders, pre-parsed templates) render as the directly parsed source; (h) templates parsed by 8 goroutines at once on 1 and 2 processors render their own lines only; (i) every delimiter spelling next to every byte class, and every generated case, also as part of a template padded with plain text to 4096, 4097 and 5200 bytes, behind and in front: render(S+F) = render(S)+F; (j) the same bodies in every position of a template set (blocks, included templates and their blocks, extends chains, loops), each rendered right after histories of unrelated templates that reuse its block, macro and variable names, on the same and on another engine; every case also goes through the Lean pipeline model; non-trivial = has at least one tag and one non-empty chunk; distinct by source"
	// (a) tag-free text
	n := e.N(400, 20000)
	for i := 0; i < n && !r.Full(); i++ {
		s := genLit(rg, 40)
		if i%7 == 0 {
			s += pick(rg, []string{"{", "}", "}}", "%}", "#}", "{ {", "\\"}) // lone closers / brace at the very end are still text
			if strings.HasSuffix(s, "\\") || strings.Contains(s, "{{") || strings.Contains(s, "{%") || strings.Contains(s, "{#") {
				s = fixLit(s) + "}"
			}
		}
		res := renderSrc(s, nil)
		r.Seen("t:"+s, false)
		if res.Class != "" || res.Out != s {
			if r.Violate(Violation{Key: "text-not-verbatim", What: fmt.Sprintf("tag-free text %q renders as %q (%s)", truncate(s, 60), truncate(res.Out, 60), res.Class),
				Broken: "theorem C04_text_only no longer describes the code (implementation-only oracle)",
				Replay: map[string]any{"kind": "src", "src_hex": hx(s), "got_hex": hx(res.Out), "class": res.Class, "panic": res.Panic}}) {
				break
			}
		}
	}
	// (a') literal text longer than the output buffers (32 KiB steps), multi-byte, through Render and RenderTo
	bigTextOracle(e)
	// (i) every delimiter spelling next to every byte class, in small and in large templates (c04_sizes.go): the sweep
	if err := c04SizeSweep(e); err != nil {
		return err
	}
	// (g) comment-shaped sources, and every source by every route into an engine (c04_routes.go): the corpus
	if err := commentShapedCorpus(e); err != nil {
		return err
	}
	// (j) literal text in every position of a template set, rendered after histories that reuse its names (c04_positions.go)
	if err := c04PositionCases(e); err != nil {
		return err
	}
	// (k) a tag that closes a block where no block is open is a parse error, never the silent end of the template (c04_stray.go)
	if err := c04StrayTags(e); err != nil {
		return err
	}
	// (b)+(c) chunks, print tags, comments
	n = e.N(1200, 60000)
	for i := 0; i < n && !r.Full(); i++ {
		k := 1 + rg.Intn(5)
		ctx := map[string]any{}
		var src, want strings.Builder
		tags := 0
		nonEmptyChunks := 0
		for j := 0; j < k; j++ {
			l := genLit(rg, 12)
			if l != "" {
				nonEmptyChunks++
			}
			src.WriteString(l)
			want.WriteString(l)
			switch rg.Intn(3) {
			case 0, 1:
				name := fmt.Sprintf("v%d", j)
				val := "⟦" + fmt.Sprint(rg.Intn(1000)) + "⟧"
				ctx[name] = val
				src.WriteString("{{" + ws(rg) + name + ws(rg) + "}}")
				want.WriteString(val)
			default:
				body := strings.ReplaceAll(genRaw(rg, 12), "#}", "# }")
				if rg.Intn(2) == 0 {
					body += "{{ spyfn() }}{% if spyfn() %}{% include 'nope' %}"
				}
				src.WriteString("{#" + body + "#}")
			}
			tags++
		}
		tail := genLit(rg, 12)
		src.WriteString(tail)
		want.WriteString(tail)
		if i%6 == 5 {
			// the same template as part of a large one (the large-template tokenizer is a separate code path)
			filler := strings.Repeat("<li>filler</li>\n", 260)
			src.WriteString(filler)
			want.WriteString(filler)
			r.Hit("large-template")
		}
		c := &Case{Templates: map[string]string{"main": src.String()}, Main: "main", Ctx: ctx, SpyFunctions: []string{"spyfn"}, FailAt: -1}
		im, _, _, err := c04Compare(e, c, "render-model-c04", "correspondence render (Lean pipeline vs real engine) on literal-text templates")
		if err != nil {
			return err
		}
		r.Seen("c:"+src.String(), tags > 0 && nonEmptyChunks > 0)
		if i < 2 {
			r.Sample(map[string]any{"template": src.String(), "expected": want.String()})
		}
		if im.Class != "" || im.Out != want.String() || len(im.Spies) != 0 {
			if r.Violate(Violation{Key: "chunks-not-exact", What: fmt.Sprintf("literal chunks of %q are not emitted exactly once in order (class %q, %d comment-body calls)", truncate(src.String(), 80), im.Class, len(im.Spies)),
				Broken: "theorem C04_chunks / C04_comment_inert no longer describes the code (implementation-only oracle)",
				Replay: map[string]any{"kind": "src", "src_hex": hx(src.String()), "want_hex": hx(want.String()), "got_hex": hx(im.Out), "class": im.Class, "spies": fmt.Sprint(im.Spies)}}) {
				break
			}
		}
	}
	// (b') a dash removes space, tab, CR and LF next to the delimiter and no other byte of the literal text
	n = e.N(300, 20000)
	for i := 0; i < n && !r.Full(); i++ {
		edge := pick(rg, []string{"\x00", "\x01", "\x0b", "\x0c", "\x1f", "\x7f", "\u00a0", "\u2028", "\x80", "a", "."})
		wsr := pick(rg, []string{"", " ", "\n", " \t\r\n "})
		l := fixLit(genLit(rg, 6)+edge) + wsr
		rgt := wsr + fixLit(edge+genLit(rg, 6))
		src := l + "{{- v -}}" + rgt
		want := trimWsRight(l) + "V" + trimWsLeft(rgt)
		c := &Case{Templates: map[string]string{"main": src}, Main: "main", Ctx: map[string]any{"v": "V"}, FailAt: -1}
		im, _, _, err := c04Compare(e, c, "render-model-c04", "correspondence render on dashed literal chunks")
		if err != nil {
			return err
		}
		r.Seen("d:"+src, true)
		if im.Class != "" || im.Out != want {
			if r.Violate(Violation{Key: "dash-trims-non-whitespace", What: fmt.Sprintf("%q renders %q, expected %q: a dash may remove only space, tab, CR, LF", src, im.Out, want),
				Broken: "theorem C13_only_ws / C04_chunks (implementation-only oracle)", Replay: map[string]any{"kind": "src", "src_hex": hx(src), "want_hex": hx(want), "got_hex": hx(im.Out), "class": im.Class}}) {
				break
			}
		}
	}
	// (b'') a backslash before every spelling of an opener: the text behind it (dash included) is literal — compared with
	// the model only (that the backslash itself is dropped is the recorded finding, which the model reproduces)
	for i := 0; i < e.N(150, 5000) && !r.Full(); i++ {
		var sb strings.Builder
		for k := 1 + rg.Intn(4); k > 0; k-- {
			sb.WriteString(pick(rg, []string{"a ", "", " x", "é"}))
			sb.WriteString(pick(rg, []string{"\\{{-", "\\{%-", "\\{#-", "\\{{", "\\{%", "\\{#", "\\{{- v -}}", "\\{%- if v -%}", "{{ v }}", "{{- v -}}", "{# c #}", "\\\\{{ v }}", "\\ {{ v }}"}))
			sb.WriteString(pick(rg, []string{" b", "", "-", " }}", "-}}"}))
		}
		src := sb.String()
		c := &Case{Templates: map[string]string{"main": src}, Main: "main", Ctx: map[string]any{"v": "V"}, FailAt: -1}
		if _, _, _, err := c04Compare(e, c, "render-model-c04", "correspondence render on escaped openers"); err != nil {
			return err
		}
		r.Seen("esc:"+src, true)
		r.Hit("escaped-openers")
	}
	// (g) random comment-shaped sources
	if err := commentShapedRandom(e); err != nil {
		return err
	}
	// (e) literal text around tags whose content the expression scanner only partly understands (c04_sloppy.go)
	if err := sloppyTagCases(e); err != nil {
		return err
	}
	// (f) templates held by the caller while the engine re-registers, parses and reconfigures (c04_held.go)
	heldTemplateCases(e)
	// (h) templates parsed by several goroutines at once keep their own text (c04_concurrent.go)
	concurrentParseCases(e)
	// (b3) literal text of a macro body, escaped openers included, is what the same text is at the top level
	for i := 0; i < e.N(60, 2000) && !r.Full(); i++ {
		var sb strings.Builder
		for k := 1 + rg.Intn(3); k > 0; k-- {
			sb.WriteString(pick(rg, []string{"a ", "Write ", "é", "{ ", "} "}))
			sb.WriteString(pick(rg, []string{"\\{{ v }}", "\\{{ v|upper }}", "\\{% if v %}", "\\{# v #}", "{{ v }}", "\\{{v}}", "\\{{ w }}"}))
			sb.WriteString(pick(rg, []string{" b", "", "!"}))
		}
		body := sb.String()
		top := renderSrc(body, map[string]any{"v": "ARG", "w": "W"})
		inMacro := renderSrc("{% macro m(v) %}"+body+"{% endmacro %}{{ m('ARG') }}|{{ _self.m('ARG') }}", map[string]any{"w": "W"})
		r.Seen("macro-text:"+body, true)
		r.Hit("macro-body-text")
		if top.Class != inMacro.Class || (top.Class == "" && inMacro.Out != top.Out+"|"+top.Out) {
			if r.Violate(Violation{Key: "chunks-not-exact", What: fmt.Sprintf("the text %q renders %q (%s) at the top level and %q (%s) as a macro body called twice", body, top.Out, top.Class, inMacro.Out, inMacro.Class),
				Broken: "theorem C04_chunks (literal text is emitted wherever it stands; implementation-only metamorphic oracle)",
				Replay: map[string]any{"kind": "src", "src": body, "top": top.Out, "in_macro": inMacro.Out}}) {
				break
			}
		}
	}
	// (d) verbatim bodies
	n = e.N(300, 10000)
	for i := 0; i < n && !r.Full(); i++ {
		body := genLit(rg, 8) + pick(rg, []string{"{{ secret }}", "{% if secret %}x{% endif %}", "{{ secret|upper }}", "{# c #}", "{{ spyfn() }}", "{% for i in secret %}{{ i }}{% endfor %}",
			"{% endraw %}{{ secret }}", "{% raw %}{{ secret }}{% endraw %}", "{% endverbatimx %}{{ secret }}", "{% end verbatim %}{{ secret }}", "{%endverbatim2%}{{ secret }}", "{% endapply %}{{ secret }}", "{% verbatim %}{{ secret }}"}) + genLit(rg, 8)
		vb := "{% verbatim %}" + body + "{% endverbatim %}"
		// wherever a verbatim block stands: top level, loop, block, macro body, included template
		switch rg.Intn(6) {
		case 1:
			vb = "{% for q in [1, 2] %}" + vb + "{% endfor %}"
		case 2:
			vb = "{% block b %}" + vb + "{% endblock %}"
		case 3:
			vb = "{% macro vm(secret) %}" + vb + "{% endmacro %}{{ vm('ARG') }}{{ _self.vm(secret) }}"
		case 4:
			vb = "{% if true %}" + vb + "{% endif %}{% apply upper %}x{% endapply %}"
		}
		src := genLit(rg, 5) + vb + genLit(rg, 5)
		c1 := &Case{Templates: map[string]string{"main": src}, Main: "main", Ctx: map[string]any{"secret": "S3CR3T"}, SpyFunctions: []string{"spyfn"}, FailAt: -1}
		c2 := &Case{Templates: map[string]string{"main": src}, Main: "main", Ctx: map[string]any{"secret": []interface{}{"zzTOPzz"}}, SpyFunctions: []string{"spyfn"}, FailAt: -1}
		i1, _, _, err := c04Compare(e, c1, "render-model-c04", "correspondence render on verbatim templates")
		if err != nil {
			return err
		}
		i2 := runImpl(c2)
		r.Seen("v:"+src, true)
		if i1.Class != i2.Class || i1.Out != i2.Out || strings.Contains(i1.Out, "S3CR3T") || strings.Contains(i2.Out, "zzTOPzz") || strings.Contains(i1.Out, "ARG") || len(i1.Spies)+len(i2.Spies) != 0 {
			if r.Violate(Violation{Key: "verbatim-evaluated", What: fmt.Sprintf("verbatim body of %q depends on the context or was evaluated", truncate(src, 80)),
				Broken: "theorem C04_verbatim_inert no longer describes the code (implementation-only oracle)",
				Replay: map[string]any{"kind": "src", "src_hex": hx(src), "out1": i1.Out, "out2": i2.Out, "class1": i1.Class, "class2": i2.Class}}) {
				break
			}
		}
	}
	// recorded finding: a backslash before an opener is swallowed and disables the tag
	for _, src := range []string{"a\\{{ b }}c", "x\\{% if y %}", "q\\{# c #}"} {
		res := renderSrc(src, map[string]any{"b": "B"})
		r.Seen("k:"+src, true)
		if res.Class != "" || res.Out != src {
			r.Violate(Violation{Key: "backslash-before-opener", What: fmt.Sprintf("%q renders %q: the backslash is dropped and the tag is not recognised", src, res.Out),
				Broken: "C04_text (a chunk ending in a backslash before a tag); see theorem C04_counterexample_backslash",
				Replay: map[string]any{"kind": "src", "src": src, "got": res.Out, "class": res.Class}})
		}
	}
	return nil
}
