package main

// c01SharedLibCorpus: templates that share a macro library, a layout or a partial, where the shared template holds
// every tag that writes into the render state (from-import and import with an alias named like a sibling macro, set of
// a name that a sibling reads, a macro defined next to a block, an include with variables). Each set is run through
// compareCase with the sampled oracles forced, so every template is also rendered as an entry point on the engine
// that rendered the others before (multiEntryOracle), twice, with other settings and with another context.
func c01SharedLibCorpus(e *Env) error {
	icons := `{% macro star(n) %}*{{ n }}*{% endmacro %}{% macro badge(t) %}icon-{{ t }}{% endmacro %}`
	sets := []map[string]string{
		{
			"icons": icons,
			"lib": `{% macro card(title) %}{% from "icons" import star as badge %}[{{ title }} {{ badge(1) }}]{% endmacro %}` +
				`{% macro badge(text) %}<{{ text }}>{% endmacro %}{% macro row(text) %}{{ badge(text) }};{% endmacro %}`,
			"main": `{% import "lib" as ui %}{{ ui.card("A") }}`,
			"rows": `{% import "lib" as ui %}{{ ui.row("x") }}{{ ui.badge("y") }}`,
		},
		{
			"icons": icons,
			"lib": `{% macro card(title) %}{% import "icons" as row %}[{{ title }} {{ row.star(2) }}]{% endmacro %}` +
				`{% macro row(text) %}r{{ text }};{% endmacro %}{% macro table(a) %}{{ row(a) }}{{ _self.row(a) }}{% endmacro %}`,
			"main": `{% from "lib" import card %}{{ card("B") }}`,
			"rows": `{% from "lib" import table, row %}{{ table(1) }}{{ row(2) }}`,
		},
		{
			"lib":  `{% macro a(x) %}{% set y = x ~ '!' %}{% set b = 'shadow' %}a{{ y }}{{ b }}{% endmacro %}{% macro b(x) %}b{{ x }}{{ y is defined ? 'leak' : '' }}{% endmacro %}{% macro c(x) %}{{ b(x) }}{{ a(x) }}{{ b(x) }}{% endmacro %}`,
			"main": `{% import "lib" as l %}{{ l.a(1) }}`,
			"rows": `{% import "lib" as l %}{{ l.c(2) }}{{ l.b(3) }}`,
		},
		{
			"lay":  `<{% block t %}T{% endblock %}|{% block body %}{% set v = 'lay' %}{{ v }}{% endblock %}|{{ v is defined ? v : 'U' }}>`,
			"main": `{% extends "lay" %}{% block t %}{% set v = 'main' %}{{ parent() }}{{ v }}{% endblock %}`,
			"rows": `{% extends "lay" %}{% block body %}rows{{ parent() }}{% endblock %}`,
			"solo": `{% include "lay" %}{% include "rows" %}`,
		},
		{
			"part": `({{ k|default('-') }}{% set k = 'part' %}{% macro m() %}pm{% endmacro %}{{ m() }})`,
			"main": `{% for k in [1, 2] %}{% include "part" %}{% endfor %}{% include "part" with {'k': 9} only %}`,
			"rows": `{% macro m() %}rm{% endmacro %}{% include "part" %}{{ m() }}{{ k is defined ? k : 'U' }}`,
		},
	}
	// lists reached through a global, the context, a set variable: every list filter applied to a sub-slice of them
	listOps := []string{"slice(0, 2)|merge(['more'])", "slice(1, 2)|merge(['x', 'y'])", "slice(0, 3)|sort", "slice(1)|reverse", "slice(0, 2)|merge(xs)", "merge(['z'])", "sort", "reverse", "slice(0, 1)|merge(['q'])|merge(['r'])"}
	var mainL, rowsL string
	for _, op := range listOps {
		mainL += "{{ menu|" + op + "|join(',') }};{{ xs|" + op + "|join(',') }};{% set l = xs|" + op + " %}{{ l|join(',') }};"
	}
	rowsL = "{{ menu|join(',') }}|{{ xs|join(',') }}|{{ menu|length }}{{ xs|last }}"
	sets = append(sets, map[string]string{"main": mainL + rowsL, "rows": rowsL})
	forceOracles = true
	defer func() { forceOracles = false }()
	for i, tp := range sets {
		for _, entry := range []string{"main", "rows"} {
			c := &Case{Templates: tp, Main: entry, Ctx: map[string]any{"n": 3, "s": "str", "xs": []interface{}{"d", "a", "c", "b", "e"}}, FailAt: -1,
				Globals: map[string]any{"menu": []interface{}{"home", "blog", "shop", "about"}}}
			if _, _, _, err := compareCase(e, c, "render-model-c01", "correspondence render on templates sharing a library, a layout or a partial"); err != nil {
				return err
			}
			e.Rep.Seen("shared-lib:"+entry+":"+tp[entry], true)
			_ = i
		}
	}
	return nil
}
