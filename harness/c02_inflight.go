package main

import (
	"bytes"
	"fmt"
	"sort"
	"strings"
	"sync"
	"sync/atomic"
	"time"

	"github.com/semihalev/twig"
)

// c02ManyInFlight (added after seeded change C02-N was missed): the other workloads keep 8–64 calls busy and each
// of them is inside a given template for microseconds, so state that lives on a SHARED object (a cached Template, a
// node, the engine, a pool) and grows with the number of calls that are inside it at the same moment — a nesting
// counter, a bounded table, a fixed ring of contexts, a semaphore — never leaves the range one call produces.
//
// Here hundreds (thorough: thousands) of calls are inside the same templates AT THE SAME TIME: user code stops each
// of them in the innermost template of a nest — a configured function, a configured filter, a method of a context
// value, or the io.Writer handed to RenderTo — and the nest is entered through every construct that renders another
// template (include, include with / only, include of an include, an include that legitimately includes itself a few
// levels deep, include inside for / apply, extends + block in both directions, a macro reached by import and by
// from … import) and through every API route (Render, RenderTo, Load + Template.Render, ParseTemplate +
// Template.Render). While all of them are in flight, every page is rendered once more by a call that is not
// stopped, and a fresh name is registered and rendered; then the stopped calls are released.
//
// Expected values: a twin engine with the same templates whose user code never stops, called serially beforehand
// with the same contexts. The property states that every call returns what it returns when the calls run one
// after another — in whatever number they overlap.

type c02Holder struct {
	arrived  int32
	finished int32
	block    bool
	release  chan struct{}
}

func (h *c02Holder) stop() {
	if h.block {
		atomic.AddInt32(&h.arrived, 1)
		<-h.release
	}
}

// c02Req is a context value whose method is slow for the stopped calls.
type c02Req struct {
	label string
	stop  bool
	h     *c02Holder
}

func (q *c02Req) Held() string {
	if q.stop {
		q.h.stop()
	}
	return q.label
}

// c02HoldWriter stops, once, when the text written so far contains the call's own label.
type c02HoldWriter struct {
	buf   bytes.Buffer
	label string
	h     *c02Holder
	done  bool
}

func (w *c02HoldWriter) Write(p []byte) (int, error) {
	w.buf.Write(p)
	if !w.done && bytes.Contains(w.buf.Bytes(), []byte(w.label)) {
		w.done = true
		w.h.stop()
	}
	return len(p), nil
}

func c02Truthy(v interface{}) bool {
	s := fmt.Sprint(v)
	return s != "0" && s != "" && s != "false" && s != "<nil>"
}

func c02InFlightEngine(h *c02Holder, config string, src map[string]string) (*twig.Engine, error) {
	eng := twig.New()
	eng.AddFunction("hold", func(args ...interface{}) (interface{}, error) {
		if len(args) > 1 && c02Truthy(args[1]) {
			h.stop()
		}
		if len(args) == 0 {
			return "", nil
		}
		return args[0], nil
	})
	eng.AddFilter("held", func(v interface{}, args ...interface{}) (interface{}, error) {
		if len(args) > 0 && c02Truthy(args[0]) {
			h.stop()
		}
		return v, nil
	})
	switch config {
	case "registered":
		names := make([]string, 0, len(src))
		for n := range src {
			names = append(names, n)
		}
		sort.Strings(names)
		for _, n := range names {
			if err := eng.RegisterString(n, src[n]); err != nil {
				return nil, fmt.Errorf("RegisterString(%q): %v", n, err)
			}
		}
	default:
		cp := map[string]string{}
		for k, v := range src {
			cp[k] = v
		}
		eng.RegisterLoader(twig.NewArrayLoader(cp))
		switch config {
		case "loader-cache-off":
			eng.SetCache(false)
		case "loader-auto-reload":
			eng.SetAutoReload(true)
		}
	}
	return eng, nil
}

// c02InFlightTemplates: for every way of stopping inside a template (mech) the nest of templates around it.
// Returns the sources and the entry pages.
func c02InFlightTemplates() (src map[string]string, pages []string, parsed []string) {
	src = map[string]string{}
	exprs := map[string]string{
		"fn":     "{{ hold(label, stop) }}",
		"filter": "{{ label|held(stop) }}",
		"method": "{{ req.Held }}",
		"plain":  "{{ label }}", // stopped by the writer (or not at all)
	}
	for _, m := range []string{"fn", "filter", "method", "plain"} {
		x := exprs[m]
		src["row_"+m] = "[" + x + "]"
		src["mid_"+m] = "({% include 'row_" + m + "' %})"
		src["tree_"+m] = "{% if d > 0 %}({{ d }}{% include 'tree_" + m + "' with {'d': d - 1} %}){% else %}" + x + "{% endif %}"
		src["layout_"+m] = "<L {% block body %}none{% endblock %} | {% block foot %}F:" + x + "{% endblock %}>"
		src["lib_"+m] = "{% macro cell(label, stop, req) %}[m:" + x + "]{% endmacro %}{% macro other(v) %}({{ v }}){% endmacro %}"
		add := func(kind, s string) {
			src[kind+"_"+m] = s
			pages = append(pages, kind+"_"+m)
		}
		add("inc", "<{% include 'row_"+m+"' %}>")
		add("incwith", "<{% include 'row_"+m+"' with {'extra': 1} %}>")
		add("inconly", "<{% include 'row_"+m+"' with {'label': label, 'stop': stop, 'req': req} only %}>")
		add("nested", "<{% include 'mid_"+m+"' %}>")
		add("rec", "<{% include 'tree_"+m+"' with {'d': depth} %}>")
		add("infor", "<{% for i in [1, 2] %}{{ i }}{% include 'row_"+m+"' %}{% endfor %}>")
		add("inapply", "<{% apply upper %}a{% include 'row_"+m+"' %}{% endapply %}>")
		add("extblock", "{% extends 'layout_"+m+"' %}{% block body %}B:"+x+"{% endblock %}{% block foot %}f{% endblock %}")
		add("extparent", "{% extends 'layout_"+m+"' %}{% block body %}B:{{ label }}{% endblock %}")
		add("extinc", "{% extends 'layout_"+m+"' %}{% block body %}{% include 'row_"+m+"' %}{% endblock %}{% block foot %}f{% endblock %}")
		add("macro", "{% import 'lib_"+m+"' as l %}<{{ l.cell(label, stop, req) }}{{ l.other(1) }}>")
		add("from", "{% from 'lib_"+m+"' import cell %}<{{ cell(label, stop, req) }}>")
		parsed = append(parsed, "<P{% include 'row_"+m+"' %}{% include 'mid_"+m+"' %}>")
	}
	return
}

func c02InFlightCtx(h *c02Holder, label string, stop bool, depth int) map[string]interface{} {
	s := 0
	if stop {
		s = 1
	}
	return map[string]interface{}{"label": label, "stop": s, "depth": depth, "req": &c02Req{label: label, stop: stop, h: h}}
}

// c02InFlightCall makes one call by one of the API routes; the page decides which user code stops it.
func c02InFlightCall(eng *twig.Engine, h *c02Holder, page string, parsedSrc string, route int, label string, stop bool, depth int) (out string, err error) {
	defer func() {
		if p := recover(); p != nil {
			err = fmt.Errorf("panic: %v", p)
		}
	}()
	plain := strings.HasSuffix(page, "_plain")
	ctx := c02InFlightCtx(h, label, stop && !plain, depth)
	if plain || route == 1 {
		// the writer stops the call (for the other pages it is an ordinary writer: the label has no stop then)
		w := &c02HoldWriter{label: label, h: h, done: !(stop && plain)}
		err = eng.RenderTo(w, page, ctx)
		return w.buf.String(), err
	}
	switch route {
	case 2:
		t, lerr := eng.Load(page)
		if lerr != nil {
			return "", lerr
		}
		return t.Render(ctx)
	case 3:
		t, perr := eng.ParseTemplate(parsedSrc)
		if perr != nil {
			return "", perr
		}
		return t.Render(ctx)
	}
	return eng.Render(page, ctx)
}

func c02ManyInFlight(col *c02Collector, tier string) {
	type plan struct {
		config   string
		inFlight int
	}
	plans := []plan{{"registered", 1600}, {"loader-cache-on", 800}, {"loader-cache-off", 400}}
	if tier == "thorough" {
		plans = []plan{{"registered", 6000}, {"loader-cache-on", 6000}, {"loader-auto-reload", 3000}, {"loader-cache-off", 3000}, {"registered", 300}}
	}
	const depth = 9
	src, pages, parsedSrcs := c02InFlightTemplates()
	perMech := len(pages) / len(parsedSrcs)
	for round, pl := range plans {
		if col.failed() {
			return
		}
		// serial reference: a twin whose user code never stops
		twinH := &c02Holder{}
		twin, err := c02InFlightEngine(twinH, pl.config, src)
		if err != nil {
			col.violate(c02Violation{Key: "in-flight-setup", What: err.Error()})
			return
		}
		serial := func(page, parsedSrc string, route int, label string) (string, bool) {
			o1, e1 := c02InFlightCall(twin, twinH, page, parsedSrc, route, label, true, depth)
			o2, e2 := c02InFlightCall(twin, twinH, page, parsedSrc, route, label, true, depth)
			if e1 != nil || e2 != nil || o1 != o2 || !strings.Contains(o1, label) {
				col.mu.Lock()
				col.res.Skips["in-flight-serial-reference-unusable:"+page]++
				col.mu.Unlock()
				return "", false
			}
			return o1, true
		}
		type call struct {
			page, parsedSrc, label, want string
			route                        int
			out                          string
			err                          error
		}
		var calls []*call
		for g := 0; len(calls) < pl.inFlight && g < 4*pl.inFlight; g++ {
			c := &call{page: pages[g%len(pages)], route: (g / len(pages)) % 4, label: fmt.Sprintf("«SLOW%d»", g)}
			c.parsedSrc = parsedSrcs[(g%len(pages))/perMech]
			if want, ok := serial(c.page, c.parsedSrc, c.route, c.label); ok {
				c.want = want
				calls = append(calls, c)
			}
		}
		if len(calls) < pl.inFlight/2 {
			col.mu.Lock()
			col.res.Notes = append(col.res.Notes, "many-in-flight: too few usable pages in config "+pl.config)
			col.mu.Unlock()
			continue
		}
		h := &c02Holder{block: true, release: make(chan struct{})}
		eng, err := c02InFlightEngine(h, pl.config, src)
		if err != nil {
			col.violate(c02Violation{Key: "in-flight-setup", What: err.Error()})
			return
		}
		var wg sync.WaitGroup
		for _, c := range calls {
			wg.Add(1)
			go func(c *call) {
				defer wg.Done()
				c.out, c.err = c02InFlightCall(eng, h, c.page, c.parsedSrc, c.route, c.label, true, depth)
				atomic.AddInt32(&h.finished, 1)
			}(c)
		}
		// until every call is stopped inside its innermost template (or is over: wrongly, or because the engine
		// handed the text to the writer only after the render)
		deadline := time.Now().Add(20 * time.Second)
		for int(atomic.LoadInt32(&h.arrived)+atomic.LoadInt32(&h.finished)) < len(calls) && time.Now().Before(deadline) {
			time.Sleep(200 * time.Microsecond)
		}
		stopped := int(atomic.LoadInt32(&h.arrived))
		base := map[string]any{"kind": "many-in-flight", "round": round, "config": pl.config, "calls_in_flight": len(calls), "stopped_inside_templates": stopped, "depth": depth}
		mk := func(extra map[string]any) map[string]any {
			m := map[string]any{}
			for k, v := range base {
				m[k] = v
			}
			for k, v := range extra {
				m[k] = v
			}
			return m
		}
		report := func(when string, c *call) {
			route := []string{"Render", "RenderTo", "Load+Template.Render", "ParseTemplate+Template.Render"}[c.route]
			if strings.HasSuffix(c.page, "_plain") {
				route = "RenderTo"
			}
			tpl := c.page
			source := src[c.page]
			if c.route == 3 && route != "RenderTo" {
				tpl, source = "(parsed)", c.parsedSrc
			}
			col.violate(c02Violation{Key: "many-in-flight-differs",
				What: fmt.Sprintf("%s(%q) %s (%d calls, %d of them stopped by user code inside the templates it uses; config %s) returned %q (%v); the same call made serially returns %q",
					route, tpl, when, len(calls), stopped, pl.config, truncate(c.out, 120), c.err, truncate(c.want, 120)),
				Replay: mk(map[string]any{"call": route, "template": tpl, "source": source, "label": c.label, "when": when, "got": c.out, "error": fmt.Sprint(c.err), "expected": c.want,
					"templates": src})})
		}
		// while they are in flight: every page once more, by every route, not stopped
		extra := 0
		for i, page := range pages {
			if col.failed() {
				break
			}
			for route := 0; route < 4; route++ {
				c := &call{page: page, parsedSrc: parsedSrcs[i/perMech], route: route, label: fmt.Sprintf("«QUICK%d.%d»", i, route)}
				want, ok := serial(c.page, c.parsedSrc, c.route, c.label)
				if !ok {
					continue
				}
				c.want = want
				c.out, c.err = c02InFlightCall(eng, h, c.page, c.parsedSrc, c.route, c.label, false, depth)
				extra++
				col.seen(fmt.Sprintf("in-flight-extra|%s|%s|%d", pl.config, page, route))
				if c.err != nil || c.out != c.want {
					report("made while the other calls were in flight", c)
					break
				}
			}
		}
		// … and a fresh name is registered and rendered
		for _, m := range []string{"fn", "filter", "method", "plain"} {
			name := "fresh_" + m
			err := eng.RegisterString(name, "{fresh:{% include 'row_"+m+"' %}{% include 'tree_"+m+"' with {'d': 2} %}}")
			c := &call{page: name, label: "«FRESH-" + strings.ToUpper(m) + "»"}
			if twin.RegisterString(name, "{fresh:{% include 'row_"+m+"' %}{% include 'tree_"+m+"' with {'d': 2} %}}") != nil {
				continue
			}
			want, ok := serial(name, "", 0, c.label)
			if !ok {
				continue
			}
			c.want = want
			if err == nil {
				c.out, c.err = c02InFlightCall(eng, h, name, "", 0, c.label, false, depth)
			} else {
				c.err = err
			}
			col.seen("in-flight-fresh|" + pl.config + "|" + m)
			if c.err != nil || c.out != c.want {
				report("registered and made while the other calls were in flight", c)
			}
		}
		close(h.release)
		wg.Wait()
		for _, c := range calls {
			col.seen(fmt.Sprintf("in-flight|%s|%s|%d", pl.config, c.page, c.route))
			if c.err != nil || c.out != c.want {
				report("among overlapping calls", c)
				break
			}
		}
		col.mu.Lock()
		col.res.Hits["many-in-flight-rounds"]++
		col.res.Hits["many-in-flight-calls"] += len(calls) + extra
		col.res.Hits["many-in-flight-stopped-inside"] += stopped
		if stopped < len(calls)*3/4 {
			col.res.Notes = append(col.res.Notes, fmt.Sprintf("many-in-flight %s: only %d of %d calls were stopped inside a template at the same time", pl.config, stopped, len(calls)))
		}
		col.mu.Unlock()
	}
}
