package main

import (
	"fmt"
	"math/rand"
	"strings"
)

// C17, stored calls — a macro call is a value: it can be assigned, put into a list or a hash, chosen by a conditional
// expression, handed to another macro or to an included template, and is printed somewhere else (once, several times,
// in a loop, in a filtered section, or never). Whatever the engine does with such a value between the place where it
// is written and the place where it is printed (render it early, render it twice, keep it for later), the statement of
// C17 is about INVOCATIONS: when the n-th invocation of a callback fails, the render fails with that cause and "".
//
// For every generated program a dry run counts the spy invocations; then every invocation fails in turn. The oracle is
// implementation-only and does not depend on the dry run being repeatable: the recorded invocations of the failing run
// say whether invocation n was made, and if it was, Render must return "" and an error through which the sentinel of
// invocation n is found. (The model has no stored-call values.)

// storedBodies: macro bodies with a callback of every kind, a default argument that invokes callbacks, nested
// structure and a nested template.
var storedBodies = []string{
	"({{ a|sf1 }}{{ sg1(a) }}{{ d }})",
	"({% if a is st1 %}{{ a }}{% endif %}{{ d|sf2 }})",
	"({% for q in [1, 2] %}{{ sg1(q) }}{% endfor %}{{ d }})",
	"({{ a }}{% include 'partial' %}{{ d }})",
	"({% set t = sg1(a)|sf1 %}{{ t }}{{ d }})",
	"({% apply sf2 %}{{ a }}{% endapply %}{{ sg1(1) }}{{ d }})",
}

// storedShapes: %[1]s is the macro call, every shape stores it somewhere and prints it somewhere else.
var storedShapes = []struct{ name, src string }{
	{"set-print", "{% set b = %[1]s %}-{{ b }}"},
	{"set-print-twice", "{% set b = %[1]s %}{{ b }}+{{ b }}"},
	{"set-print-in-loop", "{% set b = %[1]s %}{% for v in [1, 2] %}{{ b }}{% endfor %}"},
	{"set-in-loop-print-inside", "{% for v in [1, 2] %}{% set b = %[1]s %}{{ b }}{% endfor %}"},
	{"set-in-if-print", "{% if true %}{% set b = %[1]s %}{{ b }}{% endif %}"},
	{"set-print-in-apply", "{% set b = %[1]s %}{% apply sf1 %}{{ b }}{% endapply %}"},
	{"set-print-in-block", "{% set b = %[1]s %}{% block stored %}{{ b }}{% endblock %}"},
	{"set-copy-print", "{% set b = %[1]s %}{% set b2 = b %}{{ b2 }}"},
	{"set-two-print-reversed", "{% set b = %[1]s %}{% set c2 = %[1]s %}{{ c2 }}{{ b }}"},
	{"set-never-printed", "{% set b = %[1]s %}{{ sg1(0) }}"},
	{"set-overwritten", "{% set b = %[1]s %}{% set b = sg1(0) %}{{ b }}"},
	{"set-conditional", "{% set b = true ? %[1]s : 'n' %}{{ b }}"},
	{"print-conditional", "{{ s ? %[1]s : 'n' }}"},
	{"list-item", "{% set l = [%[1]s, 'x'] %}{{ l[0] }}"},
	{"list-loop", "{% for v in [%[1]s, %[1]s] %}{{ v }}{% endfor %}"},
	{"hash-value", "{% set h = {'k': %[1]s} %}{{ h.k }}"},
	{"macro-argument", "{{ W.wrap(%[1]s) }}"},
	{"set-macro-argument", "{% set b = %[1]s %}{{ W.wrap(b) }}"},
	{"include-with", "{% include 'show' with {'v': %[1]s} %}"},
	{"set-include", "{% set b = %[1]s %}{% include 'show' with {'v': b} only %}"},
	{"direct", "{{ %[1]s }}"},
}

func storedCallsOracle(e *Env) error {
	r := e.Rep
	rg := rand.New(rand.NewSource(e.Seed*7919 + 17))
	n := e.N(3, 60)
	for round := 0; round < n && !r.Full(); round++ {
		for si, shape := range storedShapes {
			body := storedBodies[(si+round+rg.Intn(2))%len(storedBodies)]
			deflt := pick(rg, []string{"sg1(2)|sf1", "'lit'", "sg1(3)"})
			tpls := map[string]string{
				"partial": "<{{ n|sf2 }}{% if s is st1 %}y{% endif %}>",
				"show":    "[{{ v }}]",
				"wrap":    "{% macro wrap(v) %}<{{ v }}{{ sg1('w') }}>{% endmacro %}",
				"lib":     "{% macro mac(a, d = " + deflt + ") %}" + body + "{% endmacro %}",
			}
			arg := pick(rg, []string{"s", "n", "'x'", "sg1(9)", "s|sf2"})
			var head, call string
			switch rg.Intn(3) {
			case 0:
				head, call = "{% import 'lib' as L %}", "L.mac("+arg+")"
			case 1:
				head, call = "{% from 'lib' import mac as mm %}", "mm("+arg+")"
			default:
				head, call = "{% from 'lib' import mac %}", "mac("+arg+")"
			}
			head += "{% import 'wrap' as W %}"
			g := NewGen(rg)
			ctx := g.BaseCtx()
			g.Filters = []string{"sf1", "sf2"}
			g.Functions = []string{"sg1"}
			pre := plainTpl.nodes(g.Body(1, BodyOpts{Includes: []string{"partial"}}))
			post := plainTpl.nodes(g.Body(1, BodyOpts{Includes: []string{"partial"}}))
			tpls["main"] = head + pre + strings.ReplaceAll(shape.src, "%[1]s", call) + post
			c := &Case{Templates: tpls, Main: "main", Ctx: ctx, SpyFilters: []string{"sf1", "sf2"}, SpyFunctions: []string{"sg1"}, SpyTests: []string{"st1"}, FailAt: -1}
			dry := runImpl(c)
			if dry.Class != "" {
				r.Seen("stored-dry:"+shape.name+":"+tpls["main"], false)
				r.Hit("stored-dry-fails:" + shape.name)
				continue
			}
			total := len(dry.Spies)
			r.Hit("stored:" + shape.name)
			for k := 0; k < total+2 && !r.Full(); k++ {
				cf := *c
				cf.FailAt = k
				if (k+si+round)%2 == 1 {
					// every other failing run goes through another top-level entry point / writer kind (c17_routes.go)
					cf.Route = nextRoute()
				}
				im := runImpl(&cf)
				made := len(im.Spies) > k
				r.Seen(fmt.Sprintf("stored:%s:%d:%s", shape.name, k, tpls["main"]), made)
				if !made {
					if im.Class != "" {
						r.Violate(Violation{Key: "stored-call-spurious-failure", What: fmt.Sprintf("%s: no callback invocation failed (invocation %d was never made) but Render fails: %s", shape.name, k, truncate(im.Msg, 160)),
							Broken: "theorem C17_propagates (stored macro calls; implementation-only oracle)", Replay: cf.replay(im, Outcome{})})
					}
					continue
				}
				if im.Class == "" || im.Out != "" || !sameInts(im.Causes, []int{k}) {
					if r.Violate(Violation{Key: "stored-call-failure-swallowed", What: fmt.Sprintf("%s: spy invocation %d (%v) of %d made during the render failed, but %s returns %q, class %q, causes %v (invocations made: %d)", shape.name, k, im.Spies[k], total, routeName(cf.Route), truncate(im.Out, 80), im.Class, im.Causes, len(im.Spies)),
						Broken: "theorem C17_propagates no longer describes the code (stored macro calls; implementation-only oracle: errors.As on the sentinel)", Replay: cf.replay(im, Outcome{})}) {
						return nil
					}
				}
			}
		}
	}
	return nil
}
