//go:build !race

package main

const c02RaceBuild = false
