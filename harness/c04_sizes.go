package main

import (
	"fmt"
	"strings"
)

// C04 (i) — what a template's literal text renders to does not depend on the SIZE of the template.
//
// The engine has two text scanners and chooses between them by the length of the source (the one for "large"
// templates finds tags with its own position arithmetic: width of every delimiter spelling, where the content of a
// tag starts and ends, where the text behind the closing delimiter begins). The property quantifies over every
// template source, so it holds on both sides of whatever threshold the parser uses, and in particular
//
//	render(S + F) = render(S) + F      and      render(F + S) = F + render(S)
//
// for every accepted source S without an extends tag and every plain literal text F that begins and ends with a byte
// that is neither whitespace nor part of a delimiter (so nothing of S can trim, escape or join it).
//
// c04SizeOracle applies this to a case that has just been rendered (and compared with the Lean model): the main
// template is padded with F behind it and in front of it, to total lengths on both sides of 4096 (4096, 4097) and
// well above it. Expected value: the direct render of the unpadded case plus the filler — never a padded render.
// The runner calls it for every generated C04 case (c04Compare) and for the comment-shaped corpus.
//
// c04SizeSweep is the deterministic part, the same on every seed: every spelling of a tag delimiter (plain, dashed on
// either side, without inner spaces, block tags, comments) with every neighbouring byte class directly in front of
// and directly behind it (nothing, letter, '<', a multi-byte character, a lone continuation byte, NUL, lone delimiter
// bytes, a dash, each kind of trimmable whitespace, another tag), as a small template and as a large one padded
// behind and in front. Expected value: computed in Go from the pieces (chunks, values, "a dash removes space, tab,
// CR, LF next to it and nothing else").

// c04Filler returns exactly n bytes (n >= 2) of literal text: begins with '<', ends with '>', holds line breaks and
// multi-byte characters, no brace, percent sign, hash or backslash.
func c04Filler(n int) string {
	if n < 2 {
		n = 2
	}
	const unit = "li>filler é</li>\n<"
	var sb strings.Builder
	sb.WriteByte('<')
	for sb.Len() < n {
		sb.WriteString(unit)
	}
	s := sb.String()[:n-1]
	return s + ">"
}

// totals a padded template is brought to: the last length of the small-template path, the first of the large one, one well above
var c04PadTotals = []int{4096, 4097, 5200}

type c04Padded struct {
	name       string
	src, want  string
	fillerSize int
}

// c04PaddedForms: src padded behind (every total) and in front (the totals above the threshold)
func c04PaddedForms(src, out string) []c04Padded {
	var forms []c04Padded
	for _, total := range c04PadTotals {
		n := total - len(src)
		if n < 2 {
			continue
		}
		f := c04Filler(n)
		forms = append(forms, c04Padded{fmt.Sprintf("followed by %d bytes of plain text (template of %d bytes)", n, total), src + f, out + f, n})
		if total > 4096 {
			forms = append(forms, c04Padded{fmt.Sprintf("preceded by %d bytes of plain text (template of %d bytes)", n, total), f + src, f + out, n})
		}
	}
	return forms
}

var c04SizeTick int

// c04SizeOracle: see above. every = 1 runs it on every call, k on every k-th.
func c04SizeOracle(e *Env, c *Case, im Outcome, every int) {
	r := e.Rep
	src, ok := c.Templates[c.Main]
	if !ok || im.Class == "panic" || im.Class == "timeout" || c.Policy != nil || c.FailAt >= 0 || c.Config != "" || c.Route != nil || c.Globals != nil {
		return
	}
	if strings.Contains(src, "extends") || len(src) > 4000 {
		return // text outside the blocks of an extending template is not rendered; large cases are large already
	}
	if im.Class != "" {
		return // a rejected source has no output to compare (which sources are rejected is the subject of (e))
	}
	c04SizeTick++
	if every > 1 && c04SizeTick%every != 0 {
		return
	}
	forms := c04PaddedForms(src, im.Out)
	if !e.Thorough() && c04SizeTick%4 != 0 && len(forms) > 3 {
		forms = forms[:3] // quick tier: the two lengths next to the threshold; the larger one for every fourth case
	}
	// one engine for the case; the main template is registered again in every padded form
	failed := -1
	res := guarded(func() (string, error) {
		eng := c04Engine(c)
		for _, n := range sortedKeys(c.Templates) {
			if n == c.Main {
				continue
			}
			if err := eng.RegisterString(n, c.Templates[n]); err != nil {
				return "", fmt.Errorf("parsing error: %w", err)
			}
		}
		for i, f := range forms {
			failed = i
			if err := eng.RegisterString(c.Main, f.src); err != nil {
				return "", fmt.Errorf("parsing error: %w", err)
			}
			ctx, _ := deepCopy(map[string]interface{}(c.Ctx)).(map[string]interface{})
			out, err := eng.Render(c.Main, ctx)
			if err != nil || out != f.want {
				return out, err
			}
		}
		failed = -1
		return "", nil
	})
	r.Dist["size-independence"] += len(forms)
	if failed < 0 && res.Class == "" {
		return
	}
	if failed < 0 {
		failed = 0
	}
	f := forms[failed]
	cls := mapClass(res.Class)
	msg := ""
	if res.Err != nil {
		msg = res.Err.Error()
	}
	at := c04FirstDiff(res.Out, f.want)
	rp := c.replay(im, Outcome{Out: res.Out, Class: cls, Msg: msg, Panic: res.Panic})
	rp["kind"] = "size"
	rp["padded"] = rp["model"] // the second outcome is the padded template's, not the model's
	delete(rp, "model")
	delete(rp, "request")
	rp["padding"] = f.name
	rp["filler_hex"] = hx(c04Filler(f.fillerSize))
	rp["src_hex"] = hx(src)
	rp["padded_src_hex"] = hx(f.src)
	rp["want_hex"] = hx(f.want)
	rp["got_hex"] = hx(res.Out)
	rp["first_difference_at"] = at
	r.Violate(Violation{Key: "template-size-changes-literal-text",
		What: fmt.Sprintf("the source %q renders %q alone, but %s it renders %s instead of the same output with the plain text next to it (%s %s)",
			truncate(src, 160), truncate(im.Out, 160), f.name, c04Around(res.Out, f.want, at), cls, truncate(msg, 100)),
		Broken: "theorem C04_chunks / C04_output_render: every byte outside the delimiters appears exactly once, unmodified and in order — for every template source, so also when more literal text stands behind or in front of it (implementation-only metamorphic oracle; expected value = render of the short source, compared with the Lean model, plus the filler)",
		Replay: rp})
}

func c04FirstDiff(a, b string) int {
	n := len(a)
	if len(b) < n {
		n = len(b)
	}
	for i := 0; i < n; i++ {
		if a[i] != b[i] {
			return i
		}
	}
	return n
}

// c04Around shows got and want around their first difference
func c04Around(got, want string, at int) string {
	cut := func(s string) string {
		lo, hi := at-24, at+24
		if lo < 0 {
			lo = 0
		}
		if hi > len(s) {
			hi = len(s)
		}
		if lo > hi {
			lo = hi
		}
		return s[lo:hi]
	}
	return fmt.Sprintf("…%q… where …%q… is expected (byte %d; lengths %d and %d)", cut(got), cut(want), at, len(got), len(want))
}

// --- the deterministic sweep --------------------------------------------------------------------------------------

type c04Tag struct {
	src          string
	val          string // what the tag itself contributes
	trimL, trimR bool
}

// every delimiter spelling; v = "V", w = "W", t = true
var c04Tags = []c04Tag{
	{"{{ v }}", "V", false, false}, {"{{- v }}", "V", true, false}, {"{{ v -}}", "V", false, true}, {"{{- v -}}", "V", true, true},
	{"{{v}}", "V", false, false}, {"{{-v-}}", "V", true, true}, {"{{v -}}", "V", false, true}, {"{{ v\n-}}", "V", false, true},
	{"{{ v|upper -}}", "V", false, true}, {"{{ '-' ~ v -}}", "-V", false, true}, {"{{ \"-\" -}}", "-", false, true},
	{"{% set s = v %}", "", false, false}, {"{%- set s = v %}", "", true, false}, {"{% set s = v -%}", "", false, true}, {"{%- set s = v -%}", "", true, true},
	{"{%set s = v-%}", "", false, true},
	{"{% if t -%}", "", false, true}, // closed by the separator below
	{"{% if t %}y{% endif -%}", "y", false, true}, {"{% if t -%}y{%- endif -%}", "y", false, true}, {"{% for i in [1, 2] -%}{{ i -}}{% endfor -%}", "12", false, true},
}

// what stands directly in front of a tag (no '{' and no backslash: they would change what the opener is)
var c04Before = []string{"", "x", ">", "é", "\x80", "\x00", "}", "-", "%", "#", " ", "\n", "\t", "\r", " \t\r\n ", "x ", "{{ w }}", "{{ w -}}", "{# c #}"}

// what stands directly behind a tag
var c04After = []string{"", "x", "<", "é", "世", "\x80", "\x00", "{", "{ {", "}", "}}", "-", "%", "%}", "#", "\\", " ", "\n", "\t", "\r", " \t\r\n ", " x", "{{ w }}", "{{- w }}", "{# c #}", "{% if t %}z{% endif %}"}

// c04PieceOut: what a neighbour piece renders to
func c04PieceOut(p string) string {
	switch p {
	case "{{ w }}", "{{ w -}}", "{{- w }}":
		return "W"
	case "{# c #}":
		return ""
	case "{% if t %}z{% endif %}":
		return "z"
	}
	return p
}

func c04SizeSweep(e *Env) error {
	r := e.Rep
	ctx := map[string]any{"v": "V", "w": "W", "t": true}
	k := 0
	for _, tag := range c04Tags {
		for _, b := range c04Before {
			for _, a := range c04After {
				if r.Full() {
					return nil
				}
				k++
				if !e.Thorough() && b != "" && a != "" && k%7 != 0 {
					continue // quick tier: every neighbour with nothing on the other side, a seventh of the pairs
				}
				// "A" and "Z" keep the neighbours away from the ends of the source. A neighbour that is a tag has no
				// whitespace of its own and its dash finds no text between itself and the tag under test.
				left, right := "A"+b, a+"Z"
				wantL, wantR := "A"+c04PieceOut(b), c04PieceOut(a)+"Z"
				if tag.src == "{% if t -%}" {
					right += "{% endif %}"
				}
				if tag.trimL {
					wantL = trimWsRight(wantL)
				}
				if tag.trimR {
					wantR = trimWsLeft(wantR)
				}
				src := left + tag.src + right
				want := wantL + tag.val + wantR
				c := &Case{Templates: map[string]string{"main": src}, Main: "main", Ctx: ctx, FailAt: -1}
				var im Outcome
				if k%6 == 0 {
					var err error
					im, _, _, err = compareCase(e, c, "render-model-c04", "correspondence render (Lean pipeline vs real engine) on delimiters next to every byte class")
					if err != nil {
						return err
					}
				} else {
					im = runImpl(c)
					lastEngine = nil
				}
				r.Seen("sz:"+src, true)
				r.Hit("delimiter-neighbour-sweep")
				if im.Class != "" || im.Out != want {
					if r.Violate(Violation{Key: "chunks-not-exact", What: fmt.Sprintf("%q renders %q (%s), expected %q: the text next to a delimiter is emitted exactly, a dash removes only the whitespace next to it", src, im.Out, im.Class, want),
						Broken: "theorem C04_chunks / C13_only_ws (expected value computed in Go from the pieces)",
						Replay: map[string]any{"kind": "src", "src": src, "src_hex": hx(src), "want_hex": hx(want), "got_hex": hx(im.Out), "class": im.Class}}) {
						return nil
					}
					continue
				}
				c04SizeOracle(e, c, Outcome{Out: want}, 1)
			}
		}
	}
	return nil
}
