package main

import (
	"errors"
	"fmt"
	"sort"
	"strconv"
	"strings"

	"github.com/semihalev/twig"
)

// C15 over (1) the CONTENT a loader holds for a name and (2) the loader IMPLEMENTATION that holds it.
//
// The histories of c15.go are about versions; which text stands for a version, and which code keeps the texts, is a
// "world" the same history can be played in:
//
//   backing  map    the harness map answers Load / Exists itself (what c15.go always did)
//            array  every loader keeps its sources in the library's twig.ArrayLoader (SetTemplate on every put, a
//                   NewArrayLoader over the remaining sources after a removal); the harness loader around it only
//                   counts the calls and reports the modification times
//            chain  the same ArrayLoader behind a twig.ChainLoader whose first member is an ArrayLoader without
//                   any name (NewChainLoader + AddLoader)
//   odd      some versions do not stand for the text "v<k>" but for a text of an unusual kind: the empty template,
//            blank-only templates, a template that is only a comment, the texts "0" / "false" / "null", a template
//            beyond 4096 bytes. Within one world every version still renders to a text of its own, so "which
//            version was served" stays observable.
//
// The property's sentences do not mention the content: whatever the text, the name is in the loader, the first loader
// that has the name wins, and a name is not found only if no loader has it. So the expected values are the unchanged
// ones: EngineCache.step / Spec.expected (Lean) on the version numbers and the six sentences checked in ecImpl.call.
// One more implementation-only oracle sits directly on the library's loader (loaderTruth): after every change of a
// loader's content, Load gives for every name exactly the text most recently put (nil error) or an error matching
// ErrTemplateNotFound, and Exists says the same.

type ecWorld struct {
	backing int              // 0 map, 1 array, 2 chain
	odd     map[int64]string // version -> source, for the versions that are not "v<k>"
}

var ecBackings = []string{"map", "array", "chain"}

// ecOddPool: (source, what it renders to). Entries 0 and 4 render alike; ecOddWindow never puts both in one world.
var ecOddPool = [][2]string{
	{"", ""},
	{" ", " "},
	{"0", "0"},
	{"\n", "\n"},
	{"{# only a comment #}", ""},
	{"false", "false"},
	{"\t \r\n", "\t \r\n"},
	{"{#" + strings.Repeat("~", 5000) + "#}big", "big"},
	{"null", "null"},
}

func ecOddRendered(src string) string {
	for _, p := range ecOddPool {
		if p[0] == src {
			return p[1]
		}
	}
	return src
}

func (w ecWorld) backingName() string { return ecBackings[w.backing%len(ecBackings)] }

func (w ecWorld) src(v int64) string {
	if s, ok := w.odd[v]; ok {
		return s
	}
	return ecTag(v)
}

// parse: which version a rendered output stands for
func (w ecWorld) parse(out string) int64 {
	for v, s := range w.odd {
		if ecOddRendered(s) == out {
			return v
		}
	}
	return ecParseTag(out)
}

func (w ecWorld) oddJSON() map[string]any {
	m := map[string]any{}
	for v, s := range w.odd {
		m[strconv.FormatInt(v, 10)] = s
	}
	return m
}

// usedBy: the same world without the odd versions the history never mentions
func (w ecWorld) usedBy(ops []ecOp) ecWorld {
	u := ecWorld{backing: w.backing}
	for _, o := range ops {
		var v int64 = -1
		switch {
		case o.Tag == "put" && len(o.A) > 2:
			v = o.A[2]
		case (o.Tag == "regstr" || o.Tag == "regtpl") && len(o.A) > 1:
			v = o.A[1]
		}
		if s, ok := w.odd[v]; ok {
			if u.odd == nil {
				u.odd = map[int64]string{}
			}
			u.odd[v] = s
		}
	}
	return u
}

func (w ecWorld) String() string {
	if w.backing == 0 && len(w.odd) == 0 {
		return ""
	}
	var vs []int64
	for v := range w.odd {
		vs = append(vs, v)
	}
	sort.Slice(vs, func(i, j int) bool { return vs[i] < vs[j] })
	s := "[" + w.backingName()
	for _, v := range vs {
		s += fmt.Sprintf(" v%d=%.12q", v, w.odd[v])
	}
	return s + "] "
}

func ecWorldFromReplay(doc map[string]any) ecWorld {
	w := ecWorld{}
	if b, ok := doc["backing"].(string); ok {
		for i, n := range ecBackings {
			if n == b {
				w.backing = i
			}
		}
	}
	if odd, ok := doc["odd"].(map[string]any); ok && len(odd) > 0 {
		w.odd = map[int64]string{}
		for k, v := range odd {
			n, err := strconv.ParseInt(k, 10, 64)
			s, isStr := v.(string)
			if err == nil && isStr {
				w.odd[n] = s
			}
		}
	}
	return w
}

// back gives a new harness loader the backing this world calls for.
func (w ecWorld) back(l *ecLoader) {
	switch w.backing % len(ecBackings) {
	case 1:
		l.rebuild(false)
	case 2:
		l.rebuild(true)
	}
}

// rebuild: a new ArrayLoader over the sources the loader holds now (the library has no way to take a name out)
func (l *ecLoader) rebuild(chain bool) {
	m := map[string]string{}
	for n, f := range l.files {
		m[n] = f.src
	}
	l.arr, l.chain = twig.NewArrayLoader(m), chain
	if chain {
		c := twig.NewChainLoader(nil)
		c.AddLoader(twig.NewArrayLoader(map[string]string{}))
		c.AddLoader(l.arr)
		l.lib = c
	} else {
		l.lib = l.arr
	}
}

func (l *ecLoader) put(name string, f ecFile) {
	l.files[name] = f
	if l.arr != nil {
		l.arr.SetTemplate(name, f.src)
	}
}

func (l *ecLoader) del(name string) {
	_, had := l.files[name]
	delete(l.files, name)
	if l.arr != nil && had {
		l.rebuild(l.chain)
	}
}

func (x *ecImpl) pend(format string, a ...any) {
	x.pending = append(x.pending, fmt.Sprintf(format, a...))
}

// loaderTruth: the library loader behind loader i answers for every name what was most recently put there.
func (x *ecImpl) loaderTruth(i int) {
	l := x.loaders[i]
	if l.lib == nil {
		return
	}
	for k := int64(0); k < ecNames; k++ {
		name := ecName(k)
		f, has := l.files[name]
		src, err := l.lib.Load(name)
		exists := l.lib.Exists(name)
		switch {
		case has && (err != nil || src != f.src || !exists):
			x.pend("loader: %s loader %d was given %q for %s; Load = %q, %v; Exists = %v", x.w.backingName(), i, f.src, name, src, err, exists)
		case !has && (!errors.Is(err, twig.ErrTemplateNotFound) || exists):
			x.pend("loader: %s loader %d has nothing for %s; Load = %q, %v; Exists = %v", x.w.backingName(), i, name, src, err, exists)
		}
	}
}

// ecOddWindow: versions vs[0..] stand for up to four consecutive pool entries starting at rot (consecutive entries
// never render alike).
func ecOddWindow(rot int, vs []int64) map[int64]string {
	odd := map[int64]string{}
	for i, v := range vs {
		if i >= 4 {
			break
		}
		odd[v] = ecOddPool[(rot+i)%len(ecOddPool)][0]
	}
	return odd
}

func ecRandomWorld(e *Env) ecWorld {
	rng := e.Rng
	w := ecWorld{}
	if rng.Intn(2) == 0 {
		w.backing = 1 + rng.Intn(2)
	}
	if rng.Intn(2) == 0 {
		// random histories number their versions 2, 3, … in order of appearance
		var vs []int64
		for k := 1 + rng.Intn(4); k > 0; k-- {
			v := int64(2 + rng.Intn(14))
			dup := false
			for _, u := range vs {
				dup = dup || u == v
			}
			if !dup {
				vs = append(vs, v)
			}
		}
		w.odd = ecOddWindow(rng.Intn(len(ecOddPool)), vs)
	}
	if rng.Intn(3) == 0 {
		c15BreakSome(e, &w) // versions that do not parse / cannot be rendered (c15_broken.go)
	}
	return w
}

// ecContentSweep: the deterministic part. Every backing × every rotation of the pool over the versions the pinned
// histories and the exhaustive words use (1–4 and 9–12: the corpus uses 1…9, ecInstantiate 1 for the first copy and
// 10+position afterwards), played on (a) the regression corpus with its pinned answers and (b) every word of
// length ≤ 2 (≤ 3 for the first rotation of each backing) from the three loader setups.
func ecContentSweep(e *Env) (bool, error) {
	r := e.Rep
	corpus := ecCorpus()
	setups := ecSetups()
	total := 0
	for backing := range ecBackings {
		for rot := range ecOddPool {
			// two windows: the low versions and the versions of the exhaustive words; they must not render alike either
			odd := ecOddWindow(rot, []int64{1, 2, 3, 4})
			if !e.Thorough() && rot%2 == 1 && backing == 0 {
				continue // the harness map stores any text alike: half the rotations in the quick tier
			}
			for v, s := range ecOddWindow(rot+5, []int64{10, 11}) {
				clash := false
				for _, t := range odd {
					clash = clash || ecOddRendered(t) == ecOddRendered(s)
				}
				if !clash {
					odd[v] = s
				}
			}
			w := ecWorld{backing: backing, odd: odd}
			for _, c := range corpus {
				ok, err := ecCheck(e, w, c.ops, c.name, c.want)
				total++
				if err != nil || !ok {
					return ok, err
				}
				r.Hit("content-sweep:corpus")
			}
			depth := 2
			if rot == 0 || e.Thorough() {
				depth = 3
			}
			for _, su := range setups {
				word := []int{}
				var rec func() (bool, error)
				rec = func() (bool, error) {
					ok, err := ecCheck(e, w, ecInstantiate(su, word), "content-sweep:"+su.name, nil)
					total++
					if err != nil || !ok {
						return ok, err
					}
					if len(word) == depth {
						return true, nil
					}
					for k := range ecAlphabet {
						word = append(word, k)
						ok, err := rec()
						word = word[:len(word)-1]
						if err != nil || !ok {
							return ok, err
						}
					}
					return true, nil
				}
				if ok, err := rec(); err != nil || !ok {
					return ok, err
				}
			}
			r.Hit("content-sweep:world")
		}
	}
	r.Note(fmt.Sprintf("content sweep: %d histories over %d backings × %d rotations of %d unusual sources", total, len(ecBackings), len(ecOddPool), len(ecOddPool)))
	return true, nil
}
