package main

import (
	"fmt"
	"math/rand"
	"regexp"
	"strings"

	"github.com/semihalev/twig"
)

// C04 (j) — literal text is emitted exactly WHEREVER it stands and WHATEVER was rendered before.
//
// Two dimensions the other parts of the runner leave out:
//
//  1. Position. The literal text (chunks, comments, verbatim bodies) of the other parts stands at the top level of
//     the template that is rendered. Here the same kind of body stands in every place a template's text can reach
//     the output from: a block, an included template (plain, `with`, `with … only`), a block OF an included
//     template, a block that overrides or inherits along an extends chain (also reached through parent(), also when
//     the extending template is itself included), the text of a base template around its blocks, loop and if bodies,
//     an include inside a loop. Each of these renders with a render context obtained in a different way (new,
//     cloned from the including one, handed to the parent template), and each of those contexts is recycled.
//
//  2. History. Render contexts, block tables, macro tables and context maps are pooled process-wide. What an earlier
//     render — of unrelated templates, on the same or on another engine — leaves in a recycled object must not change
//     a byte of a later render. c04HistoryOracle renders, in ONE goroutine (so that the per-processor pools hand
//     the just released objects to the next render), a history of templates that use every context-creating
//     construct with the SAME block, macro and variable names as the case (other bodies, other values), and then
//     the case itself on a fresh engine holding its templates; several histories of different depth, so that the
//     first, second, third … object the case takes out of a pool each has been left behind by a different
//     construct. Expected value: computed in Go from the chunks and marker values where the position is plain
//     substitution, and the direct render compared with the Lean model (compareCase) in every case.
//
// The corpus (every position x a fixed set of bodies x every block name) is the same on every seed; the random part
// draws bodies from the literal-text generator.

type c04Pos struct {
	name string
	// build returns the templates (main = "main") and what the whole renders to given what the body renders to
	build func(n, body string, vars []string) (map[string]string, func(out string) string)
}

func c04WithHash(vars []string) string {
	var parts []string
	for _, v := range vars {
		parts = append(parts, "'"+v+"': "+v)
	}
	return "{" + strings.Join(parts, ", ") + "}"
}

var c04Positions = []c04Pos{
	{"top level", func(n, b string, vars []string) (map[string]string, func(string) string) {
		return map[string]string{"main": b}, func(o string) string { return o }
	}},
	{"block", func(n, b string, vars []string) (map[string]string, func(string) string) {
		return map[string]string{"main": "P{% block " + n + " %}" + b + "{% endblock %}Q"}, func(o string) string { return "P" + o + "Q" }
	}},
	{"included template", func(n, b string, vars []string) (map[string]string, func(string) string) {
		return map[string]string{"main": "P{% include 'part' %}Q", "part": b}, func(o string) string { return "P" + o + "Q" }
	}},
	{"included template (with)", func(n, b string, vars []string) (map[string]string, func(string) string) {
		return map[string]string{"main": "P{% include 'part' with {'extra': 1} %}Q", "part": b}, func(o string) string { return "P" + o + "Q" }
	}},
	{"included template (with … only)", func(n, b string, vars []string) (map[string]string, func(string) string) {
		return map[string]string{"main": "P{% include 'part' with " + c04WithHash(vars) + " only %}Q", "part": b}, func(o string) string { return "P" + o + "Q" }
	}},
	{"block of an included template", func(n, b string, vars []string) (map[string]string, func(string) string) {
		return map[string]string{"main": "P{% include 'part' %}Q", "part": "p{% block " + n + " %}" + b + "{% endblock %}q"}, func(o string) string { return "Pp" + o + "qQ" }
	}},
	{"block of an included template (with)", func(n, b string, vars []string) (map[string]string, func(string) string) {
		return map[string]string{"main": "P{% include 'part' with {'extra': 1} %}Q", "part": "p{% block " + n + " %}" + b + "{% endblock %}q"}, func(o string) string { return "Pp" + o + "qQ" }
	}},
	{"block of an included template (with … only)", func(n, b string, vars []string) (map[string]string, func(string) string) {
		return map[string]string{"main": "P{% include 'part' with " + c04WithHash(vars) + " only %}Q", "part": "p{% block " + n + " %}" + b + "{% endblock %}q"}, func(o string) string { return "Pp" + o + "qQ" }
	}},
	{"block of a template included twice in a loop", func(n, b string, vars []string) (map[string]string, func(string) string) {
		return map[string]string{"main": "P{% for q in [1, 2] %}{% include 'part' %}|{% endfor %}Q", "part": "p{% block " + n + " %}" + b + "{% endblock %}q"}, func(o string) string { return "Pp" + o + "q|p" + o + "q|Q" }
	}},
	{"block of the including template and of the included one, same name", func(n, b string, vars []string) (map[string]string, func(string) string) {
		return map[string]string{"main": "P{% block " + n + " %}M{% endblock %}{% include 'part' %}Q", "part": "p{% block " + n + " %}" + b + "{% endblock %}q"}, func(o string) string { return "PMp" + o + "qQ" }
	}},
	{"overriding block of an extending template", func(n, b string, vars []string) (map[string]string, func(string) string) {
		return map[string]string{"main": "{% extends 'base' %}{% block " + n + " %}" + b + "{% endblock %}", "base": "b1{% block " + n + " %}BASE{% endblock %}b2"}, func(o string) string { return "b1" + o + "b2" }
	}},
	{"inherited block of the base template", func(n, b string, vars []string) (map[string]string, func(string) string) {
		return map[string]string{"main": "{% extends 'base' %}", "base": "b1{% block " + n + " %}" + b + "{% endblock %}b2"}, func(o string) string { return "b1" + o + "b2" }
	}},
	{"block of the base template reached by parent()", func(n, b string, vars []string) (map[string]string, func(string) string) {
		return map[string]string{"main": "{% extends 'base' %}{% block " + n + " %}[{{ parent() }}]{% endblock %}", "base": "b1{% block " + n + " %}" + b + "{% endblock %}b2"}, nil // what parent() does to markup is C10's subject: the model decides
	}},
	{"text of the base template around its blocks", func(n, b string, vars []string) (map[string]string, func(string) string) {
		return map[string]string{"main": "{% extends 'base' %}{% block " + n + " %}y{% endblock %}", "base": b + "{% block " + n + " %}x{% endblock %}" + b}, func(o string) string { return o + "y" + o }
	}},
	{"overriding block of an included template that extends", func(n, b string, vars []string) (map[string]string, func(string) string) {
		return map[string]string{"main": "P{% include 'part' %}Q", "part": "{% extends 'base' %}{% block " + n + " %}" + b + "{% endblock %}", "base": "b1{% block " + n + " %}BASE{% endblock %}b2"}, func(o string) string { return "Pb1" + o + "b2Q" }
	}},
	{"loop body", func(n, b string, vars []string) (map[string]string, func(string) string) {
		return map[string]string{"main": "P{% for q in [1, 2] %}" + b + "{% endfor %}Q"}, func(o string) string { return "P" + o + o + "Q" }
	}},
	{"if body inside a block", func(n, b string, vars []string) (map[string]string, func(string) string) {
		return map[string]string{"main": "P{% block " + n + " %}{% if true %}" + b + "{% endif %}{% endblock %}Q"}, func(o string) string { return "P" + o + "Q" }
	}},
}

// block names: the ones templates commonly use (and the histories of other parts of the harness use too)
var c04BlockNames = []string{"body", "content", "main", "b"}

type c04Body struct {
	src, want string // want = "" with modelOnly
	ctx       map[string]any
	vars      []string
	modelOnly bool // holds a verbatim block: how its body is re-assembled is decided by the model
}

// the corpus bodies: plain text, text with every special byte, print tags, comments, verbatim
func c04CorpusBodies() []c04Body {
	ctx := func() map[string]any { return map[string]any{"v0": "⟦one⟧", "v1": "⟦two⟧", "secret": "S3CR3T"} }
	vars := []string{"secret", "v0", "v1"}
	return []c04Body{
		{src: "plain text", want: "plain text", ctx: ctx(), vars: vars},
		{src: "a {{ v0 }} b {# {{ secret }} #}c", want: "a ⟦one⟧ b c", ctx: ctx(), vars: vars},
		{src: "é\x80\x00 { } % # \\ ' \" \n\t<{{ v1 }}>{#c#}&", want: "é\x80\x00 { } % # \\ ' \" \n\t<⟦two⟧>&", ctx: ctx(), vars: vars},
		{src: "x {{- v0 -}} y {#- c -#} z", want: "", ctx: ctx(), vars: vars, modelOnly: true},
		{src: "t, {# a comment #}{% verbatim %}{{ secret }}{% if %}{% endverbatim %}.", ctx: ctx(), vars: vars, modelOnly: true},
	}
}

func c04RandomBody(rg *rand.Rand) c04Body {
	b := c04Body{ctx: map[string]any{"secret": "S3CR3T"}, vars: []string{"secret"}}
	var src, want strings.Builder
	for j, k := 0, 1+rg.Intn(4); j < k; j++ {
		l := genLit(rg, 10)
		src.WriteString(l)
		want.WriteString(l)
		switch rg.Intn(4) {
		case 0, 1:
			name := fmt.Sprintf("v%d", j)
			val := "⟦" + fmt.Sprint(rg.Intn(1000)) + "⟧"
			b.ctx[name] = val
			b.vars = append(b.vars, name)
			src.WriteString("{{" + ws(rg) + name + ws(rg) + "}}")
			want.WriteString(val)
		case 2:
			src.WriteString("{# " + strings.ReplaceAll(genRaw(rg, 8), "#}", "# }") + "{{ secret }} #}")
		default:
			src.WriteString("{% verbatim %}" + genLit(rg, 6) + "{{ secret }}" + "{% endverbatim %}")
			b.modelOnly = true
		}
	}
	tail := genLit(rg, 10)
	src.WriteString(tail)
	want.WriteString(tail)
	b.src, b.want = src.String(), want.String()
	if b.modelOnly {
		b.want = ""
	}
	return b
}

func c04PositionCases(e *Env) error {
	r := e.Rep
	run := func(pos c04Pos, n string, b c04Body, corpus bool) error {
		tpls, wrap := pos.build(n, b.src, b.vars)
		c := &Case{Templates: tpls, Main: "main", Ctx: b.ctx, FailAt: -1}
		r.Seen("pos:"+pos.name+":"+n+":"+b.src, true)
		r.Hit("text-position:" + pos.name)
		haveWant := wrap != nil && !b.modelOnly
		if haveWant {
			// the history oracle first, against the value computed here: its report names the history
			want := Outcome{Out: wrap(b.want)}
			if c04HistoryOracle(e, c, want, "computed from the chunks and marker values", corpus) {
				return nil
			}
		}
		im, _, _, err := compareCase(e, c, "render-model-c04", "correspondence render (Lean pipeline vs real engine) on literal text in every position of a template set")
		if err != nil {
			return err
		}
		if im.Class == "panic" || im.Class == "timeout" {
			return nil
		}
		if haveWant {
			if want := wrap(b.want); im.Class != "" || im.Out != want {
				rp := c.replay(im, Outcome{Out: want})
				rp["kind"] = "position"
				rp["expected"] = rp["model"]
				delete(rp, "model")
				rp["position"] = pos.name
				r.Violate(Violation{Key: "chunks-not-exact", What: fmt.Sprintf("literal text %q standing in the position %q (templates %s) renders %q (%s), expected %q", truncate(b.src, 80), pos.name, truncate(fmt.Sprint(tpls), 240), truncate(im.Out, 160), im.Class, truncate(want, 160)),
					Broken: "theorem C04_chunks / C04_comment_inert (literal text is emitted exactly once wherever it stands; expected value computed in Go)", Replay: rp})
			}
			return nil
		}
		if strings.Contains(im.Out, "S3CR3T") {
			// the bodies mention `secret` inside comments and verbatim blocks only
			r.Violate(Violation{Key: "verbatim-evaluated", What: fmt.Sprintf("a verbatim or comment body in the position %q was evaluated: %q renders %q", pos.name, truncate(b.src, 80), truncate(im.Out, 160)),
				Broken: "theorem C04_verbatim_inert / C04_comment_inert", Replay: c.replay(im, Outcome{})})
			return nil
		}
		c04HistoryOracle(e, c, im, "the direct render of the same templates, compared with the Lean model", corpus)
		return nil
	}
	// the corpus: the same on every seed
	bodies := c04CorpusBodies()
	for pi, pos := range c04Positions {
		for ni, n := range c04BlockNames {
			for bi, b := range bodies {
				if r.Full() {
					return nil
				}
				if !e.Thorough() && (pi+ni+bi)%2 != 0 && bi != 1 {
					continue // quick tier: body 1 (chunks, tag, comment) everywhere, half of the rest
				}
				if err := run(pos, n, b, true); err != nil {
					return err
				}
			}
		}
	}
	// random bodies
	rg := e.Rng
	for i := 0; i < e.N(150, 20000) && !r.Full(); i++ {
		if err := run(pick(rg, c04Positions), pick(rg, c04BlockNames), c04RandomBody(rg), false); err != nil {
			return err
		}
	}
	return nil
}

// --- history ------------------------------------------------------------------------------------------------------

var c04BlockRe = regexp.MustCompile(`\{%-?\s*block\s+([A-Za-z_][A-Za-z0-9_]*)`)
var c04MacroRe = regexp.MustCompile(`\{%-?\s*macro\s+([A-Za-z_][A-Za-z0-9_]*)`)

type c04History struct {
	name    string
	renders []string // history templates rendered in this order before the case
}

// histories of different depth: how many recycled objects they leave behind, and which construct has used them last
var c04Histories = []c04History{
	{"an extends chain of two templates defining blocks of the same names", []string{"c04h_child"}},
	{"a template with top-level blocks of the same names", []string{"c04h_blocks"}},
	{"an extends chain of three templates", []string{"c04h_grand"}},
	{"includes (plain, with, only, in a loop) of templates that define and override blocks of the same names", []string{"c04h_inc"}},
	{"macros of the same names, imported macros that include an extending template", []string{"c04h_macro"}},
	{"every history template one after the other", []string{"c04h_blocks", "c04h_set", "c04h_macro", "c04h_inc", "c04h_grand", "c04h_child"}},
}

// c04HistoryTemplates: unrelated templates that reuse the block, macro and variable names of the case
func c04HistoryTemplates(c *Case) map[string]string {
	blocks := append([]string{}, c04BlockNames...)
	macros := []string{"m", "input"}
	seen := map[string]bool{}
	for _, b := range blocks {
		seen["b:"+b] = true
	}
	for _, m := range macros {
		seen["m:"+m] = true
	}
	for _, n := range sortedKeys(c.Templates) {
		for _, m := range c04BlockRe.FindAllStringSubmatch(c.Templates[n], -1) {
			if !seen["b:"+m[1]] && len(blocks) < 12 {
				seen["b:"+m[1]] = true
				blocks = append(blocks, m[1])
			}
		}
		for _, m := range c04MacroRe.FindAllStringSubmatch(c.Templates[n], -1) {
			if !seen["m:"+m[1]] && len(macros) < 8 {
				seen["m:"+m[1]] = true
				macros = append(macros, m[1])
			}
		}
	}
	var base, child, grand, alone, mac, set strings.Builder
	base.WriteString("HB<")
	child.WriteString("{% extends 'c04h_base' %}")
	grand.WriteString("{% extends 'c04h_child' %}")
	for _, b := range blocks {
		base.WriteString("{% block " + b + " %}hist-base-" + b + "{{ hv }}{% endblock %}/")
		child.WriteString("{% block " + b + " %}hist-child-" + b + "({{ parent() }}){{ hv }}{% endblock %}")
		grand.WriteString("{% block " + b + " %}hist-grand-" + b + "({{ parent() }}){% endblock %}")
		alone.WriteString("{% block " + b + " %}hist-alone-" + b + "{{ hv }}{% endblock %}")
	}
	base.WriteString(">")
	for _, m := range macros {
		mac.WriteString("{% macro " + m + "(a, b) %}hist-macro-" + m + "{{ a }}{{ hv }}{% endmacro %}")
	}
	for _, m := range macros {
		mac.WriteString("{{ " + m + "(1) }}{{ _self." + m + "(2, 3) }}")
	}
	mac.WriteString("{% import 'c04h_lib' as hl %}{{ hl.hm('x') }}{% from 'c04h_lib' import hm %}{{ hm('y') }}")
	for _, k := range sortedKeys(c.Ctx) {
		if plainName.MatchString(k) {
			set.WriteString("{% set " + k + " = 'HIST-" + k + "' %}{{ " + k + " }}")
		}
	}
	set.WriteString("{% set hv = 'HIST' %}{% include 'c04h_alone' %}{% include 'c04h_child' with {'hv': 'HW'} %}")
	return map[string]string{
		"c04h_base":   base.String(),
		"c04h_child":  child.String(),
		"c04h_grand":  grand.String(),
		"c04h_alone":  alone.String(),
		"c04h_blocks": "x" + alone.String() + "y",
		"c04h_inc":    "{% include 'c04h_child' %}|{% include 'c04h_alone' with {'hv': 1} %}|{% include 'c04h_base' only %}|{% for i in [1, 2] %}{% include 'c04h_grand' %}{% endfor %}|{% include 'c04h_child' with {'hv': 2} only %}",
		"c04h_lib":    "{% macro hm(a) %}[{% include 'c04h_child' %}{{ a }}]{% endmacro %}",
		"c04h_macro":  mac.String(),
		"c04h_set":    set.String(),
	}
}

// the engine that renders the histories "on another engine of the process": one per set of history templates
var c04HistEngines = map[string]*twig.Engine{}

func c04OtherHistoryEngine(hist map[string]string) *twig.Engine {
	var key strings.Builder
	for _, n := range sortedKeys(hist) {
		key.WriteString(n + "\x00" + hist[n] + "\x00")
	}
	if eng, ok := c04HistEngines[key.String()]; ok {
		return eng
	}
	eng := twig.New()
	for _, n := range sortedKeys(hist) {
		eng.RegisterString(n, hist[n]) // a history template that is rejected is no history; the case is the subject
	}
	if len(c04HistEngines) > 64 {
		c04HistEngines = map[string]*twig.Engine{}
	}
	c04HistEngines[key.String()] = eng
	return eng
}

// c04HistoryOracle renders the case after each history: on one engine that holds the case's templates and the history
// templates, the history rendered on that engine and on another engine of the process in turn. all = every history
// (otherwise the first and the last one). true = a violation was reported.
func c04HistoryOracle(e *Env, c *Case, want Outcome, wantFrom string, all bool) bool {
	r := e.Rep
	if _, ok := c.Templates[c.Main]; !ok || want.Class == "panic" || want.Class == "timeout" || c.Policy != nil || c.FailAt >= 0 || c.Config != "" || c.Route != nil || c.Globals != nil {
		return false
	}
	for n := range c.Templates {
		if strings.HasPrefix(n, "c04h_") {
			return false
		}
	}
	hist := c04HistoryTemplates(c)
	histories := c04Histories
	if !all {
		histories = []c04History{c04Histories[0], c04Histories[len(c04Histories)-1]}
	}
	var histOut []string
	var failed *c04History
	where := ""
	renders := 0
	res := guarded(func() (string, error) {
		eng := c04Engine(c)
		for _, n := range sortedKeys(c.Templates) {
			if err := eng.RegisterString(n, c.Templates[n]); err != nil {
				return "", fmt.Errorf("parsing error: %w", err)
			}
		}
		for _, n := range sortedKeys(hist) {
			eng.RegisterString(n, hist[n])
		}
		other := c04OtherHistoryEngine(hist)
		out, err := "", error(nil)
		// everything from here on in this goroutine, without a pause: the per-processor pools hand what a history
		// releases to the render of the case that follows it
		for i := range histories {
			for _, he := range []*twig.Engine{eng, other} {
				histOut = histOut[:0]
				for _, n := range histories[i].renders {
					o, herr := he.Render(n, map[string]interface{}{"hv": "HV"})
					if herr != nil {
						o = "<" + herr.Error() + ">"
					}
					histOut = append(histOut, o)
				}
				ctx, _ := deepCopy(map[string]interface{}(c.Ctx)).(map[string]interface{})
				out, err = eng.Render(c.Main, ctx)
				renders++
				if cls := mapClass(classify(err)); cls != want.Class || (cls == "" && out != want.Out) {
					failed = &histories[i]
					where = "on the same engine"
					if he != eng {
						where = "on another engine of the process"
					}
					return out, err
				}
			}
		}
		return out, err
	})
	r.Dist["rendered-after-history"] += renders
	got := Outcome{Out: res.Out, Class: mapClass(res.Class), Panic: res.Panic}
	if res.Err != nil {
		got.Msg = res.Err.Error()
	}
	if got.Class == want.Class && (got.Out == want.Out || want.Class != "") {
		return false
	}
	h := c04History{name: "no history (the templates are rejected, or the render did not come back)"}
	if failed != nil {
		h = *failed
	}
	rp := c.replay(want, got)
	rp["kind"] = "history"
	rp["expected"] = rp["impl"]
	rp["after_history"] = rp["model"]
	delete(rp, "impl")
	delete(rp, "model")
	delete(rp, "request")
	rp["expected_from"] = wantFrom
	rp["history"] = h.name
	rp["history_engine"] = where
	rp["history_renders"] = h.renders
	ht := map[string]any{}
	for n, s := range hist {
		ht[n] = s
	}
	rp["history_templates"] = ht
	rp["history_outputs"] = append([]string{}, histOut...)
	rp["history_ctx"] = map[string]any{"hv": "HV"}
	rp["want_hex"] = hx(want.Out)
	rp["got_hex"] = hx(got.Out)
	r.Violate(Violation{Key: "earlier-render-changes-literal-text",
		What: fmt.Sprintf("the templates %s render %q (%s %s) when %s (%v) has been rendered just before %s; expected %q (%s; %s)",
			truncate(fmt.Sprint(describeCase(c)["templates"]), 300), truncate(got.Out, 200), got.Class, truncate(got.Msg, 100), h.name, h.renders, where, truncate(want.Out, 200), want.Class, wantFrom),
		Broken: "theorem C04_chunks / C04_comment_inert / C04_verbatim_inert + C01_history_independence: the output is a function of the template sources and the context — every literal chunk exactly once, nothing of any other template — whatever was rendered before (implementation-only oracle)",
		Replay: rp})
	return true
}
