package main

import (
	"fmt"
	"math/rand"
	"strings"

	"github.com/semihalev/twig"
)

// C14, implementation-only oracle "family": ONE engine reads a whole family of padded templates, one after the
// other and through every route by which a source reaches the parser, and every member must come out as its own
// padding with its own constructs' values standing exactly where the constructs stood.
//
// The members of a family are built from the same pieces and the same amount of padding, so they all have the
// same length, and (for the long ones) the same first and last kilobytes; they differ in WHERE the constructs
// stand inside the padding (the slide), in how the padding is split over the gaps, in the ORDER of the
// constructs, and in WHAT stands at one position (a construct replaced by literal text of the same width).
// The padOracle above renders every padded template on a fresh engine and compares after stripping the pads,
// which says nothing about the position of a value inside its padding nor about an engine that has read a
// similar template before. Here the expected output is computed directly: the pads as written (a comment pad
// leaves only its two marker bytes) interleaved with the output of each piece rendered alone, unpadded, on a
// fresh engine.

// padFillers: literal text used to fill a pad. All are free of tag openers; a pad is bracketed by \x01 … \x02, so a
// filler cut at any byte (inside a multi-byte character, after a lone brace or backslash) never touches a tag.
var padFillers = []string{
	"\x03",
	"<p>padding</p>\n",
	"line é of 世 filler;\r\n",
	"a { b } % # - \\ ' \" | =\n",
}

type padSpec struct {
	N       int  // bytes of the pad as written in the source (0 = no pad in this gap)
	Comment bool // the filler stands inside {# … #}
}

// famLayout: one member of a family.
type famLayout struct {
	Name  string
	Order []int     // Order[slot] = index of the piece standing in that slot
	Blank int       // slot whose piece is replaced by literal text of the same width (-1: none)
	Pads  []padSpec // one per gap: before slot 0, between slots, after the last slot
}

func fillTo(filler string, n int) string {
	if n <= 0 {
		return ""
	}
	return strings.Repeat(filler, n/len(filler)+1)[:n]
}

// padText returns the pad as written and what it leaves in the output. N counts every byte written.
func padText(p padSpec, filler string) (src, out string) {
	switch {
	case p.N <= 0:
		return "", ""
	case p.Comment && p.N >= 6:
		return "\x01\x02{#" + fillTo(filler, p.N-6) + "#}", "\x01\x02"
	case p.N < 2:
		return "\x01\x02"[:p.N], "\x01\x02"[:p.N]
	}
	s := "\x01" + fillTo(filler, p.N-2) + "\x02"
	return s, s
}

func (l famLayout) build(ps, outs []string, filler string) (src, want string) {
	var sb, wb strings.Builder
	for slot := 0; slot <= len(l.Order); slot++ {
		ps1, po := padText(l.Pads[slot], filler)
		sb.WriteString(ps1)
		wb.WriteString(po)
		if slot < len(l.Order) {
			i := l.Order[slot]
			if slot == l.Blank {
				x := strings.Repeat("x", len(ps[i]))
				sb.WriteString(x)
				wb.WriteString(x)
			} else {
				sb.WriteString(ps[i])
				wb.WriteString(outs[i])
			}
		}
	}
	return sb.String(), wb.String()
}

func (l famLayout) describe() string {
	var sb strings.Builder
	fmt.Fprintf(&sb, "%s order=%v blank=%d pads=", l.Name, l.Order, l.Blank)
	for i, p := range l.Pads {
		if i > 0 {
			sb.WriteByte(',')
		}
		fmt.Fprintf(&sb, "%d", p.N)
		if p.Comment {
			sb.WriteByte('c')
		}
	}
	return sb.String()
}

// family returns the members for k pieces and `total` bytes of padding.
func family(r *rand.Rand, k, total int) []famLayout {
	ident := make([]int, k)
	for i := range ident {
		ident[i] = i
	}
	cBefore, cAfter := r.Intn(4) == 0, r.Intn(4) == 0
	if total < 16 {
		total = 16
	}
	ends := func(name string, before int, order []int, blank int) famLayout {
		if before < 2 {
			before = 2
		}
		if before > total-2 {
			before = total - 2
		}
		pads := make([]padSpec, k+1)
		pads[0] = padSpec{before, cBefore}
		pads[k] = padSpec{pads[k].N + total - before, cAfter}
		if k == 0 {
			pads[0] = padSpec{total, cBefore}
		}
		return famLayout{Name: name, Order: order, Blank: blank, Pads: pads}
	}
	var fam []famLayout
	// the constructs slide through the padding as one group
	for _, f := range [][2]int{{1, 3}, {1, 2}, {2, 3}, {2, 5}} {
		fam = append(fam, ends(fmt.Sprintf("slide-%d/%d", f[0], f[1]), total*f[0]/f[1], ident, -1))
	}
	fam = append(fam, ends("slide-random", 2+r.Intn(total-3), ident, -1))
	fam = append(fam, ends("all-after", 2, ident, -1), ends("all-before", total-2, ident, -1))
	// the padding is split over every gap
	{
		pads := make([]padSpec, k+1)
		left := total
		for i := 0; i < k; i++ {
			n := 0
			if left > 8 {
				n = 2 + r.Intn(left/2)
			}
			pads[i] = padSpec{n, r.Intn(4) == 0}
			left -= n
		}
		pads[k] = padSpec{left, cAfter}
		fam = append(fam, famLayout{Name: "spread", Order: ident, Blank: -1, Pads: pads})
	}
	// the same constructs in another order, at a position another member already used
	if k >= 2 {
		rev := make([]int, k)
		for i := range rev {
			rev[i] = k - 1 - i
		}
		fam = append(fam, ends("reversed", total/2, rev, -1), ends("rotated", total/3, append(append([]int{}, ident[1:]...), 0), -1))
	}
	// one construct replaced by literal text of the same width
	if k >= 1 {
		fam = append(fam, ends("blanked", total/2, ident, r.Intn(k)), ends("blanked-2", total*2/3, ident, r.Intn(k)))
	}
	r.Shuffle(len(fam), func(i, j int) { fam[i], fam[j] = fam[j], fam[i] })
	return fam
}

// readRoutes: every way a source string reaches the parser and comes back rendered. seq makes fresh names.
var readRoutes = []struct {
	Name string
	Run  func(eng *twig.Engine, ld *twig.ArrayLoader, seq int, src string, ctx map[string]any) (string, error)
}{
	{"ParseTemplate+Template.Render", func(eng *twig.Engine, _ *twig.ArrayLoader, _ int, src string, ctx map[string]any) (string, error) {
		t, err := eng.ParseTemplate(src)
		if err != nil {
			return "", fmt.Errorf("parsing error: %w", err)
		}
		return t.Render(ctx)
	}},
	{"ParseTemplate+Template.RenderTo", func(eng *twig.Engine, _ *twig.ArrayLoader, _ int, src string, ctx map[string]any) (string, error) {
		t, err := eng.ParseTemplate(src)
		if err != nil {
			return "", fmt.Errorf("parsing error: %w", err)
		}
		pw := &plainWriter{}
		err = t.RenderTo(pw, ctx)
		return string(pw.b), err
	}},
	{"RegisterString(same name)+Render", func(eng *twig.Engine, _ *twig.ArrayLoader, _ int, src string, ctx map[string]any) (string, error) {
		if err := eng.RegisterString("padded", src); err != nil {
			return "", fmt.Errorf("parsing error: %w", err)
		}
		return eng.Render("padded", ctx)
	}},
	{"RegisterString(new name)+RenderTo", func(eng *twig.Engine, _ *twig.ArrayLoader, seq int, src string, ctx map[string]any) (string, error) {
		name := fmt.Sprintf("s%d", seq)
		if err := eng.RegisterString(name, src); err != nil {
			return "", fmt.Errorf("parsing error: %w", err)
		}
		pw := &plainWriter{}
		err := eng.RenderTo(pw, name, ctx)
		return string(pw.b), err
	}},
	{"ArrayLoader(new name)+Render", func(eng *twig.Engine, ld *twig.ArrayLoader, seq int, src string, ctx map[string]any) (string, error) {
		name := fmt.Sprintf("l%d", seq)
		ld.SetTemplate(name, src)
		return eng.Render(name, ctx)
	}},
	{"ParseTemplate+RegisterTemplate(same name)+Render", func(eng *twig.Engine, _ *twig.ArrayLoader, _ int, src string, ctx map[string]any) (string, error) {
		t, err := eng.ParseTemplate(src)
		if err != nil {
			return "", fmt.Errorf("parsing error: %w", err)
		}
		eng.RegisterTemplate("prebuilt", t)
		return eng.Render("prebuilt", ctx)
	}},
}

func familyTargets(thorough bool) []int {
	ts := []int{4100, 9000, 20481, 65537, 102400}
	if thorough {
		ts = append(ts, 321, 1025, 4096, 4097, 8193, 12000, 32769, 262145, 524289)
	}
	return ts
}

func familyOracle(e *Env) {
	r := e.Rep
	rounds := e.N(5, 80)
	for round := 0; round < rounds && !r.Full(); round++ {
		ps, ctx := genPieces(e.Rng)
		outs := make([]string, len(ps))
		ok := true
		for i, p := range ps {
			one := renderSrc(p, ctx)
			if one.Class != "" {
				r.Skip("piece-does-not-render:" + one.Class)
				ok = false
				break
			}
			outs[i] = one.Out
		}
		if !ok {
			continue
		}
		base := strings.Join(ps, "")
		if ref := renderSrc(base, ctx); ref.Class != "" || ref.Out != strings.Join(outs, "") {
			// the pieces are meant to be independent of each other; when they are not, this oracle has no expected value
			r.Skip("pieces-not-independent")
			continue
		}
		for _, target := range familyTargets(e.Thorough()) {
			if r.Full() {
				return
			}
			filler := pick(e.Rng, padFillers)
			fam := family(e.Rng, len(ps), target-len(base))
			ld := twig.NewArrayLoader(map[string]string{})
			eng := twig.New()
			eng.RegisterLoader(ld)
			var history []string
			seq := 0
			for mi, m := range fam {
				src, want := m.build(ps, outs, filler)
				routes := e.Rng.Perm(len(readRoutes))
				for _, ri := range routes {
					rt := readRoutes[ri]
					seq++
					step := fmt.Sprintf("%d:%s via %s", mi, m.Name, rt.Name)
					history = append(history, step)
					res := guarded(func() (string, error) { return rt.Run(eng, ld, seq, src, ctx) })
					r.Seen(fmt.Sprintf("fam:%d:%s:%s:%s", target, m.describe(), rt.Name, base), want != "")
					r.Hit("family-route:" + rt.Name)
					r.Hit("family-member:" + strings.SplitN(m.Name, "-", 2)[0])
					if res.Class == "" && res.Out == want {
						continue
					}
					at := firstDiff(res.Out, want)
					lo := at - 40
					if lo < 0 {
						lo = 0
					}
					layouts := make([]string, len(fam))
					for i, x := range fam {
						layouts[i] = x.describe()
					}
					v := Violation{Key: "family-member-misread",
						What: fmt.Sprintf("one engine reads %d-byte variants of %q (same pieces, same padding, other positions); member %q read through %s (step %d on this engine) does not render as its padding with its constructs' values in place: class %q, first difference at byte %d of %d",
							len(src), truncate(base, 60), m.Name, rt.Name, seq, res.Class, at, len(want)),
						Broken: "theorem C14_padding / C14_scanners_agree_render no longer describes the code (implementation-only oracle: expected = pads + output of each piece alone on a fresh engine)",
						Replay: map[string]any{"kind": "family", "pieces": ps, "piece_outputs": outs, "filler_hex": hx(filler), "target": target, "len": len(src),
							"layouts": layouts, "member": mi, "route": rt.Name, "steps_on_this_engine": history,
							"class": res.Class, "err": fmt.Sprint(res.Err), "panic": res.Panic, "first_diff": at,
							"got_at_diff_hex": hx(truncate(safeFrom(res.Out, lo), 120)), "want_at_diff_hex": hx(truncate(safeFrom(want, lo), 120)),
							"src_hex_prefix": hx(truncate(src, 200))}}
					if r.Violate(v) {
						return
					}
					break // one report per member
				}
			}
		}
	}
}

func safeFrom(s string, i int) string {
	if i >= len(s) {
		return ""
	}
	return s[i:]
}
