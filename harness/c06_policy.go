package main

import (
	"regexp"
	"sort"

	"github.com/semihalev/twig"
)

// C06 — policy shape dimension.
//
// The property quantifies over every policy. What a policy IS, for the property, is the set of filter and function
// names it allows; the runner's base cases (and the Lean model) describe it as exactly that: two lists of names
// (PolicySpec). The value handed to EnableSandbox can express one and the same set in many ways, and the sandbox must
// treat them all alike:
//
//   - the allow-lists of a DefaultSecurityPolicy are map[string]bool: a forbidden name can be absent, present with
//     the value false (the usual way to switch a permission off), or added and deleted again;
//   - the maps can start from NewDefaultSecurityPolicy() (the library's defaults, then edited) or from nothing; unused
//     lists can be nil instead of empty;
//   - a permission can be withdrawn before the policy is installed, after EnableSandbox (the engine holds a pointer:
//     the edit is live), or after a render that still used it;
//   - the policy can be a type of the application (any SecurityPolicy implementation), or one that embeds
//     *DefaultSecurityPolicy.
//
// c06MakePolicy builds the policy of a case in each of these shapes. Expected value (c06CheckSetup): the outcome of the
// base case — built with true entries only, checked against the Lean model by compareCase — because all shapes denote
// the same set of allowed names.

var c06Shapes = []string{
	"true-entries-only",             // the base shape
	"denied-names-listed-false",     // every name the templates mention and the policy does not allow: entry = false
	"defaults-edited-false",         // NewDefaultSecurityPolicy(), defaults that are not allowed switched to false
	"defaults-edited-delete",        // NewDefaultSecurityPolicy(), defaults that are not allowed deleted
	"granted-then-false",            // everything granted, then switched off, before EnableSandbox
	"granted-then-deleted",          // everything granted, then deleted, before EnableSandbox
	"live-edit-false",               // everything granted, EnableSandbox, then switched off in place
	"live-edit-delete",              // everything granted, EnableSandbox, then deleted in place
	"live-edit-false-after-render",  // … and a render happens while everything is still granted
	"live-edit-delete-after-render", // same with delete
	"nil-for-empty-lists",           // lists with nothing to allow are nil maps (AllowedTags always is)
	"embedded-default-policy",       // a type embedding *DefaultSecurityPolicy whose denied names are listed false
	"custom-implementation",         // a SecurityPolicy implementation that is not a DefaultSecurityPolicy
}

const c06BaseShape = "true-entries-only"

type c06ShapedPolicy struct {
	Policy twig.SecurityPolicy
	// Withdraw performs the pending live edit (nil when the policy is final from the start); until it is called the
	// policy grants more than the case's policy
	Withdraw func()
	// RenderFirst: the edit is to follow a render made under the still-permissive policy
	RenderFirst bool
}

var c06IdentRe = regexp.MustCompile(`[A-Za-z_][A-Za-z0-9_]*`)

// c06Universe lists every name the case can ask the policy about: every identifier written in a template, the
// callbacks registered on the engine and the names the library's default policy knows.
func c06Universe(tpls map[string]string, extra ...[]string) []string {
	seen := map[string]bool{}
	for _, src := range tpls {
		for _, id := range c06IdentRe.FindAllString(src, -1) {
			seen[id] = true
		}
	}
	for _, l := range extra {
		for _, n := range l {
			seen[n] = true
		}
	}
	d := twig.NewDefaultSecurityPolicy()
	for _, m := range []map[string]bool{d.AllowedFilters, d.AllowedFunctions} {
		for n := range m {
			seen[n] = true
		}
	}
	var out []string
	for n := range seen {
		out = append(out, n)
	}
	sort.Strings(out)
	return out
}

// c06MakePolicy expresses "exactly `filters` and `functions` are allowed" in the given shape. universe = the names
// that may be asked about (used by the shapes that list or first grant the forbidden names).
func c06MakePolicy(shape string, filters, functions, universe []string) c06ShapedPolicy {
	okFilter, okFunction := map[string]bool{}, map[string]bool{}
	for _, f := range filters {
		okFilter[f] = true
	}
	for _, f := range functions {
		okFunction[f] = true
	}
	fresh := func() *twig.DefaultSecurityPolicy {
		p := &twig.DefaultSecurityPolicy{AllowedFilters: map[string]bool{}, AllowedFunctions: map[string]bool{}, AllowedTags: map[string]bool{}}
		for f := range okFilter {
			p.AllowedFilters[f] = true
		}
		for f := range okFunction {
			p.AllowedFunctions[f] = true
		}
		return p
	}
	// edit(p, del): every name of the universe (and every entry present) that is not allowed is switched off / deleted
	edit := func(p *twig.DefaultSecurityPolicy, del bool) {
		one := func(m map[string]bool, ok map[string]bool) {
			names := append([]string(nil), universe...)
			for n := range m {
				names = append(names, n)
			}
			for _, n := range names {
				if ok[n] {
					continue
				}
				if del {
					delete(m, n)
				} else {
					m[n] = false
				}
			}
		}
		one(p.AllowedFilters, okFilter)
		one(p.AllowedFunctions, okFunction)
		if !del {
			for _, t := range []string{"include", "import", "from", "extends", "macro", "apply", "block"} {
				p.AllowedTags[t] = false
			}
		}
	}
	grantAll := func(p *twig.DefaultSecurityPolicy) {
		for _, n := range universe {
			p.AllowedFilters[n], p.AllowedFunctions[n] = true, true
		}
	}
	switch shape {
	case "denied-names-listed-false":
		p := fresh()
		edit(p, false)
		return c06ShapedPolicy{Policy: p}
	case "defaults-edited-false", "defaults-edited-delete":
		p := twig.NewDefaultSecurityPolicy()
		// only what the defaults contain is withdrawn; other forbidden names stay absent
		for _, pair := range []struct{ m, ok map[string]bool }{{p.AllowedFilters, okFilter}, {p.AllowedFunctions, okFunction}} {
			for n := range pair.m {
				if !pair.ok[n] {
					if shape == "defaults-edited-delete" {
						delete(pair.m, n)
					} else {
						pair.m[n] = false
					}
				}
			}
			for n := range pair.ok {
				pair.m[n] = true
			}
		}
		return c06ShapedPolicy{Policy: p}
	case "granted-then-false", "granted-then-deleted":
		p := fresh()
		grantAll(p)
		edit(p, shape == "granted-then-deleted")
		return c06ShapedPolicy{Policy: p}
	case "live-edit-false", "live-edit-delete", "live-edit-false-after-render", "live-edit-delete-after-render":
		p := fresh()
		grantAll(p)
		del := shape == "live-edit-delete" || shape == "live-edit-delete-after-render"
		return c06ShapedPolicy{Policy: p, Withdraw: func() { edit(p, del) },
			RenderFirst: shape == "live-edit-false-after-render" || shape == "live-edit-delete-after-render"}
	case "nil-for-empty-lists":
		p := fresh()
		p.AllowedTags = nil
		if len(p.AllowedFilters) == 0 {
			p.AllowedFilters = nil
		}
		if len(p.AllowedFunctions) == 0 {
			p.AllowedFunctions = nil
		}
		return c06ShapedPolicy{Policy: p}
	case "embedded-default-policy":
		p := fresh()
		edit(p, false)
		return c06ShapedPolicy{Policy: &c06EmbeddingPolicy{DefaultSecurityPolicy: p, owner: "application"}}
	case "custom-implementation":
		lp := &c06ListPolicy{}
		for f := range okFilter {
			lp.filters = append(lp.filters, f)
		}
		for f := range okFunction {
			lp.functions = append(lp.functions, f)
		}
		sort.Strings(lp.filters)
		sort.Strings(lp.functions)
		return c06ShapedPolicy{Policy: lp}
	}
	return c06ShapedPolicy{Policy: fresh()}
}

// c06EmbeddingPolicy is an application type that reuses the library's policy by embedding it.
type c06EmbeddingPolicy struct {
	*twig.DefaultSecurityPolicy
	owner string
}

// c06ListPolicy is an allow-list policy implemented without the library's type (sorted slices).
type c06ListPolicy struct{ filters, functions []string }

func c06InSorted(l []string, n string) bool {
	i := sort.SearchStrings(l, n)
	return i < len(l) && l[i] == n
}
func (p *c06ListPolicy) IsFunctionAllowed(f string) bool { return c06InSorted(p.functions, f) }
func (p *c06ListPolicy) IsFilterAllowed(f string) bool   { return c06InSorted(p.filters, f) }
func (p *c06ListPolicy) IsTagAllowed(string) bool        { return false }
