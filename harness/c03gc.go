package main

import (
	"fmt"
	"runtime"
	"strings"

	"github.com/semihalev/twig"
)

// c03TempMaps (added after seeded change C03-B was missed): one render that creates thousands of short-lived
// maps of the same size while the garbage collector runs in between (a callback forces collections), so that
// later maps reuse the addresses of dead ones. Every loop over such a map must show that map's own entries:
// nothing keyed by a map's address (or any other identity that can be recycled) may survive the map.
func c03TempMaps(e *Env) {
	r := e.Rep
	iters := e.N(3000, 60000)
	tpl := "{% for i in range(1, n) %}{% if i % 40 == 0 %}{{ gc() }}{% endif %}{% for k, v in {('k' ~ i): i} %}{{ k }}={{ v }};{% endfor %}{% set m = {('a' ~ i): 1, ('b' ~ i): 2} %}{{ m|keys|join('') }}{{ m|first }};{% endfor %}"
	var want strings.Builder
	const chunk = 1000 // range() refuses more than a million elements; stay far below and render in chunks
	res := guarded(func() (string, error) {
		eng := twig.New()
		eng.AddFunction("gc", func(a ...interface{}) (interface{}, error) { runtime.GC(); return "", nil })
		if err := eng.RegisterString("t", strings.Replace(tpl, "range(1, n)", "range(lo, hi)", 1)); err != nil {
			return "", err
		}
		var got strings.Builder
		for lo := 1; lo <= iters; lo += chunk {
			hi := lo + chunk - 1
			out, err := eng.Render("t", map[string]interface{}{"lo": lo, "hi": hi})
			if err != nil {
				return "", err
			}
			got.WriteString(out)
			for i := lo; i <= hi; i++ {
				fmt.Fprintf(&want, "k%d=%d;a%db%d1;", i, i, i, i)
			}
		}
		return got.String(), nil
	})
	r.Seen(fmt.Sprintf("tempmaps:%d", iters), true)
	if res.Class != "" || res.Out != want.String() {
		at := 0
		w := want.String()
		for at < len(res.Out) && at < len(w) && res.Out[at] == w[at] {
			at++
		}
		lo := at - 30
		if lo < 0 {
			lo = 0
		}
		r.Violate(Violation{Key: "temporary-map-shows-another-maps-entries", What: fmt.Sprintf("looping over %d short-lived hash literals with collections in between: output differs from the maps' own entries at byte %d (%s): got …%q, want …%q",
			iters, at, res.Class, truncate(res.Out[lo:], 80), truncate(w[lo:], 80)),
			Broken: "theorem C03_sites_order_independent / C03_insertion_order (a loop's key order is a function of the map's entries only; implementation-only oracle)",
			Replay: map[string]any{"kind": "temp-maps", "template": tpl, "iterations": iters, "first_difference_at": at, "class": res.Class, "err": fmt.Sprint(res.Err)}})
	}
}

// c03EvalOrder: the order in which the entries of a hash literal or of an include's `with` list are evaluated is
// observable (user callbacks run, and when two entries fail the first failure is the reported one): it must be the
// same on every render, and it is the source order.
func c03EvalOrder(e *Env) {
	r := e.Rep
	names := []string{"k9", "a", "m", "z1", "b", "q", "e", "c0", "x", "d", "k1", "w"}
	var entries, hashEntries []string
	var spies []string
	for i, n := range names {
		fn := fmt.Sprintf("s%d", i)
		spies = append(spies, fn)
		entries = append(entries, "'"+n+"': "+fn+"()")
		hashEntries = append(hashEntries, "'"+n+"': "+fn+"()")
	}
	// constructs that name the same thing twice: which one wins is fixed (the later one), not left to a map
	dups := map[string]string{
		"from-duplicate-alias":   "{% from 'lib' import a as f, b as f, c as f %}{{ f() }}",
		"from-duplicate-alias-2": "{% from 'lib' import c as f, a as g, b as f, a as f %}{{ f() }}{{ g() }}",
		"from-alias-vs-plain":    "{% from 'lib' import a, b as a %}{{ a() }}|{% from 'lib' import b as c, c %}{{ c() }}",
		"import-twice":           "{% import 'lib' as m %}{% import 'lib2' as m %}{{ m.a() }}",
		"macro-twice":            "{% macro z() %}1{% endmacro %}{% macro z() %}2{% endmacro %}{{ z() }}{{ _self.z() }}",
		"block-in-include-twice": "{% include 'blk' %}{% include 'blk' %}",
		"with-duplicate-key":     "{% include 'p2' with {'k': 1, 'k': 2, 'j': 3, 'k': 4} %}",
		"set-twice-in-loop":      "{% for i in [1, 2, 3] %}{% set q = i %}{% set q = q * 2 %}{% endfor %}{{ q }}",
		// subscripts (literal and computed, so int and float64 indices) on an interface-keyed map whose keys print alike
		"subscript-mixed-keys": "{% for i in [0, 1, 2] %}{{ mixed[i + 1] }},{{ mixed[loop.index] }},{{ mixed[(i + 1) ~ ''] }};{% endfor %}{{ mixed[1] }}{{ mixed['1'] }}{{ mixed[2] }}{{ mixed['2'] }}{{ mixed[1.0] }}{{ mixed[true] }}{{ mixed['true'] }}{{ mixed[3] }}",
		"subscript-mixed-test": "{{ mixed[1] is defined ? 'd' : 'u' }}{{ 1 in mixed ? 'i' : 'n' }}{{ '1' in mixed ? 'i' : 'n' }}{{ mixed|length }}{{ mixed[2 - 1] == mixed[1] ? 'same' : 'other' }}",
		// filters given a hash whose entries compete (one search string a prefix of another, equal after conversion)
		"replace-hash-prefixes": "{{ '%name% %name %n'|replace({'%name': 'A', '%name%': 'B', '%n': 'C', '%': 'D', 'name': 'E'}) }}",
		"replace-hash-overlap":  "{{ 'abcabc'|replace({'ab': '1', 'abc': '2', 'bc': '3', 'a': '4', 'c': '5', 'b': '6'}) }}",
		"format-hash":           "{{ '%s-%s'|format({'a': 1, 'b': 2}|keys|first, {'z': 1, 'y': 2}|keys|last) }}",
		"merge-competing-keys":  "{{ {'1': 'a', 'x': 0}|merge({1: 'b'})|merge({'1': 'c', 1: 'd'})|json_encode|raw }}{{ merge({'k': 1}, {'k': 2}, {'K': 3})|keys|join(',') }}",
		"default-hash-first":    "{% set h = {'q': 1, 'p': 2, 'r': 3, 'a': 4, 'z': 5} %}{{ h|first }}{{ h|last }}{{ h|keys|first }}{% for k, v in h %}{{ k }}{% endfor %}{{ h|join(',') }}{{ h|slice(1, 2)|keys|join(',') }}{{ h|reverse|keys|join(',') }}{{ h|sort|join(',') }}",
	}
	libs := map[string]string{"lib": "{% macro a() %}A{% endmacro %}{% macro b() %}B{% endmacro %}{% macro c() %}C{% endmacro %}", "lib2": "{% macro a() %}A2{% endmacro %}", "blk": "{% block x %}X{% endblock %}", "p2": "[{{ k }}{{ j }}]", "p": "."}
	for _, name := range sortedKeys(dups) {
		first := ""
		for rep := 0; rep < 40 && !r.Full(); rep++ {
			tpls := map[string]string{"main": dups[name]}
			for k, v := range libs {
				tpls[k] = v
			}
			im := runImpl(&Case{Templates: tpls, Main: "main", FailAt: -1, Ctx: map[string]any{"mixed": map[interface{}]interface{}{1: "int1", "1": "str1", int64(2): "i64-2", "2": "str2", 2: "int2", true: "bool", "true": "strtrue", 3.0: "f3", 3: "int3", uint8(1): "u8-1"}}})
			got := im.Class + "|" + im.Out
			r.Seen(fmt.Sprintf("dup:%s:%d", name, rep), true)
			if rep == 0 {
				first = got
			} else if got != first {
				if r.Violate(Violation{Key: "nondeterministic-output", What: fmt.Sprintf("%s: %q renders %q on render %d and %q on the first render", name, dups[name], got, rep, first),
					Broken: "theorem C03_render_deterministic (implementation-only oracle: repeated renders)", Replay: map[string]any{"kind": "render", "templates": tpls, "main": "main", "outs": []string{first, got}}}) {
					return
				}
				break
			}
		}
	}
	forms := map[string]string{
		"include-with":      "{% include 'p' with {" + strings.Join(entries, ", ") + "} %}",
		"include-with-only": "{% include 'p' with {" + strings.Join(entries, ", ") + "} only %}",
		"hash-literal":      "{% set h = {" + strings.Join(hashEntries, ", ") + "} %}{{ h|length }}",
	}
	for _, form := range sortedKeys(forms) {
		var first []Ev
		firstErr := map[int]string{}
		for rep := 0; rep < 25 && !r.Full(); rep++ {
			c := &Case{Templates: map[string]string{"main": forms[form], "p": "."}, Main: "main", Ctx: map[string]any{}, SpyFunctions: spies, FailAt: -1}
			im := runImpl(c)
			r.Seen(fmt.Sprintf("eval-order:%s:%d", form, rep), true)
			inOrder := len(im.Spies) == len(spies)
			for i := range im.Spies {
				if i < len(spies) && im.Spies[i].Name != spies[i] {
					inOrder = false
				}
			}
			if rep == 0 {
				first = im.Spies
			}
			if im.Class != "" || !inOrder || !sameEvs(first, im.Spies) {
				if r.Violate(Violation{Key: "evaluation-order-varies", What: fmt.Sprintf("%s: the entries were evaluated in the order %v (render %d; first render %v), the source order is %v", form, im.Spies, rep, first, spies),
					Broken: "theorem C03_hash_literal_order / evalPairs in source order (implementation-only oracle on callback order)", Replay: c.replay(im, Outcome{})}) {
					return
				}
				break
			}
			// two failing entries: always the same one is reported
			for _, at := range []int{3, 7} {
				c2 := *c
				c2.FailAt = at
				im2 := runImpl(&c2)
				if rep == 0 {
					firstErr[at] = fmt.Sprint(im2.Class, im2.Causes, len(im2.Spies))
				} else if got := fmt.Sprint(im2.Class, im2.Causes, len(im2.Spies)); got != firstErr[at] {
					if r.Violate(Violation{Key: "evaluation-order-varies", What: fmt.Sprintf("%s with the %d-th callback failing: %s on render %d, %s on the first render", form, at, got, rep, firstErr[at]),
						Broken: "theorem C03_hash_literal_order (implementation-only oracle)", Replay: c2.replay(im2, Outcome{})}) {
						return
					}
				}
			}
		}
	}
}
