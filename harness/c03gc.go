package main

import (
	"fmt"
	"runtime"
	"strings"

	"github.com/semihalev/twig"
)

// c03TempMaps (added after seeded change C03-B was missed): one render that creates thousands of short-lived
// maps of the same size while the garbage collector runs in between (a callback forces collections), so that
// later maps reuse the addresses of dead ones. Every loop over such a map must show that map's own entries:
// nothing keyed by a map's address (or any other identity that can be recycled) may survive the map.
func c03TempMaps(e *Env) {
	r := e.Rep
	iters := e.N(3000, 60000)
	tpl := "{% for i in range(1, n) %}{% if i % 40 == 0 %}{{ gc() }}{% endif %}{% for k, v in {('k' ~ i): i} %}{{ k }}={{ v }};{% endfor %}{% set m = {('a' ~ i): 1, ('b' ~ i): 2} %}{{ m|keys|join('') }}{{ m|first }};{% endfor %}"
	var want strings.Builder
	const chunk = 1000 // range() refuses more than a million elements; stay far below and render in chunks
	res := guarded(func() (string, error) {
		eng := twig.New()
		eng.AddFunction("gc", func(a ...interface{}) (interface{}, error) { runtime.GC(); return "", nil })
		if err := eng.RegisterString("t", strings.Replace(tpl, "range(1, n)", "range(lo, hi)", 1)); err != nil {
			return "", err
		}
		var got strings.Builder
		for lo := 1; lo <= iters; lo += chunk {
			hi := lo + chunk - 1
			out, err := eng.Render("t", map[string]interface{}{"lo": lo, "hi": hi})
			if err != nil {
				return "", err
			}
			got.WriteString(out)
			for i := lo; i <= hi; i++ {
				fmt.Fprintf(&want, "k%d=%d;a%db%d1;", i, i, i, i)
			}
		}
		return got.String(), nil
	})
	r.Seen(fmt.Sprintf("tempmaps:%d", iters), true)
	if res.Class != "" || res.Out != want.String() {
		at := 0
		w := want.String()
		for at < len(res.Out) && at < len(w) && res.Out[at] == w[at] {
			at++
		}
		lo := at - 30
		if lo < 0 {
			lo = 0
		}
		r.Violate(Violation{Key: "temporary-map-shows-another-maps-entries", What: fmt.Sprintf("looping over %d short-lived hash literals with collections in between: output differs from the maps' own entries at byte %d (%s): got …%q, want …%q",
			iters, at, res.Class, truncate(res.Out[lo:], 80), truncate(w[lo:], 80)),
			Broken: "theorem C03_sites_order_independent / C03_insertion_order (a loop's key order is a function of the map's entries only; implementation-only oracle)",
			Replay: map[string]any{"kind": "temp-maps", "template": tpl, "iterations": iters, "first_difference_at": at, "class": res.Class, "err": fmt.Sprint(res.Err)}})
	}
}
