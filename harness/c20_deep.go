package main

import (
	"fmt"
	"math/rand"
	"reflect"
	"time"
)

// C20, two more dimensions of "every Go value shape … and every history of earlier lookups":
//
//   (F) DEEP AND WIDE INDEX PATHS. The generated types of the batches embed to depth 3 and have at most 8 fields, so the
//       index path of a promoted field never has more than 4 steps and no step is above 7. Here: chains of 0..14 embedded
//       structs / pointers to structs (random depth, the embedded field at a random position of every level, levels with
//       up to 300 fields so that steps exceed 255, names of deeper levels shadowed by shallower ones, names made ambiguous
//       by a side branch, nil embedded pointers at any level), every field of every level read as x.NAME on the value and
//       on the pointer and compared with direct reflection (c20Expect) — and with the Lean model, which gets the same
//       history.
//   (G) LONG HISTORIES OF LOOKUPS THAT FIND A FIELD. The floods of the batches look up ~1500 distinct (type, name) pairs,
//       most of which name no field; what the cache stores per FOUND field (index paths) stays small. Here: thousands
//       (thorough: tens of thousands) of distinct (type, name) pairs that each find a field, on fresh types with paths of
//       1..8 steps, many more than the cache holds, so that eviction runs dozens of times; between the first lookups,
//       pairs looked up before are read again — a sliding window over the recent past (entries still cached), the older
//       past (entries evicted and resolved again) and a hot set read all the time (entries that survive every eviction) —
//       each compared with direct reflection and with what the same lookup gave the first time.
//
// Both are implementation-only oracles of c.check; (F) is replayed on the model as well.

// c20ChainOpts: shape of one chain type
type c20ChainOpts struct {
	depth   int    // number of embedded levels below the top one
	marker  string // name of a field of the top level that makes the type distinct
	wide    int    // pad fields of ONE random level (0 = none)
	maxPads int    // pad fields of the other levels: 0..maxPads
	pool    bool   // also use names of the shared pool (shadowing, ambiguity between levels)
}

// c20GenChain builds the layout: level l has the fields L<l>A (and sometimes L<l>B), pads, perhaps names of the shared pool,
// perhaps a side branch (an embedded struct with a field of its own and sometimes a field named like one of a deeper
// level: ambiguous or shadowing), and — above the last level — ONE embedded struct or pointer to struct Emb<l+1> holding
// the next level, at a random position. Returns the layout and the names worth looking up.
func c20GenChain(rng *rand.Rand, o c20ChainOpts) (*c20Spec, []string) {
	var names []string
	seenName := map[string]bool{}
	note := func(n string) {
		if !seenName[n] {
			seenName[n] = true
			names = append(names, n)
		}
	}
	wideLevel := -1
	if o.wide > 0 {
		wideLevel = rng.Intn(o.depth + 1)
	}
	kind := func() int { return rng.Intn(4) }
	var level func(l int) *c20Spec
	level = func(l int) *c20Spec {
		sp := &c20Spec{}
		used := map[string]bool{}
		add := func(f c20FieldSpec) {
			if used[f.Name] {
				return
			}
			used[f.Name] = true
			sp.Fields = append(sp.Fields, f)
			note(f.Name)
		}
		if l == 0 && o.marker != "" {
			add(c20FieldSpec{Name: o.marker, Kind: c20KInt})
		}
		add(c20FieldSpec{Name: fmt.Sprintf("L%dA", l), Kind: kind()})
		if rng.Intn(2) == 0 {
			add(c20FieldSpec{Name: fmt.Sprintf("L%dB", l), Kind: kind()})
		}
		if rng.Intn(8) == 0 {
			add(c20FieldSpec{Name: fmt.Sprintf("l%dhid", l), Kind: kind()}) // unexported
		}
		if o.pool && rng.Intn(3) == 0 {
			add(c20FieldSpec{Name: c20PlainNames[rng.Intn(len(c20PlainNames))], Kind: kind()})
		}
		if l < o.depth && rng.Intn(4) == 0 {
			// a name of a deeper level, here: the shallower one wins
			add(c20FieldSpec{Name: fmt.Sprintf("L%dB", l+1+rng.Intn(o.depth-l)), Kind: c20KString})
		}
		if rng.Intn(5) == 0 {
			// side branch: one level deep, a field of its own and sometimes one that collides with the chain
			side := &c20Spec{Fields: []c20FieldSpec{{Name: fmt.Sprintf("S%d", l), Kind: kind()}}}
			note(fmt.Sprintf("S%d", l))
			if l < o.depth && rng.Intn(2) == 0 {
				// same depth as L<l+1>A of the chain: ambiguous (nothing); deeper names of the chain: the side one wins
				side.Fields = append(side.Fields, c20FieldSpec{Name: fmt.Sprintf("L%dA", l+1+rng.Intn(o.depth-l)), Kind: c20KString})
			}
			k := c20KStruct
			if rng.Intn(3) == 0 {
				k = c20KPtr
			}
			add(c20FieldSpec{Name: fmt.Sprintf("Side%d", l), Kind: k, Embedded: true, Sub: side})
		}
		pads := 0
		if o.maxPads > 0 {
			pads = rng.Intn(o.maxPads + 1)
		}
		if l == wideLevel {
			pads = o.wide
		}
		for i := 0; i < pads; i++ {
			sp.Fields = append(sp.Fields, c20FieldSpec{Name: fmt.Sprintf("P%dx%d", l, i), Kind: c20KInt + i%2})
		}
		if pads > 0 {
			note(fmt.Sprintf("P%dx%d", l, pads-1))
		}
		if l < o.depth {
			k := c20KStruct
			if rng.Intn(3) == 0 {
				k = c20KPtr
			}
			name := fmt.Sprintf("Emb%d", l+1)
			note(name)
			sp.Fields = append(sp.Fields, c20FieldSpec{Name: name, Kind: k, Embedded: true, Sub: level(l + 1)})
		}
		// every field at a random position: the steps of an index path are not all 0 or all last
		keep := 0
		if l == 0 && o.marker != "" {
			keep = 1 // the marker stays first (readable layouts)
		}
		rest := sp.Fields[keep:]
		rng.Shuffle(len(rest), func(i, j int) { rest[i], rest[j] = rest[j], rest[i] })
		return sp
	}
	sp := level(0)
	names = append(names, "Nope", fmt.Sprintf("L%dA", o.depth+1), fmt.Sprintf("Emb%d", o.depth+1))
	return sp, names
}

// c20FillDeep is c20Fill without its depth limit on embedded pointers: a pointer is nil one time in nilOneIn
func c20FillDeep(v reflect.Value, rng *rand.Rand, nilOneIn int) {
	for i := 0; i < v.NumField(); i++ {
		f := v.Field(i)
		if !f.CanSet() {
			continue
		}
		switch f.Kind() {
		case reflect.Int:
			f.SetInt(int64(1 + rng.Intn(100000)))
		case reflect.String:
			f.SetString(fmt.Sprintf("s%d", rng.Intn(100000)))
		case reflect.Bool:
			f.SetBool(rng.Intn(2) == 0)
		case reflect.Interface:
			switch rng.Intn(3) {
			case 0:
				f.Set(reflect.ValueOf(1 + rng.Intn(100000)))
			case 1:
				f.Set(reflect.ValueOf(fmt.Sprintf("i%d", rng.Intn(100000))))
			}
		case reflect.Struct:
			c20FillDeep(f, rng, nilOneIn)
		case reflect.Ptr:
			if f.Type().Elem().Kind() == reflect.Struct && rng.Intn(nilOneIn) != 0 {
				p := reflect.New(f.Type().Elem())
				c20FillDeep(p.Elem(), rng, nilOneIn)
				f.Set(p)
			}
		}
	}
}

// c20ValDepth: the deepest level valJSON would reach describing v (0 = v itself)
func c20ValDepth(v reflect.Value) int {
	if !v.IsValid() {
		return 0
	}
	deepest := func(sv reflect.Value) int {
		d := 0
		for i := 0; i < sv.NumField(); i++ {
			d = max(d, 1+c20ValDepth(sv.Field(i)))
		}
		return d
	}
	switch v.Kind() {
	case reflect.Interface:
		if v.IsNil() {
			return 0
		}
		return 1 + c20ValDepth(v.Elem())
	case reflect.Struct:
		return deepest(v)
	case reflect.Ptr:
		if !v.IsNil() && v.Type().Elem().Kind() == reflect.Struct {
			return deepest(v.Elem())
		}
	case reflect.Map:
		d := 0
		for _, k := range v.MapKeys() {
			d = max(d, 1+c20ValDepth(v.MapIndex(k)))
		}
		return d
	}
	return 0
}

type c20Probe struct {
	o     *c20Obj
	names []string
}

// c20NewChain: a fresh chain type with a value of it, as value or as pointer (nil when reflect.StructOf refuses)
func c20NewChain(c *c20Run, o c20ChainOpts, label string, seen map[reflect.Type]bool) (val, ptr *c20Probe) {
	r := c.e.Rep
	sp, names := c20GenChain(c.e.Rng, o)
	t, refused := c20BuildType(sp)
	if t == nil {
		r.Skip("structof-refused:" + truncate(refused, 60))
		return nil, nil
	}
	if seen[t] {
		r.Skip("duplicate-type")
		return nil, nil
	}
	seen[t] = true
	p := reflect.New(t)
	c20FillDeep(p.Elem(), c.e.Rng, 6)
	layout := truncate(sp.String(), 1500)
	return &c20Probe{&c20Obj{label: label, val: p.Elem().Interface(), rt: t, spec: layout, vi: -1}, names},
		&c20Probe{&c20Obj{label: label + ":ptr", val: p.Interface(), rt: t, spec: layout, vi: -1}, names}
}

// c20DeepAndLong runs (F) and (G) on the run's engine and process-wide cache, after the batches.
func c20DeepAndLong(c *c20Run) error {
	e := c.e
	r := e.Rep
	seen := map[reflect.Type]bool{}
	start := time.Now()

	// ---- (F) deep and wide index paths ----------------------------------------------------------------
	var deep []*c20Probe
	nDeep := e.N(30, 120)
	for i := 0; len(deep) < 2*nDeep && i < 4*nDeep && !r.Full(); i++ {
		o := c20ChainOpts{depth: i % 15, marker: fmt.Sprintf("DeepMark%d", i), maxPads: 3, pool: i%3 == 0}
		switch {
		case i%10 == 7:
			o.wide = 300 // steps above 255
		case i%10 == 3:
			o.wide = 40 + e.Rng.Intn(60)
		}
		v, p := c20NewChain(c, o, fmt.Sprintf("deep%d(depth %d)", i, o.depth), seen)
		if v == nil {
			continue
		}
		deep = append(deep, v, p)
		r.Hit(fmt.Sprintf("deep:depth=%d", o.depth))
		if i == 9 {
			r.Sample(map[string]any{"kind": "deep-chain-type", "layout": v.o.spec})
		}
	}
	// the model gets the history of (F)
	env := c20NewModelEnv()
	var objs []*c20Obj
	nv := 0
	for _, d := range deep {
		env.add(d.o.rt)
		objs = append(objs, d.o)
	}
	for _, d := range deep {
		d.o.modelled = env.covered(d.o.rt)
		if d.o.modelled && c20ValDepth(reflect.ValueOf(d.o.val)) > 12 {
			// valJSON describes values down to 12 levels (the model driver reads 16): deeper values get the
			// implementation-only oracle alone
			d.o.modelled = false
			r.Skip("unmodelled-value:deeper-than-the-model-driver-reads")
		}
		if d.o.modelled {
			d.o.vi = nv
			nv++
			r.Hit("deep:modelled")
		}
	}
	maxPath := 0
	for round := 0; round < 2 && !r.Full(); round++ {
		phase := []string{"deep-first", "deep-again"}[round]
		order := e.Rng.Perm(len(deep))
		for _, k := range order {
			d := deep[k]
			for _, n := range d.names {
				if sf, ok := d.o.rt.FieldByName(n); ok && len(sf.Index) > maxPath {
					maxPath = len(sf.Index)
				}
				if !c.check(d.o, n, false, phase) {
					return nil
				}
				if e.Rng.Intn(8) == 0 && !c.check(d.o, n, true, phase) {
					return nil
				}
			}
		}
	}
	r.Note(fmt.Sprintf("deep chains: %d objects, longest index path %d steps", len(deep), maxPath))
	if maxPath < 9 && !r.Full() {
		r.Violate(Violation{Key: "harness-weak", What: "no index path of 9 or more steps was looked up", Broken: "C20 harness coverage",
			Replay: map[string]any{"longest_path": maxPath}})
	}
	if err := c.modelBatch(env, objs, map[string]any{"kind": "newest", "k": 1 + e.Rng.Intn(200)}); err != nil {
		return err
	}
	for _, d := range deep {
		d.o.vi, d.o.modelled = -1, false
	}

	// ---- (G) long history of lookups that find a field -------------------------------------------------
	// hot set: read all the time, so its entries are among the most used and most recent at every eviction
	var hot []*c20Probe
	for i, d := range deep {
		if i%5 < 2 && len(d.names) > 0 {
			hot = append(hot, d)
		}
	}
	target := e.N(9000, 80000) // distinct (type, name) pairs that find a field
	found, steps := 0, 0
	var window []*c20Probe // every object of this phase, oldest first
	recheck := func(p *c20Probe, phase string) bool {
		return c.check(p.o, p.names[e.Rng.Intn(len(p.names))], false, phase)
	}
	for i := 0; found < target && !r.Full(); i++ {
		o := c20ChainOpts{depth: e.Rng.Intn(8), marker: fmt.Sprintf("LongMark%d", i), maxPads: 2, pool: i%4 == 0}
		v, p := c20NewChain(c, o, fmt.Sprintf("long%d(depth %d)", i, o.depth), seen)
		if v == nil {
			continue
		}
		pr := v
		if i%2 == 1 {
			pr = p
		}
		window = append(window, pr)
		for _, n := range pr.names {
			if _, ok := pr.o.rt.FieldByName(n); ok {
				found++
			}
			if !c.check(pr.o, n, false, "long-first") {
				return nil
			}
			steps++
			// the recent past (most of it still cached), the older past (evicted meanwhile), the hot set
			if steps%2 == 0 {
				back := 1 + e.Rng.Intn(min(len(window), 120))
				if !recheck(window[len(window)-back], "long-recent") {
					return nil
				}
			}
			if steps%7 == 0 {
				if !recheck(window[e.Rng.Intn(len(window))], "long-older") {
					return nil
				}
			}
			if steps%3 == 0 && len(hot) > 0 {
				if !recheck(hot[e.Rng.Intn(len(hot))], "long-hot") {
					return nil
				}
			}
		}
		// now and then every name of a few recent objects and of the whole hot set, in one go
		if i%150 == 149 {
			for k := 0; k < 12 && k < len(window); k++ {
				w := window[len(window)-1-e.Rng.Intn(min(len(window), 100))]
				for _, n := range w.names {
					if !c.check(w.o, n, false, "long-recent") {
						return nil
					}
				}
			}
			for _, h := range hot {
				for _, n := range h.names {
					if !c.check(h.o, n, false, "long-hot") {
						return nil
					}
				}
			}
		}
	}
	r.Note(fmt.Sprintf("long history: %d objects, %d distinct (type, name) pairs that find a field (cache maxSize 1000); deep chains and long history took %.1fs", len(window), found, time.Since(start).Seconds()))
	return nil
}
