package main

import (
	"encoding/json"
	"fmt"
	"math/rand"
	"sort"
	"strings"
	"time"

	"github.com/semihalev/twig"
)

// Two oracles added after seeded change C03-P was missed. Both are about state that lives on something that
// several renders SHARE (the parsed node tree of a cached template, the engine, a pool) instead of on the render.
//
// c03Overlap — renders that overlap in time. The engine writes its output to the caller's io.Writer piece by
// piece; a writer that blocks before its k-th write stops render A at that point without touching the template.
// While A is stopped, render B of the SAME template on the SAME engine (another context of the same shape, or an
// equal context) runs from start to end; then A goes on. The schedule is forced (strict alternation through
// channels, no luck involved, no data race): for every k up to the number of writes of A (sampled above 16).
// Required: A prints exactly what it prints on its own, and so does B (reference: a render on a fresh engine
// with nothing else going on).
//
// c03Reentry — a loop that is entered again while it is running, in ONE goroutine: a macro that calls itself
// from inside its loop, a template that includes itself (with / with only), two templates that include each
// other; over nested lists and nested maps. The body reads loop.* before and after the inner run. Expected
// bytes: computed directly in Go by walking the nested value.

// ---- a writer that stops the render ----------------------------------------------------------------------

type c03Gate struct {
	sb      strings.Builder
	n, at   int
	reached chan struct{}
	release chan struct{}
}

func (g *c03Gate) step() {
	if g.n == g.at {
		close(g.reached)
		<-g.release
	}
	g.n++
}
func (g *c03Gate) Write(p []byte) (int, error)       { g.step(); return g.sb.Write(p) }
func (g *c03Gate) WriteString(s string) (int, error) { g.step(); return g.sb.WriteString(s) }

// c03RenderStopped renders name on eng into a gate that stops before write number `at` (at < 0: never), runs
// `between` while the render is stopped, and returns the render's result, the number of writes and whether it
// was stopped at all.
func c03RenderStopped(eng *twig.Engine, name string, ctx map[string]any, at int, between func()) (RenderResult, int, bool) {
	g := &c03Gate{at: at, reached: make(chan struct{}), release: make(chan struct{})}
	done := make(chan RenderResult, 1)
	go func() {
		var res RenderResult
		defer func() {
			if p := recover(); p != nil {
				res.Class, res.Panic = "panic", fmt.Sprint(p)
			}
			res.Out = g.sb.String()
			done <- res
		}()
		res.Err = eng.RenderTo(g, name, ctx)
		res.Class = classify(res.Err)
	}()
	stopped := false
	select {
	case <-g.reached:
		stopped = true
		between()
		close(g.release)
	case res := <-done:
		return res, g.n, false
	case <-time.After(10 * time.Second):
		return RenderResult{Class: "timeout"}, 0, false
	}
	select {
	case res := <-done:
		return res, g.n, stopped
	case <-time.After(10 * time.Second):
		return RenderResult{Class: "timeout"}, 0, stopped
	}
}

// c03OverlapCase: templates, the context of the stopped render (A) and of the render in between (B)
type c03OverlapCase struct {
	Name string            `json:"name"`
	Tpls map[string]string `json:"tpls"`
	A    map[string]c03Val `json:"ctx_a"`
	B    map[string]c03Val `json:"ctx_b"`
}

func c03OverlapStops(n int) []int {
	var ks []int
	if n <= 16 {
		for k := 0; k < n; k++ {
			ks = append(ks, k)
		}
		return ks
	}
	seen := map[int]bool{}
	for _, k := range []int{0, 1, 2, 3, n - 2, n - 1} {
		seen[k] = true
	}
	for j := 0; j < 10; j++ {
		seen[4+j*(n-6)/10] = true
	}
	for k := range seen {
		if k >= 0 && k < n {
			ks = append(ks, k)
		}
	}
	sort.Ints(ks)
	return ks
}

// c03CheckOverlap runs one case through every stop position; false = a violation was recorded
func c03CheckOverlap(e *Env, oc *c03OverlapCase) bool {
	r := e.Rep
	ca := &c03Case{Name: oc.Name, Tpls: oc.Tpls, Ctx: oc.A}
	cb := &c03Case{Name: oc.Name, Tpls: oc.Tpls, Ctx: oc.B}
	eng, err := newEngine(oc.Tpls)
	if err != nil {
		r.Skip("overlap: templates do not parse")
		return true
	}
	// references: each context on its own. A through the writer interface (its partial output on an error is part
	// of what is observable), B through Render, both on fresh engines
	freshA, err := newEngine(oc.Tpls)
	if err != nil {
		return true
	}
	aloneA, writes, _ := c03RenderStopped(freshA, "main", c03Ctx(ca, 0), -1, func() {})
	aloneB := c03RenderOnce(cb, 0)
	if aloneA.Class == "timeout" || aloneA.Class == "panic" || aloneB.Class == "timeout" || aloneB.Class == "panic" {
		r.Skip("overlap: case panics or hangs on its own (C05's business)")
		return true
	}
	cj, _ := json.Marshal(oc)
	r.Seen("overlap:"+string(cj), writes >= 2)
	for _, k := range c03OverlapStops(writes) {
		var gotB RenderResult
		gotA, _, stopped := c03RenderStopped(eng, "main", c03Ctx(ca, int64(k)), k, func() {
			gotB = guarded(func() (string, error) { return eng.Render("main", c03Ctx(cb, int64(k+1))) })
		})
		if !stopped {
			// fewer writes than on its own: the comparison below reports it if the bytes differ
			gotB = RenderResult{Out: aloneB.Out, Class: aloneB.Class}
		}
		r.Hit("overlap-stop")
		who, got, want, wantClass := "", RenderResult{}, "", ""
		switch {
		case gotA.Out != aloneA.Out || gotA.Class != aloneA.Class:
			who, got, want, wantClass = "the stopped render (context A)", gotA, aloneA.Out, aloneA.Class
		case gotB.Out != aloneB.Out || gotB.Class != aloneB.Class:
			who, got, want, wantClass = "the render in between (context B)", gotB, aloneB.Out, aloneB.Class
		default:
			continue
		}
		r.Violate(Violation{Key: "overlapping-render-changes-output",
			What: fmt.Sprintf("%s: render A of %q is stopped before its write number %d of %d, render B of the same template on the same engine runs to its end, A goes on: %s prints %q (%s), on its own it prints %q (%s)",
				oc.Name, truncate(oc.Tpls["main"], 120), k, writes, who, truncate(got.Out, 100), got.Class, truncate(want, 100), wantClass),
			Broken: "C03: for fixed templates and a fixed context the rendered bytes are determined by those alone (implementation-only oracle: the same render alone and with another render of the same template in flight; forced schedule)",
			Replay: map[string]any{"kind": "overlap", "case": oc, "stop_before_write": k, "writes": writes, "who": who, "out": got.Out, "class": got.Class, "err": fmt.Sprint(got.Err),
				"out_alone": want, "class_alone": wantClass, "a_alone": aloneA.Out, "b_alone": aloneB.Out}})
		return false
	}
	return true
}

func c03OverlapCorpus() []c03OverlapCase {
	mapOf := func(t string, keys []string, base int64) c03Val {
		v := c03Val{T: t}
		for i, k := range keys {
			v.K = append(v.K, c03S(k))
			v.L = append(v.L, c03I(base+int64(i)))
		}
		return v
	}
	inner := mapOf("msi", []string{"q", "p"}, 7)
	a := map[string]c03Val{
		"m":  {T: "map", K: []c03Val{c03S("c"), c03S("a"), c03S("b")}, L: []c03Val{c03I(3), inner, c03I(2)}},
		"m2": mapOf("msi", []string{"y", "x"}, 20),
		"x":  c03S("q"),
	}
	b := map[string]c03Val{
		"m":  {T: "map", K: []c03Val{c03S("e"), c03S("a"), c03S("d"), c03S("b"), c03S("f")}, L: []c03Val{c03I(5), mapOf("msi", []string{"u", "t", "s"}, 40), c03I(4), c03I(9), c03I(6)}},
		"m2": mapOf("map", []string{"w", "v", "u", "z"}, 30),
		"x":  c03S("zz"),
	}
	var out []c03OverlapCase
	add := func(kind string, forms []string) {
		for i, f := range forms {
			tpls := map[string]string{"main": f}
			for k, v := range c03Aux {
				tpls[k] = v
			}
			out = append(out, c03OverlapCase{Name: fmt.Sprintf("%s %d, contexts of different sizes", kind, i), Tpls: tpls, A: a, B: b})
			out = append(out, c03OverlapCase{Name: fmt.Sprintf("%s %d, equal contexts", kind, i), Tpls: tpls, A: a, B: a})
		}
	}
	add("map form", c03Forms)
	add("failing map form", c03ErrForms)
	add("hash-literal form", c03HashForms)
	// loops over lists and strings, nested loops, loops inside blocks / macros / includes
	add("loop form", []string{
		"{% for v in l %}{{ loop.index }}/{{ loop.length }}:{{ v }}{% if not loop.last %}, {% endif %}{% endfor %}",
		"{% for ch in s %}{{ loop.revindex }}{{ ch }}{{ loop.first ? '^' : '' }}{{ loop.last ? '$' : '-' }}{% endfor %}",
		"{% for v in l %}{% for k, w in m %}{{ loop.parent.loop.index }}.{{ loop.index }}/{{ loop.length }} {% endfor %}{{ loop.index }}/{{ loop.length }};{% endfor %}",
		"{% for v in l %}{{ v }}{% else %}none{% endfor %}|{% for v in [] %}{{ v }}{% else %}none{{ l|length }}{% endfor %}",
		"{% block b %}{% for v in l %}{{ loop.index0 }}{{ v }}{{ loop.revindex0 }}{% endfor %}{% endblock %}{{ block('b') }}",
		"{% macro row(xs) %}{% for v in xs %}{{ loop.index }}:{{ v }}{{ loop.last ? '' : '+' }}{% endfor %}{% endmacro %}{{ _self.row(l) }}={{ _self.row(m|keys) }}",
		"{% set acc = '' %}{% for v in l %}{% set acc = acc ~ v ~ loop.index %}{{ acc }};{% endfor %}{{ acc }}",
		"{% for v in l %}{% if loop.first %}<{% endif %}{{ v|upper }}{% if loop.last %}>{% else %}|{% endif %}{% endfor %}{{ l|join('-') }}{{ s|upper }}{{ m|length }}",
		"{% for i in 1..3 %}{{ i }}{{ loop.last ? '.' : ',' }}{% endfor %}{% for i in range(1, m|length) %}{{ i * loop.length }} {% endfor %}",
	})
	for i := range out {
		if strings.Contains(out[i].Name, "loop form") {
			out[i].A = map[string]c03Val{"l": {T: "strs", L: []c03Val{c03S("p"), c03S("q"), c03S("r")}}, "s": c03S("héllo"), "m": a["m"]}
			if strings.Contains(out[i].Name, "different sizes") {
				out[i].B = map[string]c03Val{"l": {T: "list", L: []c03Val{c03S("w"), c03I(5)}}, "s": c03S("ab"), "m": b["m"]}
			} else {
				out[i].B = out[i].A
			}
		}
	}
	// the struct corpus and the re-entered loops: A and B get the same context
	for _, c := range c03StructCorpus() {
		if strings.Contains(c.Name, "all attributes") || strings.Contains(c.Name, "list of") {
			out = append(out, c03OverlapCase{Name: c.Name, Tpls: c.Tpls, A: c.Ctx, B: c.Ctx})
		}
	}
	re := c03ReentryCorpus()
	for i, c := range re {
		out = append(out, c03OverlapCase{Name: c.Name, Tpls: c.Tpls, A: c.Ctx, B: re[(i+1)%len(re)].Ctx})
	}
	return out
}

func c03Overlap(e *Env) {
	r := e.Rep
	reported := 0
	for _, oc := range c03OverlapCorpus() {
		oc := oc
		if r.Full() || reported >= 3 { // one defect shows in many cases: three examples are enough
			return
		}
		if !c03CheckOverlap(e, &oc) {
			reported++
		}
		r.Hit("overlap-corpus")
	}
	n := e.N(120, 6000)
	for i := 0; i < n && !r.Full(); i++ {
		a, b := c03GenCase(e.Rng, i), c03GenCase(e.Rng, i)
		oc := c03OverlapCase{Name: "overlap of " + a.Name, Tpls: a.Tpls, A: a.Ctx, B: b.Ctx}
		if e.Rng.Intn(4) == 0 {
			oc.B = a.Ctx
		}
		if !c03CheckOverlap(e, &oc) {
			return
		}
		r.Hit("overlap-random")
	}
}

// ---- loops entered again while they run ------------------------------------------------------------------

var c03ReentryBody = [2]string{"{{ loop.index }}/{{ loop.length }}{{ k }}[", "]{{ loop.index }}{{ loop.revindex }}{{ loop.first ? 'F' : '' }}{{ loop.last ? '.' : ',' }}"}

// c03ReentryForms: RECURSE stands for the inner run over the child `c`
var c03ReentryForms = []struct {
	name string
	tpls map[string]string
}{
	{"macro calling itself from inside its loop", map[string]string{
		"main": "{% macro walk(n) %}{% for k, c in n %}" + c03ReentryBody[0] + "{{ _self.walk(c) }}" + c03ReentryBody[1] + "{% endfor %}{% endmacro %}{{ _self.walk(n) }}"}},
	{"template including itself (with)", map[string]string{
		"main": "{% for k, c in n %}" + c03ReentryBody[0] + "{% include 'main' with {'n': c} %}" + c03ReentryBody[1] + "{% endfor %}"}},
	{"template including itself (with … only)", map[string]string{
		"main": "{% for k, c in n %}" + c03ReentryBody[0] + "{% include 'main' with {'n': c} only %}" + c03ReentryBody[1] + "{% endfor %}"}},
	{"two templates including each other", map[string]string{
		"main":  "{% for k, c in n %}" + c03ReentryBody[0] + "{% include 'other' with {'n': c} %}" + c03ReentryBody[1] + "{% endfor %}",
		"other": "{% for k, c in n %}" + c03ReentryBody[0] + "{% include 'main' with {'n': c} only %}" + c03ReentryBody[1] + "{% endfor %}"}},
	{"imported macro calling itself from inside its loop", map[string]string{
		"main": "{% import 'lib' as lib %}{{ lib.walk(n) }}",
		"lib":  "{% macro walk(n) %}{% for k, c in n %}" + c03ReentryBody[0] + "{{ _self.walk(c) }}" + c03ReentryBody[1] + "{% endfor %}{% endmacro %}"}},
}

// c03Walk: what the forms print for a nested value (lists: positions 0.. as keys; maps: keys in sorted order)
func c03Walk(v c03Val) string {
	type item struct {
		key string
		c   c03Val
	}
	var items []item
	switch v.T {
	case "list":
		for i, c := range v.L {
			items = append(items, item{fmt.Sprint(i), c})
		}
	case "map":
		for i, k := range v.K {
			items = append(items, item{k.S, v.L[i]})
		}
		sort.Slice(items, func(i, j int) bool { return items[i].key < items[j].key })
	}
	var sb strings.Builder
	n := len(items)
	for i, it := range items {
		fmt.Fprintf(&sb, "%d/%d%s[%s]%d%d", i+1, n, it.key, c03Walk(it.c), i+1, n-i)
		if i == 0 {
			sb.WriteString("F")
		}
		if i == n-1 {
			sb.WriteString(".")
		} else {
			sb.WriteString(",")
		}
	}
	return sb.String()
}

func c03Tree(r *rand.Rand, depth int) c03Val {
	w := 0
	if depth > 0 {
		w = r.Intn(4)
	}
	if r.Intn(3) == 0 {
		v := c03Val{T: "map"}
		for _, k := range c03PickTreeKeys(r, w) {
			v.K = append(v.K, c03S(k))
			v.L = append(v.L, c03Tree(r, depth-1))
		}
		return v
	}
	v := c03Val{T: "list", L: []c03Val{}}
	for i := 0; i < w; i++ {
		v.L = append(v.L, c03Tree(r, depth-1))
	}
	return v
}

func c03PickTreeKeys(r *rand.Rand, n int) []string {
	all := []string{"a", "b", "c", "aa", "B", "k1", "k10", "k2", "z"}
	out := make([]string, n)
	for i, j := range r.Perm(len(all))[:n] {
		out[i] = all[j]
	}
	return out
}

func c03FixedTrees() []c03Val {
	l := func(xs ...c03Val) c03Val { return c03Val{T: "list", L: append([]c03Val{}, xs...)} }
	m := func(keys string, xs ...c03Val) c03Val {
		v := c03Val{T: "map"}
		for i, k := range strings.Fields(keys) {
			v.K = append(v.K, c03S(k))
			v.L = append(v.L, xs[i])
		}
		return v
	}
	return []c03Val{
		l(l(), l(l(), l()), l()),
		l(l(l(l(), l(), l())), l()),
		l(l(l(), l(), l(), l()), l(), l(l())),
		m("b a c", l(), m("y x", l(), l(l(), l())), l(l())),
		l(m("q p", l(), l()), l(), m("k", l(l(), l(), l()))),
	}
}

func c03ReentryCase(fi int, tree c03Val, name string) c03Case {
	f := c03ReentryForms[fi]
	return c03Case{Name: fmt.Sprintf("re-entered loop: %s, %s", f.name, name), Tpls: f.tpls, Ctx: map[string]c03Val{"n": tree}, Expect: c03Walk(tree)}
}

func c03ReentryCorpus() []c03Case {
	var out []c03Case
	for fi := range c03ReentryForms {
		for ti, t := range c03FixedTrees() {
			out = append(out, c03ReentryCase(fi, t, fmt.Sprintf("fixed tree %d", ti)))
		}
	}
	return out
}

func c03Reentry(e *Env) error {
	r := e.Rep
	cases := c03ReentryCorpus()
	n := e.N(60, 3000)
	for i := 0; i < n; i++ {
		cases = append(cases, c03ReentryCase(e.Rng.Intn(len(c03ReentryForms)), c03Tree(e.Rng, 1+e.Rng.Intn(3)), fmt.Sprintf("random tree %d", i)))
	}
	reported := 0
	for i := range cases {
		if r.Full() || reported >= 2 { // one defect shows in many cases: two examples are enough
			return nil
		}
		c := &cases[i]
		// c03Check: repeated renders with other insertion orders, the same context object three times, and the
		// expected bytes (an empty expectation — the tree has no entries — is compared here)
		plain := *c
		plain.Expect = ""
		ref, ok, err := c03Check(e, &plain, 4, 0)
		if err != nil {
			return err
		}
		cj, _ := json.Marshal(c)
		r.Seen("reentry:"+string(cj), c.Expect != "")
		r.Hit("reentry")
		if !ok {
			reported++
		} else if ref.Out != c.Expect || ref.Class != "" {
			reported++
			r.Violate(Violation{Key: "re-entered-loop-output",
				What:   fmt.Sprintf("%s renders %q (%s), walking the value in Go gives %q", c.Name, truncate(ref.Out, 100), ref.Class, truncate(c.Expect, 100)),
				Broken: "C03 / loop variables belong to one run of a loop (direct computation in Go)",
				Replay: map[string]any{"kind": "expect", "case": c, "out": ref.Out, "class": ref.Class, "err": ref.Err, "expected": c.Expect}})
		}
	}
	return nil
}
