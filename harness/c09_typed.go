package main

import (
	"fmt"
	"math/rand"
	"reflect"
	"strings"
)

// C09, sequences as Go callers pass them.
//
// The property quantifies over "every sequence": a caller of the library does not hand over []interface{} only but
// []string, []int64, [3]int, [][]int, []map[string]interface{}, map[string]int, named slice types … The engine turns
// these into its own representation when a loop starts. What a loop renders is a function of the ELEMENTS, not of the
// Go type that carries them, so:
//
//	render(templates, context with typed Go sequences) = render(templates, the same context spelled with
//	[]interface{} / map[string]interface{})
//
// and the right-hand side is what the Lean model says (compareCase). Two parts:
//   - runTypedNestMatrix: every pair of representations nested in each other (and side by side) at every pair of
//     lengths 0..3 (thorough 0..6), expectation computed directly in Go;
//   - runTypedPrograms: random programs nesting for/else, if, set and include to depth 3 over a context of lists, lists
//     of lists, lists of records and maps; the canonical context goes through compareCase (model), every typed spelling
//     of it is rendered twice on a fresh engine and must give the same.

type cIntList []int
type cStrList []string
type cRec map[string]interface{}

// ---- typed spellings of a canonical value -----------------------------------------------------------------------

func allOf(xs []interface{}, pred func(any) bool) bool {
	for _, x := range xs {
		if !pred(x) {
			return false
		}
	}
	return true
}

func isInt(v any) bool  { _, ok := v.(int); return ok }
func isStr(v any) bool  { _, ok := v.(string); return ok }
func isBool(v any) bool { _, ok := v.(bool); return ok }
func isIntList(v any) bool {
	l, ok := v.([]interface{})
	return ok && allOf(l, isInt)
}
func isStrList(v any) bool {
	l, ok := v.([]interface{})
	return ok && allOf(l, isStr)
}
func isList(v any) bool { _, ok := v.([]interface{}); return ok }
func isMap(v any) bool  { _, ok := v.(map[string]interface{}); return ok }

// arrayOf builds a Go array value [n]T from a slice value []T.
func arrayOf(slice any) any {
	sv := reflect.ValueOf(slice)
	av := reflect.New(reflect.ArrayOf(sv.Len(), sv.Type().Elem())).Elem()
	reflect.Copy(av, sv)
	return av.Interface()
}

func smallInts(xs []interface{}) bool {
	return allOf(xs, func(v any) bool { i := v.(int); return i >= -128 && i <= 127 })
}

// intListReps: every spelling of a list of ints; which = index (callers enumerate or draw).
var intListReps = []struct {
	name string
	mk   func(xs []interface{}) any
}{
	{"[]interface{}", func(xs []interface{}) any { return append([]interface{}{}, xs...) }},
	{"[]int", func(xs []interface{}) any {
		o := make([]int, len(xs))
		for i, x := range xs {
			o[i] = x.(int)
		}
		return o
	}},
	{"[]int64", func(xs []interface{}) any {
		o := make([]int64, len(xs))
		for i, x := range xs {
			o[i] = int64(x.(int))
		}
		return o
	}},
	{"[]int16", func(xs []interface{}) any {
		o := make([]int16, len(xs))
		for i, x := range xs {
			o[i] = int16(x.(int))
		}
		return o
	}},
	{"[n]int", func(xs []interface{}) any {
		o := make([]int, len(xs))
		for i, x := range xs {
			o[i] = x.(int)
		}
		return arrayOf(o)
	}},
	{"named []int", func(xs []interface{}) any {
		o := make(cIntList, len(xs))
		for i, x := range xs {
			o[i] = x.(int)
		}
		return o
	}},
	{"[]int with spare capacity", func(xs []interface{}) any {
		o := make([]int, len(xs), len(xs)+4)
		for i, x := range xs {
			o[i] = x.(int)
		}
		return o
	}},
}

var strListReps = []struct {
	name string
	mk   func(xs []interface{}) any
}{
	{"[]interface{}", func(xs []interface{}) any { return append([]interface{}{}, xs...) }},
	{"[]string", func(xs []interface{}) any {
		o := make([]string, len(xs))
		for i, x := range xs {
			o[i] = x.(string)
		}
		return o
	}},
	{"[n]string", func(xs []interface{}) any {
		o := make([]string, len(xs))
		for i, x := range xs {
			o[i] = x.(string)
		}
		return arrayOf(o)
	}},
	{"named []string", func(xs []interface{}) any {
		o := make(cStrList, len(xs))
		for i, x := range xs {
			o[i] = x.(string)
		}
		return o
	}},
}

// typedRep draws one Go spelling of a canonical value (recursively). With r == nil it returns the most specific
// spelling. The elements are the same in every spelling.
func typedRep(v any, r *rand.Rand) any {
	choose := func(n int) int {
		if r == nil {
			return 1 % n
		}
		return r.Intn(n)
	}
	switch x := v.(type) {
	case []interface{}:
		switch {
		case len(x) > 0 && allOf(x, isInt), len(x) == 0 && choose(2) == 0:
			k := choose(len(intListReps))
			if intListReps[k].name == "[]int16" && !smallInts(x) {
				k = 1
			}
			return intListReps[k].mk(x)
		case allOf(x, isStr):
			return strListReps[choose(len(strListReps))].mk(x)
		case allOf(x, isBool):
			if choose(3) == 0 {
				break
			}
			o := make([]bool, len(x))
			for i, b := range x {
				o[i] = b.(bool)
			}
			return o
		case allOf(x, isIntList):
			switch choose(4) {
			case 0:
				o := make([][]int, len(x))
				for i, row := range x {
					o[i] = intListReps[1].mk(row.([]interface{})).([]int)
				}
				return o
			case 1:
				o := make([]cIntList, len(x))
				for i, row := range x {
					o[i] = intListReps[5].mk(row.([]interface{})).(cIntList)
				}
				return o
			case 2:
				o := make([][]interface{}, len(x))
				for i, row := range x {
					o[i] = append([]interface{}{}, row.([]interface{})...)
				}
				return o
			}
		case allOf(x, isStrList):
			if choose(2) == 0 {
				o := make([][]string, len(x))
				for i, row := range x {
					o[i] = strListReps[1].mk(row.([]interface{})).([]string)
				}
				return o
			}
		case allOf(x, isMap):
			switch choose(3) {
			case 0:
				o := make([]map[string]interface{}, len(x))
				for i, m := range x {
					o[i] = typedRep(m, r).(map[string]interface{})
				}
				return o
			case 1:
				o := make([]cRec, len(x))
				for i, m := range x {
					o[i] = cRec(typedRep(m, r).(map[string]interface{}))
				}
				return o
			}
		}
		o := make([]interface{}, len(x))
		for i, y := range x {
			o[i] = typedRep(y, r)
		}
		return o
	case map[string]interface{}:
		vals := make([]interface{}, 0, len(x))
		for _, y := range x {
			vals = append(vals, y)
		}
		isRecord := false
		if _, ok := x["items"]; ok {
			isRecord = true // records keep their map type (the list-of-records spellings need it); their fields vary
		}
		if !isRecord && len(x) > 0 {
			switch {
			case allOf(vals, isInt) && choose(3) > 0:
				if choose(2) == 0 {
					o := map[string]int{}
					for k, y := range x {
						o[k] = y.(int)
					}
					return o
				}
				o := map[string]int64{}
				for k, y := range x {
					o[k] = int64(y.(int))
				}
				return o
			case allOf(vals, isStr) && choose(3) > 0:
				o := map[string]string{}
				for k, y := range x {
					o[k] = y.(string)
				}
				return o
			case allOf(vals, isIntList) && choose(3) > 0:
				o := map[string][]int{}
				for k, y := range x {
					o[k] = intListReps[1].mk(y.([]interface{})).([]int)
				}
				return o
			}
		}
		o := make(map[string]interface{}, len(x))
		for k, y := range x {
			o[k] = typedRep(y, r)
		}
		return o
	}
	return v
}

func goSyntax(ctx map[string]any) map[string]any {
	o := map[string]any{}
	for k, v := range ctx {
		o[k] = fmt.Sprintf("%#v", v)
	}
	return o
}

// ---- part 1: every pair of spellings nested and side by side, every pair of lengths -------------------------------

func runTypedNestMatrix(e *Env) {
	r := e.Rep
	type rep struct {
		name string
		mk   func(xs []interface{}) any
		elem func(i int) any
	}
	var reps []rep
	for _, ir := range intListReps {
		reps = append(reps, rep{ir.name, ir.mk, func(i int) any { return 7 + i*3 }})
	}
	for _, sr := range strListReps[1:] {
		reps = append(reps, rep{sr.name, sr.mk, func(i int) any { return []string{"ann", "bo", "çé", "d"}[i%4] + strings.Repeat("'", i/4) }})
	}
	reps = append(reps, rep{"[]bool", func(xs []interface{}) any {
		o := make([]bool, len(xs))
		for i, x := range xs {
			o[i] = x.(bool)
		}
		return o
	}, func(i int) any { return i%2 == 0 }})
	const tpl = "{% for x in outer %}{{ loop.index }}/{{ loop.length }}={{ x }}({% for y in inner %}{{ y }}{{ loop.last ? '' : ',' }}{% else %}none{% endfor %}){{ x }}:{{ loop.revindex }} {% else %}EMPTY{% endfor %}" +
		"|{% for y in inner %}{{ y }};{% endfor %}{% for k, x in outer %}{{ k }}{{ x }};{% endfor %}"
	eng, err := newEngine(map[string]string{"main": tpl})
	if err != nil {
		r.Violate(Violation{Key: "typed-sequence-differs", What: "the nested-loop probe does not parse: " + err.Error(), Broken: "C09 (implementation-only oracle)", Replay: map[string]any{"kind": "src", "src": tpl}})
		return
	}
	maxLen := e.N(3, 6)
	mkCanon := func(rp rep, n, shift int) []interface{} {
		o := make([]interface{}, n)
		for i := range o {
			o[i] = rp.elem(i + shift)
		}
		return o
	}
	show := func(v any) string { return fmt.Sprint(v) }
	for _, ro := range reps {
		for _, ri := range reps {
			for no := 0; no <= maxLen; no++ {
				for ni := 0; ni <= maxLen && !r.Full(); ni++ {
					outer, inner := mkCanon(ro, no, 0), mkCanon(ri, ni, 1)
					var want strings.Builder
					innerOut := "none"
					if ni > 0 {
						parts := make([]string, ni)
						for i, y := range inner {
							parts[i] = show(y)
						}
						innerOut = strings.Join(parts, ",")
					}
					for i, x := range outer {
						fmt.Fprintf(&want, "%d/%d=%s(%s)%s:%d ", i+1, no, show(x), innerOut, show(x), no-i)
					}
					if no == 0 {
						want.WriteString("EMPTY")
					}
					want.WriteString("|")
					for _, y := range inner {
						want.WriteString(show(y) + ";")
					}
					for i, x := range outer {
						fmt.Fprintf(&want, "%d%s;", i, show(x))
					}
					ctx := map[string]interface{}{"outer": ro.mk(outer), "inner": ri.mk(inner)}
					res := guarded(func() (string, error) { return eng.Render("main", ctx) })
					r.Seen(fmt.Sprintf("typed-nest:%s:%s:%d:%d", ro.name, ri.name, no, ni), no > 0 && ni > 0)
					r.Hit("typed-nest-matrix")
					if res.Class != "" || res.Out != want.String() {
						r.Violate(Violation{Key: "typed-sequence-differs", What: fmt.Sprintf("a loop over a %s of length %d with a loop over a %s of length %d in its body renders %q (%s), expected %q", ro.name, no, ri.name, ni, truncate(res.Out, 160), res.Class, truncate(want.String(), 160)),
							Broken: "theorem C09_loop_meta / C09_nested: the body is rendered once per element of its own sequence, whatever Go type carries the elements (implementation-only oracle, expectation computed in Go)",
							Replay: map[string]any{"kind": "typed-context", "templates": map[string]any{"main": tpl}, "main": "main", "ctx": map[string]any{"outer": outer, "inner": inner}, "ctx_go": goSyntax(ctx), "want": want.String(), "got": res.Out, "class": res.Class}})
						return
					}
				}
			}
		}
	}
}

// ---- part 2: random programs over a context of sequences of every shape ----------------------------------------------

type seqVar struct {
	e     GExpr
	shape string // scalars | rows | recs | mapScalars | mapLists
}

type typedGen struct {
	r     *rand.Rand
	names int
}

func (g *typedGen) fresh(p string) string {
	g.names++
	return fmt.Sprintf("%s%d", p, g.names)
}

func (g *typedGen) scalars(kind, n int) []interface{} {
	o := make([]interface{}, n)
	for i := range o {
		switch kind {
		case 0:
			o[i] = g.r.Intn(30) - 4
		case 1:
			o[i] = pick(g.r, []string{"ann", "bob", "cyd", "", "d e", "é世", "<i>", "0"}) + pick(g.r, []string{"", "", "1", "2"})
		default:
			o[i] = g.r.Intn(2) == 0
		}
	}
	return o
}

func (g *typedGen) ctx() (map[string]any, []seqVar) {
	r := g.r
	ln := func() int { return pick(r, []int{0, 1, 2, 2, 3, 3, 4, 5}) }
	rows := make([]interface{}, ln())
	rk := r.Intn(2)
	for i := range rows {
		rows[i] = g.scalars(rk, ln())
	}
	recs := make([]interface{}, ln())
	for i := range recs {
		recs[i] = map[string]interface{}{"k": pick(r, []string{"p", "q", "r"}) + fmt.Sprint(i), "items": g.scalars(0, ln())}
	}
	mi := map[string]interface{}{}
	for i, n := 0, ln(); i < n; i++ {
		mi[fmt.Sprintf("k%d", (i*7+r.Intn(3))%10)] = g.scalars(r.Intn(1), 1)[0]
	}
	ms := map[string]interface{}{}
	for i, n := 0, ln(); i < n; i++ {
		ms[pick(r, []string{"x", "y", "z", "w", "é"})+fmt.Sprint(i%2)] = g.scalars(1, 1)[0]
	}
	ml := map[string]interface{}{}
	for i, n := 0, ln(); i < n; i++ {
		ml[fmt.Sprintf("g%d", i)] = g.scalars(0, ln())
	}
	ctx := map[string]any{
		"a": g.scalars(0, ln()), "b": g.scalars(1, ln()), "c": g.scalars(0, ln()), "d": g.scalars(2, ln()), "s2": g.scalars(1, ln()),
		"rows": rows, "recs": recs, "mi": mi, "ms": ms, "ml": ml, "n": r.Intn(5), "acc": "",
	}
	vars := []seqVar{{EVar{"a"}, "scalars"}, {EVar{"b"}, "scalars"}, {EVar{"c"}, "scalars"}, {EVar{"d"}, "scalars"}, {EVar{"s2"}, "scalars"},
		{EVar{"rows"}, "rows"}, {EVar{"recs"}, "recs"}, {EVar{"mi"}, "mapScalars"}, {EVar{"ms"}, "mapScalars"}, {EVar{"ml"}, "mapLists"}}
	return ctx, vars
}

var loopFields = []string{"index", "index0", "revindex", "revindex0", "first", "last", "length"}

func (g *typedGen) body(d int, seqs []seqVar, scal []GExpr, inLoop bool) []GNode {
	r := g.r
	var out []GNode
	for i, n := 0, 1+r.Intn(3); i < n; i++ {
		k := r.Intn(12)
		if d <= 0 && k >= 5 && k <= 9 {
			k = r.Intn(5)
		}
		switch {
		case k < 2:
			out = append(out, NPrint{pick(r, scal)}, NText{pick(r, []string{"", " ", ","})})
		case k < 4:
			if inLoop {
				out = append(out, NPrint{EAttr{EVar{"loop"}, pick(r, loopFields)}}, NText{"."})
			} else {
				out = append(out, NText{pick(r, []string{"-", "t", "<>"})})
			}
		case k == 4:
			out = append(out, NSet{"acc", EBin{"~", EVar{"acc"}, pick(r, scal)}})
		case k < 9: // for
			sv := pick(r, seqs)
			x := NFor{Val: g.fresh("v"), Seq: sv.e}
			if strings.HasPrefix(sv.shape, "map") || r.Intn(3) == 0 {
				x.Key = g.fresh("k")
			}
			seqs2, scal2 := seqs, append([]GExpr{}, scal...)
			if x.Key != "" {
				scal2 = append(scal2, EVar{x.Key})
			}
			switch sv.shape {
			case "scalars", "mapScalars":
				scal2 = append(scal2, EVar{x.Val}, EVar{x.Val})
			case "rows", "mapLists":
				seqs2 = append(append([]seqVar{}, seqs...), seqVar{EVar{x.Val}, "scalars"}, seqVar{EVar{x.Val}, "scalars"})
			case "recs":
				scal2 = append(scal2, EAttr{EVar{x.Val}, "k"})
				seqs2 = append(append([]seqVar{}, seqs...), seqVar{EAttr{EVar{x.Val}, "items"}, "scalars"}, seqVar{EAttr{EVar{x.Val}, "items"}, "scalars"})
			}
			own := scal2[len(scal2)-1]
			x.Body = append([]GNode{NText{"["}, NPrint{own}}, g.body(d-1, seqs2, scal2, true)...)
			// the loop's own variable and counters once more AFTER whatever ran inside
			x.Body = append(x.Body, NText{"/"}, NPrint{own}, NText{"@"}, NPrint{EAttr{EVar{"loop"}, pick(r, loopFields)}}, NText{"]"})
			if r.Intn(2) == 0 {
				x.HasElse = true
				x.Else = []GNode{NText{"(none)"}}
			}
			out = append(out, x)
		case k == 9: // if
			var c GExpr
			switch {
			case inLoop && r.Intn(2) == 0:
				c = pick(r, []GExpr{EAttr{EVar{"loop"}, "first"}, EAttr{EVar{"loop"}, "last"}, ETest{EAttr{EVar{"loop"}, "index"}, "even", false, nil}, EBin{">", EAttr{EVar{"loop"}, "length"}, ELit{2}}})
			default:
				c = pick(r, scal) // truthiness of an element
			}
			x := NIf{Conds: []GExpr{c}, Bodies: [][]GNode{g.body(d-1, seqs, scal, inLoop)}}
			if r.Intn(2) == 0 {
				x.HasElse = true
				x.Else = g.body(d-1, seqs, scal, inLoop)
			}
			out = append(out, x)
		case k == 10:
			out = append(out, NInclude{E: ELit{"part"}, WithKeys: []string{"p"}, WithVals: []GExpr{pick(r, scal)}})
		default:
			out = append(out, NPrint{EVar{"acc"}}, NText{";"})
		}
	}
	return out
}

func genTypedCase(e *Env) *Case {
	g := &typedGen{r: e.Rng}
	ctx, vars := g.ctx()
	body := g.body(3, vars, []GExpr{EVar{"n"}}, false)
	// at least one nest of two loops over context sequences
	if !strings.Contains(plainTpl.nodes(body), "{% for") {
		body = append(body, g.body(3, vars, []GExpr{EVar{"n"}}, false)...)
	}
	part := "<{{ p }}:{% for q in " + pick(e.Rng, []string{"b", "c", "s2", "a"}) + " %}{{ q }}{{ loop.revindex0 }}{% for z in d %}{{ z ? 'T' : 'F' }}{% endfor %}{% else %}0{% endfor %}{{ p }}>"
	st := &TplStyle{Expr: Style{Rng: e.Rng}}
	return &Case{Templates: map[string]string{"main": st.nodes(body), "part": part}, Main: "main", Ctx: ctx, FailAt: -1}
}

func runTypedPrograms(e *Env) error {
	r := e.Rep
	n := e.N(220, 12000)
	for i := 0; i < n && !r.Full(); i++ {
		c := genTypedCase(e)
		im, _, ok, err := compareCase(e, c, "render-model-c09", "correspondence render (TwigModel.Render vs node.go/render.go) on loop nests over lists, lists of lists, records and maps")
		if err != nil {
			return err
		}
		main := c.Templates["main"]
		r.Seen("typed:"+main, ok && im.Class == "" && strings.Count(main, "for ") >= 2)
		if im.Class == "panic" || im.Class == "timeout" || (e.Model != nil && !ok) {
			continue
		}
		for k := 0; k < 2; k++ {
			c2 := *c
			c2.Prime = ""
			c2.Ctx = map[string]any{}
			for name, v := range c.Ctx {
				var rr *rand.Rand
				if k > 0 {
					rr = e.Rng
				}
				c2.Ctx[name] = typedRep(v, rr)
			}
			got := runImpl(&c2)
			eng := lastEngine
			r.Hit("typed-context-render")
			which := "a fresh engine"
			if got.Class == im.Class && got.Out == im.Out && eng != nil {
				// once more on the same engine with the very same typed values: contexts and buffers are pooled
				res := guarded(func() (string, error) { return eng.Render(c2.Main, map[string]interface{}(c2.Ctx)) })
				got = Outcome{Out: res.Out, Class: mapClass(res.Class)}
				which = "the second render on the same engine"
			}
			if got.Class != im.Class || got.Out != im.Out {
				rp := c.replay(im, got)
				rp["kind"] = "typed-context"
				rp["ctx_go"] = goSyntax(c2.Ctx)
				rp["want"] = im.Out
				r.Violate(Violation{Key: "typed-sequence-differs", What: fmt.Sprintf("with the context's sequences passed as typed Go slices, arrays and maps (%s) the program renders %q (%s); with the same elements in []interface{} / map[string]interface{} — and in the model — %q (%s)", which, truncate(got.Out, 160), got.Class, truncate(im.Out, 160), im.Class),
					Broken: "theorem C09_loop_meta / C09_nested / C09_set_visible: what a loop renders depends on the elements of its sequence, not on the Go type carrying them (metamorphic oracle over the model-checked render)", Replay: rp})
				break
			}
		}
	}
	return nil
}
