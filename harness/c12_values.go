package main

import (
	"fmt"
	"strings"
)

// C12 — the VALUE of a macro call.
//
// A macro call is an expression: its value can be handed to another macro as an argument, stored with set, and
// printed any number of times (0, 1, 2, 3 …), next to the values of other macro calls and with other macro calls
// made in between. Every printing shows the macro body rendered with the arguments the call was WRITTEN with
// (positionally, defaults for omitted ones, null otherwise) — the binding is a property of the call, not of the
// first time its value is consumed. The same through every route (local name, _self, import, from, from … as).
//
// Expected values are computed here from the binding rule (independent spec); the Lean pipeline is compared too
// where the model supports the program.

type c12Call struct {
	args []string // argument expressions as written
	out  string   // what the call renders
}

func runC12Values(e *Env) error {
	r := e.Rep
	rg := e.Rng
	params := []string{"p", "q", "r", "s"}
	defaults := [][2]string{{"'dq'", "dq"}, {"7", "7"}, {"true", "true"}, {"'d' ~ 'x'", "dx"}, {"g", "G"}, {"g ~ '!'", "G!"}, {"null", ""}}
	argKinds := func(i int) [2]string {
		switch rg.Intn(5) {
		case 0:
			return [2]string{fmt.Sprint(i + 10), fmt.Sprint(i + 10)}
		case 1:
			return [2]string{"'s" + fmt.Sprint(i) + "'", "s" + fmt.Sprint(i)}
		case 2:
			return [2]string{"g ~ '!'", "G!"}
		case 3:
			return [2]string{"[4, 5, 6]|length", "3"}
		}
		return [2]string{"null", ""}
	}
	carriers := []string{"arg", "arg-nested", "set", "set-loop", "set-interleaved", "set-call-between", "arg-two"}
	routes := []string{"local", "self", "import", "from", "from-alias"}
	n := e.N(60, 6000)
	for it := 0; it < n && !r.Full(); it++ {
		arity := 1 + rg.Intn(4)
		defMask := rg.Intn(1 << arity)
		var sig []string
		dflt := make([][2]string, arity)
		for i := 0; i < arity; i++ {
			dflt[i] = pick(rg, defaults)
			if defMask&(1<<i) != 0 {
				sig = append(sig, params[i]+" = "+dflt[i][0])
			} else {
				sig = append(sig, params[i])
			}
		}
		var body strings.Builder
		body.WriteString("M(")
		for i := 0; i < arity; i++ {
			body.WriteString("[{{ " + params[i] + " }}]")
		}
		body.WriteString("g={{ g }})")
		// the consuming macros print their parameter 0, 1, 2, 3 times
		lib := "{% macro m(" + strings.Join(sig, ", ") + ") %}" + body.String() + "{% endmacro %}" +
			"{% macro use0(c) %}U0{% endmacro %}" +
			"{% macro use1(c) %}U1{{ c }}{% endmacro %}" +
			"{% macro use2(c) %}U2{{ c }}-{{ c }}{% endmacro %}" +
			"{% macro use3(c) %}U3{{ c }}-{{ c }}-{{ c }}{% endmacro %}" +
			"{% macro pair(c, d) %}P{{ c }}{{ d }}{{ c }}{{ d }}{% endmacro %}" +
			"{% macro nest(c) %}N{{ use2(c) }}+{{ c }}{% endmacro %}" +
			"{% macro other(a, b) %}O{{ a }}{{ b }}{% endmacro %}"
		mkCall := func() c12Call {
			argc := rg.Intn(arity + 2)
			if argc == 0 && rg.Intn(3) != 0 {
				argc = 1 + rg.Intn(arity)
			}
			c := c12Call{}
			var o strings.Builder
			o.WriteString("M(")
			for i := 0; i < argc; i++ {
				a := argKinds(i)
				c.args = append(c.args, a[0])
				if i < arity {
					o.WriteString("[" + a[1] + "]")
				}
			}
			for i := argc; i < arity; i++ {
				if defMask&(1<<i) != 0 {
					o.WriteString("[" + dflt[i][1] + "]")
				} else {
					o.WriteString("[]")
				}
			}
			o.WriteString("g=G)")
			c.out = o.String()
			return c
		}
		c1, c2 := mkCall(), mkCall()
		k := rg.Intn(4) // how many times the value is printed
		carrier := carriers[it%len(carriers)]
		route := routes[(it/len(carriers))%len(routes)]
		// name under which a library macro is reached by this route
		var prelude string
		name := func(mn string) string { return mn }
		switch route {
		case "local":
			prelude = lib
		case "self":
			prelude = lib
			name = func(mn string) string { return "_self." + mn }
		case "import":
			prelude = "{% import 'lib' as L %}"
			name = func(mn string) string { return "L." + mn }
		case "from":
			prelude = "{% from 'lib' import m, use0, use1, use2, use3, pair, nest, other %}"
		case "from-alias":
			prelude = "{% from 'lib' import m as xm, use0 as xuse0, use1 as xuse1, use2 as xuse2, use3 as xuse3, pair as xpair, nest as xnest, other as xother %}"
			name = func(mn string) string { return "x" + mn }
		}
		callSrc := func(c c12Call) string { return name("m") + "(" + strings.Join(c.args, ", ") + ")" }
		rep := func(s string, times int, sep string) string {
			parts := make([]string, times)
			for i := range parts {
				parts[i] = s
			}
			return strings.Join(parts, sep)
		}
		var page, want string
		switch carrier {
		case "arg":
			use := fmt.Sprintf("use%d", k)
			page = "{{ " + name(use) + "(" + callSrc(c1) + ") }}"
			want = fmt.Sprintf("U%d", k) + rep(c1.out, k, "-")
		case "arg-nested":
			page = "{{ " + name("nest") + "(" + callSrc(c1) + ") }}"
			want = "NU2" + c1.out + "-" + c1.out + "+" + c1.out
		case "arg-two":
			page = "{{ " + name("pair") + "(" + callSrc(c1) + ", " + callSrc(c2) + ") }}"
			want = "P" + c1.out + c2.out + c1.out + c2.out
		case "set":
			page = "{% set v = " + callSrc(c1) + " %}" + rep("{{ v }}", k, "-")
			want = rep(c1.out, k, "-")
		case "set-loop":
			page = "{% set v = " + callSrc(c1) + " %}{% for i in [1, 2, 3] %}{{ i }}{{ v }}{% endfor %}"
			want = "1" + c1.out + "2" + c1.out + "3" + c1.out
		case "set-interleaved":
			page = "{% set v = " + callSrc(c1) + " %}{% set w = " + callSrc(c2) + " %}{{ v }}{{ w }}{{ v }}{{ w }}"
			want = c1.out + c2.out + c1.out + c2.out
		case "set-call-between":
			page = "{% set v = " + callSrc(c1) + " %}{{ v }}{{ " + name("other") + "('x', 'y') }}{{ " + callSrc(c2) + " }}{{ v }}"
			want = c1.out + "Oxy" + c2.out + c1.out
		}
		// the whole thing once more inside a loop: a later iteration's values are its own
		if rg.Intn(3) == 0 {
			page = "{% for j in [1, 2] %}" + page + ";{% endfor %}"
			want = want + ";" + want + ";"
		}
		tpls := map[string]string{"main": prelude + page, "lib": lib}
		c := &Case{Templates: tpls, Main: "main", Ctx: map[string]any{"g": "G", "p": "OUTER-p", "q": "OUTER-q", "r": "OUTER-r", "s": "OUTER-s"}, FailAt: -1}
		im, _, _, err := compareCase(e, c, "render-model-c12", "correspondence (Lean pipeline vs real engine) on macro-call values")
		if err != nil {
			return err
		}
		r.Seen(fmt.Sprintf("value/%s/%s/%d/%s/%v/%v", carrier, route, k, strings.Join(sig, ","), c1.args, c2.args), true)
		r.Hit("value-carrier:" + carrier)
		r.Hit("value-route:" + route)
		if im.Class != "" || im.Out != want {
			if r.Violate(Violation{Key: "macro-call-value-rendered-again", What: fmt.Sprintf("macro m(%s): the value of %s consumed through %q via %s renders %q (%s), expected %q (every printing of a macro-call value shows the arguments the call was written with)", strings.Join(sig, ", "), callSrc(c1), carrier, route, truncate(im.Out, 200), im.Class, want),
				Broken: "theorem C12_binding / C12_routes_agree (implementation-only oracle: independent binding spec applied to every printing of a macro-call value)",
				Replay: map[string]any{"kind": "render", "templates": tpls, "main": "main", "ctx": map[string]any{"g": "G"}, "want": want, "got": im.Out, "class": im.Class, "msg": im.Msg}}) {
				return nil
			}
		}
	}
	return nil
}
