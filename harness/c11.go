package main

import (
	"fmt"
	"strings"

	"github.com/semihalev/twig"
)

// C11 — include renders in the right scope and never changes the includer's state.

func init() { register("C11", runC11) }

var c11Names = []string{"a", "b", "c", "d"}

func runC11(e *Env) error {
	if err := relNamesCorpus(e); err != nil {
		return err
	}
	r := e.Rep
	rg := e.Rng
	r.Rule = "includer/included pairs over 4 variable names: each name independently unset / set in the context / set by the includer before the include; every combination of with / only / ignore missing (and sandboxed with an all-allowing policy), " +
		"static and computed names, the include standing at top level, in a for loop, in a block, in a macro, in a nested include; the included template prints its view of every name, then sets every name, runs a loop over them, defines a macro and a block; " +
		"chains of 1-3 includes each standing in 0-2 nested for loops (list, map, string, range; key variable or not; 1-3 elements; bodies from the bare include tag to text/print/comment/if/set/block around it) where every template prints all seven loop counters and every loop variable before, inside and after its loops; " +
		"every include tag (7 kinds of target × with / only / ignore missing / sandboxed) run N times in one scope (loop over data / range, nested loops, block / if in the loop, macro body, included template, written out; N on a ladder up to 1025) followed by one include of every kind and the includer's probes, chains of includes up to 300 levels deep, every such case rendered twice on one engine; " +
		"oracles (implementation-only): the included view equals the scope rule, the includer's probes after the include equal the probes before it, ignore-missing only forgives a missing template; plus the Lean pipeline; " +
		"non-trivial = included template exists and at least one name is visible; distinct by template set + context"
	view := func() string {
		var sb strings.Builder
		for _, n := range c11Names {
			sb.WriteString("{% if " + n + " is defined %}" + n + "={{ " + n + " }};{% else %}" + n + "=U;{% endif %}")
		}
		return sb.String()
	}
	// (s0) the includer's list and map are used by the included template through every list filter (and a loop over a
	// filtered copy); the includer reads them again afterwards: same order, same length
	for _, form := range []string{"{% include 'user' %}", "{% include 'user' with {'lst': lst, 'mp': mp} only %}", "{% for i in [1, 2] %}{% include 'user' %}{% endfor %}", "{% include 'mid2' %}"} {
		user := "{{ lst|sort|first }}{{ lst|reverse|first }}{{ lst|slice(1)|first }}{{ lst|merge([0])|last }}{{ mp|keys|first }}{{ mp|merge({'a': 0})|length }}{% for q in lst|sort %}{{ q }}{% endfor %}{% set lst = lst|sort %}{{ lst|first }}"
		probe := "L{{ lst|join(',') }}M{{ mp|keys|join(',') }}N{{ nested.l|join(',') }}"
		main := probe + "|" + form + "|" + probe
		c := &Case{Templates: map[string]string{"main": main, "user": user + "{{ nested.l|sort|first }}{{ nested.l|reverse|first }}", "mid2": "{% include 'user' %}"}, Main: "main", FailAt: -1,
			Ctx: map[string]any{"lst": []interface{}{3, 1, 2}, "mp": map[string]interface{}{"z": 1, "k": 2}, "nested": map[string]interface{}{"l": []interface{}{"c", "a", "b"}}}}
		im := runImpl(c) // sort and slice are outside the pipeline model: implementation-only
		r.Seen("data:"+form, true)
		parts := strings.Split(im.Out, "|")
		if im.Class != "" || len(parts) != 3 || parts[0] != parts[2] || parts[0] != "L3,1,2Mk,zNc,a,b" {
			r.Violate(Violation{Key: "include-changes-includer-state", What: fmt.Sprintf("%s where the included template sorts / reverses / slices / merges the includer's list: the includer reads %q before and %q after (%s)", form, parts[0], parts[len(parts)-1], im.Class),
				Broken: "theorem C11_non_interference (implementation-only oracle)", Replay: c.replay(im, Outcome{})})
		}
	}
	child := "<" + view() + ">" +
		"{% set a = 'child-a' %}{% set b = 'child-b' %}{% set zz = 1 %}" +
		"{% for c in [7, 8] %}{% set d = c %}{% endfor %}" +
		"{% macro cm() %}CM{% endmacro %}{% block cb %}CB{% endblock %}"
	failing := "{{ nosuchfn() }}"
	// the same included template written with its assignments in other places (taken else branch, loop body, nested if)
	childVariants := []string{
		child,
		"<" + view() + ">" + "{% if false %}never{% else %}{% set a = 'child-a' %}{% set b = 'child-b' %}{% endif %}{% for c in [7, 8] %}{% set d = c %}{% endfor %}{% block cb %}CB{% endblock %}",
		"<" + view() + ">" + "{% for q in [1] %}{% if q %}{% set a = 'child-a' %}{% endif %}{% set zz = q %}{% endfor %}{% if a %}{% set b = 'child-b' %}{% else %}{% set b = 'child-b2' %}{% endif %}{% set d = 1 %}{% set c = 2 %}{% block cb %}CB{% endblock %}",
		"<" + view() + ">" + "{% if true %}{% if false %}x{% elseif false %}y{% else %}{% set d = 'deep' %}{% set a = 1 %}{% set b = 2 %}{% set c = 3 %}{% endif %}{% endif %}{% block cb %}CB{% endblock %}",
	}
	// only text, prints and conditionals at the top level — the assignments hide in branches of conditionals
	childVariants = append(childVariants,
		"<"+view()+">"+"{% if false %}n{% else %}{% set a = 'child-a' %}{% set b = 'child-b' %}{% set c = 1 %}{% set d = 2 %}{% endif %}CB",
		"<"+view()+">"+"{% if false %}n{% elseif true %}{% if true %}{% set a = 'x' %}{% set zz = 1 %}{% endif %}{% set b = 'y' %}{% else %}m{% endif %}{% if a %}{% set c = 1 %}{% set d = 2 %}{% endif %}CB")
	// the included template extends a layout: what it (in an overriding block) and the layout read is the includer's scope too
	childVariants = append(childVariants,
		"{% extends 'lay' %}{% block v %}<"+view()+">{% endblock %}{% block tail %}{% set a = 'child-a' %}{% set d = 4 %}CB{% endblock %}",
		"{% extends 'lay2' %}{% block cb %}{% set b = 'child-b' %}CB{% endblock %}")
	nestedMissing := "<in>{% include 'nosuch-inner' %}</in>"
	// (s1) the included template is registered again between two renders of the includer: static and computed names,
	// top level and inside a loop / macro / included template follow it alike
	for _, form := range []string{"{% include 'part' %}", "{% include 'pa' ~ 'rt' %}", "{% for i in [1, 2] %}{% include 'part' %}{% endfor %}", "{% macro m() %}{% include 'part' %}{% endmacro %}{{ m() }}",
		"{% include 'mid' %}", "{% include 'part' with {'q': 1} only %}", "{% include 'part' ignore missing %}"} {
		v1, v2 := "[one {{ 1 + 1 }}]", "[two {% if true %}{{ 2 + 2 }}{% endif %}]"
		ref := runImpl(&Case{Templates: map[string]string{"main": form, "part": v2, "mid": "{% include 'part' %}"}, Main: "main", Ctx: map[string]any{}, FailAt: -1})
		res := guarded(func() (string, error) {
			eng := twig.New()
			for _, kv := range [][2]string{{"part", v1}, {"mid", "{% include 'part' %}"}, {"main", form}} {
				if err := eng.RegisterString(kv[0], kv[1]); err != nil {
					return "", err
				}
			}
			for k := 0; k < 2; k++ {
				if _, err := eng.Render("main", map[string]interface{}{}); err != nil {
					return "", err
				}
			}
			if err := eng.RegisterString("part", v2); err != nil {
				return "", err
			}
			return eng.Render("main", map[string]interface{}{})
		})
		r.Seen("reregister:"+form, true)
		if mapClass(res.Class) != ref.Class || res.Out != ref.Out {
			r.Violate(Violation{Key: "include-stale-after-reregistration", What: fmt.Sprintf("%s: after the included template is registered again the includer renders %q (%s), a fresh engine renders %q (%s)", form, res.Out, res.Class, ref.Out, ref.Class),
				Broken: "theorem C11_visibility (the included template is the one registered now; implementation-only oracle)",
				Replay: map[string]any{"kind": "render", "templates": map[string]string{"main": form, "part": v2}, "main": "main", "first_part": v1, "got": res.Out, "want": ref.Out}})
		}
	}
	// (s3) macros of the including template after an include whose template imports / defines macros of the same names
	for _, childSrc := range []string{"{% from 'lib2' import field %}{{ field() }}", "{% from 'lib2' import field as other, other as field %}{{ field() }}", "{% import 'lib2' as field %}{{ field.field() }}",
		"{% macro field() %}child-field{% endmacro %}{{ field() }}", "{% from 'lib2' import field %}{% include 'grand' %}"} {
		for _, form := range []string{"{% include 'child' %}", "{% include 'child' with {'q': 1} %}", "{% for i in [1, 2] %}{% include 'child' %}{% endfor %}", "{% include 'child' only %}"} {
			main := "{% macro field() %}main-field{% endmacro %}{% from 'lib3' import other %}{{ field() }}{{ other() }}|" + form + "|{{ field() }}{{ _self.field() }}{{ other() }}"
			c := &Case{Templates: map[string]string{"main": main, "child": childSrc, "grand": "{{ field is defined ? 'g' : 'u' }}", "lib2": "{% macro field() %}lib-field{% endmacro %}{% macro other() %}lib-other{% endmacro %}",
				"lib3": "{% macro other() %}main-other{% endmacro %}"}, Main: "main", Ctx: map[string]any{}, FailAt: -1}
			im, _, _, err := compareCase(e, c, "render-model-c11", "correspondence on includes whose template imports macros")
			if err != nil {
				return err
			}
			r.Seen("macros-after-include:"+childSrc+form, true)
			parts := strings.Split(im.Out, "|")
			if im.Class != "" || len(parts) != 3 || parts[0] != "main-fieldmain-other" || parts[2] != "main-fieldmain-fieldmain-other" {
				r.Violate(Violation{Key: "include-changes-includer-state", What: fmt.Sprintf("%s with the included template %q: the includer's macros render %q before and %q after (%s)", form, childSrc, parts[0], parts[len(parts)-1], im.Class),
					Broken: "theorem C11_non_interference (macros; implementation-only oracle)", Replay: c.replay(im, Outcome{})})
			}
		}
	}
	// (s4) blocks and same-named variables/macros across an include boundary
	for _, tc := range []struct{ name, main, inc, want string }{
		{"nested-block-after-include", "{% block a %}A[{% include 'inc' %}]{% block n %}main-n{% endblock %}{% endblock %}|{% block z %}Z{% endblock %}", "{% block n %}inc-n{% endblock %}{% block z %}inc-z{% endblock %}", "A[inc-ninc-z]main-n|Z"},
		{"block-before-and-after", "{% block n %}1{% endblock %}{% include 'inc' %}{% for i in [1, 2] %}{% block m %}m{{ i }}{% endblock %}{% include 'inc' %}{% endfor %}", "{% block n %}i-n{% endblock %}{% block m %}i-m{% endblock %}", "1i-ni-mm1i-ni-mm2i-ni-m"},
		{"variable-named-like-macro", "{% macro label() %}M{% endmacro %}{% set label = 'VAL' %}{{ label }}|{% include 'inc' %}|{% include 'inc' with {'q': 1} %}", "{{ label }}{% if label == 'VAL' %}=v{% endif %}", "VAL|VAL=v|VAL=v"},
		{"context-variable-named-like-macro", "{% macro cv() %}M{% endmacro %}{{ cv }}|{% include 'inc' %}|{% for i in [1] %}{% include 'inc' %}{% endfor %}", "{{ cv }}{{ cv|length }}", "CTX|CTX3|CTX3"},
		{"from-imported-name-vs-variable", "{% from 'lib2' import field %}{% set field = 'VAR' %}{% include 'inc' %}", "{{ field }}", "VAR"},
	} {
		c := &Case{Templates: map[string]string{"main": tc.main, "inc": tc.inc, "lib2": "{% macro field() %}lib-field{% endmacro %}"}, Main: "main", Ctx: map[string]any{"cv": "CTX"}, FailAt: -1}
		im, _, _, err := compareCase(e, c, "render-model-c11", "correspondence on blocks and same-named variables across an include")
		if err != nil {
			return err
		}
		r.Seen("s4:"+tc.name, true)
		if im.Class != "" || im.Out != tc.want {
			r.Violate(Violation{Key: "include-scope", What: fmt.Sprintf("%s: %q renders %q (%s), expected %q", tc.name, tc.main, im.Out, im.Class, tc.want),
				Broken: "theorem C11_non_interference / C11_visibility (implementation-only oracle)", Replay: c.replay(im, Outcome{})})
		}
	}
	relativeFailureOracle(e, "include-broken-template-forgiven", "theorem C11_ignore_missing (relative names; implementation-only oracle with a custom loader)")
	// (s2) `ignore missing` forgives a template that does not exist — not one that a loader has and that does not parse
	for _, form := range []string{"{% include 'broken' ignore missing %}", "{% include 'broken' %}", "{% include 'wrap' ignore missing %}"} {
		res := guarded(func() (string, error) {
			eng := twig.New()
			eng.RegisterLoader(&sentinelLoader{name: "-", src: map[string]string{"main": "a" + form + "b", "broken": "x{% if %}{{ ", "part": "P", "wrap": "{% include 'broken' %}"}})
			return eng.Render("main", nil)
		})
		r.Seen("loader-broken:"+form, true)
		if res.Class == "" || res.Class == "not-found" {
			r.Violate(Violation{Key: "include-broken-template-forgiven", What: fmt.Sprintf("%s where the loader supplies a template with a syntax error renders %q with error class %q: the syntax error must be reported", form, res.Out, res.Class),
				Broken: "theorem C11_ignore_missing (only a missing template is forgiven; implementation-only oracle with a custom loader)",
				Replay: map[string]any{"kind": "loader", "src": form, "got": res.Out, "class": res.Class, "err": fmt.Sprint(res.Err)}})
		}
	}
	// (s5) chains of includes standing in for loops: `loop` and the loop variables are read across the include boundary
	if err := c11LoopScope(e); err != nil {
		return err
	}
	// (s6) the same include tag run many times in one scope, and chains of includes many levels deep
	if err := c11Many(e); err != nil {
		return err
	}
	n := e.N(1200, 60000)
	for i := 0; i < n && !r.Full(); i++ {
		ctx := map[string]any{}
		var pre strings.Builder
		state := map[string]string{} // what the includer sees for each name right before the include
		for _, nm := range c11Names {
			switch rg.Intn(3) {
			case 1:
				ctx[nm] = "ctx-" + nm
				state[nm] = "ctx-" + nm
			case 2:
				if rg.Intn(4) == 0 {
					pre.WriteString("{% set " + nm + " = null %}")
					state[nm] = ""
				} else {
					pre.WriteString("{% set " + nm + " = 'set-" + nm + "' %}")
					state[nm] = "set-" + nm
				}
			}
		}
		// with-values: literals, null, expressions that read the includer's variables (also ones a sibling entry
		// rebinds: every value is evaluated in the includer's scope), and — rarely — a value that fails
		genWith := func(scope map[string]string, p int) (map[string]string, []string, bool) {
			with := map[string]string{}
			var src []string
			failsHere := false
			if rg.Intn(p) != 0 {
				return with, src, false
			}
			for _, nm := range c11Names {
				if rg.Intn(3) != 0 {
					continue
				}
				switch rg.Intn(6) {
				case 0:
					with[nm] = ""
					src = append(src, "'"+nm+"': null")
				case 1, 2:
					other := pick(rg, c11Names)
					with[nm] = scope[other] + "!"
					src = append(src, "'"+nm+"': "+other+" ~ '!'")
				default:
					with[nm] = "with-" + nm
					src = append(src, "'"+nm+"': 'with-"+nm+"'")
				}
			}
			if len(src) > 0 && rg.Intn(12) == 0 {
				src = append(src, "'"+pick(rg, c11Names)+"': nosuchfn()")
				failsHere = true
			}
			return with, src, failsHere
		}
		applyScope := func(scope, with map[string]string, only bool) map[string]string {
			out := map[string]string{}
			if !only {
				for k, v := range scope {
					out[k] = v
				}
			}
			for k, v := range with {
				out[k] = v
			}
			return out
		}
		// the scope in which the include tag under test stands: the includer itself, or (placement 4) a template in
		// between that was itself included with variables and rebinds some names, possibly to null
		place := rg.Intn(5)
		incScope := state
		midInc, midPre := "{% include 'mid' %}", ""
		withFails, withFails0 := false, false
		if place == 4 {
			w0, w0src, f0 := genWith(state, 2)
			only0 := rg.Intn(4) == 0
			withFails0 = f0
			midInc = "{% include 'mid'"
			if len(w0src) > 0 {
				midInc += " with {" + strings.Join(w0src, ", ") + "}"
			}
			if only0 {
				midInc += " only"
			}
			midInc += " %}"
			incScope = applyScope(state, w0, only0)
			var mp strings.Builder
			for _, nm := range c11Names {
				switch rg.Intn(5) {
				case 0:
					mp.WriteString("{% set " + nm + " = null %}")
					incScope[nm] = ""
				case 1:
					mp.WriteString("{% set " + nm + " = 'mid-" + nm + "' %}")
					incScope[nm] = "mid-" + nm
				}
			}
			midPre = mp.String()
		}
		with, withSrc, f1 := genWith(incScope, 2)
		withFails = f1
		only := rg.Intn(3) == 0
		ignore := rg.Intn(4) == 0
		sandboxed := rg.Intn(8) == 0
		target := "'child'"
		missing, fails := false, false
		nested := false
		switch rg.Intn(11) {
		case 10:
			target = "'nestedmissing'"
			nested = true
		case 0:
			target = "'chi' ~ 'ld'"
		case 1:
			target = "'nosuch'"
			missing = true
		case 2:
			target = "'failing'"
			fails = true
		}
		inc := "{% include " + target
		if ignore {
			inc += " ignore missing"
		}
		if len(withSrc) > 0 {
			inc += " with {" + strings.Join(withSrc, ", ") + "}"
		}
		if only {
			inc += " only"
		}
		if sandboxed {
			inc += " sandboxed"
		}
		inc += " %}"
		// placement
		probes := "(" + view() + ")"
		var main string
		reps := 1
		switch place {
		case 0:
			main = pre.String() + probes + inc + probes
		case 1:
			main = pre.String() + probes + "{% for q in [1, 2] %}" + inc + "{% endfor %}" + probes
			reps = 2
		case 2:
			main = pre.String() + probes + "{% block blk %}" + inc + "{% endblock %}" + probes
		case 3:
			main = pre.String() + probes + "{% macro mk() %}" + inc + "{% endmacro %}{{ mk() }}" + probes
		default:
			main = pre.String() + probes + midInc + probes
		}
		tpls := map[string]string{"main": main, "child": pick(rg, childVariants), "failing": failing, "mid": midPre + inc, "nestedmissing": nestedMissing,
			"lay": "{% block v %}{% endblock %}{% set c = 'lay-c' %}{% block tail %}{% endblock %}", "lay2": "<" + view() + ">{% set a = 'lay-a' %}{% block cb %}{% endblock %}"}
		if strings.Contains(tpls["child"], "{% extends") {
			r.Hit("child-extends-a-layout")
		}
		c := &Case{Templates: tpls, Main: "main", Ctx: ctx, FailAt: -1}
		if sandboxed {
			c.Policy = &PolicySpec{Filters: []string{"upper", "default", "escape"}, Functions: []string{"range", "cm", "mk", "nosuchfn"}}
		}
		im, _, _, err := compareCase(e, c, "render-model-c11", "correspondence (Lean pipeline vs real engine) on include programs")
		if err != nil {
			return err
		}
		key := main + fmt.Sprint(ctx)
		r.Seen(key, !missing && !fails && !withFails && !withFails0)
		r.Hit(fmt.Sprintf("place:%d", place))
		if i < 2 {
			r.Sample(map[string]any{"main": main, "ctx": fmt.Sprint(ctx)})
		}
		// expected
		probeOut := func() string {
			var sb strings.Builder
			sb.WriteString("(")
			for _, nm := range c11Names {
				if v, ok := state[nm]; ok {
					sb.WriteString(nm + "=" + v + ";")
				} else {
					sb.WriteString(nm + "=U;")
				}
			}
			sb.WriteString(")")
			return sb.String()
		}()
		childView := func() string {
			var sb strings.Builder
			sb.WriteString("<")
			for _, nm := range c11Names {
				if v, ok := with[nm]; ok {
					sb.WriteString(nm + "=" + v + ";")
				} else if v, ok := incScope[nm]; ok && !only {
					sb.WriteString(nm + "=" + v + ";")
				} else {
					sb.WriteString(nm + "=U;")
				}
			}
			sb.WriteString(">CB")
			return sb.String()
		}()
		bad := func(what, want string) {
			r.Violate(Violation{Key: "include-" + what, What: fmt.Sprintf("include (%s): got %q (%s), expected %q", what, truncate(im.Out, 200), im.Class, truncate(want, 200)),
				Broken: "theorem C11_non_interference / C11_visibility / C11_ignore_missing no longer describes the code (implementation-only oracle)",
				Replay: map[string]any{"kind": "render", "templates": tpls, "main": "main", "ctx": ctx, "want": want, "got": im.Out, "class": im.Class, "msg": im.Msg}})
		}
		switch {
		case withFails0 || (withFails && !missing):
			// a with-value that fails is a render error (the values are evaluated once the template is found)
			if im.Class != "render" {
				bad("with-failure-swallowed", "a render error")
			}
		case nested:
			// the included template exists; the template IT includes does not: an error, with or without `ignore missing`
			if im.Class != "notFound" {
				bad("nested-missing-swallowed", "ErrTemplateNotFound")
			}
		case fails:
			if im.Class == "" {
				bad("failure-swallowed", "an error")
			}
		case missing && !ignore:
			if im.Class != "notFound" {
				bad("missing-not-reported", "ErrTemplateNotFound")
			}
		case missing && ignore:
			if want := probeOut + probeOut; im.Class != "" || im.Out != want {
				bad("ignore-missing", want)
			}
		default:
			want := probeOut + strings.Repeat(childView, reps) + probeOut
			if im.Class != "" || im.Out != want {
				if im.Class == "" && strings.HasPrefix(im.Out, probeOut) && !strings.HasSuffix(im.Out, probeOut) {
					bad("changes-includer-state", want)
				} else {
					bad("scope", want)
				}
			}
		}
	}
	return nil
}
