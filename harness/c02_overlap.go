package main

import (
	"bytes"
	"encoding/json"
	"fmt"
	"os"
	"path/filepath"
	"sort"
	"strconv"
	"strings"
	"sync"
	"sync/atomic"
	"time"

	"github.com/semihalev/twig"
)

// c02OverlapSweep (added after seeded changes C02-O and C02-P were missed): forced overlaps around the loaders.
//
// The random workloads overlap calls for microseconds, and every one of their templates is loaded once and then
// stays the same; the lost-update replay forces exactly one schedule (a cold Load against a RegisterString) and
// looks at nothing but the next Render. So branches of Engine.Load that run only when something happened to the
// cache entry WHILE the loaders were being read — a registration, a reload by another call, a changed file — are
// executed rarely or never, and what they leave behind (a lock, a flag, a stale entry) is not looked at.
//
// Here a user Loader (a wrapper around ArrayLoader, around an in-memory loader with modification times, and around
// the stock FileSystemLoader) holds one or two calls inside the loader — before the source is read, after it was
// read, or inside GetModifiedTime — by every API route (Render, RenderTo, Load + Template.Render, and nested:
// through include, extends, import, and an include in a ParseTemplate'd template). The cache entry may be cold,
// warm, or warm with the file changed since (so that the held call is a reload). While the call(s) are held, other
// calls are made and complete: renders of the same name by every route, a registration of the same name, of another
// name, of a fresh name, a render of another name. Then the held calls are released (first-in-first-out and the
// other way round), and afterwards every route is used once more, each call with a time limit.
//
// Expected values: twin engines of the same configuration whose loader never holds anything, on which the same
// calls run one after another in every order that respects what had returned before what started (the held calls
// overlap everything, the others are in sequence). The property says the overlapped calls return what they return
// in one of these orders — and that they return: a call that is still not back after c02StuckAfter is a violation
// of its own (all the serial runs return at once).
//
// Keys: engine-stuck-after-overlap, overlap-not-serializable.
//
// The sweep runs over families of templates (c02OvFamily): the one described above (absolute names; the held name is
// in the loader's store), and one per tag for names written relative to the rendering template, where the held call
// is the look-up of the RESOLVED name, which the store does not have (c02_relnames.go).

const (
	c02BlockedAfter = 300 * time.Millisecond // a call made while another is held may wait for it (it then shows only after the release)
	c02StuckAfter   = 8 * time.Second
)

// ---- the gate -------------------------------------------------------------------------------------------------

type c02Gate struct {
	mu      sync.Mutex
	names   map[string]bool // the templates whose loader calls are held
	where   string          // "load-before" | "load-after" | "mtime"
	hold    int             // how many more calls to hold
	taken   int
	slots   []chan struct{}
	arrived chan int // slot numbers of held calls
}

func (g *c02Gate) pass(where, name string) {
	if g == nil {
		return
	}
	g.mu.Lock()
	if g.hold == 0 || where != g.where || !g.names[name] {
		g.mu.Unlock()
		return
	}
	g.hold--
	slot := g.taken
	g.taken++
	ch := g.slots[slot]
	g.mu.Unlock()
	g.arrived <- slot
	<-ch
}

func (g *c02Gate) disarm() {
	g.mu.Lock()
	g.hold = 0
	g.mu.Unlock()
}

type c02GatedLoader struct {
	inner twig.Loader
	gate  *c02Gate
}

func (l *c02GatedLoader) Load(name string) (string, error) {
	l.gate.pass("load-before", name)
	s, err := l.inner.Load(name)
	l.gate.pass("load-after", name)
	return s, err
}
func (l *c02GatedLoader) Exists(name string) bool { return l.inner.Exists(name) }

type c02GatedTSLoader struct {
	c02GatedLoader
	ts twig.TimestampAwareLoader
}

func (l *c02GatedTSLoader) GetModifiedTime(name string) (int64, error) {
	l.gate.pass("mtime", name)
	return l.ts.GetModifiedTime(name)
}

// ---- the template stores --------------------------------------------------------------------------------------

// c02MemTS is an in-memory loader with modification times (a database-backed loader, say).
type c02MemTS struct {
	mu    sync.Mutex
	src   map[string]string
	mtime map[string]int64
}

func (l *c02MemTS) Load(name string) (string, error) {
	l.mu.Lock()
	defer l.mu.Unlock()
	if s, ok := l.src[name]; ok {
		return s, nil
	}
	return "", fmt.Errorf("%w: %s", twig.ErrTemplateNotFound, name)
}
func (l *c02MemTS) Exists(name string) bool {
	l.mu.Lock()
	defer l.mu.Unlock()
	_, ok := l.src[name]
	return ok
}
func (l *c02MemTS) GetModifiedTime(name string) (int64, error) {
	l.mu.Lock()
	defer l.mu.Unlock()
	if t, ok := l.mtime[name]; ok {
		return t, nil
	}
	return 0, fmt.Errorf("%w: %s", twig.ErrTemplateNotFound, name)
}

// c02Store is where the templates of one engine live; set stores version v of a template (a later version has a
// later modification time where the store has such a thing).
type c02Store struct {
	kind   string // "array" | "mem-ts" | "fs"
	array  *twig.ArrayLoader
	mem    *c02MemTS
	fs     *twig.FileSystemLoader
	dir    string
	base   time.Time
	failed error
}

var c02StoreKinds = []string{"mem-ts", "array", "fs"}

// The file-system stores of one sweep: one time base (version v of a file is base + v minutes, whichever engine's
// store writes it), and what each directory holds, so that a file is written only when it has to change. A directory
// belongs to one scenario, and its stores are written by that scenario's goroutine only (before the overlap starts).
var (
	c02FsBase   = time.Now().Add(-2 * time.Hour).Truncate(time.Second)
	c02FsOnDisk = map[string]string{}
	c02FsMu     sync.Mutex
)

func c02FsNote(p string, version int, src string) {
	c02FsMu.Lock()
	c02FsOnDisk[p] = fmt.Sprint(version, "\x00", src)
	c02FsMu.Unlock()
}

func c02NewStore(kind, dir string) *c02Store {
	s := &c02Store{kind: kind, dir: dir}
	switch kind {
	case "array":
		s.array = twig.NewArrayLoader(map[string]string{})
	case "mem-ts":
		s.mem = &c02MemTS{src: map[string]string{}, mtime: map[string]int64{}}
	case "fs":
		s.fs = twig.NewFileSystemLoader([]string{dir})
		s.fs.SetSuffix("")
		s.base = c02FsBase
	}
	return s
}

func (s *c02Store) set(name, src string, version int) {
	switch s.kind {
	case "array":
		s.array.SetTemplate(name, src)
	case "mem-ts":
		s.mem.mu.Lock()
		s.mem.src[name] = src
		s.mem.mtime[name] = int64(1000 + 60*version)
		s.mem.mu.Unlock()
	case "fs":
		if strings.HasPrefix(name, "../") {
			return // a name that leaves the directory is not a file of this store
		}
		p := filepath.Join(s.dir, name)
		if d := filepath.Dir(p); d != filepath.Clean(s.dir) {
			if err := os.MkdirAll(d, 0o755); err != nil {
				s.failed = err
				return
			}
		}
		c02FsMu.Lock()
		same := c02FsOnDisk[p] == fmt.Sprint(version, "\x00", src)
		delete(c02FsOnDisk, p)
		c02FsMu.Unlock()
		if same {
			c02FsNote(p, version, src)
			return // this very file (text and modification time) is what the directory holds
		}
		tmp := p + ".tmp"
		if err := os.WriteFile(tmp, []byte(src), 0o644); err != nil {
			s.failed = err
			return
		}
		mt := s.base.Add(time.Duration(version) * time.Minute)
		if err := os.Chtimes(tmp, mt, mt); err != nil {
			s.failed = err
			return
		}
		if err := os.Rename(tmp, p); err != nil {
			s.failed = err
			return
		}
		c02FsNote(p, version, src)
	}
}

func (s *c02Store) loader(g *c02Gate) twig.Loader {
	switch s.kind {
	case "array":
		return &c02GatedLoader{inner: s.array, gate: g}
	case "mem-ts":
		return &c02GatedTSLoader{c02GatedLoader{inner: s.mem, gate: g}, s.mem}
	}
	return &c02GatedTSLoader{c02GatedLoader{inner: s.fs, gate: g}, s.fs}
}

// ---- calls ----------------------------------------------------------------------------------------------------

type c02OvCall struct {
	kind string // Render | RenderTo | Load | Parse | Register
	name string
	src  string // Parse, Register
}

func (c c02OvCall) String() string {
	switch c.kind {
	case "Parse":
		return fmt.Sprintf("ParseTemplate(%q)+Template.Render", c.src)
	case "Register":
		return fmt.Sprintf("RegisterString(%q, %q)", c.name, c.src)
	case "Load":
		return fmt.Sprintf("Load(%q)+Template.Render", c.name)
	}
	return fmt.Sprintf("%s(%q)", c.kind, c.name)
}

// run makes the call; the result is the output or the fact that it failed (error texts are not compared: they may
// legitimately name what was found on the way).
func (c c02OvCall) run(eng *twig.Engine, label string) (res string) {
	defer func() {
		if p := recover(); p != nil {
			res = fmt.Sprintf("PANIC: %v", p)
		}
	}()
	ctx := map[string]interface{}{"who": label}
	fail := func(err error) string { return "ERROR" }
	switch c.kind {
	case "Render":
		out, err := eng.Render(c.name, ctx)
		if err != nil {
			return fail(err)
		}
		return out
	case "RenderTo":
		var buf bytes.Buffer
		if err := eng.RenderTo(&buf, c.name, ctx); err != nil {
			return fail(err)
		}
		return buf.String()
	case "Load":
		t, err := eng.Load(c.name)
		if err != nil {
			return fail(err)
		}
		out, err := t.Render(ctx)
		if err != nil {
			return fail(err)
		}
		return out
	case "Parse":
		t, err := eng.ParseTemplate(c.src)
		if err != nil {
			return fail(err)
		}
		out, err := t.Render(ctx)
		if err != nil {
			return fail(err)
		}
		return out
	case "Register":
		if err := eng.RegisterString(c.name, c.src); err != nil {
			return fail(err)
		}
		return "registered"
	}
	return "?"
}

// c02Timed runs f in a goroutine of its own and waits at most d for it.
func c02Timed(d time.Duration, f func() string) (string, bool) {
	done := make(chan string, 1)
	go func() { done <- f() }()
	t := time.NewTimer(d)
	defer t.Stop()
	select {
	case r := <-done:
		return r, true
	case <-t.C:
		return "", false
	}
}

// ---- scenarios ------------------------------------------------------------------------------------------------

func c02PageSrc(v int) string {
	return fmt.Sprintf("page v%d {{ who }} [{%% block b %%}b%d{%% endblock %%}]{%% macro m(x) %%}(m%d:{{ x }}){%% endmacro %%}", v, v, v)
}

func c02OvSources() map[string]string {
	return map[string]string{
		"page":  c02PageSrc(1),
		"other": "other v1 {{ who }}",
		"wrap":  "<{% include 'page' %}|{% include 'other' %}>",
		"child": "{% extends 'page' %}{% block b %}child {{ who }}{% endblock %}",
		"imp":   "{% import 'page' as p %}imp {{ p.m(who) }}",
	}
}

type c02OvScenario struct {
	fam    *c02OvFamily
	config string // cache-on | cache-off | auto-reload
	store  string
	prefix string // cold | warm | warm-changed
	held   []c02OvCall
	during []c02OvCall
}

var (
	c02OvPrefixes = []string{"cold", "warm", "warm-changed"}
	c02OvGates    = []string{"load-before", "load-after", "mtime"}
	c02OvHeld     = [][]c02OvCall{
		{{kind: "Render", name: "page"}},
		{{kind: "RenderTo", name: "page"}},
		{{kind: "Load", name: "page"}},
		{{kind: "Render", name: "wrap"}},
		{{kind: "Render", name: "child"}},
		{{kind: "Render", name: "imp"}},
		{{kind: "Parse", src: "P({% include 'page' %})"}},
		{{kind: "Render", name: "page"}, {kind: "Render", name: "page"}},
		{{kind: "Load", name: "page"}, {kind: "RenderTo", name: "wrap"}},
	}
	c02OvDuring = [][]c02OvCall{
		{{kind: "Render", name: "page"}},
		{{kind: "Load", name: "page"}},
		{{kind: "RenderTo", name: "wrap"}},
		{{kind: "Render", name: "child"}},
		{{kind: "Render", name: "imp"}},
		{{kind: "Parse", src: "Q({% include 'page' %})"}},
		{{kind: "Register", name: "page", src: c02PageSrc(3)}},
		{{kind: "Register", name: "page", src: c02PageSrc(3)}, {kind: "Render", name: "page"}},
		{{kind: "Register", name: "fresh", src: "fresh {{ who }} {% include 'page' %}"}, {kind: "Render", name: "fresh"}},
		{{kind: "Register", name: "other", src: "other v3 {{ who }}"}},
		{{kind: "Render", name: "other"}},
		{{kind: "Render", name: "page"}, {kind: "RenderTo", name: "page"}},
	}
	c02OvAfter = []c02OvCall{
		{kind: "Render", name: "page"},
		{kind: "Render", name: "other"},
		{kind: "RenderTo", name: "wrap"},
		{kind: "Register", name: "late", src: "late {{ who }} {% include 'page' %}"},
		{kind: "Render", name: "late"},
		{kind: "Load", name: "child"},
		{kind: "Parse", src: "R({% include 'page' %})"},
	}
)

// c02OvFamily is one set of templates with the calls that are held, made meanwhile and made afterwards on it. The
// first family is the one the sweep started with (absolute names, the held name is in the loader's store); the others
// (c02_relnames.go) hold the look-up of a name written relative to the rendering template.
type c02OvFamily struct {
	name              string // "" for the first family (keeps its scenario numbers and distinct-keys)
	sources           func() map[string]string
	warm              []string        // rendered once, in this order, by the prefixes "warm" and "warm-changed"
	warmReachesLoader bool            // with the cache on, a render of a warm template still asks the loader for a gated name
	gatedMissing      bool            // the store has the gated names only after "warm-changed"
	changedName       string          // "warm-changed": this name gets version 2 in the loader's store …
	changedSrc        string          // … with this text
	gated             map[string]bool // loader calls for these names are held
	held, during      [][]c02OvCall
	after             []c02OvCall
}

func c02OvFamilies() []*c02OvFamily {
	fams := []*c02OvFamily{{sources: c02OvSources, warm: []string{"page", "other", "wrap", "child", "imp"}, changedName: "page", changedSrc: c02PageSrc(2),
		gated: map[string]bool{"page": true}, held: c02OvHeld, during: c02OvDuring, after: c02OvAfter}}
	return append(fams, c02RelFamilies()...)
}

func c02OvEngine(sc c02OvScenario, store *c02Store, g *c02Gate) *twig.Engine {
	eng := twig.New()
	eng.RegisterLoader(store.loader(g))
	switch sc.config {
	case "cache-off":
		eng.SetCache(false)
	case "auto-reload":
		eng.SetAutoReload(true)
	}
	return eng
}

// c02OvPrefix brings store and engine to the state in which the overlap starts (all of it serial).
func c02OvPrefix(sc c02OvScenario, store *c02Store, eng *twig.Engine) bool {
	for n, s := range sc.fam.sources() {
		store.set(n, s, 1)
	}
	if sc.prefix == "cold" {
		return store.failed == nil
	}
	for _, n := range sc.fam.warm {
		if _, ok := c02Timed(c02StuckAfter, func() string { return c02OvCall{kind: "Render", name: n}.run(eng, "warm-up") }); !ok {
			return false
		}
	}
	if sc.prefix == "warm-changed" {
		store.set(sc.fam.changedName, sc.fam.changedSrc, 2)
	}
	return store.failed == nil
}

// c02OvOrders: every sequence of the calls in which the `during` calls keep their order (each had returned before
// the next started) and the held calls — which overlap all of them and each other — stand anywhere. A call is
// (held?, index).
type c02OvRef struct {
	held bool
	i    int
}

func c02OvOrders(nHeld, nDuring int) [][]c02OvRef {
	var out [][]c02OvRef
	var rec func(cur []c02OvRef, usedHeld []bool, d int)
	rec = func(cur []c02OvRef, usedHeld []bool, d int) {
		if len(cur) == nHeld+nDuring {
			out = append(out, append([]c02OvRef(nil), cur...))
			return
		}
		for h := 0; h < nHeld; h++ {
			if !usedHeld[h] {
				usedHeld[h] = true
				rec(append(cur, c02OvRef{true, h}), usedHeld, d)
				usedHeld[h] = false
			}
		}
		if d < nDuring {
			rec(append(cur, c02OvRef{false, d}), usedHeld, d+1)
		}
	}
	rec(nil, make([]bool, nHeld), 0)
	return out
}

func c02OvLabel(held bool, i int) string {
	if held {
		return fmt.Sprintf("«H%d»", i)
	}
	return fmt.Sprintf("«D%d»", i)
}

// c02OvSerial runs the scenario on a twin in the given order; results: held…, during…, after….
func c02OvSerial(sc c02OvScenario, dir string, order []c02OvRef) ([]string, bool) {
	store := c02NewStore(sc.store, dir)
	eng := c02OvEngine(sc, store, nil)
	if !c02OvPrefix(sc, store, eng) {
		return nil, false
	}
	after := sc.fam.after
	res := make([]string, len(sc.held)+len(sc.during)+len(after))
	for _, ref := range order {
		call, slot := sc.during, len(sc.held)
		if ref.held {
			call, slot = sc.held, 0
		}
		r, ok := c02Timed(c02StuckAfter, func() string { return call[ref.i].run(eng, c02OvLabel(ref.held, ref.i)) })
		if !ok {
			return nil, false
		}
		res[slot+ref.i] = r
	}
	for i, c := range after {
		r, ok := c02Timed(c02StuckAfter, func() string { return c.run(eng, fmt.Sprintf("«A%d»", i)) })
		if !ok {
			return nil, false
		}
		res[len(sc.held)+len(sc.during)+i] = r
	}
	return res, true
}

type c02OvOutcome struct {
	results    []string
	reached    int    // held calls that were in fact held inside the loader
	blocked    bool   // a `during` call came back only after the release
	stuck      string // description of the call that never came back
	stuckPhase string
}

// c02OvOverlapped runs the scenario with the held calls stopped inside the loader.
func c02OvOverlapped(sc c02OvScenario, dir, gateAt string, lifo bool) (o c02OvOutcome, ok bool) {
	store := c02NewStore(sc.store, dir)
	g := &c02Gate{names: sc.fam.gated, where: gateAt, arrived: make(chan int, 8)}
	for range sc.held {
		g.slots = append(g.slots, make(chan struct{}))
	}
	eng := c02OvEngine(sc, store, g)
	if !c02OvPrefix(sc, store, eng) {
		return o, false
	}
	nH, nD := len(sc.held), len(sc.during)
	o.results = make([]string, nH+nD+len(sc.fam.after))
	released := make([]bool, nH)
	release := func(slot int) {
		if slot < len(released) && !released[slot] {
			released[slot] = true
			close(g.slots[slot])
		}
	}
	releaseAll := func() {
		g.disarm()
		for s := range released {
			release(s)
		}
	}
	defer releaseAll()

	// the held calls start one after another: each is inside the loader (or over) before the next starts
	g.mu.Lock()
	g.hold = nH
	g.mu.Unlock()
	type fin struct {
		i   int
		res string
	}
	finished := make(chan fin, nH)
	heldDone := make([]bool, nH)
	slotOf := make([]int, nH) // which gate slot the i-th held call sits in (-1: none)
	for i := range sc.held {
		slotOf[i] = -1
		go func(i int) { finished <- fin{i, sc.held[i].run(eng, c02OvLabel(true, i))} }(i)
		t := time.NewTimer(c02StuckAfter)
		select {
		case slot := <-g.arrived:
			slotOf[i] = slot
			o.reached++
		case f := <-finished:
			o.results[f.i] = f.res
			heldDone[f.i] = true
		case <-t.C:
			o.stuck, o.stuckPhase = sc.held[i].String(), "before anything overlapped it"
			t.Stop()
			return o, true
		}
		t.Stop()
	}
	g.disarm()

	// the calls made while the held ones are inside the loader
	type pending struct {
		i  int
		ch chan string
	}
	var late []pending
	for i, c := range sc.during {
		ch := make(chan string, 1)
		go func() { ch <- c.run(eng, c02OvLabel(false, i)) }()
		t := time.NewTimer(c02BlockedAfter)
		select {
		case r := <-ch:
			o.results[nH+i] = r
		case <-t.C:
			// it waits for a held call (a serial order exists for that: after it); it has to show after the release
			o.blocked = true
			late = append(late, pending{i, ch})
		}
		t.Stop()
		if len(late) > 0 {
			break // the next call must not start before this one is back
		}
	}

	// release: first-in-first-out or the other way round, each held call is over before the next is let go
	waitHeld := func(i int) bool {
		for !heldDone[i] {
			t := time.NewTimer(c02StuckAfter)
			select {
			case f := <-finished:
				o.results[f.i] = f.res
				heldDone[f.i] = true
			case <-t.C:
				return false
			}
			t.Stop()
		}
		return true
	}
	idx := make([]int, 0, nH)
	for i := 0; i < nH; i++ {
		if lifo {
			idx = append(idx, nH-1-i)
		} else {
			idx = append(idx, i)
		}
	}
	if len(late) > 0 {
		// somebody waits for the held calls: let all of them go at once
		releaseAll()
	}
	for _, i := range idx {
		if slotOf[i] >= 0 {
			release(slotOf[i])
		}
		if !waitHeld(i) {
			o.stuck, o.stuckPhase = sc.held[i].String(), "after it was let go on by the loader"
			return o, true
		}
	}
	for _, p := range late {
		t := time.NewTimer(c02StuckAfter)
		select {
		case r := <-p.ch:
			o.results[nH+p.i] = r
		case <-t.C:
			o.stuck, o.stuckPhase = sc.during[p.i].String(), "made while another call was inside the loader; still not back after that call returned"
			t.Stop()
			return o, true
		}
		t.Stop()
		// the rest of the `during` calls, now after the release (still a legal history: they follow their predecessor)
		for i := p.i + 1; i < nD; i++ {
			r, ok := c02Timed(c02StuckAfter, func() string { return sc.during[i].run(eng, c02OvLabel(false, i)) })
			if !ok {
				o.stuck, o.stuckPhase = sc.during[i].String(), "after the overlapping calls returned"
				return o, true
			}
			o.results[nH+i] = r
		}
	}

	// afterwards: every route once more, each with a time limit
	for i, c := range sc.fam.after {
		r, ok := c02Timed(c02StuckAfter, func() string { return c.run(eng, fmt.Sprintf("«A%d»", i)) })
		if !ok {
			o.stuck, o.stuckPhase = c.String(), "after all overlapping calls had returned"
			return o, true
		}
		o.results[nH+nD+i] = r
	}
	return o, true
}

func c02OvDescribe(sc c02OvScenario, gateAt string, lifo bool) string {
	var h, d []string
	for _, c := range sc.held {
		h = append(h, c.String())
	}
	for _, c := range sc.during {
		d = append(d, c.String())
	}
	rel := "in the order they came"
	if lifo {
		rel = "last one first"
	}
	pre := map[string]string{"cold": "nothing loaded yet", "warm": "every template rendered once before",
		"warm-changed": fmt.Sprintf("every template rendered once before, then a newer version of %q put into the loader's store", sc.fam.changedName)}[sc.prefix]
	var gated []string
	for n := range sc.fam.gated {
		gated = append(gated, fmt.Sprintf("%q", n))
	}
	sort.Strings(gated)
	fam := strings.TrimPrefix(sc.fam.name, "-")
	if fam == "" {
		fam = "absolute names"
	}
	return fmt.Sprintf("templates: %s, config %s, loader %s, %s; held inside the loader (%s of %s): %s; made meanwhile: %s; held calls let go %s",
		fam, sc.config, sc.store, pre, gateAt, strings.Join(gated, "/"), strings.Join(h, " and "), strings.Join(d, " then "), rel)
}

// c02OverlapSweep: the corpus core (the in-memory loader with modification times, one held call, every route, every
// call made meanwhile, every configuration and gate position, every family) runs on every seed; of the rest (two held
// calls, the other loaders) the scenarios whose number is ≡ -seed (mod stride; twice the stride for the later families). Scenarios are independent (an engine, a store
// and a directory each), so a few of them run side by side.
func c02OverlapSweep(col *c02Collector, seed int64, tier string) {
	stride := 4
	if tier == "thorough" {
		stride = 1
	}
	if c02RaceBuild {
		stride *= 6
	}
	root, err := os.MkdirTemp("", "c02ov-")
	if err != nil {
		return
	}
	defer os.RemoveAll(root)
	type job struct {
		sc  c02OvScenario
		n   int
		hi  int
		dir string
	}
	var jobs []job
	n := 0
	for _, fam := range c02OvFamilies() {
		for _, store := range c02StoreKinds {
			for _, config := range c02Configs {
				for _, prefix := range c02OvPrefixes {
					if prefix == "warm" && config == "cache-on" && !fam.warmReachesLoader {
						continue // nothing reaches the loader: the held calls are not held
					}
					for hi, held := range fam.held {
						for _, during := range fam.during {
							n++
							core := store == "mem-ts" && len(held) == 1 && !c02RaceBuild
							st := stride
							if fam.name != "" {
								st *= 2 // the later families: half as many of the sampled scenarios
							}
							if !core && (int64(n)+seed)%int64(st) != 0 {
								continue
							}
							jobs = append(jobs, job{c02OvScenario{fam: fam, config: config, store: store, prefix: prefix, held: held, during: during}, n, hi,
								filepath.Join(root, fmt.Sprintf("s%d", n))})
						}
					}
				}
			}
		}
	}
	var stop int32
	var ran, heldInside int64
	work := make(chan job)
	var wg sync.WaitGroup
	for w := 0; w < 4; w++ {
		wg.Add(1)
		go func() {
			defer wg.Done()
			for j := range work {
				if atomic.LoadInt32(&stop) != 0 || col.failed() {
					continue
				}
				r, h, halt := c02OvRunScenario(col, j.sc, j.n, j.hi, j.dir)
				atomic.AddInt64(&ran, int64(r))
				atomic.AddInt64(&heldInside, int64(h))
				if halt {
					atomic.StoreInt32(&stop, 1)
				}
			}
		}()
	}
	for _, j := range jobs {
		work <- j
	}
	close(work)
	wg.Wait()
	col.mu.Lock()
	col.res.Hits["overlap-scenarios"] += int(ran)
	col.res.Hits["overlap-calls-held-inside-loader"] += int(heldInside)
	col.mu.Unlock()
}

// c02OvRunScenario: the serial orders on twins, then the overlapped run for every gate position. halt: a failing
// history was found (one witness is enough; after a stuck engine every further one would wait as long).
func c02OvRunScenario(col *c02Collector, sc c02OvScenario, n, hi int, dir string) (ran, heldInside int, halt bool) {
	held, during := sc.held, sc.during
	if sc.store == "fs" {
		if os.Mkdir(dir, 0o755) != nil {
			return
		}
	}
	var serial [][]string
	for _, order := range c02OvOrders(len(held), len(during)) {
		res, ok := c02OvSerial(sc, dir, order)
		if !ok {
			col.mu.Lock()
			col.res.Skips["overlap-serial-reference-unusable"]++
			col.mu.Unlock()
			return
		}
		serial = append(serial, res)
	}
	for gi, gateAt := range c02OvGates {
		if gateAt == "mtime" && (sc.store == "array" || (sc.fam.gatedMissing && sc.prefix != "warm-changed")) {
			continue // nobody asks for the modification time (of a name the store does not have)
		}
		lifo := len(held) > 1 && (n+gi)%2 == 1
		o, ok := c02OvOverlapped(sc, dir, gateAt, lifo)
		if !ok {
			continue
		}
		ran++
		heldInside += o.reached
		col.seen(fmt.Sprintf("overlap%s|%s|%s|%s|%d|%d|%s|%d", sc.fam.name, sc.store, sc.config, sc.prefix, hi, n, gateAt, o.reached))
		if o.blocked {
			col.hit("overlap-call-waited-for-held-call")
		}
		replay := map[string]any{"kind": "forced-overlap", "config": sc.config, "loader": sc.store, "before": sc.prefix, "held_at": gateAt,
			"held_calls": fmt.Sprint(held), "calls_meanwhile": fmt.Sprint(during), "calls_afterwards": fmt.Sprint(sc.fam.after), "family": sc.fam.name,
			"held_calls_released_last_first": lifo, "held_calls_that_reached_the_loader": o.reached,
			"templates": sc.fam.sources(), "changed_template": sc.fam.changedName, "changed_template_version_2": sc.fam.changedSrc, "results_overlapped": o.results, "results_of_every_serial_order": serial,
			"result_layout": "held calls, calls made meanwhile, calls made afterwards (context {'who': «H|D|A n»})",
			"rerun":         "harness -child c02overlap <seed> <tier>"}
		if o.stuck != "" {
			col.violate(c02Violation{Key: "engine-stuck-after-overlap",
				What: fmt.Sprintf("%s did not return within %v (%s). History: %s. Run one after another, in any order, all these calls return at once",
					o.stuck, c02StuckAfter, o.stuckPhase, c02OvDescribe(sc, gateAt, lifo)),
				Replay: replay})
			return ran, heldInside, true
		}
		match := false
		for _, s := range serial {
			if len(s) == len(o.results) && fmt.Sprintf("%q", s) == fmt.Sprintf("%q", o.results) {
				match = true
				break
			}
		}
		if !match {
			k := 0
			for k < len(o.results) && k < len(serial[0]) && o.results[k] == serial[0][k] {
				k++
			}
			col.violate(c02Violation{Key: "overlap-not-serializable",
				What: fmt.Sprintf("the results of overlapping calls equal those of no serial order (%d orders tried; first difference from the order 'held calls first' at result #%d: %q, serially %q). History: %s",
					len(serial), k, truncate(c02At(o.results, k), 100), truncate(c02At(serial[0], k), 100), c02OvDescribe(sc, gateAt, lifo)),
				Replay: replay})
			return ran, heldInside, true
		}
	}
	return
}

func c02At(s []string, i int) string {
	if i < len(s) {
		return s[i]
	}
	return ""
}

// child mode `-child c02overlap <seed> <tier>`: the forced-overlap sweep alone (what a replay of one of its
// violations runs).
func init() {
	children["c02overlap"] = func(args []string) int {
		if len(args) < 2 {
			fmt.Fprintln(os.Stderr, "usage: -child c02overlap <seed> <tier>")
			return 2
		}
		seed, _ := strconv.ParseInt(args[0], 10, 64)
		res := &c02Result{Hits: map[string]int{}, Skips: map[string]int{}, Violations: []c02Violation{}, Samples: []any{}, Notes: []string{}}
		col := &c02Collector{res: res, seq: map[string]struct{}{}}
		c02OverlapSweep(col, seed, args[1])
		res.Distinct = nil
		b, _ := json.Marshal(res)
		fmt.Println(string(b))
		if len(res.Violations) > 0 {
			return 3
		}
		return 0
	}
}
