package main

import (
	"bytes"
	"fmt"
	"strconv"
	"strings"
	"sync"
	"time"

	"github.com/semihalev/twig"
)

// C05 (a7) — the SIZE of what is rendered, and the calls that follow it.
//
// Every other part of the runner renders values and templates of a few hundred bytes (the 4100-byte padding of (a) is
// blanks in the *source*). The engine keeps process-wide pools of output buffers, render contexts and maps whose state
// depends on what the previous user left in them; a policy keyed on size (grow, shrink, drop, cap) is only exercised
// when one written chunk, or the whole output, crosses the size it is keyed on, and its damage shows in the NEXT use
// of the pooled object: "leaves the engine unusable for later calls".
//
// Dimensions:
//   - size ladder around the powers of two from 0 to 1 MiB (±1), ascending and descending;
//   - where the bytes are: one printed context value, one text segment of the source, a value built in the template
//     (concatenation, filter output, escaping that quadruples the size), many small chunks (loop, join, many print
//     nodes, many integers), output that passes through include / macro / apply / block inheritance, a context with
//     many keys;
//   - the API route, which decides the writer the nodes see: Engine.Render, Template.Render, RenderTo into a
//     bytes.Buffer, a strings.Builder, a writer with nothing but Write, the library's own Buffer, development mode;
//   - what comes afterwards: the same render again, a small render on the same engine through the same route and
//     through Engine.Render, a small render on a fresh engine — all in the goroutine that did the large render (the
//     pools are per-P), the next ladder step in another one.
//
// Oracle: every call returns within the watchdog without panic, and its output equals the value computed here in Go
// (the shapes are chosen so that the expected output is a direct string computation).

const sizeAlphabet = "abcdefghijklmnopqrstuvwxyzABCDEFGHIJKLMNOPQRSTUVWXYZ0123456789"

// sizePat is n bytes of letters and digits in which no two windows of 62 bytes at different offsets below 3844 agree,
// so a lost, repeated or shifted chunk changes the output.
func sizePat(n int) string {
	sizePatMu.Lock()
	defer sizePatMu.Unlock()
	if len(sizePatCache) < n {
		b := make([]byte, n)
		for i := range b {
			b[i] = sizeAlphabet[(i+i/len(sizeAlphabet))%len(sizeAlphabet)]
		}
		sizePatCache = string(b)
	}
	return sizePatCache[:n]
}

var (
	sizePatMu    sync.Mutex
	sizePatCache string
)

// sizeItems cuts sizePat(n) into pieces of 7 bytes.
func sizeItems(n int) []interface{} {
	p := sizePat(n)
	out := make([]interface{}, 0, n/7+1)
	for len(p) > 0 {
		k := 7
		if k > len(p) {
			k = len(p)
		}
		out = append(out, p[:k])
		p = p[k:]
	}
	return out
}

type sizeShape struct {
	name string
	max  int // largest ladder size this shape takes in the quick tier (0 = all)
	tpls func(n int) map[string]string
	ctx  func(n int) map[string]interface{}
	want func(n int) string
}

func bodyCtx(n int) map[string]interface{} {
	return map[string]interface{}{"body": sizePat(n), "tail": "T"}
}

func constTpls(m map[string]string) func(int) map[string]string {
	return func(int) map[string]string { return m }
}

var sizeShapes = []sizeShape{
	{name: "one printed value", tpls: constTpls(map[string]string{"page": "{{ body }}"}), ctx: bodyCtx, want: sizePat},
	{name: "one printed value between text and another print", tpls: constTpls(map[string]string{"page": "<p>{{ body }}</p>{{ tail }}!"}), ctx: bodyCtx,
		want: func(n int) string { return "<p>" + sizePat(n) + "</p>T!" }},
	{name: "one text segment of the source", tpls: func(n int) map[string]string {
		return map[string]string{"page": "{{ tail }}" + sizePat(n) + "{{ tail }}."}
	}, ctx: bodyCtx,
		want: func(n int) string { return "T" + sizePat(n) + "T." }},
	{name: "the same value printed twice", tpls: constTpls(map[string]string{"page": "{{ body }}|{{ body }}"}), ctx: bodyCtx, want: func(n int) string { return sizePat(n) + "|" + sizePat(n) }},
	{name: "a concatenation built in the template", tpls: constTpls(map[string]string{"page": "{{ body ~ '-' ~ body }}{{ tail }}"}), ctx: bodyCtx, want: func(n int) string { return sizePat(n) + "-" + sizePat(n) + "T" }},
	{name: "a filter result (upper)", tpls: constTpls(map[string]string{"page": "{{ body|upper }}{{ tail|lower }}"}), ctx: bodyCtx, want: func(n int) string { return strings.ToUpper(sizePat(n)) + "t" }},
	{name: "a raw value", tpls: constTpls(map[string]string{"page": "{{ body|raw }}{{ tail }}"}), ctx: bodyCtx, want: func(n int) string { return sizePat(n) + "T" }},
	{name: "a value that the escape filter quadruples", max: 300000, tpls: constTpls(map[string]string{"page": "{{ lt|escape }}{{ tail }}"}),
		ctx: func(n int) map[string]interface{} {
			return map[string]interface{}{"lt": strings.Repeat("<", n), "tail": "T"}
		},
		want: func(n int) string { return strings.Repeat("&lt;", n) + "T" }},
	{name: "many small chunks from a loop", max: 300000, tpls: constTpls(map[string]string{"page": "{% for x in items %}{{ x }},{% endfor %}{{ tail }}"}),
		ctx: func(n int) map[string]interface{} { return map[string]interface{}{"items": sizeItems(n), "tail": "T"} },
		want: func(n int) string {
			var sb strings.Builder
			for _, x := range sizeItems(n) {
				sb.WriteString(x.(string))
				sb.WriteByte(',')
			}
			return sb.String() + "T"
		}},
	{name: "a joined list", max: 300000, tpls: constTpls(map[string]string{"page": "{{ items|join('') }}{{ tail }}"}),
		ctx:  func(n int) map[string]interface{} { return map[string]interface{}{"items": sizeItems(n), "tail": "T"} },
		want: func(n int) string { return sizePat(n) + "T" }},
	{name: "many integers", max: 300000, tpls: constTpls(map[string]string{"page": "{% for i in nums %}{{ i }}{% endfor %}{{ tail }}"}),
		ctx: func(n int) map[string]interface{} {
			nums := make([]interface{}, n/6)
			for i := range nums {
				nums[i] = 100000 + i
			}
			return map[string]interface{}{"nums": nums, "tail": "T"}
		},
		want: func(n int) string {
			var sb strings.Builder
			for i := 0; i < n/6; i++ {
				sb.WriteString(strconv.Itoa(100000 + i))
			}
			return sb.String() + "T"
		}},
	{name: "many print nodes in the source", max: 70000, tpls: func(n int) map[string]string {
		return map[string]string{"page": strings.Repeat("{{ tail }}ab", n/3) + "."}
	}, ctx: bodyCtx,
		want: func(n int) string { return strings.Repeat("Tab", n/3) + "." }},
	{name: "through an include", tpls: constTpls(map[string]string{"page": "[{% include 'part' %}]{{ tail }}", "part": "<{{ body }}>"}), ctx: bodyCtx, want: func(n int) string { return "[<" + sizePat(n) + ">]T" }},
	{name: "through an include with variables", tpls: constTpls(map[string]string{"page": "[{% include 'part' with {'b': body} only %}]{{ tail }}", "part": "<{{ b }}>"}), ctx: bodyCtx,
		want: func(n int) string { return "[<" + sizePat(n) + ">]T" }},
	{name: "through a macro", tpls: constTpls(map[string]string{"page": "{% macro m(a) %}<{{ a }}>{% endmacro %}{{ m(body) }}{{ tail }}"}), ctx: bodyCtx, want: func(n int) string { return "<" + sizePat(n) + ">T" }},
	{name: "through apply", tpls: constTpls(map[string]string{"page": "{% apply upper %}{{ body }}x{% endapply %}{{ tail }}"}), ctx: bodyCtx, want: func(n int) string { return strings.ToUpper(sizePat(n)) + "XT" }},
	{name: "through block inheritance", tpls: constTpls(map[string]string{"page": "{% extends 'layout' %}{% block c %}{{ body }}+{{ parent() }}{% endblock %}", "layout": "[{% block c %}base{% endblock %}]{{ tail }}"}), ctx: bodyCtx,
		want: func(n int) string { return "[" + sizePat(n) + "+base]T" }},
	{name: "a context with many keys", max: 300000, tpls: constTpls(map[string]string{"page": "{{ k0 }}{{ klast }}{{ tail }}"}),
		ctx: func(n int) map[string]interface{} {
			c := map[string]interface{}{"k0": "first", "klast": "last", "tail": "T"}
			for i := 1; i < n/16; i++ {
				c["k"+strconv.Itoa(i)] = i
			}
			return c
		},
		want: func(int) string { return "firstlastT" }},
}

// writeOnly hides every method of the buffer except Write.
type writeOnly struct{ b *bytes.Buffer }

func (w writeOnly) Write(p []byte) (int, error) { return w.b.Write(p) }

type sizeRoute struct {
	name   string
	dev    bool
	render func(eng *twig.Engine, name string, ctx map[string]interface{}) (string, error)
}

var sizeRoutes = []sizeRoute{
	{name: "Engine.Render", render: func(eng *twig.Engine, name string, ctx map[string]interface{}) (string, error) {
		return eng.Render(name, ctx)
	}},
	{name: "Template.Render", render: func(eng *twig.Engine, name string, ctx map[string]interface{}) (string, error) {
		t, err := eng.Load(name)
		if err != nil {
			return "", err
		}
		return t.Render(ctx)
	}},
	{name: "Engine.RenderTo(io.Writer with Write only)", render: func(eng *twig.Engine, name string, ctx map[string]interface{}) (string, error) {
		var b bytes.Buffer
		err := eng.RenderTo(writeOnly{&b}, name, ctx)
		return b.String(), err
	}},
	{name: "Engine.RenderTo(*bytes.Buffer)", render: func(eng *twig.Engine, name string, ctx map[string]interface{}) (string, error) {
		var b bytes.Buffer
		err := eng.RenderTo(&b, name, ctx)
		return b.String(), err
	}},
	{name: "Template.RenderTo(*strings.Builder)", render: func(eng *twig.Engine, name string, ctx map[string]interface{}) (string, error) {
		t, err := eng.Load(name)
		if err != nil {
			return "", err
		}
		var b strings.Builder
		err = t.RenderTo(&b, ctx)
		return b.String(), err
	}},
	{name: "Engine.RenderTo(*twig.Buffer)", render: func(eng *twig.Engine, name string, ctx map[string]interface{}) (string, error) {
		b := twig.GetBuffer()
		defer b.Release()
		err := eng.RenderTo(b, name, ctx)
		return b.String(), err
	}},
	{name: "Engine.Render in development mode", dev: true, render: func(eng *twig.Engine, name string, ctx map[string]interface{}) (string, error) {
		return eng.Render(name, ctx)
	}},
}

// sizeLadder: 0, 1 and every power of two from 2^10 to 2^20 with its two neighbours, plus sizes that are no power of two.
func sizeLadder() []int {
	out := []int{0, 1, 100}
	for p := 10; p <= 20; p++ {
		out = append(out, 1<<p-1, 1<<p, 1<<p+1)
	}
	out = append(out, 100*1024, 3<<15, 5<<16)
	return out
}

const sizeSmallTpl = "Hello {{ name }}!{{ body is defined or items is defined or k1 is defined ? 'LEAKED' : '' }}"

// sizeProgress is what the goroutine under the watchdog has done so far.
type sizeProgress struct {
	mu    sync.Mutex
	steps []string
}

func (p *sizeProgress) add(s string) {
	p.mu.Lock()
	p.steps = append(p.steps, s)
	p.mu.Unlock()
}
func (p *sizeProgress) get() []string {
	p.mu.Lock()
	defer p.mu.Unlock()
	return append([]string{}, p.steps...)
}

func runC05Sizes(e *Env, report func(key, what string, replay map[string]any) bool) (stop bool) {
	r := e.Rep
	rg := e.Rng
	ladder := sizeLadder()
	// the deterministic part: every shape × every route; the ladder is thinned per (shape, route) in the quick tier so
	// that every rung is taken by every shape and by every route, and the rungs above 64 KiB by every pair
	thorough := e.Thorough()
	newEng := func(rt sizeRoute) *twig.Engine {
		eng := twig.New()
		if rt.dev {
			eng.SetDevelopmentMode(true)
		}
		return eng
	}
	small := map[string]interface{}{"name": "b"}
	const smallWant = "Hello b!"
	for si, sh := range sizeShapes {
		for ri, rt := range sizeRoutes {
			if r.Full() {
				return true
			}
			eng := newEng(rt)
			if err := eng.RegisterString("small", sizeSmallTpl); err != nil {
				report("engine-unusable-after-large-render", fmt.Sprintf("registering %q: %v", sizeSmallTpl, err), map[string]any{"kind": "sizes", "template": sizeSmallTpl})
				return true
			}
			var sizes []int
			for li, n := range ladder {
				if !thorough && sh.max > 0 && n > sh.max {
					continue
				}
				// quick: every pair takes the first rung above 64 KiB, a third of the other rungs up to 128 KiB, a sixth of those below
				// 64 KiB and a ninth of those above 128 KiB, rotating so that every shape and every route meets every rung
				rot := li + si + ri
				if thorough || n == 1<<16+1 || (n > 1<<16 && n <= 1<<17+1 && rot%3 == 0) || (n <= 1<<16 && rot%6 == 0) || (n > 1<<17+1 && rot%9 == 0) {
					sizes = append(sizes, n)
				}
			}
			// ascending, then back down: a small render after each large one, and a smaller large one after a larger
			order := append([]int{}, sizes...)
			for i := len(sizes) - 2; i >= 0; i -= 3 {
				order = append(order, sizes[i])
			}
			if rg.Intn(2) == 0 && len(order) > 2 { // and one random rung revisited
				order = append(order, sizes[rg.Intn(len(sizes))])
			}
			for _, n := range order {
				tpls := sh.tpls(n)
				ctx := sh.ctx(n)
				want := sh.want(n)
				prog := &sizeProgress{}
				replay := map[string]any{"kind": "sizes", "shape": sh.name, "route": rt.name, "size": n, "sizes_before_on_this_engine": fmt.Sprint(order),
					"templates": elideTemplates(tpls), "context": describeSizeCtx(ctx), "small_template": sizeSmallTpl, "pattern": "sizePat(n)[i] = alphabet[(i + i/62) % 62], alphabet = a-zA-Z0-9"}
				breadcrumb("sizes", map[string]any{"shape": sh.name, "route": rt.name, "size": n, "templates": elideTemplates(tpls)})
				res := guardedTimeout(10*time.Second, func() (string, error) {
					names := sortedKeys(tpls)
					for _, nme := range names {
						reg := nme
						if nme == "page" {
							reg = "page" + strconv.Itoa(n)
						}
						if err := eng.RegisterString(reg, tpls[nme]); err != nil {
							return "", fmt.Errorf("parsing error: %w", err)
						}
					}
					page := "page" + strconv.Itoa(n)
					check := func(what string, eg *twig.Engine, route sizeRoute, name string, c map[string]interface{}, want string) error {
						prog.add("start: " + what)
						out, err := route.render(eg, name, c)
						if err != nil {
							return fmt.Errorf("SIZE-MISMATCH %s: error %v", what, truncate(err.Error(), 200))
						}
						if out != want {
							return fmt.Errorf("SIZE-MISMATCH %s: output of %d bytes, expected %d bytes; first difference at byte %d (got %q, expected %q)", what, len(out), len(want), firstDiff(out, want),
								window(out, firstDiff(out, want)), window(want, firstDiff(out, want)))
						}
						prog.add("done: " + what)
						return nil
					}
					for rep := 1; rep <= 2; rep++ {
						if err := check(fmt.Sprintf("render #%d of %d bytes (%s) via %s", rep, n, sh.name, rt.name), eng, rt, page, ctx, want); err != nil {
							return "", err
						}
						if err := check(fmt.Sprintf("small render via %s after large render #%d", rt.name, rep), eng, rt, "small", small, smallWant); err != nil {
							return "", err
						}
						if err := check(fmt.Sprintf("small render via Engine.Render after large render #%d", rep), eng, sizeRoutes[0], "small", small, smallWant); err != nil {
							return "", err
						}
					}
					fresh := newEng(rt)
					if err := fresh.RegisterString("small", sizeSmallTpl); err != nil {
						return "", fmt.Errorf("SIZE-MISMATCH fresh engine: registering the small template: %v", err)
					}
					if err := check("small render on a fresh engine via "+rt.name, fresh, rt, "small", small, smallWant); err != nil {
						return "", err
					}
					return "ok", nil
				})
				r.Seen(fmt.Sprintf("sizes:%s:%s:%d", sh.name, rt.name, n), true)
				r.Hit("sizes-class:" + res.Class)
				if n > 1<<16 {
					r.Hit("sizes-above-64KiB")
				}
				steps := prog.get()
				last := ""
				if len(steps) > 0 {
					last = steps[len(steps)-1]
				}
				replay["steps"] = steps
				replay["class"], replay["panic"], replay["err"] = res.Class, res.Panic, fmt.Sprint(res.Err)
				switch {
				case res.Class == "panic" || res.Class == "timeout":
					report("panic-or-hang-after-large-render", fmt.Sprintf("%s, %d bytes, via %s: %s; last step %q %s", sh.name, n, rt.name, res.Class, last, truncate(res.Panic, 300)), replay)
					return true // a hung render keeps spinning: stop here
				case res.Err != nil && strings.Contains(res.Err.Error(), "SIZE-MISMATCH"):
					if report("engine-unusable-after-large-render", fmt.Sprintf("%s, %d bytes, via %s: %v", sh.name, n, rt.name, res.Err), replay) {
						return true
					}
				case res.Err != nil:
					// the shapes are all valid templates: an error is not an outcome the property forbids, but nothing was exercised
					r.Hit("sizes-unexpected-error")
					r.Note(fmt.Sprintf("sizes: %s, %d bytes, via %s: %v", sh.name, n, rt.name, truncate(res.Err.Error(), 200)))
				}
			}
		}
	}
	return false
}

func window(s string, at int) string {
	lo, hi := at-8, at+16
	if lo < 0 {
		lo = 0
	}
	if hi > len(s) {
		hi = len(s)
	}
	if lo > hi {
		lo = hi
	}
	return s[lo:hi]
}

// elideTemplates keeps the replay readable: a run of pattern bytes is replaced by its length.
func elideTemplates(tpls map[string]string) map[string]string {
	out := map[string]string{}
	for k, v := range tpls {
		if len(v) > 400 {
			v = fmt.Sprintf("%s…(%d bytes in all)…%s", v[:120], len(v), v[len(v)-120:])
		}
		out[k] = v
	}
	return out
}

func describeSizeCtx(ctx map[string]interface{}) map[string]string {
	out := map[string]string{}
	if len(ctx) > 8 {
		return map[string]string{"keys": strconv.Itoa(len(ctx)), "k0": "first", "klast": "last", "tail": "T", "k<i>": "i"}
	}
	for k, v := range ctx {
		switch x := v.(type) {
		case string:
			if len(x) > 80 {
				out[k] = fmt.Sprintf("string of %d bytes: %s…", len(x), x[:40])
			} else {
				out[k] = strconv.Quote(x)
			}
		case []interface{}:
			out[k] = fmt.Sprintf("list of %d items, first %v", len(x), firstOf(x))
		default:
			out[k] = fmt.Sprint(v)
		}
	}
	return out
}

func firstOf(xs []interface{}) interface{} {
	if len(xs) == 0 {
		return nil
	}
	return xs[0]
}
