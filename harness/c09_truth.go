package main

import "fmt"

// c09TruthTable (implementation-only; after the detection of seeded change C09-C turned out to depend on the random
// stream): a condition is decided by the VALUE, not by the Go type that carries it. Every container is falsy exactly
// when it is empty — a nil or empty slice, map or zero-length array of any element type — and truthy otherwise (also
// when all its elements are zero values); every number is falsy exactly when it is zero, in every width and named
// type; a pointer to anything is truthy (a typed nil pointer is left out: whether it is "null" the property does not say); a struct is truthy. Each value stands in every
// condition position: if, elseif, not, and, or, the conditional operator, a for-else loop.
func c09TruthTable(e *Env) {
	r := e.Rep
	type named []string
	type namedInt int
	type namedMap map[string]int
	zero := 0
	st := struct{ A int }{}
	vals := []struct {
		name  string
		v     any
		truth bool
	}{
		{"[]string{}", []string{}, false}, {"[]int{}", []int{}, false}, {"make([]int,0,8)", make([]int, 0, 8), false}, {"[]string(nil)", []string(nil), false},
		{"[]interface{}{}", []interface{}{}, false}, {"[]float64{}", []float64{}, false}, {"[][]int{}", [][]int{}, false}, {"named{}", named{}, false}, {"[]map[string]interface{}{}", []map[string]interface{}{}, false},
		{"map[string]int{}", map[string]int{}, false}, {"map[string]string{}", map[string]string{}, false}, {"map[int]string{}", map[int]string{}, false}, {"map[string]int(nil)", map[string]int(nil), false},
		{"map[string]interface{}{}", map[string]interface{}{}, false}, {"namedMap{}", namedMap{}, false}, {"[0]int{}", [0]int{}, false}, {"[0]string{}", [0]string{}, false},
		{"[2]int{0,0}", [2]int{0, 0}, true}, {"[1]string{\"\"}", [1]string{""}, true}, {"[]int{0}", []int{0}, true}, {"[]string{\"\"}", []string{""}, true}, {"[]bool{false}", []bool{false}, true},
		{"[]interface{}{nil}", []interface{}{nil}, true}, {"map[string]int{a:0}", map[string]int{"a": 0}, true}, {"map[string]string{\"\":\"\"}", map[string]string{"": ""}, true}, {"named{\"\"}", named{""}, true},
		{"[][]int{{}}", [][]int{{}}, true}, {"[]float64{0}", []float64{0}, true}, {"map[int]bool{0:false}", map[int]bool{0: false}, true},
		{"int8(0)", int8(0), false}, {"int16(0)", int16(0), false}, {"int32(0)", int32(0), false}, {"int64(0)", int64(0), false}, {"uint(0)", uint(0), false}, {"uint8(0)", uint8(0), false}, {"uint64(0)", uint64(0), false},
		{"float32(0)", float32(0), false}, {"float64(0)", float64(0), false}, {"namedInt(0)", namedInt(0), false}, {"int8(-1)", int8(-1), true}, {"uint8(255)", uint8(255), true}, {"float32(0.5)", float32(0.5), true},
		{"namedInt(3)", namedInt(3), true}, {"uint64(1<<63)", uint64(1) << 63, true}, {"int64(-1<<63)", int64(-1) << 63, true},
		{"&zero", &zero, true}, {"struct{A int}{}", st, true}, {"&struct{}", &st, true}, {"nil", nil, false}, {"false", false, false}, {"true", true, true}, {"\"\"", "", false}, {"\"a\"", "a", true},
	}
	tpl := "{% if v %}T{% else %}F{% endif %}|{{ v ? 'T' : 'F' }}|{{ not v ? 'F' : 'T' }}|{% if v and true %}T{% else %}F{% endif %}|{% if v or false %}T{% else %}F{% endif %}|" +
		"{% if false %}x{% elseif v %}T{% else %}F{% endif %}|{% if not (not v) %}T{% else %}F{% endif %}|{% set b = v ? 1 : 0 %}{{ b ? 'T' : 'F' }}|{% for q in [1] %}{% if v %}T{% else %}F{% endif %}{% endfor %}"
	for _, tc := range vals {
		c := "F"
		if tc.truth {
			c = "T"
		}
		want := c + "|" + c + "|" + c + "|" + c + "|" + c + "|" + c + "|" + c + "|" + c + "|" + c
		res := renderSrc(tpl, map[string]any{"v": tc.v})
		r.Seen("truth:"+tc.name, true)
		if res.Class != "" || res.Out != want {
			r.Violate(Violation{Key: "condition-by-go-type", What: fmt.Sprintf("the value %s as a condition renders %q (%s), expected %q: a container is falsy exactly when it is empty, a number exactly when it is zero", tc.name, res.Out, res.Class, want),
				Broken: "theorem C09_falsy_table (the branch taken depends on the value; implementation-only oracle over Go types the model does not have)",
				Replay: map[string]any{"kind": "truth-table", "value": tc.name, "src": tpl, "want": want, "got": res.Out, "class": res.Class}})
		}
	}
	r.Hit("truth-table")
}
