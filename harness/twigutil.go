package main

import (
	"errors"
	"fmt"
	"runtime/debug"
	"strings"
	"time"

	"github.com/semihalev/twig"
)

// Tok is a token in canonical form (kind number, value); line numbers are not compared.
type Tok struct {
	K int
	V string
}

func (t Tok) String() string { return fmt.Sprintf("%d:%q", t.K, t.V) }

// goTokens runs one of the two real tokenizers (exported API), optionally followed by
// ApplyWhitespaceControl. A tokenizer error is canonicalised to its class.
func goTokens(src, which string, ws bool) (toks []Tok, errClass string, panicked string) {
	defer func() {
		if r := recover(); r != nil {
			panicked = fmt.Sprint(r)
		}
	}()
	t := twig.GetTokenizer(src, 0)
	defer twig.ReleaseTokenizer(t)
	var res []twig.Token
	var err error
	if which == "opt" {
		res, err = t.TokenizeOptimized()
	} else {
		res, err = t.TokenizeHtmlPreserving()
	}
	if err != nil {
		return nil, scanErrClass(err), ""
	}
	if ws {
		t.ApplyWhitespaceControl()
	}
	toks = make([]Tok, len(res))
	for i, x := range res {
		toks[i] = Tok{x.Type, strings.Clone(x.Value)}
	}
	return toks, "", ""
}

func scanErrClass(err error) string {
	s := err.Error()
	switch {
	case strings.Contains(s, "unclosed variable"):
		return "unclosed-var"
	case strings.Contains(s, "unclosed block"):
		return "unclosed-block"
	case strings.Contains(s, "unclosed comment"):
		return "unclosed-comment"
	}
	return "other:" + s
}

// modelTokens asks the driver for the same stream.
func modelTokens(m *Model, src, which string, ws bool) ([]Tok, string, error) {
	resp, err := m.Call(map[string]any{"op": "scan_" + which, "src": hx(src), "ws": ws})
	if err != nil {
		return nil, "", err
	}
	if e, ok := resp["err"].(string); ok {
		return nil, e, nil
	}
	arr, _ := resp["tokens"].([]any)
	toks := make([]Tok, len(arr))
	for i, a := range arr {
		p := a.([]any)
		toks[i] = Tok{int(p[0].(float64)), unhx(p[1].(string))}
	}
	return toks, "", nil
}

func sameToks(a, b []Tok) bool {
	if len(a) != len(b) {
		return false
	}
	for i := range a {
		if a[i] != b[i] {
			return false
		}
	}
	return true
}

func fmtToks(t []Tok) string {
	var sb strings.Builder
	for i, x := range t {
		if i > 0 {
			sb.WriteByte(' ')
		}
		sb.WriteString(x.String())
	}
	return sb.String()
}

// ---- rendering through the real engine, with panic recovery and a watchdog ---------------------

type RenderResult struct {
	Out      string
	Err      error
	Class    string // "", parse-error, not-found, security, render-error, panic, timeout
	Panic    string
	Duration time.Duration
}

func classify(err error) string {
	if err == nil {
		return ""
	}
	var sv *twig.SecurityViolation
	switch {
	case errors.As(err, &sv):
		return "security"
	case errors.Is(err, twig.ErrTemplateNotFound):
		return "not-found"
	}
	s := err.Error()
	if strings.Contains(s, "parsing error") || strings.Contains(s, "tokenization error") {
		return "parse-error"
	}
	return "render-error"
}

type EngineOpt func(*twig.Engine)

// newEngine builds an engine holding the given templates (registered in sorted name order so that
// a parse error is attributed deterministically).
func newEngine(tpls map[string]string, opts ...EngineOpt) (*twig.Engine, error) {
	e := twig.New()
	for _, o := range opts {
		o(e)
	}
	for _, n := range sortedKeys(tpls) {
		if err := e.RegisterString(n, tpls[n]); err != nil {
			return e, fmt.Errorf("register %s: %w", n, err)
		}
	}
	return e, nil
}

func sortedKeys[V any](m map[string]V) []string {
	ks := make([]string, 0, len(m))
	for k := range m {
		ks = append(ks, k)
	}
	sortStrings(ks)
	return ks
}

func sortStrings(a []string) {
	for i := 1; i < len(a); i++ {
		for j := i; j > 0 && a[j] < a[j-1]; j-- {
			a[j], a[j-1] = a[j-1], a[j]
		}
	}
}

// guarded runs f with panic recovery under a watchdog.
func guarded(f func() (string, error)) (res RenderResult) { return guardedTimeout(10*time.Second, f) }

func guardedTimeout(limit time.Duration, f func() (string, error)) (res RenderResult) {
	done := make(chan RenderResult, 1)
	start := time.Now()
	go func() {
		var r RenderResult
		defer func() {
			if p := recover(); p != nil {
				r.Panic = fmt.Sprintf("%v\n%s", p, truncate(string(debug.Stack()), 1500))
				r.Class = "panic"
			}
			r.Duration = time.Since(start)
			done <- r
		}()
		out, err := f()
		r.Out, r.Err = out, err
		r.Class = classify(err)
	}()
	select {
	case r := <-done:
		return r
	case <-time.After(limit):
		return RenderResult{Class: "timeout", Duration: time.Since(start)}
	}
}

// renderFresh registers the templates on a fresh engine and renders `main`.
func renderFresh(tpls map[string]string, main string, ctx map[string]any, opts ...EngineOpt) RenderResult {
	return guarded(func() (string, error) {
		e, err := newEngine(tpls, opts...)
		if err != nil {
			return "", fmt.Errorf("parsing error: %w", err)
		}
		return e.Render(main, ctx)
	})
}

func renderSrc(src string, ctx map[string]any) RenderResult {
	return renderFresh(map[string]string{"main": src}, "main", ctx)
}
