package main

import (
	"fmt"
	"regexp"
	"strings"
	"time"

	"github.com/semihalev/twig"
)

// C05 — no template source or context value makes the engine panic or hang.
//
// The Lean side proves totality/termination of the model's lexer and parsers (fuel adequacy) and of the
// container decoder; panics and hangs of the real code cannot be exhibited by a model, so the search is
// a mutation fuzz of template sources, a type zoo of context values and hostile compiled-template bytes,
// every case under panic recovery and a watchdog, every engine reused afterwards ("not left unusable").

func init() { register("C05", runC05) }

type zStruct struct {
	Name  string
	Age   int
	Tags  []string
	Inner *zInner
	priv  int
}
type zInner struct{ V float64 }

func (z zStruct) Hello() string     { return "hi " + z.Name }
func (z *zStruct) PtrM() []int      { return []int{1, 2} }
func (z zStruct) WithArg(i int) int { return i }

type zEmbed struct {
	*zInner
	zStruct
}
type zStringer struct{}

func (zStringer) String() string { return "<stringer>" }

func zooValues() map[string]any {
	var nilPtr *zStruct
	var nilMap map[string]int
	var nilSlice []string
	var nilIface interface{}
	ch := make(chan int)
	return map[string]any{
		"i": 7, "i8": int8(-3), "i64": int64(1) << 40, "u": uint(3), "u8": uint8(0), "f": 2.5, "f32": float32(1.25), "z": 0, "fz": 0.0,
		"s": "héllo wörld", "e": "", "bad": "\xff\xfe\x00", "b": true, "n": nil, "ni": nilIface,
		"l": []interface{}{1, "a", nil, []interface{}{2}}, "ls": []string{"x", "y"}, "li": []int{3, 1, 2}, "lf": []float64{1.5}, "lb": []byte("bytes"),
		"arr": [3]int{1, 2, 3}, "arr0": [0]string{}, "nl": nilSlice, "ll": [][]int{{1}, {}},
		"m": map[string]interface{}{"a": 1, "b": []interface{}{1}}, "ms": map[string]string{"k": "v"}, "mi": map[int]string{1: "one"}, "mif": map[interface{}]interface{}{1: "a", "1": "b"},
		// interface-keyed maps (what YAML decoders produce) whose keys are of several kinds: whatever order the runtime hands the
		// keys out in, ordering them compares two keys of different kinds (mifn: numeric kinds only, so no key order avoids it)
		"mifn": map[interface{}]interface{}{1: "a", 2.5: "b", uint(3): "c", int64(7): "d", float32(0.5): "e", int8(-1): "f", uint16(9): "g"},
		"mifm": map[interface{}]string{1: "a", "x": "b", 2.5: "c", true: "d", uint8(4): "e", "": "f", nil: "g", [2]int{1, 2}: "h", 'r': "i", zStringer{}: "j", int64(-9): "k", "10": "l", 10: "m"},
		"nm":   nilMap, "mm": map[string]map[string]int{"x": {"y": 1}},
		"st": zStruct{Name: "N", Tags: []string{"t"}}, "sp": &zStruct{Name: "P", Inner: &zInner{1.5}}, "np": nilPtr, "em": zEmbed{}, "emp": &zEmbed{zInner: &zInner{2}},
		"str": zStringer{}, "fn": func() string { return "f" }, "ch": ch, "t": time.Unix(0, 0).UTC(), "pp": new(*int),
		// long sequences (the membership test and the sort filters switch algorithm with the length), holding values
		// that cannot be hashed or compared
		"long": longList(60, nil), "longm": longList(60, map[string]interface{}{"id": 1}), "longl": longList(75, []interface{}{1, 2}), "longf": longList(52, func() {}),
		"longrec": longRecords(51), "longs": longStrings(64), "longany": longAny(60),
	}
}

func longList(n int, last interface{}) []interface{} {
	out := make([]interface{}, n)
	for i := range out {
		out[i] = i
	}
	if last != nil {
		out[n-1] = last
		out[n/2] = last
	}
	return out
}

func longRecords(n int) []interface{} {
	out := make([]interface{}, n)
	for i := range out {
		out[i] = map[string]interface{}{"id": i, "tags": []interface{}{"a", "b"}}
	}
	return out
}

func longStrings(n int) []string {
	out := make([]string, n)
	for i := range out {
		out[i] = fmt.Sprint("s", i)
	}
	return out
}

// longAny is a typed slice whose static element type is comparable (interface) and whose dynamic elements are not.
func longAny(n int) []fmt.Stringer {
	out := make([]fmt.Stringer, n)
	for i := range out {
		out[i] = zUnhashable{[]int{i}}
	}
	return out
}

type zUnhashable struct{ xs []int }

func (z zUnhashable) String() string { return fmt.Sprint(z.xs) }

var zooTemplates = []string{
	"{{ V }}", "{{ V|length }}", "{{ V|first }}", "{{ V|last }}", "{{ V|reverse }}", "{{ V|sort }}", "{{ V|keys }}", "{{ V|join(',') }}", "{{ V|slice(1) }}", "{{ V|slice(-1, 5) }}",
	"{{ V|merge([1]) }}", "{{ V|merge({'a': 1}) }}", "{{ V|default('d') }}", "{{ V|upper }}", "{{ V|lower }}", "{{ V|trim }}", "{{ V|capitalize }}", "{{ V|title }}", "{{ V|abs }}", "{{ V|round }}",
	"{{ V|round(2, 'ceil') }}", "{{ V|number_format(2) }}", "{{ V|escape }}", "{{ V|json_encode }}", "{{ V|date('Y-m-d') }}", "{{ V|split(',') }}", "{{ V|split('z-a') }}{{ V|split('a-') }}{{ V|split('^]') }}{{ V|split('[a') }}{{ V|split(V) }}{{ 'a-b'|split(V) }}", "{{ V|replace('a', 'b') }}", "{{ V|striptags }}", "{{ V|nl2br }}", "{{ V|url_encode }}",
	"{{ V|format(1) }}", "{{ V|spaceless }}", "{{ V|raw }}", "{{ V|count }}",
	"{% for x in V %}{{ x }}{{ loop.index }}{% else %}E{% endfor %}", "{% for k, x in V %}{{ k }}={{ x }}{% endfor %}",
	"{{ V.Name }}{{ V.name }}{{ V.Hello }}{{ V.PtrM }}{{ V.WithArg }}{{ V.Inner.V }}{{ V.V }}{{ V.priv }}{{ V.nosuch.deeper }}", "{{ V[0] }}{{ V['a'] }}{{ V[n] }}{{ V[-1] }}{{ V[99] }}{{ V[V] }}",
	"{{ V + 1 }}{{ V ~ 'x' }}{{ V == V }}{{ V < 2 }}", "{{ V * V }}", "{{ V / 1 }}", "{{ V % 2 }}", "{{ V ^ 2 }}", "{{ -V }}{{ not V }}", "{{ 1 in V }}{{ V in V }}{{ 'a' in V }}", "{{ 700 in V }}{{ 'x' not in V }}{{ [1] in V }}{{ {'id': 1} in V }}{{ V|first in V }}{{ V|last in V }}", "{{ V starts with 'h' }}{{ V ends with V }}", "{{ V matches '/h/' }}", "{{ 'abc' matches V }}{{ V matches V }}", "{{ 'abc' matches '/i' }}", "{{ 'abc' matches '/' }}{{ 'abc' matches '' }}", "{{ 'abc' matches '//' }}{{ 'abc' matches '//i' }}{{ 'abc' matches 'i' }}",
	"{{ 'abc' matches '/a' }}{{ 'abc' matches 'a/' }}{{ 'abc' matches '/a/x' }}{{ 'abc' matches '/a/ii' }}", "{{ 'abc' matches '/[/' }}", "{{ 'abc' matches '/(/i' }}", "{{ 'abc' matches '/\\\\/' }}{{ 'abc' matches '\\\\' }}", "{{ 'abc' matches '/a{99999}/' }}",
	"{% if V %}T{% else %}F{% endif %}", "{{ V is defined }}{{ V is empty }}{{ V is iterable }}{{ V is null }}", "{{ V is even }}", "{{ V is divisible_by(2) }}", "{{ V is same_as(V) }}",
	"{{ V ? 1 : 2 }}", "{{ max(V) }}{{ min(V) }}", "{{ max(V, 1) }}", "{{ range(V) }}", "{{ range(0, V) }}", "{{ length(V) }}", "{{ merge(V, V) }}", "{{ cycle(V, 1) }}", "{{ date(V) }}", "{{ dump(V)|length > 0 }}", "{{ json_encode(V) }}",
	"{% set q = V %}{{ q }}", "{% include 't2' with {'v': V} only %}", "{{ V|first|first }}", "{{ V|keys|first }}", "{{ V|reverse|join }}", "{{ {'k': V}|keys }}", "{{ [V, V]|length }}",
}

var reMacroDef = regexp.MustCompile(`macro\s+([A-Za-z_][A-Za-z0-9_]*)`)
var reEndMacroTag = regexp.MustCompile(`\{%-?\s*endmacro\s*-?%\}`)

// mayRecurse over-approximates "the template can re-enter itself": it names itself, or a macro body mentions
// _self or calls a macro defined in the same source.
func mayRecurse(src string) bool {
	if strings.Contains(src, "main") {
		return true
	}
	defs := reMacroDef.FindAllStringSubmatchIndex(src, -1)
	if len(defs) == 0 {
		return false
	}
	var names []string
	for _, d := range defs {
		names = append(names, src[d[2]:d[3]])
	}
	for _, d := range defs {
		body := src[d[1]:]
		if loc := reEndMacroTag.FindStringIndex(body); loc != nil { // only a well-formed tag ends the body
			body = body[:loc[0]]
		}
		if strings.Contains(body, "_self") {
			return true
		}
		for _, nme := range names {
			for rest := body; ; {
				k := strings.Index(rest, nme)
				if k < 0 {
					break
				}
				rest = rest[k+len(nme):]
				if t := strings.TrimLeft(rest, " \t\r\n"); strings.HasPrefix(t, "(") {
					return true
				}
			}
		}
	}
	return false
}

func runC05(e *Env) error {
	r := e.Rep
	rg := e.Rng
	r.Rule = "(a) template sources: every generator template mutated (byte flips, deletions, duplications, truncations, splices of tag fragments) and random tag soup, parsed and rendered under panic recovery and a 10 s watchdog, the engine reused afterwards; " +
		"(a7) size ladder 0 … 1 MiB (powers of two ± 1) × where the bytes are (one printed value, one text segment, built in the template, escaped, loops, joins, include / macro / apply / inheritance, many context keys) × render route (Engine.Render, Template.Render, RenderTo into a Write-only writer, bytes.Buffer, strings.Builder, the library Buffer, development mode), each large render repeated and followed by small renders on the same and on a fresh engine, outputs compared with the string computed in Go; " +
		"(b) context type zoo (≈ 45 Go value shapes incl. nil pointers, typed/untyped/nil maps and slices, arrays, structs with value/pointer methods, embedded nil pointers, funcs, chans) × ≈ 70 templates applying every built-in filter, function, test, operator, loop and access form; " +
		"(b2) every argument position of every built-in filter / function / test, right operand, index, slice bound and tag operand × literal and computed arguments (fractions below one, negative fractions, -0.0, overflowing floats, numeric strings, null, booleans, lists, maps, failing expressions) and context arguments (NaN, ±Inf, subnormals, every integer/float width, named types, pointers, the type zoo of (b)); " +
		"(c) compiled-template decoding of random, truncated and mutated bytes with allocation measured; non-trivial = a mutated/zoo case that parses or a decode input that starts like a valid container; distinct by input"
	report := func(key, what string, replay map[string]any) bool {
		return r.Violate(Violation{Key: key, What: what, Broken: "C05 (panic/hang freedom is not exhibited by the Lean model; theorems C05_* cover termination/totality of the model)", Replay: replay})
	}
	// (a) sources
	seedTemplates := []string{}
	for i := 0; i < 40; i++ {
		g := NewGen(rg)
		g.BaseCtx()
		seedTemplates = append(seedTemplates, (&TplStyle{Expr: Style{Rng: rg}}).nodes(g.Body(2, BodyOpts{Includes: []string{"t2"}})))
	}
	seedTemplates = append(seedTemplates,
		"{% extends 'base' %}{% block c %}{{ parent() }}{% endblock %}", "{% import 'lib' as l %}{{ l.m(1) }}", "{% from 'lib' import m as q %}{{ q() }}",
		"{% macro a(x, y = 1) %}{{ x }}{% endmacro %}{{ a(1) }}{{ _self.a(2) }}", "{% apply upper %}x{% endapply %}", "{% verbatim %}{{ x }}{% endverbatim %}", "{% spaceless %}<a> <b></b> </a>{% endspaceless %}",
		"{% do 1 + 2 %}{% do x = 3 %}", "{% include ['a', 'b'] %}", "{% block a %}x{% block a %}y{% endblock %}{% endblock %}", "{%extends \"%}", "{%include '%}", "{{-}}", "{%-%}", "{% for %}", "{% if %}", "{% set %}", "{% from 'a' import %}",
		// keywords in other letter cases next to letters whose case mapping changes the byte length (Ⱥ 2→3 bytes, İ 2→3, K 3→1, ẞ 3→2)
		"{% for ȺȺ in xs %}{{ ȺȺ }}{% endfor %}", "{% FOR Ⱥ IN xs %}x{% ENDFOR %}", "{% for \xff\xff\xff IN xs %}{% endfor %}", "{% from 'lib' IMPORT m AS İİ %}", "{% import 'lib' AS KK %}{{ KK.m(1) }}",
		"{% SET ẞ = 1 %}{{ ẞ }}",
		// inheritance chains of three and four levels where several levels call parent() in the same block
		"{% extends 'mid' %}{% block c %}C{{ parent() }}{% endblock %}", "{% extends 'mid2' %}{% block c %}D{{ parent() }}{% endblock %}{% block inner %}J{{ parent() }}{{ parent() }}{% endblock %}",
		"{% extends 'mid2' %}{% block c %}{% for i in [1, 2] %}{{ parent() }}{% endfor %}{% endblock %}", "{% extends 'mid' %}{% block inner %}{{ parent() }}{% block deeper %}{{ parent() }}{% endblock %}{% endblock %}", "{% for k, Ⱥ in user %}{{ k }}{% endfor %}", "{% If İ %}x{% EndIf %}", "{% from 'lib' import m as ȺȺȺȺȺȺȺȺ %}")
	frags := []string{"{{", "}}", "{%", "%}", "{#", "#}", "-", "{{-", "-%}", " in ", " with ", " as ", " import ", "=", "'", "\"", "\\", "|", "(", ")", "[", "]", "{", "}", ",", ".", ":", "?", "endif", "endfor", "else", "elseif", "endblock", "endmacro", "\x00", "\xff", "é", "  ", "Ⱥ", "İ", "K", "ẞ", " IN ", "FOR ", " AS ", "IMPORT ", "ȺȺȺ"}
	ctx := map[string]any{"n": 3, "s": "str", "xs": []interface{}{1, 2}, "user": map[string]interface{}{"name": "x"}, "t": true}
	libs := map[string]string{"t2": "{{ v }}", "base": "[{% block c %}b{% endblock %}]", "lib": "{% macro m(a) %}M{{ a }}{% endmacro %}",
		"mid": "{% extends 'base' %}{% block c %}M{{ parent() }}{% block inner %}i{% endblock %}{% endblock %}", "mid2": "{% extends 'mid' %}{% block c %}N{{ parent() }}{{ parent() }}{% endblock %}{% block inner %}I{{ parent() }}{% endblock %}"}
	n := e.N(6000, 400000)
	for i := 0; i < n && !r.Full(); i++ {
		var src string
		if i < len(seedTemplates) {
			src = seedTemplates[i] // every seed once as it is
		} else if i < 2*len(seedTemplates) {
			src = seedTemplates[i-len(seedTemplates)] + strings.Repeat(" ", 4100) // and once through the large-template tokenizer
		} else if i%10 == 0 {
			src = genRaw(rg, 60)
		} else {
			src = pick(rg, seedTemplates)
			for k := rg.Intn(4) + 1; k > 0 && len(src) > 0; k-- {
				p := rg.Intn(len(src))
				switch rg.Intn(6) {
				case 0:
					src = src[:p] + src[p+1:]
				case 1:
					src = src[:p] + pick(rg, frags) + src[p:]
				case 2:
					src = src[:p]
				case 3:
					q := rg.Intn(len(src))
					if p > q {
						p, q = q, p
					}
					src = src[:p] + src[q:]
				case 4:
					src = src[:p] + src[p:] + src[p:]
				default:
					b := []byte(src)
					b[p] ^= byte(1 << uint(rg.Intn(8)))
					src = string(b)
				}
			}
			if i%8 == 1 {
				src += strings.Repeat(" ", 4100) // the large-template tokenizer
			}
		}
		// "Recursion that the template itself writes without a terminating condition" is outside the guarantee and
		// would overflow the Go stack (fatal, not recoverable): such sources are parsed but not rendered.
		parseOnly := mayRecurse(src)
		if parseOnly {
			r.Hit("src-self-recursive-parse-only")
		}
		breadcrumb("src", map[string]any{"src": src, "src_hex": hx(src)})
		res := guarded(func() (string, error) {
			eng := twig.New()
			for _, nme := range sortedKeys(libs) {
				eng.RegisterString(nme, libs[nme])
			}
			if err := eng.RegisterString("main", src); err != nil {
				// parse error: the engine must still work
				if out, err2 := eng.Render("t2", map[string]interface{}{"v": "ok"}); err2 != nil || out != "ok" {
					return "", fmt.Errorf("ENGINE-UNUSABLE after parse error: %v %q", err2, out)
				}
				return "", fmt.Errorf("parsing error: %w", err)
			}
			if parseOnly {
				return "", nil
			}
			out, err := eng.Render("main", ctx)
			if out2, err2 := eng.Render("t2", map[string]interface{}{"v": "ok"}); err2 != nil || out2 != "ok" {
				return "", fmt.Errorf("ENGINE-UNUSABLE after render: %v %q", err2, out2)
			}
			return out, err
		})
		r.Seen("src:"+src, res.Class != "parse-error")
		r.Hit("src-class:" + res.Class)
		if res.Class == "panic" || res.Class == "timeout" || (res.Err != nil && strings.Contains(res.Err.Error(), "ENGINE-UNUSABLE")) {
			if report("panic-or-hang-source", fmt.Sprintf("template source %q: %s %s", truncate(src, 100), res.Class, truncate(res.Panic, 300)),
				map[string]any{"kind": "src", "src_hex": hx(src), "class": res.Class, "panic": res.Panic, "err": fmt.Sprint(res.Err)}) {
				return nil
			}
		}
		if i < 2 {
			r.Sample(map[string]any{"mutated_source": truncate(src, 200), "class": res.Class})
		}
	}
	// (a2) every tag with content of length ≤ 3 over {dash, space, letter, quote}, small and in a large template
	// (the large-template tokenizer is a separate code path chosen by source length)
	padding := strings.Repeat("<p>lorem ipsum dolor sit amet</p>\n", 130)
	for _, edge := range tagEdgeCorpus() {
		for _, src := range []string{edge, padding + edge + padding, padding + edge} {
			if r.Full() {
				return nil
			}
			res := guarded(func() (string, error) {
				eng := twig.New()
				if err := eng.RegisterString("main", src); err != nil {
					return "", fmt.Errorf("parsing error: %w", err)
				}
				return eng.Render("main", ctx)
			})
			r.Seen("edge:"+src, true)
			r.Hit("edge-class:" + res.Class)
			if res.Class == "panic" || res.Class == "timeout" {
				if report("panic-or-hang-source", fmt.Sprintf("template source %q (%d bytes): %s %s", truncate(edge, 100), len(src), res.Class, truncate(res.Panic, 300)),
					map[string]any{"kind": "src", "src_hex": hx(src), "class": res.Class, "panic": res.Panic, "err": fmt.Sprint(res.Err)}) {
					return nil
				}
			}
		}
	}
	// (a3) an engine whose loader supplies broken and failing templates stays usable: every call returns within the watchdog
	{
		boom := fmt.Errorf("loader exploded")
		src := map[string]string{"good": "good {{ v }}", "broken": "x{% if %}{{ ", "inc": "[{% include 'broken' %}]", "incm": "[{% include 'broken' ignore missing %}]", "ext": "{% extends 'broken' %}", "imp": "{% import 'broken' as b %}x",
			"frm": "{% from 'broken' import a %}x", "incboom": "{% include 'boom' %}", "unclosed": "{{ 1", "part": "P{{ v }}"}
		names := sortedKeys(src)
		for round := 0; round < 6 && !r.Full(); round++ {
			eng := twig.New()
			eng.RegisterLoader(&sentinelLoader{name: "boom", err: boom, src: src})
			if round%2 == 1 {
				eng.SetAutoReload(true)
			}
			if round%3 == 2 {
				eng.SetCache(false)
			}
			var log []string
			for step := 0; step < 30; step++ {
				name := pick(rg, append(names, "boom", "nosuch"))
				op := rg.Intn(4)
				log = append(log, fmt.Sprintf("%d:%s", op, name))
				breadcrumb("loader-engine", map[string]any{"ops": log, "templates": src})
				res := guardedTimeout(3*time.Second, func() (string, error) {
					switch op {
					case 0:
						_, err := eng.Load(name)
						return "", err
					case 1:
						return "", eng.RegisterString("reg"+name, src["part"])
					default:
						return eng.Render(name, map[string]interface{}{"v": 1})
					}
				})
				r.Seen(fmt.Sprintf("loader-engine:%d:%d", round, step), true)
				r.Hit("loader-engine-class:" + res.Class)
				if res.Class == "panic" || res.Class == "timeout" || (name == "good" && op >= 2 && res.Out != "good 1") {
					report("engine-unusable-after-failure", fmt.Sprintf("engine with a loader holding broken/failing templates: call %d (%s) after [%s]: %s %q %s", step, log[len(log)-1], strings.Join(log[:len(log)-1], " "), res.Class, res.Out, truncate(res.Panic, 200)),
						map[string]any{"kind": "loader-engine", "ops": log, "class": res.Class, "panic": res.Panic})
					return nil
				}
			}
		}
	}
	// (a4) a render that fails half-way (inside an include with variables, a macro call, a loop, a block) leaves the pooled
	// render contexts intact: the nested renders that follow need several contexts at once and must all come back
	{
		failing := []string{"{% include 't2' with {'a': 1, 'v': nosuchfn()} %}", "{% include 't2' with {'v': 1 / 0} only %}", "{% for i in [1, 2] %}{% include 't2' with {'v': xs[9]} %}{% endfor %}",
			"{% macro m(a) %}{% include 't2' with {'v': nosuchfn()} %}{% endmacro %}{{ m(1) }}", "{% extends 'base' %}{% block c %}{% include 't2' with {'v': 1|nosuchfilter} %}{% endblock %}",
			"{% import 'lib' as l %}{{ l.m(nosuchfn()) }}", "{% include 'nosuch' with {'v': 1} %}", "{% include 't2' with {'v': 1} sandboxed %}"}
		nestedLibs := map[string]string{"n1": "1({% include 'n2' with {'d': 2} %})", "n2": "2({% include 'n3' with {'e': 3} only %})", "n3": "3({% for i in [1, 2] %}{% include 't2' with {'v': i} %}{% endfor %})", "t2": "{{ v }}",
			"base": "[{% block c %}b{% endblock %}]", "lib": "{% macro m(a) %}M{{ a }}{% endmacro %}"}
		for round := 0; round < 40 && !r.Full(); round++ {
			f := failing[round%len(failing)]
			breadcrumb("after-failed-render", map[string]any{"failing": f, "then": "Render(n1) ×4", "templates": nestedLibs})
			res := guardedTimeout(5*time.Second, func() (string, error) {
				eng := twig.New()
				for _, n := range sortedKeys(nestedLibs) {
					eng.RegisterString(n, nestedLibs[n])
				}
				eng.RegisterString("f", f)
				for k := 0; k < 3; k++ {
					if out, err := eng.Render("f", ctx); err == nil {
						return "", fmt.Errorf("the failing template rendered %q", out)
					}
				}
				for k := 0; k < 4; k++ {
					out, err := eng.Render("n1", ctx)
					if err != nil || out != "1(2(3(12)))" {
						return "", fmt.Errorf("ENGINE-UNUSABLE: nested includes after the failed render give %q %v", out, err)
					}
				}
				return "ok", nil
			})
			r.Seen(fmt.Sprintf("after-failed-render:%d", round), true)
			r.Hit("after-failed-render:" + res.Class)
			if res.Class == "panic" || res.Class == "timeout" || (res.Err != nil && strings.Contains(res.Err.Error(), "ENGINE-UNUSABLE")) {
				report("engine-unusable-after-failure", fmt.Sprintf("after %q failed three times, rendering three nested includes: %s %v %s", f, res.Class, res.Err, truncate(res.Panic, 200)),
					map[string]any{"kind": "after-failed-render", "failing": f, "class": res.Class, "err": fmt.Sprint(res.Err), "panic": res.Panic})
				return nil
			}
		}
	}
	// (a5) one render with more distinct attribute names on one struct type than the attribute cache holds (eviction runs
	// inside the lookup), on a value, a pointer and a map
	for _, v := range []any{zStruct{Name: "N"}, &zStruct{Name: "P"}, map[string]interface{}{"Name": "M"}} {
		var sb strings.Builder
		sb.WriteString("{{ rec.Name }}")
		for i := 0; i < 1300; i++ {
			fmt.Fprintf(&sb, "{{ rec.zzAttr%d }}", i)
		}
		sb.WriteString("{{ rec.Name }}")
		src := sb.String()
		breadcrumb("many-attributes", map[string]any{"type": fmt.Sprintf("%T", v), "names": 1300})
		res := guardedTimeout(8*time.Second, func() (string, error) {
			eng := twig.New()
			if err := eng.RegisterString("main", src); err != nil {
				return "", err
			}
			out, err := eng.Render("main", map[string]interface{}{"rec": v})
			if err == nil {
				out2, err2 := eng.Render("main", map[string]interface{}{"rec": v})
				if err2 != nil || out2 != out {
					return "", fmt.Errorf("ENGINE-UNUSABLE: second render %q %v, first %q", truncate(out2, 40), err2, truncate(out, 40))
				}
			}
			return out, err
		})
		r.Seen(fmt.Sprintf("many-attributes:%T", v), true)
		if res.Class == "panic" || res.Class == "timeout" || (res.Err != nil && strings.Contains(res.Err.Error(), "ENGINE-UNUSABLE")) {
			report("panic-or-hang-value", fmt.Sprintf("a template reading 1300 distinct attribute names of a %T: %s %v %s", v, res.Class, res.Err, truncate(res.Panic, 200)),
				map[string]any{"kind": "many-attributes", "type": fmt.Sprintf("%T", v), "class": res.Class, "panic": res.Panic})
			return nil
		}
	}
	// (a6) integer arguments at the ends of the 64- and 32-bit ranges in every filter / function / test that takes a number
	{
		bigs := []string{"9223372036854775807", "(0 - 9223372036854775807)", "(0 - 9223372036854775807 - 1)", "4294967296", "2147483648", "(0 - 2147483649)", "1e308", "(0 - 1e308)", "0", "(0 - 1)"}
		forms := []string{"{{ 1.5|round(B) }}", "{{ 1234.5678|round(B, 'ceil') }}", "{{ B|round(2) }}", "{{ 2.5|number_format(B) }}", "{{ B|number_format(2) }}", "{{ 'abcdef'|slice(B) }}", "{{ 'abcdef'|slice(1, B) }}", "{{ 'abcdef'|slice(B, B) }}",
			"{{ [1, 2, 3]|slice(B, 2)|join }}", "{{ [1, 2, 3]|slice(0, B)|join }}", "{{ 'a,b,c'|split(',', B)|join('|') }}", "{{ cycle([1, 2, 3], B) }}", "{{ random(B) is defined }}", "{{ random(B, 5) is defined }}", "{{ random(1, B) is defined }}",
			"{{ random(B, B) is defined }}", "{{ range(B, 3)|length }}", "{{ range(1, 3, B)|length }}", "{{ range(B, B)|length }}", "{{ 'x%dy'|format(B) }}", "{{ B|abs }}", "{{ B is even }}{{ B is odd }}{{ B is divisible_by(3) }}{{ 7 is divisible_by(B) }}",
			"{{ B + B }}{{ B * B }}{{ B - B }}{{ B % 7 }}{{ 7 % B }}{{ B ^ 2 }}{{ 2 ^ B }}", "{{ B / 3 }}{{ 3 / B }}", "{{ [1, 2, 3][B] is defined }}", "{{ 'abc'[B] is defined }}", "{{ B|date('Y') is defined }}", "{{ date(B)|length > 0 }}",
			"{{ max(B, 1) }}{{ min(B, 1) }}", "{{ [3, 1, 2]|first(B) is defined }}", "{{ 'abc'|truncate(B) is defined }}", "{{ B|json_encode }}", "{{ B ~ '' }}{{ B|length }}{{ B in [B] }}", "{% for i in range(1, 3, B) %}x{% endfor %}", "{{ 'ab'|repeat(B) is defined }}"}
		// …and the subject varied too (a defect of the unchanged tree hid there: {{ 1|number_format(9223372036854775807) }}
		// panicked in makeslice while 2.5|number_format(…) did not; repaired in /repo 66bbb15)
		subjForms := []string{"{{ S|round(B) }}", "{{ S|round(B, 'ceil') }}{{ S|round(B, 'floor') }}", "{{ S|number_format(B) }}", "{{ S|number_format(B, ',', '.') }}", "{{ S|slice(B) is defined }}", "{{ S|slice(1, B) is defined }}",
			"{{ S|split(',', B) is defined }}", "{{ S|truncate(B) is defined }}", "{{ S|format(B) is defined }}", "{{ cycle(S, B) is defined }}", "{{ S is divisible_by(B) }}", "{{ S % B }}", "{{ S / B }}", "{{ S ^ B }}", "{{ S[B] is defined }}",
			"{{ S|first(B) is defined }}{{ S|last(B) is defined }}", "{{ S|batch(B) is defined }}", "{{ S|date(B) is defined }}", "{{ range(S, B)|length }}", "{{ max(S, B) }}{{ min(S, B) }}"}
		for _, f := range subjForms {
			for _, sj := range []string{"0", "1", "7", "(0 - 3)", "0.5", "2.5", "'12'", "'x'", "''", "null", "[1, 2, 3]", "{'a': 1}", "true"} {
				forms = append(forms, strings.ReplaceAll(f, "S", sj))
			}
		}
		for _, f := range forms {
			for _, bg := range bigs {
				src := strings.ReplaceAll(f, "B", bg)
				breadcrumb("src", map[string]any{"src": src})
				res := guardedTimeout(5*time.Second, func() (string, error) {
					eng := twig.New()
					if err := eng.RegisterString("main", src); err != nil {
						return "", fmt.Errorf("parsing error: %w", err)
					}
					return eng.Render("main", ctx)
				})
				r.Seen("extreme:"+src, res.Class != "parse-error")
				r.Hit("extreme-arg-class:" + res.Class)
				if res.Class == "panic" || res.Class == "timeout" {
					if report("panic-or-hang-source", fmt.Sprintf("template source %q: %s %s", src, res.Class, truncate(res.Panic, 300)), map[string]any{"kind": "src", "src_hex": hx(src), "class": res.Class, "panic": res.Panic}) {
						return nil
					}
				}
			}
		}
	}
	// (a7) sizes: large values / text segments / outputs through every render route, and the renders that follow (c05_sizes.go)
	if runC05Sizes(e, report) {
		return nil
	}
	// (b) zoo
	zoo := zooValues()
	names := sortedKeys(zoo)
	// two passes: the second one meets warm process-wide caches (attribute cache, interned strings) in another order
	pass2 := append([]string{}, names...)
	rg.Shuffle(len(pass2), func(i, j int) { pass2[i], pass2[j] = pass2[j], pass2[i] })
	for _, vn := range append(append([]string{}, names...), pass2...) {
		for _, tpl := range zooTemplates {
			if r.Full() {
				return nil
			}
			src := strings.ReplaceAll(tpl, "V", "V_"+vn)
			c := map[string]interface{}{"V_" + vn: zoo[vn], "n": nil}
			res := guarded(func() (string, error) {
				eng := twig.New()
				eng.RegisterString("t2", "{{ v }}")
				if err := eng.RegisterString("main", src); err != nil {
					return "", fmt.Errorf("parsing error: %w", err)
				}
				return eng.Render("main", c)
			})
			r.Seen("zoo:"+vn+":"+tpl, res.Class != "parse-error")
			r.Hit("zoo-class:" + res.Class)
			if res.Class == "panic" || res.Class == "timeout" {
				if report("panic-or-hang-value", fmt.Sprintf("%s with %s = %T: %s %s", src, "V_"+vn, zoo[vn], res.Class, truncate(res.Panic, 300)),
					map[string]any{"kind": "zoo", "template": src, "value": vn, "type": fmt.Sprintf("%T", zoo[vn]), "class": res.Class, "panic": res.Panic}) {
					return nil
				}
			}
		}
	}
	// (b2) the same value shapes, fractions, NaN/Inf and numeric strings in every ARGUMENT position (c05_args.go)
	if runC05Args(e, report) {
		return nil
	}
	// (c) compiled-template bytes
	good := func() []byte {
		eng := twig.New()
		eng.RegisterString("abcdefghijklmnopqrstuvwxyz0123456789", "hello {{ x }}")
		ct, err := eng.CompileTemplate("abcdefghijklmnopqrstuvwxyz0123456789")
		if err != nil {
			return nil
		}
		b, _ := twig.SerializeCompiledTemplate(ct)
		return b
	}()
	n = e.N(4000, 300000)
	for i := 0; i < n && !r.Full(); i++ {
		var data []byte
		switch rg.Intn(4) {
		case 0:
			data = make([]byte, rg.Intn(40))
			rg.Read(data)
		case 1:
			data = append([]byte{}, good[:rg.Intn(len(good)+1)]...)
		case 2:
			data = append([]byte{}, good...)
			for k := rg.Intn(3) + 1; k > 0; k-- {
				data[rg.Intn(len(data))] ^= byte(1 << uint(rg.Intn(8)))
			}
		default:
			// a length prefix at a boundary of 32-bit arithmetic in each of the three length fields
			edge := pick(rg, [][]byte{{0xff, 0xff, 0xff, 0xff}, {0xfe, 0xff, 0xff, 0xff}, {0xfb, 0xff, 0xff, 0xff}, {0xf0, 0xff, 0xff, 0xff}, {0, 0, 0, 0x80}, {0xff, 0xff, 0xff, 0x7f}, {1, 0, 0, 0}, {0, 0, 1, 0},
				{byte(rg.Intn(256)), byte(rg.Intn(256)), byte(rg.Intn(256)), byte(rg.Intn(256))}})
			switch rg.Intn(3) {
			case 0: // name length
				data = append([]byte{1}, edge...)
			case 1: // source length, after a short valid name
				data = append([]byte{1, 2, 0, 0, 0, 'a', 'b'}, edge...)
			default: // AST length, after name, source and the two timestamps
				data = append([]byte{1, 1, 0, 0, 0, 'n', 1, 0, 0, 0, 's', 1, 2, 3, 4, 5, 6, 7, 8, 8, 7, 6, 5, 4, 3, 2, 1}, edge...)
			}
			tail := make([]byte, rg.Intn(12))
			rg.Read(tail)
			data = append(data, tail...)
		}
		start := time.Now()
		res := guarded(func() (string, error) {
			ct, err := twig.DeserializeCompiledTemplate(data)
			if err != nil {
				return "", err
			}
			eng := twig.New()
			if err := eng.RegisterCompiledTemplate(ct); err != nil {
				return "", err
			}
			return "ok", nil
		})
		r.Seen("bin:"+string(data), len(data) > 0 && data[0] == 1)
		if res.Class == "panic" || res.Class == "timeout" || time.Since(start) > 3*time.Second {
			if report("panic-or-hang-decode", fmt.Sprintf("decoding %d bytes: %s after %v %s", len(data), res.Class, time.Since(start), truncate(res.Panic, 200)),
				map[string]any{"kind": "decode", "data_hex": hx(string(data)), "class": res.Class, "panic": res.Panic}) {
				return nil
			}
		}
	}
	return nil
}
