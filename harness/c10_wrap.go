package main

import (
	"fmt"
	"math/rand"
	"regexp"
	"strings"
)

// C10 — where in a block body parent() (or a nested block) stands.
//
// The property speaks about parent() "inside an overriding block" and about blocks "substituted where they stand":
// neither depends on the construct of the block body that directly holds the call. Every body-carrying construct of
// the template language is therefore a position for parent() and for a nested block: the branches of a condition,
// the body and the else branch of a loop, a spaceless section, an apply section, the branches of a conditional
// expression, a variable assigned from parent() — alone and inside one another. The expected output is computed in
// the harness from the meaning of the container alone (wrapOut below) and, independently, by the Lean pipeline model.

// containers that may hold any body
var wrapBodyKinds = []string{"if", "else", "elseif", "for", "forelse", "spaceless", "apply", "dead"}

// containers of a single parent() call (expression positions)
var wrapCallKinds = []string{"ternary", "ternary-else", "set"}

// wrapSrc is the template source of the container around the source of its body
func wrapSrc(kind, inner string) string {
	switch kind {
	case "if":
		return "{% if t %}" + inner + "{% endif %}"
	case "else":
		return "{% if not t %}NO{% else %}" + inner + "{% endif %}"
	case "elseif":
		return "{% if not t %}NO{% elseif t %}" + inner + "{% else %}NO2{% endif %}"
	case "for":
		return "{% for i in [1, 2] %}{{ i }}:" + inner + ";{% endfor %}"
	case "forelse":
		return "{% for i in [] %}NO{% else %}" + inner + "{% endfor %}"
	case "spaceless":
		return "{% spaceless %}<i> " + inner + " </i> <b>s</b>{% endspaceless %}"
	case "apply":
		return "{% apply upper %}u:" + inner + "{% endapply %}"
	case "dead":
		return "{% if not t %}" + inner + "{% endif %}"
	case "ternary":
		return "{{ t ? parent() : 'NO' }}"
	case "ternary-else":
		return "{{ not t ? 'NO' : parent() }}"
	case "set":
		return "{% set pv = parent() %}={{ pv }}"
	}
	panic("wrapSrc: " + kind)
}

// wrapSkipsBody: the body stands in a branch that is not taken
func wrapSkipsBody(kind string) bool { return kind == "dead" }

// wrapPasses: how many times the container renders its body
func wrapPasses(kind string) int {
	if kind == "for" {
		return 2
	}
	return 1
}

var betweenTags = regexp.MustCompile(`>\s+<`)

// wrapOut is the output of the container, given the output of each pass over its body (context: t = true)
func wrapOut(kind string, inner []string) string {
	switch kind {
	case "if", "else", "elseif", "forelse", "ternary", "ternary-else":
		return inner[0]
	case "for":
		return "1:" + inner[0] + ";2:" + inner[1] + ";"
	case "spaceless":
		return betweenTags.ReplaceAllString("<i> "+inner[0]+" </i> <b>s</b>", "><")
	case "apply":
		return strings.ToUpper("u:" + inner[0])
	case "set":
		return "=" + inner[0]
	}
	panic("wrapOut: " + kind)
}

// wrapIn puts the items into the containers of the stack (first = outermost)
func wrapIn(stack []string, items []bItem) []bItem {
	for i := len(stack) - 1; i >= 0; i-- {
		items = []bItem{{kind: "wrap", name: stack[i], body: items}}
	}
	return items
}

// randomWrap: one or two containers around the items; expression positions only around a lone parent() call
func randomWrap(rg *rand.Rand, items []bItem, allowDead bool) []bItem {
	kinds := append([]string{}, wrapBodyKinds...)
	if !allowDead {
		kinds = kinds[:len(kinds)-1]
	}
	var stack []string
	if rg.Intn(3) == 0 {
		stack = append(stack, pick(rg, kinds))
	}
	if len(items) == 1 && items[0].kind == "parent" && rg.Intn(4) == 0 {
		stack = append(stack, pick(rg, wrapCallKinds))
	} else {
		stack = append(stack, pick(rg, kinds))
	}
	return wrapIn(stack, items)
}

// wrapStacks: every stack of one container, and of two containers, in a fixed order
func wrapStacks(withCalls, withDead bool) [][]string {
	var body []string
	for _, k := range wrapBodyKinds {
		if k != "dead" || withDead {
			body = append(body, k)
		}
	}
	inner := append([]string{}, body...)
	if withCalls {
		inner = append(inner, wrapCallKinds...)
	}
	var out [][]string
	for _, k := range inner {
		out = append(out, []string{k})
	}
	for _, o := range body {
		for _, k := range inner {
			out = append(out, []string{o, k})
		}
	}
	return out
}

func txt(s string) bItem { return bItem{kind: "text", text: s} }

// wrapShapes: the chains of the deterministic sweep, for one stack of containers W.
// holdsCall: the stack may only hold a lone parent() call; skips: some container of the stack does not render its body.
func wrapShapes(stack []string) map[string]*chainCase {
	W := func(items ...bItem) []bItem { return wrapIn(stack, items) }
	P := bItem{kind: "parent"}
	cat := func(parts ...[]bItem) []bItem {
		var out []bItem
		for _, p := range parts {
			out = append(out, p...)
		}
		return out
	}
	one := func(it ...bItem) []bItem { return it }
	mk := func(layout []bItem, lv ...map[string][]bItem) *chainCase {
		cc := &chainCase{layout: layout}
		for i, defs := range lv {
			l := level{name: fmt.Sprintf("L%d", i), defs: defs}
			for _, b := range []string{"page", "wrap0", "main", "body", "item"} {
				if _, ok := defs[b]; ok {
					l.order = append(l.order, b)
				}
			}
			cc.levels = append(cc.levels, l)
		}
		cc.levels = append(cc.levels, level{name: fmt.Sprintf("L%d", len(lv)), defs: map[string][]bItem{}})
		return cc
	}
	baseMain := one(txt("^"), bItem{kind: "block", name: "main", body: one(txt("base-main"))}, txt("$"))
	callOnly, skips := false, false
	for _, k := range stack {
		for _, c := range wrapCallKinds {
			callOnly = callOnly || k == c
		}
		skips = skips || wrapSkipsBody(k)
	}
	shapes := map[string]*chainCase{
		// the override of a top-level block calls parent() only inside the containers
		"override": mk(baseMain, map[string][]bItem{"main": cat(one(txt("a(")), W(P), one(txt(")")))}),
		// … at two levels in a row
		"two-overrides": mk(baseMain,
			map[string][]bItem{"main": cat(one(txt("t0(")), W(P), one(txt(")")))},
			map[string][]bItem{"main": cat(one(txt("m1(")), W(P), one(txt(")")))}),
		// … in a definition that is itself reached through parent()
		"through-parent": mk(baseMain,
			map[string][]bItem{"main": one(txt("t0("), P, txt(")"))},
			map[string][]bItem{"main": W(P)}),
		// … in the override of a block that a middle template nests inside its own override (which calls parent() directly)
		"nested-in-override": mk(one(txt("<"), bItem{kind: "block", name: "page", body: one(txt("base-page"))}, txt(">")),
			map[string][]bItem{"body": cat(one(txt("c+")), W(P))},
			map[string][]bItem{"page": one(txt("M("), bItem{kind: "block", name: "body", body: one(txt("m-body"))}, txt("/"), P, txt(")"))}),
		// … in the override of a block nested in a wrapper block of the base whose override calls parent() directly
		"nested-in-base-wrapper": mk(one(txt("^"), bItem{kind: "block", name: "wrap0", body: one(txt("("), bItem{kind: "block", name: "main", body: one(txt("base-main"))}, txt(")"))}, txt("$")),
			map[string][]bItem{"main": cat(one(txt("x")), W(P), one(txt("y")))},
			map[string][]bItem{"wrap0": one(txt("W1<"), P, txt(">"))}),
	}
	if !callOnly && !skips {
		// a nested block inside the containers, in an override and in the base layout: substituted where it stands
		shapes["block-in-container"] = mk(baseMain,
			map[string][]bItem{"item": one(txt("o("), P, txt(")"))},
			map[string][]bItem{"main": cat(one(txt("m:")), W(bItem{kind: "block", name: "item", body: one(txt("i~1"))}), one(txt("/"), P))})
		shapes["layout-block-in-container"] = mk(cat(one(txt("^")), W(bItem{kind: "block", name: "main", body: one(txt("base-main"))}), one(txt("$"))),
			map[string][]bItem{"main": one(txt("a("), P, txt(")"))})
	}
	if !callOnly {
		// the containers hold more than the call
		shapes["override-with-text"] = mk(baseMain, map[string][]bItem{"main": W(txt("a("), P, txt(")"), bItem{kind: "var", name: "who"})})
	}
	return shapes
}
