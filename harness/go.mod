module verif/harness

go 1.24.1

require github.com/semihalev/twig v0.0.0

replace github.com/semihalev/twig => /repo
