package main

import "fmt"

// Families of the forced-overlap sweep (c02_overlap.go) for names written RELATIVE to the rendering template (added
// after seeded change C02-Q was missed).
//
// The first family of the sweep holds calls inside the loader for a name the loader HAS, written absolutely. A tag that
// names a template relatively ('./part' in 'pages/home') makes two look-ups: the name resolved against the directory of
// the rendering template ('pages/part'), and — when no loader has that — the name as written. So there is a second
// kind of call that sits inside the loaders: one whose look-up is going to MISS, with a fallback behind it. Whatever the
// engine concludes from such a miss (and keeps: a negative entry, a remembered resolution, a flag on the cached page)
// can be out of date when the look-up returns, because a registration of exactly that name may have completed
// meanwhile — which no sequential test can arrange and which the random workloads (every name known from the start)
// never do.
//
// Per tag that takes a template name (include, include … ignore missing, extends, import, from … import), from a
// sub-directory, from the top level ('./side' in 'top' resolves to 'side') and through '../': the render of the page is
// held inside the loader's Load of the RESOLVED name (before and after the store is asked; with "warm-changed" the
// store has got the resolved name in the meantime, so the held look-up is a hit), by every API route, one call or two.
// Meanwhile: the resolved name is registered (once, twice), the name as written is registered, the page is rendered by
// another call, the resolved name is loaded directly. Afterwards every page and the resolved name are used again, the
// resolved name is registered once more and the pages are rendered again. Expected values as for the whole sweep: the
// same calls one after another on twin engines, in every order that respects what had returned before what started.

type c02RelTag struct {
	name     string
	pages    []string // pages naming the target relatively; pages[0] is the one the calls are written for
	resolved string   // what the relative name resolves to (held inside the loader)
	written  string   // the name as written in pages[0] (the fallback)
	target   func(origin string, v int) string
}

func c02RelPart(origin string, v int) string { return fmt.Sprintf("%s-part v%d {{ who }}", origin, v) }
func c02RelLay(origin string, v int) string {
	return fmt.Sprintf("%s-lay v%d {{ who }} <{%% block b %%}b%d{%% endblock %%}>", origin, v, v)
}
func c02RelLib(origin string, v int) string {
	return fmt.Sprintf("{%% macro m(x) %%}(%s-lib v%d:{{ x }}){%% endmacro %%}", origin, v)
}

var c02RelTags = []c02RelTag{
	{"include", []string{"pages/home", "pages/sub/deep"}, "pages/part", "./part", c02RelPart},
	{"extends", []string{"pages/kid"}, "pages/lay", "./lay", c02RelLay},
	{"import", []string{"pages/imp"}, "pages/lib", "./lib", c02RelLib},
	{"from", []string{"pages/frm", "pages/sub/frm"}, "pages/mac", "./mac", c02RelLib},
	{"include-top-level", []string{"top"}, "side", "./side", c02RelPart},
	{"include-ignore-missing", []string{"pages/opt"}, "pages/none", "./none", c02RelPart},
}

// c02RelSources: version 1 of everything the loader's store holds. No resolved name is in it: each is found only
// under the name as written (except './none', which nobody has).
func c02RelSources() map[string]string {
	return map[string]string{
		"pages/home":     "home {{ who }} [{% include './part' %}]",
		"pages/sub/deep": "deep {{ who }} [{% include '../part' %}]",
		"./part":         c02RelPart("root", 1),
		"../part":        c02RelPart("up", 1),
		"pages/kid":      "{% extends './lay' %}{% block b %}kid {{ who }}{% endblock %}",
		"./lay":          c02RelLay("root", 1),
		"pages/imp":      "{% import './lib' as l %}imp {{ l.m(who) }}",
		"./lib":          c02RelLib("root", 1),
		"pages/frm":      "{% from './mac' import m %}frm {{ m(who) }}",
		"pages/sub/frm":  "{% from '../mac' import m %}subfrm {{ m(who) }}",
		"./mac":          c02RelLib("rootmac", 1),
		"../mac":         c02RelLib("upmac", 1),
		"top":            "top {{ who }} [{% include './side' %}]",
		"./side":         c02RelPart("dotside", 1),
		"pages/opt":      "opt {{ who }} [{% include './none' ignore missing %}]",
	}
}

func c02RelFamilies() []*c02OvFamily {
	var fams []*c02OvFamily
	for _, t := range c02RelTags {
		p, r, w := t.pages[0], t.resolved, t.written
		p2 := t.pages[len(t.pages)-1]
		reg := func(name, origin string, v int) c02OvCall {
			return c02OvCall{kind: "Register", name: name, src: t.target(origin, v)}
		}
		f := &c02OvFamily{name: "-relative-" + t.name, sources: c02RelSources, warm: t.pages, warmReachesLoader: true, gatedMissing: true,
			changedName: r, changedSrc: t.target("store", 2), gated: map[string]bool{r: true}}
		f.held = [][]c02OvCall{
			{{kind: "Render", name: p}},
			{{kind: "RenderTo", name: p}},
			{{kind: "Load", name: p}},
		}
		if p2 != p {
			f.held = append(f.held, []c02OvCall{{kind: "Render", name: p2}})
		}
		f.held = append(f.held,
			[]c02OvCall{{kind: "Render", name: p}, {kind: "Render", name: p}},
			[]c02OvCall{{kind: "Load", name: p}, {kind: "RenderTo", name: p2}})
		f.during = [][]c02OvCall{
			{reg(r, "reg", 3)},
			{reg(r, "reg", 3), {kind: "Render", name: p}},
			{{kind: "Render", name: p}},
			{reg(w, "regwritten", 3)},
			{{kind: "Load", name: r}},
			{reg(r, "reg", 3), {kind: "Load", name: r}},
			{{kind: "RenderTo", name: p}, reg(r, "reg", 3)},
			{reg(r, "reg", 3), reg(r, "reg", 4), {kind: "Render", name: p2}},
		}
		f.after = []c02OvCall{{kind: "Render", name: p}}
		if p2 != p {
			f.after = append(f.after, c02OvCall{kind: "Render", name: p2})
		}
		f.after = append(f.after,
			c02OvCall{kind: "Load", name: r},
			c02OvCall{kind: "Load", name: p},
			c02OvCall{kind: "RenderTo", name: p},
			reg(r, "late", 5),
			c02OvCall{kind: "Render", name: p},
			c02OvCall{kind: "Render", name: p2})
		fams = append(fams, f)
	}
	return fams
}
