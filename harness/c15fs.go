package main

import (
	"fmt"
	"os"
	"path/filepath"
	"strings"
	"time"

	"github.com/semihalev/twig"
)

// C15 with the library's OWN loaders (FileSystemLoader over several search paths, ArrayLoader, ChainLoader, loaders
// registered one after the other): the model-driven histories of c15.go use in-memory harness loaders, which never
// run this code. Oracle (implementation-only): after every operation on the files, an engine that has been alive
// since the start renders what an engine created just now over the same files renders —
//   engine A: cache off;  engine B: cache on, auto-reload on (files get a strictly increasing mtime).
// The operation generator never creates a file in an EARLIER search path while a later one holds the name (a
// loader may remember where it found a template; only then would "fresh" and "long-lived" legitimately differ).

type c15fsWorld struct {
	root  string
	paths []string
	clock int64
	mem   map[string]string
}

func (w *c15fsWorld) file(p int, name string) string { return filepath.Join(w.paths[p], name+".twig") }

func (w *c15fsWorld) holders(name string) []int {
	var hs []int
	for i := range w.paths {
		if _, err := os.Stat(w.file(i, name)); err == nil {
			hs = append(hs, i)
		}
	}
	return hs
}

func (w *c15fsWorld) write(p int, name, content string) error {
	w.clock += 2
	f := w.file(p, name)
	if err := os.WriteFile(f, []byte(content), 0o644); err != nil {
		return err
	}
	t := time.Unix(1_700_000_000+w.clock, 0)
	return os.Chtimes(f, t, t)
}

func (w *c15fsWorld) loaders(config int) []twig.Loader {
	switch config {
	case 0:
		return []twig.Loader{twig.NewFileSystemLoader(w.paths)}
	case 1:
		return []twig.Loader{twig.NewFileSystemLoader(w.paths[:1]), twig.NewFileSystemLoader(w.paths[1:])}
	default:
		return []twig.Loader{twig.NewChainLoader([]twig.Loader{twig.NewFileSystemLoader(w.paths[:2]), twig.NewFileSystemLoader(w.paths[2:])})}
	}
}

func (w *c15fsWorld) engine(config int, cache, reload bool) *twig.Engine {
	e := twig.New()
	for _, l := range w.loaders(config) {
		e.RegisterLoader(l)
	}
	e.SetCache(cache)
	e.SetAutoReload(reload)
	return e
}

func c15fsRender(e *twig.Engine, name string) string {
	res := guarded(func() (string, error) { return e.Render(name, map[string]interface{}{"x": "X"}) })
	if res.Class != "" {
		return "<" + res.Class + ">"
	}
	return res.Out
}

func c15OwnLoaders(e *Env) {
	r := e.Rep
	rounds := e.N(12, 300)
	for round := 0; round < rounds && !r.Full(); round++ {
		root, err := os.MkdirTemp("", "c15fs-")
		if err != nil {
			r.Skip("no temp dir: " + err.Error())
			return
		}
		w := &c15fsWorld{root: root, mem: map[string]string{}}
		for i := 0; i < 3; i++ {
			p := filepath.Join(root, fmt.Sprintf("p%d", i))
			os.Mkdir(p, 0o755)
			w.paths = append(w.paths, p)
		}
		config := round % 3
		// a ChainLoader has no timestamps: with it only the cache-less engine is comparable
		type eng struct {
			name string
			e    *twig.Engine
		}
		engines := []eng{{"cache-off", w.engine(config, false, false)}}
		if config != 2 {
			engines = append(engines, eng{"auto-reload", w.engine(config, true, true)})
		}
		names := []string{"a", "b", "c"}
		version := 0
		var log []string
		bad := false
		// before anything is loaded the files may appear in any order (so a shadowed copy can be OLDER or newer than
		// the copy in front of it); the engines above have not looked at any name yet
		for k := 0; k < 7; k++ {
			name, p := pick(e.Rng, names), e.Rng.Intn(len(w.paths))
			version++
			w.write(p, name, fmt.Sprintf("%s@p%d#%d[{{ x }}]", name, p, version))
			log = append(log, fmt.Sprintf("write p%d/%s v%d", p, name, version))
		}
		for step := 0; step < 40 && !bad; step++ {
			name := pick(e.Rng, names)
			hs := w.holders(name)
			switch k := e.Rng.Intn(10); {
			case k < 4: // write
				p := e.Rng.Intn(len(w.paths))
				if len(hs) > 0 && p < hs[0] {
					p = hs[0] // never in front of an existing copy
				}
				version++
				content := fmt.Sprintf("%s@p%d#%d[{{ x }}]", name, p, version)
				if name == "a" && e.Rng.Intn(3) == 0 {
					content += "{% include 'b' ignore missing %}"
				}
				if name == "c" && e.Rng.Intn(4) == 0 {
					content = "{% extends 'a' %}"
				}
				if err := w.write(p, name, content); err != nil {
					r.Skip("write failed")
					bad = true
				}
				log = append(log, fmt.Sprintf("write p%d/%s v%d", p, name, version))
			case k < 6 && len(hs) > 0: // remove one copy
				p := pick(e.Rng, hs)
				os.Remove(w.file(p, name))
				log = append(log, fmt.Sprintf("remove p%d/%s", p, name))
			default:
				log = append(log, "render "+name)
			}
			// after every operation every name is rendered everywhere
			for _, n := range names {
				want := c15fsRender(w.engine(config, true, false), n)
				for _, en := range engines {
					got := c15fsRender(en.e, n)
					r.Seen(fmt.Sprintf("fs:%d:%d:%s:%s", round, step, en.name, n), want != "<not-found>")
					r.Hit("own-loaders:" + en.name)
					if got != want {
						if r.Violate(Violation{Key: "own-loader-serves-other-source", What: fmt.Sprintf("loader setup %d, engine %s: Render(%q) gives %q, an engine created now over the same files gives %q, after [%s]", config, en.name, n, got, want, strings.Join(log, "; ")),
							Broken: "theorem C15_serves_expected (FileSystemLoader / ChainLoader are outside the model: implementation-only oracle against a fresh engine)",
							Replay: map[string]any{"kind": "fs-history", "config": config, "engine": en.name, "ops": log, "name": n, "got": got, "want": want}}) {
							os.RemoveAll(root)
							return
						}
						bad = true
					}
				}
			}
		}
		os.RemoveAll(root)
	}
}

// c15Compiled: the CompiledLoader as the source of templates. A build engine saves successive versions of "page"
// into the directory (with increasing file times); the serving engine — plain, after LoadCompiled, after LoadAll —
// must serve what the configuration calls for: the new version once auto-reload sees a newer file, the new version
// at once with the cache off, not-found once the file is gone.
func c15Compiled(e *Env) {
	r := e.Rep
	for _, preload := range []string{"none", "LoadCompiled", "LoadAll"} {
		for _, mode := range []string{"auto-reload", "cache-off", "auto-reload-then-cache-off"} {
			dir, err := os.MkdirTemp("", "c15cl-")
			if err != nil {
				return
			}
			res := guarded(func() (string, error) {
				build := twig.New()
				out := twig.NewCompiledLoader(dir)
				clock := int64(0)
				save := func(name, source string) error {
					if err := build.RegisterString(name, source); err != nil {
						return err
					}
					if err := out.SaveCompiled(build, name); err != nil {
						return err
					}
					clock += 600
					t := time.Unix(1_700_000_000+clock, 0)
					files, _ := filepath.Glob(filepath.Join(dir, name+"*"))
					for _, f := range files {
						os.Chtimes(f, t, t)
					}
					return nil
				}
				if err := save("page", "one {{ x }}"); err != nil {
					return "", err
				}
				if err := save("part", "P1"); err != nil {
					return "", err
				}
				eng := twig.New()
				if mode != "cache-off" {
					eng.SetAutoReload(true)
				} else {
					eng.SetCache(false)
				}
				loader := twig.NewCompiledLoader(dir)
				eng.RegisterLoader(loader)
				switch preload {
				case "LoadCompiled":
					if err := loader.LoadCompiled(eng, "page"); err != nil {
						return "", fmt.Errorf("LoadCompiled: %w", err)
					}
				case "LoadAll":
					if err := loader.LoadAll(eng); err != nil {
						return "", fmt.Errorf("LoadAll: %w", err)
					}
				}
				ctx := map[string]interface{}{"x": "!"}
				expect := func(step, want string) error {
					for k := 0; k < 2; k++ {
						got, err := eng.Render("page", ctx)
						if err != nil || got != want {
							return fmt.Errorf("SERVES-OTHER-SOURCE %s: Render(page) = %q, %v; want %q", step, got, err, want)
						}
					}
					return nil
				}
				if err := expect("first", "one !"); err != nil {
					return "", err
				}
				if err := save("page", "two {{ x }}{% include 'part' %}"); err != nil {
					return "", err
				}
				if err := expect("after a newer compiled file", "two !P1"); err != nil {
					return "", err
				}
				if mode == "auto-reload-then-cache-off" {
					eng.SetAutoReload(false)
					eng.SetCache(false)
				}
				if err := save("part", "P2"); err != nil {
					return "", err
				}
				if err := save("page", "three {{ x }}{% include 'part' %}"); err != nil {
					return "", err
				}
				if err := expect("after a third version", "three !P2"); err != nil {
					return "", err
				}
				files, _ := filepath.Glob(filepath.Join(dir, "page*"))
				for _, f := range files {
					os.Remove(f)
				}
				if got, err := eng.Render("page", ctx); err == nil {
					return "", fmt.Errorf("SERVES-OTHER-SOURCE after the compiled file was removed: Render(page) = %q", got)
				}
				return "ok", nil
			})
			os.RemoveAll(dir)
			r.Seen("compiled-loader:"+preload+":"+mode, true)
			r.Hit("compiled-loader-history")
			if res.Class == "panic" || res.Class == "timeout" || (res.Err != nil && strings.Contains(res.Err.Error(), "SERVES-OTHER-SOURCE")) {
				if r.Violate(Violation{Key: "own-loader-serves-other-source", What: fmt.Sprintf("CompiledLoader, preload %s, %s: %v %s", preload, mode, res.Err, res.Class),
					Broken: "theorem C15_serves_expected (CompiledLoader is outside the model; implementation-only oracle)", Replay: map[string]any{"kind": "compiled-loader-history", "preload": preload, "mode": mode, "err": fmt.Sprint(res.Err)}}) {
					return
				}
			} else if res.Err != nil {
				r.Skip("compiled-loader-history-setup:" + truncate(res.Err.Error(), 60))
			}
		}
	}
}
