package main

import (
	"fmt"
	"reflect"
	"strings"
	"sync"

	"github.com/semihalev/twig"
)

// Cold-start phases of the C02 stress (added after seeded changes C02-A and C02-B were missed by the
// steady-state workload): many goroutines released by one barrier perform the FIRST use of something.
//
//   (1) the first reads of attributes of a struct type nobody has looked up yet (attribute cache miss path);
//   (2) the first load of an uncached template that does not parse, directly and through include / extends /
//       import: every caller must get the syntax error, none a nil template or a panic;
//   (3) the first load of an uncached good template through a loader.

type c02ColdLoader struct{ src map[string]string }

func (l *c02ColdLoader) Load(name string) (string, error) {
	if s, ok := l.src[name]; ok {
		return s, nil
	}
	return "", fmt.Errorf("%w: %s", twig.ErrTemplateNotFound, name)
}
func (l *c02ColdLoader) Exists(name string) bool { _, ok := l.src[name]; return ok }

func c02Barrier(n int, f func(g int)) {
	var wg sync.WaitGroup
	start := make(chan struct{})
	for g := 0; g < n; g++ {
		wg.Add(1)
		go func(g int) {
			defer wg.Done()
			<-start
			f(g)
		}(g)
	}
	close(start)
	wg.Wait()
}

func c02ColdStart(seed int64, tier string, col *c02Collector) {
	rounds, gor := 60, 16
	if tier == "thorough" {
		rounds, gor = 1500, 32
	}
	// (1) cold attribute cache: a fresh struct type per round
	for r := 0; r < rounds && !col.failed(); r++ {
		fields := []reflect.StructField{}
		for i := 0; i < 4; i++ {
			fields = append(fields, reflect.StructField{Name: fmt.Sprintf("F%d_%d_%d", i, seed%1000, r), Type: reflect.TypeOf("")})
		}
		typ := reflect.StructOf(fields)
		val := reflect.New(typ).Elem()
		var tpl, want strings.Builder
		for i, f := range fields {
			val.Field(i).SetString(fmt.Sprintf("v%d", i))
			tpl.WriteString("{{ x." + f.Name + " }};")
			want.WriteString(fmt.Sprintf("v%d;", i))
		}
		eng := twig.New()
		if err := eng.RegisterString("t", tpl.String()); err != nil {
			continue
		}
		x := val.Interface()
		if r%2 == 1 {
			p := reflect.New(typ)
			p.Elem().Set(val)
			x = p.Interface()
		}
		c02Barrier(gor, func(g int) {
			defer func() {
				if p := recover(); p != nil {
					col.violate(c02Violation{Key: "cold-attribute-panic", What: fmt.Sprintf("first attribute lookups of a fresh struct type panic: %v", p), Replay: map[string]any{"kind": "cold-attr", "round": r}})
				}
			}()
			out, err := eng.Render("t", map[string]interface{}{"x": x})
			col.seen(fmt.Sprintf("cold-attr|%d|%d", r, g))
			if err != nil || out != want.String() {
				col.violate(c02Violation{Key: "cold-attribute-wrong", What: fmt.Sprintf("concurrent first reads of x.Field on a fresh struct type: got %q (%v), serial result %q", out, err, want.String()),
					Replay: map[string]any{"kind": "cold-attr", "round": r, "goroutine": g, "got": out, "want": want.String(), "template": tpl.String()}})
			}
		})
	}
	col.hit("cold-attribute-rounds")
	// (2)+(3) cold loads through a loader
	for r := 0; r < rounds/2 && !col.failed(); r++ {
		src := map[string]string{
			"broken": "a{% if x %}never closed",
			"inc":    "[{% include 'broken' %}]",
			"ext":    "{% extends 'broken' %}{% block b %}x{% endblock %}",
			"imp":    "{% import 'broken' as m %}ok",
			"good":   "good {{ g }}{% include 'part' %}",
			"part":   "<{{ g }}>",
		}
		eng := twig.New()
		eng.RegisterLoader(&c02ColdLoader{src: src})
		names := []string{"broken", "inc", "ext", "imp", "good"}
		c02Barrier(gor, func(g int) {
			name := names[(g+r)%len(names)]
			defer func() {
				if p := recover(); p != nil {
					col.violate(c02Violation{Key: "cold-load-panic", What: fmt.Sprintf("concurrent first Render(%q) of an uncached template panics: %v", name, p), Replay: map[string]any{"kind": "cold-load", "name": name, "round": r}})
				}
			}()
			out, err := eng.Render(name, map[string]interface{}{"g": g})
			col.seen(fmt.Sprintf("cold-load|%s|%d|%d", name, r, g))
			if name == "good" {
				want := fmt.Sprintf("good %d<%d>", g, g)
				if err != nil || out != want {
					col.violate(c02Violation{Key: "cold-load-wrong", What: fmt.Sprintf("concurrent first Render(good): got %q (%v), serial result %q", out, err, want), Replay: map[string]any{"kind": "cold-load", "name": name, "got": out, "want": want}})
				}
			} else if err == nil || out != "" {
				col.violate(c02Violation{Key: "cold-load-error-lost", What: fmt.Sprintf("concurrent first Render(%q) of a template that does not parse returned %q with error %v; run alone it returns the syntax error", name, out, err),
					Replay: map[string]any{"kind": "cold-load", "name": name, "got": out, "err": fmt.Sprint(err), "round": r, "goroutine": g}})
			}
		})
	}
	col.hit("cold-load-rounds")
}
