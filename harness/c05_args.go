package main

import (
	"fmt"
	"math"
	"strings"
	"time"

	"github.com/semihalev/twig"
)

// C05 (b2) — the ARGUMENT positions.
//
// The type zoo of (b) puts every value shape in the subject position (`V|filter`, `V is test`, `V op 1`) and (a6) puts
// integers at the ends of the machine ranges in the argument positions. What neither reaches is a value of any other
// shape as the *argument* of a filter, a function, a test, or as the right-hand operand / index / tag operand: a
// fraction that truncates to zero, a negative fraction, NaN and the infinities, a numeric string, a boolean, nil, a
// list or a map where a number or a string is expected. Every built-in converts its arguments on its own (toInt,
// toFloat64, toString, reflection), so each argument position is a separate place for a conversion to produce a value
// the code after it does not expect (a zero divisor, a zero step, a negative length, an invalid reflect.Value).
//
// The oracle is the property itself: every call returns output or an error within the watchdog, and the engine
// renders another template afterwards.

// argMark is the argument placeholder of the forms below.
const argMark = "@"

// argForms: every built-in that takes an argument, with the placeholder in each of its argument positions (alone and
// in all positions at once), on a string, a list, a number and a map as subject; the binary operators with the
// placeholder on the right; index, slice and tag operands.
var argForms = []string{
	// tests
	"{{ 10 is divisible_by(@) }}", "{{ 7.5 is divisible_by(@) }}", "{{ '12' is divisible_by(@) }}", "{{ @ is divisible_by(@) }}", "{{ 0 is divisible_by(@) }}", "{{ 10 is not divisible_by(@) }}",
	"{% if 10 is divisible_by(@) %}y{% else %}n{% endif %}", "{{ 10 is divisible_by(@) ? 'y' : 'n' }}", "{% for i in [1, 2, 3] %}{{ i is divisible_by(@) }}{% endfor %}",
	"{{ 10 is same_as(@) }}{{ [1] is same_as(@) }}{{ @ is same_as(@) }}", "{{ 10 is sameas(@) }}{{ 'a' is equalto(@) }}{{ @ is equalto(@) }}", "{{ 'abc' is starts_with(@) }}{{ 'abc' is ends_with(@) }}{{ 'abc' is matches(@) }}",
	"{{ 1 is constant(@) }}", "{{ 1 is even(@) }}{{ 1 is odd(@) }}{{ x is defined(@) }}{{ 1 is empty(@) }}{{ 1 is null(@) }}{{ 1 is none(@) }}{{ 1 is iterable(@) }}",
	// filters on a string
	"{{ 'abcdef'|slice(@) }}", "{{ 'abcdef'|slice(1, @) }}", "{{ 'abcdef'|slice(@, @) }}", "{{ 'a,b,c'|split(@)|join('|') }}", "{{ 'a,b,c'|split(',', @)|join('|') }}", "{{ 'a,b,c'|split('', @)|join('|') }}", "{{ 'a,b,c'|split(@, @)|length }}",
	"{{ 'abc'|replace(@) }}", "{{ 'abc'|replace(@, 'x') }}", "{{ 'abc'|replace('a', @) }}", "{{ 'abc'|replace({'a': @}) }}", "{{ 'a%sb%dc'|format(@) }}", "{{ 'a%sb%dc%.2f'|format(@, @, @) }}", "{{ '%5d|%-5s|%05.1f|%x|%c|%%'|format(@, @, @, @, @) }}",
	"{{ ' abc '|trim(@) }}", "{{ ' abc '|trim(@, 'left') }}", "{{ ' abc '|trim(' ', @) }}", "{{ '<b>abc</b>'|striptags(@) }}", "{{ 'abc'|escape(@) }}{{ 'abc'|e(@) }}", "{{ 'a b'|url_encode(@) }}", "{{ 'abc'|upper(@) }}{{ 'abc'|lower(@) }}{{ 'abc'|capitalize(@) }}{{ 'abc'|title(@) }}",
	"{{ 'abc'|default(@) }}{{ ''|default(@) }}{{ nosuch|default(@) }}", "{{ 'abc'|length(@) }}{{ 'abc'|count(@) }}", "{{ \"a\\nb\"|nl2br(@) }}{{ 'a  b'|spaceless(@) }}{{ 'abc'|raw(@) }}", "{{ 'abc'|first(@) }}{{ 'abc'|last(@) }}{{ 'abc'|reverse(@) }}",
	"{{ '2020-01-02'|date(@) }}", "{{ '2020-01-02'|date('Y-m-d', @) }}", "{{ '2020-01-02'|date(@, @) }}", "{{ 'now'|date(@) is defined }}", "{{ 86400|date('Y', @) }}",
	// filters on a list and a map
	"{{ [3, 1, 2]|join(@) }}", "{{ [3, 1, 2]|join(', ', @) }}", "{{ [3, 1, 2]|slice(@)|join }}", "{{ [3, 1, 2]|slice(0, @)|join }}", "{{ [3, 1, 2]|slice(@, @)|join }}", "{{ [3, 1, 2]|slice(1, 1, @)|join }}", "{{ {'a': 1, 'b': 2}|slice(@, @)|length }}",
	"{{ [3, 1, 2]|merge(@)|length }}", "{{ {'a': 1}|merge(@)|length }}", "{{ [3, 1, 2]|first(@) }}{{ [3, 1, 2]|last(@) }}", "{{ [3, 1, 2]|sort(@)|join }}{{ [3, 1, 2]|reverse(@)|join }}", "{{ {'a': 1}|keys(@)|join }}{{ [3, 1, 2]|length(@) }}",
	"{{ [3, 1, 2]|json_encode(@) }}{{ {'a': [1]}|json_encode(@) }}", "{{ [3, 1, 2]|default(@)|length }}{{ []|default(@) }}", "{{ [@, @]|join(@) }}{{ [@, 1]|sort|length }}{{ [1, @]|reverse|length }}", "{{ {'k': @}|keys|join }}{{ {'k': @}|merge({'k': @})|length }}",
	// filters on a number
	"{{ 1234.5678|round(@) }}", "{{ 1234.5678|round(1, @) }}", "{{ 1234.5678|round(@, 'floor') }}{{ 1234.5678|round(@, 'ceil') }}", "{{ 1234.5678|round(@, @) }}", "{{ 1234.5678|number_format(@) }}", "{{ 1234.5678|number_format(2, @) }}",
	"{{ 1234.5678|number_format(2, '.', @) }}", "{{ 1234.5678|number_format(@, @, @) }}", "{{ 7|abs(@) }}", "{{ 7|format(@) }}", "{{ 7|default(@) }}{{ 0|default(@) }}",
	// functions
	"{{ range(@)|length }}", "{{ range(0, @)|length }}", "{{ range(@, 3)|length }}", "{{ range(0, 3, @)|length }}", "{{ range(3, 0, @)|length }}", "{{ range(@, @, @)|length }}", "{{ range('a', 'e', @)|length }}", "{{ range('a', @)|length }}",
	"{% for i in range(0, 3, @) %}{{ i }}{% endfor %}", "{% for i in range(0, @) %}{{ loop.index }}{% endfor %}", "{{ random(@) is defined }}", "{{ random(1, @) is defined }}", "{{ random(@, 5) is defined }}", "{{ random(@, @) is defined }}", "{{ random([1, 2], @) is defined }}",
	"{{ max(@, 1) }}{{ max(1, @) }}{{ max(@) }}{{ max(@, @) }}{{ max([@, 1]) }}", "{{ min(@, 1) }}{{ min(1, @) }}{{ min(@) }}{{ min(@, @) }}{{ min([@, 1]) }}", "{{ cycle([1, 2, 3], @) }}", "{{ cycle(@, 1) }}", "{{ cycle(@, @) }}", "{{ cycle([], @) }}", "{{ cycle({'a': 1}, @) }}",
	"{{ date(@) is defined }}", "{{ date('2020-01-02', @) is defined }}", "{{ date(@, @) is defined }}", "{{ dump(@)|length > 0 }}{{ dump(@, @)|length > 0 }}{{ dump()|length > 0 }}", "{{ json_encode(@) }}{{ json_encode(@, @) }}", "{{ length(@) }}{{ length(@, @) }}",
	"{{ merge(@, [1])|length }}{{ merge([1], @)|length }}{{ merge({'a': 1}, @)|length }}", "{{ constant(@) }}{{ constant(@, @) }}", "{{ include(@) }}", "{{ include('t2', @) }}", "{{ include('t2', {'v': @}) }}", "{{ include('t2', {'v': 1}, @) }}", "{{ include('nosuch', {}, false, @) }}", "{{ parent(@) }}",
	// operators, indexes, slices
	"{{ 7 % @ }}", "{{ 7.5 % @ }}", "{{ '7' % @ }}", "{{ @ % @ }}", "{{ 7 / @ }}", "{{ 7.5 / @ }}", "{{ @ / @ }}", "{{ 7 // @ }}", "{{ 2 ^ @ }}{{ 2 ** @ }}", "{{ 0 ^ @ }}{{ @ ^ @ }}", "{{ 7 * @ }}{{ 7 + @ }}{{ 7 - @ }}{{ 'a' ~ @ }}", "{{ 7 < @ }}{{ 7 >= @ }}{{ 7 == @ }}{{ 7 != @ }}{{ 7 <=> @ }}",
	"{{ 'abc' starts with @ }}{{ 'abc' ends with @ }}", "{{ 'abc' matches @ }}", "{{ 1 in @ }}{{ 'a' in @ }}{{ @ in @ }}{{ @ in [@] }}{{ @ not in [1, 'a', 0.5] }}", "{{ @ in 'abc' }}{{ @ in {'a': 1} }}{{ @ in 1..3 }}", "{{ 1..@ }}{{ @..3 }}{{ 'a'..@ }}",
	"{{ 7 b-and @ }}{{ 7 b-or @ }}{{ 7 b-xor @ }}", "{{ 7 and @ }}{{ 7 or @ }}{{ not @ }}{{ -@ }}{{ +@ }}", "{{ nosuch ?? @ }}{{ @ ?? 1 }}{{ @ ?: 1 }}{{ @ ? @ : @ }}",
	"{{ [1, 2, 3][@] }}", "{{ 'abc'[@] }}", "{{ {'a': 1, '1': 2, '0.5': 3}[@] }}", "{{ [1, 2, 3][@] is defined }}{{ {'a': 1}[@] is defined }}{{ {'a': 1}[@]|default('d') }}", "{{ [1, 2, 3][@:]|length }}{{ [1, 2, 3][:@]|length }}{{ [1, 2, 3][@:@]|length }}", "{{ 'abcdef'[@:] }}{{ 'abcdef'[:@] }}{{ 'abcdef'[@:@] }}",
	"{{ attribute([1, 2, 3], @) }}{{ attribute({'a': 1}, @) }}{{ attribute(@, 'a') }}", "{{ {(@): 1}|length }}",
	// tag operands
	"{% set x = @ %}{{ x is divisible_by(x) }}{{ 7 % x }}{{ [1, 2, 3]|slice(x)|length }}", "{% include @ %}", "{% include @ ignore missing %}", "{% include ['nosuch', @] ignore missing %}", "{% include 't2' with @ %}", "{% include 't2' with {'v': @} only %}",
	"{% for i in @ %}{{ i is divisible_by(i) }}{% endfor %}", "{% for i in [@, @] %}{{ 7 is divisible_by(i) }}{{ 7 % i }}{% endfor %}", "{% if @ %}a{% elseif @ is divisible_by(@) %}b{% endif %}", "{% apply slice(@) %}abcdef{% endapply %}", "{% apply round(@) %}12.345{% endapply %}",
	"{% macro m(a, b = @) %}{{ a is divisible_by(b) }}{{ a % b }}{% endmacro %}{{ m(7) }}{{ m(7, @) }}{{ m(@) }}", "{% import 'lib' as l %}{{ l.m(@) }}{{ l.d(@, @) }}", "{% do 7 % @ %}{% do 7 is divisible_by(@) %}",
}

// argLiterals: arguments written in the template (a literal or a computed expression; division always yields a float).
var argLiterals = []string{
	"0.5", "-0.25", "(0 - 0.25)", "1 / 4", "(0 - 1) / 3", "0.999999", "-0.999999", "0.0000001", "1e-9", "0.0", "-0.0", "0 / 5", "1.5", "-1.5", "2.5", "1 / 3 * 3", "0.1 + 0.2", "7 / 7", "1e308 * 10", "(0 - 1e308) * 10", "1e308 * 10 - 1e308 * 10",
	"9007199254740993", "4294967296.5", "'0.5'", "'-0.25'", "'0'", "'0.0'", "'-0'", "' 1'", "'1 '", "'1e3'", "'0x10'", "'1_000'", "'NaN'", "'Inf'", "'-Inf'", "'+1'", "''", "' '", "'abc'", "'%'", "'%s%d'", "'Y-m-d'", "'t2'", "'é'", "\"\\x00\"",
	"null", "true", "false", "[]", "{}", "[0.5]", "[0]", "[[]]", "[null]", "{'a': 0.5}", "{'0': 0}", "nosuchvar", "nosuchvar.attr", "nosuchfn()", "1|nosuchfilter", "[1, 2][5]", "(1, 2)", "1 == 1", "not 0.5", "-(0.5)", "'a' ~ 0.5", "[1, 2]|first / 4", "0.5|round", "0.5|abs", "max(0.25, 0.5)", "'0.5'|trim",
}

// argValues: arguments taken from the context: the whole type zoo of (b) and the numbers, numeric strings and
// containers around the conversions (truncation to zero, sign, NaN/Inf, widths other than int and float64).
func argValues() map[string]any {
	type myInt int
	type myFloat float64
	type myString string
	half, zero := 0.5, 0
	out := map[string]any{
		"fr": 0.5, "nfr": -0.25, "fr32": float32(0.5), "nfr32": float32(-0.75), "frbig": 0.9999999999999999, "tiny": math.SmallestNonzeroFloat64, "ntiny": -math.SmallestNonzeroFloat64, "negz": math.Copysign(0, -1),
		"nan": math.NaN(), "inf": math.Inf(1), "ninf": math.Inf(-1), "nan32": float32(math.NaN()), "fmax": math.MaxFloat64, "f2p63": math.Ldexp(1, 63), "nf2p63": -math.Ldexp(1, 63), "f2p64": math.Ldexp(1, 64), "f15": 1.5, "nf15": -1.5,
		"i0_8": int8(0), "i0_16": int16(0), "i0_32": int32(0), "i0_64": int64(0), "u0_16": uint16(0), "u0_32": uint32(0), "u0_64": uint64(0), "m1": -1, "m1_64": int64(-1), "m1_8": int8(-1), "imin": math.MinInt64, "imin64": int64(math.MinInt64), "imax": math.MaxInt64,
		"i32min": int32(math.MinInt32), "u64max": uint64(math.MaxUint64), "u32max": uint32(math.MaxUint32), "uptr": uintptr(0), "c128": complex(0.5, 0), "rune0": rune(0),
		"myi0": myInt(0), "myf": myFloat(0.5), "mys": myString("0.5"), "pfr": &half, "pz": &zero, "bf": false,
		"sfr": "0.5", "snfr": "-0.25", "s0": "0", "s00": "0.0", "sm0": "-0", "sp1": "+1", "sws": " 7 ", "se": "1e-3", "shex": "0x0", "snan": "NaN", "sinf": "Inf", "sbig": "99999999999999999999", "spct": "%!d(MISSING)%s%v%[3]d%*d",
		"lfr": []interface{}{0.5, -0.25}, "lff": []float64{0.5, math.NaN()}, "l0": []interface{}{}, "li0": []int{0}, "mfr": map[string]interface{}{"a": 0.5, "v": 0.5}, "m0": map[string]interface{}{}, "mfk": map[float64]string{0.5: "half"},
		"dur": time.Duration(0), "month": time.January, "wd": time.Sunday,
	}
	for k, v := range zooValues() {
		if strings.HasPrefix(k, "long") {
			continue // the long sequences are about algorithm switches by length, subject position only
		}
		out["z_"+k] = v
	}
	return out
}

// numberLike: the context arguments every form gets in the quick tier (the conversions to a number are where a value
// that is "not zero" becomes zero); the rest of the zoo is rotated through the forms.
func numberLike(v any) bool {
	switch v.(type) {
	case float64, float32, int, int8, int16, int32, int64, uint, uint8, uint16, uint32, uint64, bool, string, nil:
		return true
	}
	return false
}

func runC05Args(e *Env, report func(key, what string, replay map[string]any) bool) (stop bool) {
	r := e.Rep
	rg := e.Rng
	libs := map[string]string{"t2": "{{ v }}", "lib": "{% macro m(a) %}M{{ a }}{% endmacro %}{% macro d(a, b = 0.5) %}{{ a is divisible_by(b) }}{{ a % b }}{{ 'abc'|slice(a, b) }}{% endmacro %}", "base": "[{% block c %}b{% endblock %}]"}
	vals := argValues()
	names := sortedKeys(vals)
	type arg struct {
		expr string
		ctx  map[string]interface{}
		key  string // canonical name of the argument
		desc string
	}
	run := func(form string, a arg) bool {
		src := strings.ReplaceAll(form, argMark, a.expr)
		breadcrumb("arg", map[string]any{"src": src, "arg": a.desc})
		res := guardedTimeout(5*time.Second, func() (string, error) {
			eng := twig.New()
			for _, n := range sortedKeys(libs) {
				eng.RegisterString(n, libs[n])
			}
			if err := eng.RegisterString("page", src); err != nil {
				return "", fmt.Errorf("parsing error: %w", err)
			}
			out, err := eng.Render("page", a.ctx)
			if out2, err2 := eng.Render("t2", map[string]interface{}{"v": "ok"}); err2 != nil || out2 != "ok" {
				return "", fmt.Errorf("ENGINE-UNUSABLE after render: %v %q", err2, out2)
			}
			return out, err
		})
		r.Seen("arg:"+form+":"+a.key, res.Class != "parse-error")
		r.Hit("arg-class:" + res.Class)
		if res.Class == "panic" || res.Class == "timeout" || (res.Err != nil && strings.Contains(res.Err.Error(), "ENGINE-UNUSABLE")) {
			replay := map[string]any{"kind": "src", "src_hex": hx(src), "form": form, "argument": a.desc, "class": res.Class, "panic": res.Panic, "err": fmt.Sprint(res.Err)}
			key := "panic-or-hang-argument-literal"
			if a.ctx != nil {
				key = "panic-or-hang-argument-value"
				replay["kind"], replay["template"] = "arg-zoo", src
			}
			return report(key, fmt.Sprintf("%s with argument %s: %s %v %s", src, a.desc, res.Class, res.Err, truncate(res.Panic, 300)), replay)
		}
		return false
	}
	// every form × every literal argument
	for _, form := range argForms {
		for _, lit := range argLiterals {
			if r.Full() || run(form, arg{expr: lit, key: lit, desc: lit}) {
				return true
			}
		}
	}
	// every form × every number-like context argument; the other shapes rotate (quick) or are all taken (thorough)
	rest := e.N(6, 1<<20)
	for _, form := range argForms {
		others := 0
		off := rg.Intn(len(names))
		for k := range names {
			vn := names[(k+off)%len(names)]
			v := vals[vn]
			if !numberLike(v) {
				if others >= rest {
					continue
				}
				others++
			}
			a := arg{expr: "A_" + vn, key: "A_" + vn, ctx: map[string]interface{}{"A_" + vn: v, "n": nil}, desc: fmt.Sprintf("%s = %T(%v)", "A_"+vn, v, truncate(fmt.Sprint(v), 40))}
			if r.Full() || run(form, a) {
				return true
			}
		}
	}
	return false
}
