package main

import (
	"encoding/json"
	"errors"
	"fmt"
	"io"
	"math/rand"
	"os"
	"sort"
	"strings"
	"time"

	"github.com/semihalev/twig"
)

// The endurance dimension of C01: "however often that template has already been rendered and whatever other templates
// were … rendered or failed to render earlier". The histories of c01.go are at most 40 (200) operations long and their
// grammar knows one way of failing at render time (a call of an unknown function in a print tag); state that a render
// leaves behind in small amounts — a counter on the engine that one exit of one tag forgets to count down, a list that
// grows by one entry per failure, a budget that is used up — shows only after the same kind of render has happened a few
// hundred times. Here one operation (a "load") is repeated N times on an engine of its own and a fixed set of probe
// templates (one per tag: include plain / with / only / ignore missing, three levels deep, extends + parent(), import,
// from, for, set, apply, spaceless, and three renders that must fail) is rendered at geometrically spaced check points
// in between. The loads are every expression site of every tag × four ways of failing there (a user function that
// returns an error, a division by zero, an unknown function, a user filter that returns an error), every exit of the
// include / extends / import / from / macro tags that does not need a failing expression (missing template, sandboxed
// include without a policy, a failure inside the included / parent / macro body, at every nesting depth), the engine
// API's own failures (Render and Load of a missing name, RegisterString and ParseTemplate of a broken source, RenderTo
// into a writer that fails after k bytes) and — for exits that only a success takes — every probe itself.
//
// Expected values (none of them from the engine under load):
//   - the probes' outputs are written down below as literals (direct computation), and
//   - a twin engine, built the same way at the same time, that never sees the load, and
//   - the load's own first result: the k-th repetition must return what the first did (and what the twin returns).
//
// One more engine takes all loads in turn (round robin, so that several small leaks add up), one is created before
// everything and only probed at the very end (process-wide state), and a seeded part interleaves two to four random
// loads in random proportions. A finding is narrowed to the smallest number of repetitions by bisection, every
// candidate on a fresh engine. Implementation-only: the model has no include arguments, sandbox or user functions.

type c01SoakLoad struct {
	Name   string         `json:"name"`
	How    string         `json:"how"` // render | renderto | render-missing | load-missing | register-bad | parse-bad | reregister
	Src    string         `json:"source"`
	Entry  string         `json:"entry"` // template rendered (render / renderto); "load" = Src
	Ctx    map[string]any `json:"ctx"`
	Limit  int            `json:"writer_limit"` // renderto: the writer fails once this many bytes were written
	Policy bool           `json:"policy"`       // the engine has a security policy (sandbox switched off)
}

type c01SoakRes struct {
	Ok  bool   `json:"ok"`
	Out string `json:"out"`
	Err string `json:"err"`
}

func (a c01SoakRes) same(b c01SoakRes) bool { return a == b }

var c01SoakCommon = map[string]string{
	"row":     "<{{ label }}:{{ ratio }}>",
	"leaf":    "({{ a }})",
	"mid":     "m{% include 'leaf' %}{% include 'leaf' with {a: 'w'} %}",
	"top":     "t{% include 'mid' %}{% include 'leaf' with {a: 'o'} only %}{% include 'gone' ignore missing %}",
	"base":    "[{% block c %}base-{{ a }}{% endblock %}|{% block d %}D{% endblock %}]",
	"child":   "{% extends 'base' %}{% block c %}child+{{ parent() }}{% endblock %}",
	"lib":     "{% macro tag(x) %}<{{ x }}>{% endmacro %}{% macro bad(x) %}{{ boom() }}{% endmacro %}",
	"mac":     "{% import 'lib' as l %}{% from 'lib' import tag %}{{ l.tag(a) }}{{ tag(1) }}",
	"loop":    "{% for i in xs %}{{ loop.index }}{{ i }}{% include 'leaf' %}{% endfor %}{% set s = a ~ '!' %}{{ s|upper }}{% apply upper %}x{{ a }}{% endapply %}{% spaceless %}<b> </b>{% endspaceless %}",
	"bad":     "{{ boom() }}",
	"badinc":  "before{% include 'bad' %}after",
	"badinc2": "2{% include 'badinc' with {q: 1} %}",
	"badinc3": "3{% include 'badinc2' %}",
	"badbase": "[{% block c %}{{ boom() }}{% endblock %}]",
}

type c01SoakProbe struct {
	Name string
	Want c01SoakRes // Err: a substring of the message ("" = succeeds)
}

// what the probes return, written down by hand
var c01SoakProbes = []c01SoakProbe{
	{"row", c01SoakRes{Ok: true, Out: "<y:2>"}},
	{"leaf", c01SoakRes{Ok: true, Out: "(v)"}},
	{"mid", c01SoakRes{Ok: true, Out: "m(v)(w)"}},
	{"top", c01SoakRes{Ok: true, Out: "tm(v)(w)(o)"}},
	{"base", c01SoakRes{Ok: true, Out: "[base-v|D]"}},
	{"child", c01SoakRes{Ok: true, Out: "[child+base-v|D]"}},
	{"mac", c01SoakRes{Ok: true, Out: "<v><1>"}},
	{"loop", c01SoakRes{Ok: true, Out: "1p(v)2q(v)V!XV<b></b>"}},
	{"bad", c01SoakRes{Err: "boom"}},
	{"badinc3", c01SoakRes{Err: "boom"}},
	{"gone", c01SoakRes{Err: "not found"}},
}

func c01SoakCtx() map[string]any {
	return map[string]any{"a": "v", "xs": []interface{}{"p", "q"}, "label": "y", "ratio": 2, "z": 0}
}

var c01SoakFails = []string{"boom()", "1 / z", "nosuch()", "a|boomf"}

// %F = the failing expression
var c01SoakSites = [][2]string{
	{"print", "{{ %F }}"},
	{"print-after-output", "text{{ a }}{{ %F }}tail"},
	{"if-condition", "{% if %F %}a{% else %}b{% endif %}"},
	{"elseif-condition", "{% if not a %}a{% elseif %F %}b{% endif %}"},
	{"if-body", "{% if a %}x{{ %F }}{% endif %}"},
	{"for-sequence", "{% for i in %F %}x{% endfor %}"},
	{"for-body-second-iteration", "{% for i in xs %}{{ i }}{% if loop.index == 2 %}{{ %F }}{% endif %}{% endfor %}"},
	{"nested-for-body", "{% for i in xs %}{% for j in xs %}{% if loop.last %}{{ %F }}{% endif %}{% endfor %}{% endfor %}"},
	{"set-value", "{% set v = %F %}{{ v }}"},
	{"do", "{% do %F %}"},
	{"include-name", "{% include %F %}"},
	{"include-name-concat", "{% include 'le' ~ %F %}"},
	{"include-with-argument", "{% include 'row' with {label: a, ratio: %F} %}"},
	{"include-with-first-argument", "{% include 'row' with {label: %F, ratio: 1} %}"},
	{"include-with-only-argument", "{% include 'row' with {label: %F} only %}"},
	{"include-with-argument-ignore-missing", "{% include 'row' ignore missing with {label: %F} %}"},
	{"include-with-argument-nested", "{% include 'mid' %}{% include 'row' with {label: [1, {k: %F}]} %}"},
	{"include-with-argument-in-loop", "{% for i in xs %}{% include 'leaf' %}{% include 'row' with {label: i, ratio: %F} %}{% endfor %}"},
	{"include-then-fail", "{% include 'mid' %}{{ %F }}"},
	{"extends-block-body", "{% extends 'base' %}{% block c %}{{ %F }}{% endblock %}"},
	{"extends-after-parent", "{% extends 'base' %}{% block d %}{{ parent() }}{{ %F }}{% endblock %}"},
	{"extends-name", "{% extends %F %}"},
	{"block-body", "{% block c %}x{{ %F }}{% endblock %}"},
	{"block-with-include-argument", "{% extends 'base' %}{% block c %}{% include 'row' with {label: %F} %}{% endblock %}"},
	{"macro-argument", "{% import 'lib' as l %}{{ l.tag(%F) }}"},
	{"macro-own-body", "{% macro m(x) %}{{ %F }}{% endmacro %}{{ _self.m(1) }}"},
	{"macro-body-include-argument", "{% macro m(x) %}{% include 'row' with {label: %F} %}{% endmacro %}{{ _self.m(1) }}"},
	{"filter-argument", "{{ a|default(%F) }}"},
	{"filter-chain", "{{ (%F)|upper|length }}"},
	{"apply-body", "{% apply upper %}x{{ %F }}{% endapply %}"},
	{"spaceless-body", "{% spaceless %}<b> {{ %F }}</b>{% endspaceless %}"},
	{"ternary-branch", "{{ a ? %F : 1 }}"},
	{"binary-operand", "{{ 1 + (%F) }}"},
	{"array-element", "{{ [1, %F]|length }}"},
	{"hash-value", "{{ {k: %F}|length }}"},
	{"subscript-base", "{{ [%F][0] }}"},
	{"subscript-index", "{{ xs[%F] }}"},
	{"function-argument", "{{ max(1, %F) }}"},
	{"test-operand", "{{ (%F) is defined ? 1 : 2 }}"},
}

// exits that need no failing expression
var c01SoakPlain = [][2]string{
	{"include-sandboxed-without-policy", "{% include 'row' sandboxed %}"},
	{"include-with-sandboxed-without-policy", "{% include 'row' with {label: 1} sandboxed %}"},
	{"include-only-sandboxed-without-policy", "x{% include 'row' only sandboxed %}"},
	{"include-sandboxed-without-policy-nested", "{% include 'mid' %}{% for i in xs %}{% include 'sbx' %}{% endfor %}"},
	{"include-with-argument-inside-include", "{% include 'mid' %}{% include 'withfail' %}"},
	{"include-missing", "{% include 'gone' %}"},
	{"include-missing-with", "{% include 'gone' with {a: 1} %}"},
	{"include-missing-only", "{% include 'gone' only %}"},
	{"include-inner-fails", "{% include 'bad' %}"},
	{"include-with-inner-fails", "{% include 'bad' with {a: 1} %}"},
	{"include-only-inner-fails", "{% include 'bad' only %}"},
	{"include-deep-inner-fails", "{% include 'badinc3' %}"},
	{"include-in-loop-inner-fails", "{% for i in xs %}{% include 'leaf' %}{% if loop.last %}{% include 'badinc' %}{% endif %}{% endfor %}"},
	{"extends-missing", "{% extends 'gone' %}"},
	{"extends-failing-parent", "{% extends 'badbase' %}"},
	{"extends-failing-parent-via-parent()", "{% extends 'badbase' %}{% block c %}{{ parent() }}{% endblock %}"},
	{"import-missing", "{% import 'gone' as g %}{{ g.x() }}"},
	{"from-missing", "{% from 'gone' import tag %}{{ tag(1) }}"},
	{"from-missing-macro", "{% from 'lib' import nosuchmacro %}{{ nosuchmacro(1) }}"},
	{"import-missing-macro", "{% import 'lib' as l %}{{ l.nosuchmacro(1) }}"},
	{"macro-body-fails", "{% import 'lib' as l %}{{ l.tag(1) }}{{ l.bad(1) }}"},
	{"unknown-filter", "{{ a|nosuchfilter }}"},
	{"unknown-test", "{{ a is nosuchtest }}"},
}

func c01SoakLoads() []c01SoakLoad {
	var out []c01SoakLoad
	for _, s := range c01SoakSites {
		for _, f := range c01SoakFails {
			out = append(out, c01SoakLoad{Name: s[0] + ":" + f, How: "render", Src: strings.ReplaceAll(s[1], "%F", f), Entry: "load", Ctx: c01SoakCtx()})
		}
	}
	for _, s := range c01SoakPlain {
		out = append(out, c01SoakLoad{Name: s[0], How: "render", Src: s[1], Entry: "load", Ctx: c01SoakCtx()})
	}
	// the same exits on an engine that has a policy: the sandboxed include succeeds or is refused inside
	for _, s := range c01SoakPlain[:4] {
		out = append(out, c01SoakLoad{Name: s[0] + ":policy", How: "render", Src: s[1], Entry: "load", Ctx: c01SoakCtx(), Policy: true})
	}
	out = append(out, c01SoakLoad{Name: "include-sandboxed-refused-inside", How: "render", Src: "{% include 'bad' sandboxed %}", Entry: "load", Ctx: c01SoakCtx(), Policy: true},
		c01SoakLoad{Name: "include-with-argument:policy", How: "render", Src: "{% include 'row' with {label: boom()} sandboxed %}", Entry: "load", Ctx: c01SoakCtx(), Policy: true})
	// a context that lacks what the template needs
	out = append(out, c01SoakLoad{Name: "include-with-argument:empty-context", How: "render", Src: "{% include 'row' with {ratio: 10 / z} %}", Entry: "load", Ctx: map[string]any{"z": 0}},
		c01SoakLoad{Name: "include-with-argument:nil-context", How: "render", Src: "{% include 'row' with {ratio: 10 % z} %}", Entry: "load", Ctx: nil})
	// the engine API's own failures
	out = append(out,
		c01SoakLoad{Name: "render-missing-name", How: "render-missing"},
		c01SoakLoad{Name: "load-missing-name", How: "load-missing"},
		c01SoakLoad{Name: "register-syntax-error", How: "register-bad", Src: "{% include 'row' with {label: %}{% if a %}x"},
		c01SoakLoad{Name: "parse-syntax-error", How: "parse-bad", Src: "{% for i in xs %}{% include 'row' %}{{ a"},
		c01SoakLoad{Name: "register-again", How: "reregister", Src: "{% include 'row' with {label: a, ratio: 1} %}", Entry: "load", Ctx: c01SoakCtx()})
	// a writer that fails in the middle of every probe that writes
	for _, p := range c01SoakProbes {
		if !p.Want.Ok {
			continue
		}
		seen := map[int]bool{}
		for _, lim := range []int{0, 1, len(p.Want.Out) / 2, len(p.Want.Out) - 1} {
			if seen[lim] {
				continue
			}
			seen[lim] = true
			out = append(out, c01SoakLoad{Name: fmt.Sprintf("writer-fails:%s@%d", p.Name, lim), How: "renderto", Entry: p.Name, Ctx: c01SoakCtx(), Limit: lim})
		}
	}
	// and every probe itself, as often (exits that only a successful render takes)
	for _, p := range c01SoakProbes {
		out = append(out, c01SoakLoad{Name: "probe:" + p.Name, How: "render", Entry: p.Name, Ctx: c01SoakCtx()})
	}
	return out
}

type c01SoakWriter struct {
	left int
	sb   strings.Builder
}

var errC01SoakWriter = errors.New("c01 soak writer is full")

func (w *c01SoakWriter) Write(p []byte) (int, error) {
	if len(p) > w.left {
		n := w.left
		w.sb.Write(p[:n])
		w.left = 0
		return n, errC01SoakWriter
	}
	w.left -= len(p)
	w.sb.Write(p)
	return len(p), nil
}

var _ io.Writer = (*c01SoakWriter)(nil)

// c01SoakEngine builds an engine with the common templates, the user function and filter that fail, and the loads'
// templates under the given names.
func c01SoakEngine(policy bool, loads map[string]string) (*twig.Engine, error) {
	e := twig.New()
	e.AddFunction("boom", func(args ...interface{}) (interface{}, error) {
		return nil, errors.New("boom: the user function failed")
	})
	e.AddFilter("boomf", func(v interface{}, args ...interface{}) (interface{}, error) {
		return nil, errors.New("boomf: the user filter failed")
	})
	if policy {
		e.EnableSandbox(twig.NewDefaultSecurityPolicy())
		e.DisableSandbox() // the policy stays, only {% include … sandboxed %} uses it
	}
	all := map[string]string{"withfail": "w{% include 'row' with {label: 1 / z} %}", "sbx": "s{% include 'row' sandboxed %}"}
	for k, v := range c01SoakCommon {
		all[k] = v
	}
	for k, v := range loads {
		if v != "" {
			all[k] = v
		}
	}
	for _, n := range sortedKeys(all) {
		if err := e.RegisterString(n, all[n]); err != nil {
			return nil, fmt.Errorf("c01 soak: template %s (%q) does not parse: %w", n, all[n], err)
		}
	}
	return e, nil
}

func c01SoakResult(out string, err error) c01SoakRes {
	if err != nil {
		return c01SoakRes{Err: err.Error()}
	}
	return c01SoakRes{Ok: true, Out: out}
}

// c01SoakDo performs the load once; name = the name its template is registered under.
func c01SoakDo(e *twig.Engine, l c01SoakLoad, name string) c01SoakRes {
	entry := l.Entry
	if entry == "load" {
		entry = name
	}
	switch l.How {
	case "render":
		return c01SoakResult(e.Render(entry, l.Ctx))
	case "renderto":
		w := &c01SoakWriter{left: l.Limit}
		err := e.RenderTo(w, entry, l.Ctx)
		return c01SoakResult(w.sb.String(), err)
	case "render-missing":
		return c01SoakResult(e.Render("no-such-template", c01SoakCtx()))
	case "load-missing":
		_, err := e.Load("no-such-template")
		return c01SoakResult("", err)
	case "register-bad":
		return c01SoakResult("", e.RegisterString("broken", l.Src))
	case "parse-bad":
		_, err := e.ParseTemplate(l.Src)
		return c01SoakResult("", err)
	case "reregister":
		if err := e.RegisterString(name, l.Src); err != nil {
			return c01SoakResult("", err)
		}
		return c01SoakResult(e.Render(name, l.Ctx))
	}
	panic("c01 soak: bad load " + l.How)
}

type c01SoakFinding struct {
	Key, What string
	Reps      int
	Probe     string
	Got       c01SoakRes
	Want      any
}

// c01SoakProbeAll renders every probe on e and compares with the literals and with the twin. reps = how many loads
// the engine has seen (for the message).
func c01SoakProbeAll(e, twin *twig.Engine, reps int, who string) *c01SoakFinding {
	for _, p := range c01SoakProbes {
		got := c01SoakResult(e.Render(p.Name, c01SoakCtx()))
		okLit := got.Ok == p.Want.Ok && (got.Ok && got.Out == p.Want.Out || !got.Ok && strings.Contains(got.Err, p.Want.Err))
		if !okLit {
			return &c01SoakFinding{Key: "c01-soak:render-differs-after-repetitions", Reps: reps, Probe: p.Name, Got: got, Want: map[string]any{"computed_directly": p.Want},
				What: fmt.Sprintf("Render(%q) on %s differs from the directly computed result", p.Name, who)}
		}
		if twin != nil {
			tw := c01SoakResult(twin.Render(p.Name, c01SoakCtx()))
			if !got.same(tw) {
				return &c01SoakFinding{Key: "c01-soak:render-differs-after-repetitions", Reps: reps, Probe: p.Name, Got: got, Want: map[string]any{"twin_engine_without_the_load": tw},
					What: fmt.Sprintf("Render(%q) on %s differs from the same Render on an engine built the same way that never saw them", p.Name, who)}
			}
		}
	}
	return nil
}

func c01SoakCheckpoint(k int) bool { // 1 2 3 5 9 17 33 65 129 257 …
	return k <= 2 || (k-1)&(k-2) == 0
}

// c01SoakOne: n repetitions of one load on an engine of its own. checkpoints: also probe at every check point (false =
// only after the last repetition, for the bisection).
func c01SoakOne(l c01SoakLoad, n int, checkpoints bool) (*c01SoakFinding, c01SoakRes, error) {
	var loads map[string]string
	if l.Entry == "load" {
		loads = map[string]string{"load": l.Src}
	}
	e, err := c01SoakEngine(l.Policy, loads)
	if err != nil {
		return nil, c01SoakRes{}, err
	}
	twin, err := c01SoakEngine(l.Policy, loads)
	if err != nil {
		return nil, c01SoakRes{}, err
	}
	who := fmt.Sprintf("an engine that performed the operation %q", l.Name)
	if f := c01SoakProbeAll(e, twin, 0, who+" 0 times"); f != nil {
		return f, c01SoakRes{}, nil
	}
	var first c01SoakRes
	for k := 1; k <= n; k++ {
		got := c01SoakDo(e, l, "load")
		if k == 1 {
			first = got
			if tw := c01SoakDo(twin, l, "load"); !got.same(tw) { // the twin performs it once: two engines, same first answer
				return &c01SoakFinding{Key: "c01-soak:operation-not-repeatable", Reps: 1, Got: got, Want: map[string]any{"twin_engine": tw},
					What: fmt.Sprintf("the operation %q gives different results on two engines built the same way", l.Name)}, first, nil
			}
		} else if !got.same(first) {
			return &c01SoakFinding{Key: "c01-soak:operation-not-repeatable", Reps: k, Got: got, Want: map[string]any{"first_time": first},
				What: fmt.Sprintf("the operation %q repeated on one engine stops returning what it returned the first time", l.Name)}, first, nil
		}
		if k == n || checkpoints && c01SoakCheckpoint(k) {
			if f := c01SoakProbeAll(e, twin, k, fmt.Sprintf("%s %d times", who, k)); f != nil {
				return f, first, nil
			}
		}
	}
	return nil, first, nil
}

// c01SoakNarrow finds the smallest number of repetitions (≤ f.Reps) that still gives a finding of the same key.
func c01SoakNarrow(l c01SoakLoad, f *c01SoakFinding) *c01SoakFinding {
	lo, hi, best := 0, f.Reps, f // lo repetitions: fine; hi: finding
	for hi-lo > 1 {
		mid := (lo + hi) / 2
		g, _, err := c01SoakOne(l, mid, false)
		if err == nil && g != nil && g.Key == f.Key {
			hi, best = g.Reps, g
			if g.Reps > mid { // cannot happen; stay safe
				break
			}
		} else {
			lo = mid
		}
	}
	return best
}

func c01SoakTemplates(l c01SoakLoad) map[string]string {
	m := map[string]string{"withfail": "w{% include 'row' with {label: 1 / z} %}", "sbx": "s{% include 'row' sandboxed %}"}
	for k, v := range c01SoakCommon {
		m[k] = v
	}
	if l.Src != "" && l.Entry == "load" {
		m["load"] = l.Src
	}
	return m
}

func c01SoakViolate(e *Env, l *c01SoakLoad, f *c01SoakFinding, extra map[string]any) bool {
	rep := map[string]any{"kind": "c01-soak", "repetitions": f.Reps, "probe": f.Probe, "probe_context": c01SoakCtx(), "got": f.Got, "want": f.Want,
		"engine": "twig.New() + AddFunction(boom → error) + AddFilter(boomf → error); with policy: EnableSandbox(NewDefaultSecurityPolicy()); DisableSandbox()", "seed": e.Seed}
	if l != nil {
		rep["operation"] = l
		rep["templates"] = c01SoakTemplates(*l)
	}
	for k, v := range extra {
		rep[k] = v
	}
	return e.Rep.Violate(Violation{Key: f.Key, What: f.What,
		Broken: "theorem C01_history_independence no longer describes the code (implementation-only oracle: a render's result does not depend on how many renders succeeded or failed before it)",
		Replay: rep})
}

// c01Soak is the entry point; only = "" or the name of the one load to run (replay).
func c01Soak(e *Env, only string) error {
	r := e.Rep
	n := e.N(1100, 10000)
	loads := c01SoakLoads()
	var harnessErr error
	start := time.Now()
	// created before everything, probed after everything
	bystander, err := c01SoakEngine(false, nil)
	if err != nil {
		return err
	}
	res := guardedTimeout(120*time.Second, func() (string, error) {
		// 1. every load on an engine of its own
		for i := range loads {
			l := loads[i]
			if only != "" && l.Name != only {
				continue
			}
			f, first, err := c01SoakOne(l, n, true)
			if err != nil {
				harnessErr = err
				return "", nil
			}
			r.Seen("soak:"+l.Name, true)
			if first.Ok {
				r.Hit("soak-load:succeeds")
			} else {
				r.Hit("soak-load:fails")
			}
			if f != nil {
				f = c01SoakNarrow(l, f)
				if c01SoakViolate(e, &l, f, nil) {
					return "", nil
				}
			}
		}
		if only != "" {
			return "", nil
		}
		// 2. one engine takes all of them in turn
		for _, policy := range []bool{false, true} {
			tpls := map[string]string{}
			for i, l := range loads {
				if l.Entry == "load" {
					tpls[fmt.Sprintf("load%03d", i)] = l.Src
				}
			}
			eng, err := c01SoakEngine(policy, tpls)
			if err != nil {
				harnessErr = err
				return "", nil
			}
			twin, err := c01SoakEngine(policy, tpls)
			if err != nil {
				harnessErr = err
				return "", nil
			}
			firsts := make([]c01SoakRes, len(loads))
			rounds := e.N(3, 12)
			total := 0
		mixed:
			for round := 0; round < rounds; round++ {
				for i, l := range loads {
					if l.Policy && !policy {
						continue
					}
					got := c01SoakDo(eng, l, fmt.Sprintf("load%03d", i))
					total++
					if round == 0 {
						firsts[i] = got
					} else if !got.same(firsts[i]) {
						f := &c01SoakFinding{Key: "c01-soak:operation-not-repeatable", Reps: total, Got: got, Want: map[string]any{"first_time": firsts[i]},
							What: fmt.Sprintf("the operation %q stops returning what it returned the first time on an engine that performs all soak operations in turn", l.Name)}
						if c01SoakViolate(e, &l, f, map[string]any{"mixed_engine": true, "round": round, "operations": c01SoakNames(loads, policy)}) {
							return "", nil
						}
						break mixed
					}
				}
				if f := c01SoakProbeAll(eng, twin, total, fmt.Sprintf("an engine that performed all %d soak operations in turn, %d rounds", len(loads), round+1)); f != nil {
					if c01SoakViolate(e, nil, f, map[string]any{"mixed_engine": true, "round": round, "policy": policy, "operations": c01SoakNames(loads, policy)}) {
						return "", nil
					}
					break mixed
				}
			}
			r.Hit("soak-mixed-engine")
		}
		// 3. seeded: two to four loads interleaved in random proportions
		for t, nt := 0, e.N(24, 400); t < nt; t++ {
			if f, pick, counts := c01SoakRandom(e.Rng, loads, 2*n); f != nil {
				var names []string
				for _, i := range pick {
					names = append(names, loads[i].Name)
				}
				if c01SoakViolate(e, nil, f, map[string]any{"interleaved_operations": names, "times_each": counts}) {
					return "", nil
				}
			}
			r.Hit("soak-random-mix")
		}
		// 4. process-wide: the engine that was there from the start, and one created now
		if f := c01SoakProbeAll(bystander, nil, 0, "an engine created before the soak run that took no part in it"); f != nil {
			f.Key = "c01-soak:other-engine-differs"
			if c01SoakViolate(e, nil, f, map[string]any{"operations": c01SoakNames(loads, true)}) {
				return "", nil
			}
		}
		if late, err := c01SoakEngine(false, nil); err == nil {
			if f := c01SoakProbeAll(late, nil, 0, "an engine created after the soak run"); f != nil {
				f.Key = "c01-soak:other-engine-differs"
				if c01SoakViolate(e, nil, f, map[string]any{"operations": c01SoakNames(loads, true)}) {
					return "", nil
				}
			}
		}
		return "", nil
	})
	if harnessErr != nil {
		return harnessErr
	}
	if res.Class == "panic" || res.Class == "timeout" {
		r.Violate(Violation{Key: "c01-soak:" + res.Class, What: "repeating one operation on one engine ends in a " + res.Class,
			Broken: "C01 (the operation does not return)", Replay: map[string]any{"kind": "c01-soak", "panic": res.Panic}})
	}
	r.Note(fmt.Sprintf("soak: %d operations × %d repetitions each on an engine of its own, probes at 1 2 3 5 9 17 … and at the end; %.1fs", len(loads), n, time.Since(start).Seconds()))
	return nil
}

func c01SoakNames(loads []c01SoakLoad, policy bool) []string {
	var out []string
	for _, l := range loads {
		if l.Policy && !policy {
			continue
		}
		out = append(out, l.Name)
	}
	return out
}

// c01SoakRandom: one engine, 2–4 loads (without the policy flavour), a random total ≤ max, random proportions.
func c01SoakRandom(r *rand.Rand, loads []c01SoakLoad, max int) (*c01SoakFinding, []int, map[string]int) {
	var pool []int
	for i, l := range loads {
		if !l.Policy {
			pool = append(pool, i)
		}
	}
	k := 2 + r.Intn(3)
	pick := make([]int, k)
	tpls := map[string]string{}
	for j := range pick {
		pick[j] = pool[r.Intn(len(pool))]
		if loads[pick[j]].Entry == "load" {
			tpls[fmt.Sprintf("load%03d", pick[j])] = loads[pick[j]].Src
		}
	}
	sort.Ints(pick)
	eng, err := c01SoakEngine(false, tpls)
	if err != nil {
		return nil, nil, nil
	}
	twin, err := c01SoakEngine(false, tpls)
	if err != nil {
		return nil, nil, nil
	}
	total := max/4 + r.Intn(max-max/4)
	counts := map[string]int{}
	firsts := map[int]c01SoakRes{}
	for t := 1; t <= total; t++ {
		i := pick[r.Intn(k)]
		l := loads[i]
		got := c01SoakDo(eng, l, fmt.Sprintf("load%03d", i))
		counts[l.Name]++
		if f, ok := firsts[i]; !ok {
			firsts[i] = got
		} else if !got.same(f) {
			return &c01SoakFinding{Key: "c01-soak:operation-not-repeatable", Reps: t, Got: got, Want: map[string]any{"first_time": f},
				What: fmt.Sprintf("the operation %q stops returning what it returned the first time on an engine that interleaves it with others", l.Name)}, pick, counts
		}
		if t == total || c01SoakCheckpoint(t) {
			if f := c01SoakProbeAll(eng, twin, t, fmt.Sprintf("an engine that performed %d interleaved soak operations", t)); f != nil {
				return f, pick, counts
			}
		}
	}
	return nil, pick, counts
}

// c01SoakReplay re-runs the load named in a recorded soak violation (all of them when it names none).
func c01SoakReplay(e *Env, name string) error {
	err := c01Soak(e, name)
	for _, v := range e.Rep.Violations {
		b, _ := json.Marshal(v.Replay)
		fmt.Printf("still fails: %s: %s\n%s\n", v.Key, v.What, truncate(string(b), 1500))
	}
	if err == nil && len(e.Rep.Violations) == 0 {
		fmt.Printf("passes now: soak operation %q\n", name)
	}
	return err
}

// c01IsSoakReplay: is the file a recorded soak violation (as written by check: the replay object under "case"), and of
// which operation
func c01IsSoakReplay(path string) (string, bool) {
	b, err := os.ReadFile(path)
	if err != nil {
		return "", false
	}
	type rec struct {
		Kind      string `json:"kind"`
		Operation struct {
			Name string `json:"name"`
		} `json:"operation"`
	}
	var top struct {
		rec
		Case rec `json:"case"`
	}
	if json.Unmarshal(b, &top) != nil {
		return "", false
	}
	switch {
	case top.Case.Kind == "c01-soak":
		return top.Case.Operation.Name, true
	case top.Kind == "c01-soak":
		return top.Operation.Name, true
	}
	return "", false
}
