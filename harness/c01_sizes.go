package main

import (
	"fmt"
	"math/rand"
	"strings"
)

// C01, the size dimension: "for every template set" includes sources of every length. The engine switches code paths
// by source length (another tokenizer above 4096 bytes, token buffers sized from len(source)/10, pooled token slices
// and byte buffers with capacity classes), so what an earlier parse leaves behind in a pooled object depends on HOW
// LONG and HOW TOKEN-RICH the earlier source was, and what a later parse finds depends on how long the later one is.
// None of the grammar's histories reaches those paths as long as every source is a few dozen bytes.
//
// Three additions, all checked through c01Check (model run pool-free and pooled, fresh engine, pristine process):
//  (a) c01PadHistory: every history of the regression corpus again with every source padded beyond a length of the
//      ladder — once with lengths falling along the history (a later source fits into what an earlier one left
//      behind), once rising (thorough: also all of one length, and mixed);
//  (b) c01SizePairs: every ordered pair of (length, shape) kinds parsed one after the other, on the same or another
//      engine, through RegisterString or ParseTemplate, both rendered afterwards;
//  (c) the random generator pads a source now and then (c01GenSrc).
// The expected bytes come from the model (a long text node is a text node) and from direct computation here for the
// pair sweep; the fresh-engine oracle alone would not do, a fresh engine in the same process parses through the same
// pooled tokenizers.

// lengths around the tokenizer switch (4096), around the token-buffer estimate of a pooled tokenizer (256 tokens =
// 2560 bytes; 1000 tokens = GetTokenSlice's limit) and a few well above
var c01SizeLadder = []int{2600, 4090, 4096, 4097, 4600, 6100, 10100, 20500}

// c01Filler is text of exactly size bytes without any tag opener; the word makes two fillers tell apart.
func c01Filler(word string, size int) string {
	line := "<p>" + word + "</p>\n"
	var sb strings.Builder
	for sb.Len() < size {
		sb.WriteString(line)
	}
	return sb.String()[:size]
}

// c01PadNodes makes the source of ns at least size bytes long. shape 0: one text node at position at (token-poor: the
// source is long, the token list short); shape 1: many small text/print units (token-rich: the token list outgrows
// the len/10 estimate); shape 2: the filler sits inside an if/else and a loop (block tags in a long source).
func c01PadNodes(ns []c01Node, size, shape, at int, word string) []c01Node {
	have := len(c01Srcs(ns))
	if have >= size {
		return ns
	}
	need := size - have
	var pad []c01Node
	switch shape {
	case 1:
		unit := []c01Node{c01T("<li>" + word), c01P("a"), c01T("</li>\n")}
		ul := len(c01Srcs(unit))
		units := need / ul
		if units > 600 { // the model spends one unit of fuel (4096) per node of a list
			units = 600
		}
		for k := 0; k < units; k++ {
			pad = append(pad, unit...)
		}
		pad = append(pad, c01T(c01Filler(word, need-units*ul+1)))
	case 2:
		third := need / 3
		pad = []c01Node{
			{T: "if", V: "a", A: []c01Node{c01T(c01Filler(word+"-then", third)), c01P("a")}, B: []c01Node{c01T(c01Filler(word+"-else", third))}},
			{T: "for", X: "i0", XS: "xs", A: []c01Node{c01T(c01Filler(word+"-loop", third)), c01P("i0")}},
		}
	default:
		pad = []c01Node{c01T(c01Filler(word, need))}
	}
	if at < 0 || at > len(ns) {
		at = len(ns)
	}
	out := append([]c01Node{}, ns[:at]...)
	out = append(out, pad...)
	return append(out, ns[at:]...)
}

// c01PadHistory pads the k-th source of the history to sizes[k % len(sizes)], shapes alternating.
func c01PadHistory(h []c01Op, sizes []int) []c01Op {
	out := make([]c01Op, len(h))
	k := 0
	for i, op := range h {
		out[i] = op
		if op.K == "register" || op.K == "parse" {
			at := len(op.Src.Nodes)
			if len(op.Src.Nodes) > 0 && op.Src.Nodes[0].T == "extends" {
				at = 1 // text of a child template: ignored, but it makes the source long
			}
			out[i].Src.Nodes = c01PadNodes(op.Src.Nodes, sizes[k%len(sizes)], k%2, at, fmt.Sprintf("pad%d", k))
			k++
		}
	}
	return out
}

type c01SizeKind struct{ size, shape int }

func (k c01SizeKind) src(word string) c01Src {
	head := []c01Node{c01T("<h1>"), c01P("a"), c01T("</h1>\n")}
	ns := c01PadNodes(head, k.size-len("<footer>"+word+"</footer>"), k.shape, -1, word)
	return c01Ok(append(ns, c01T("<footer>"+word+"</footer>"))...)
}

// c01Direct computes what a padded text/print/if/for template prints for a = val, xs = list: the generator's own
// meaning of its nodes, no engine and no model involved.
func c01Direct(ns []c01Node, val string, xs []string, i0 string) string {
	var sb strings.Builder
	for _, n := range ns {
		switch n.T {
		case "text":
			sb.WriteString(n.S)
		case "print":
			switch n.V {
			case "a":
				sb.WriteString(val)
			case "i0":
				sb.WriteString(i0)
			}
		case "if":
			if val != "" && val != "0" {
				sb.WriteString(c01Direct(n.A, val, xs, i0))
			} else {
				sb.WriteString(c01Direct(n.B, val, xs, i0))
			}
		case "for":
			for _, x := range xs {
				sb.WriteString(c01Direct(n.A, val, xs, x))
			}
		}
	}
	return sb.String()
}

// c01SizePairs: first a source of kind A, then one of kind B (on the same engine, on another one, or parsed only and
// then registered), then both rendered. The outputs are also compared with c01Direct.
func c01SizePairs(e *Env) (bool, error) {
	r := e.Rep
	var kinds []c01SizeKind
	for _, s := range c01SizeLadder {
		for shape := 0; shape < 3; shape++ {
			// quick tier: both sides of the switch, two lengths above it that differ in what they need, one far above
			if e.Thorough() || (shape < 2 && (s == 4090 || s == 4097 || s == 4600 || s == 6100 || s == 10100)) || (shape == 2 && s == 4600) {
				kinds = append(kinds, c01SizeKind{s, shape})
			}
		}
	}
	a := c01S("a", "v1")
	xs := c01L("xs", "x", "hello")
	n := 0
	for i, ka := range kinds {
		for j, kb := range kinds {
			// quick tier: every pair once, the route a function of the pair; thorough: every pair on every route
			for route := 0; route < 3; route++ {
				if !e.Thorough() && route != (i+j)%3 {
					continue
				}
				sa, sb := ka.src("first"), kb.src("second")
				var h []c01Op
				switch route {
				case 0: // same engine
					h = []c01Op{c01Reg(0, "t0", sa), c01Ren(0, "t0", a, xs), c01Reg(0, "t1", sb), c01Ren(0, "t1", a, xs), c01Ren(0, "t0", a, xs)}
				case 1: // another engine, nothing rendered in between
					h = []c01Op{c01Reg(0, "t0", sa), c01Reg(1, "t1", sb), c01Ren(1, "t1", a, xs), c01Ren(0, "t0", a, xs), c01Ren(1, "t1", c01S("a", ""), xs)}
				case 2: // ParseTemplate of the first kind only, then the second registered
					h = []c01Op{{K: "parse", E: 0, Src: sa}, c01Reg(0, "t1", sb), c01Ren(0, "t1", a, xs), c01Reg(0, "t0", sa), c01Ren(0, "t0", a, xs), c01Ren(0, "t1", a, xs)}
				}
				zero := 0
				r.Hit(fmt.Sprintf("size-pair:route%d", route))
				ok, err := c01Check(e, h, "size-pair", 0, &zero)
				if err != nil || !ok {
					return ok, err
				}
				n++
				// direct computation, independent of model and fresh engine
				steps := c01LastSteps
				if len(steps) != len(h) {
					continue // the worker died: c01Check has reported it
				}
				for si, op := range h {
					if op.K != "render" {
						continue
					}
					src := sa
					if op.N == "t1" {
						src = sb
					}
					val := ""
					for _, v := range op.Vars {
						if v.Name == "a" {
							val = v.Str
						}
					}
					want := c01Direct(src.Nodes, val, []string{"x", "hello"}, "")
					got := steps[si]
					if !got.Ok || unhx(got.Out) != want {
						f := &c01Finding{step: si, extra: map[string]any{"got": got, "want_bytes": len(want), "want_head": truncate(want, 120),
							"got_bytes": len(unhx(got.Out)), "got_head": truncate(unhx(got.Out), 120), "first": fmt.Sprint(ka), "second": fmt.Sprint(kb)}}
						if r.Violate(Violation{Key: "long-template-renders-other-bytes",
							What:   fmt.Sprintf("Render(%q) of a %d-byte source parsed %s a %d-byte source does not print its own body (step %d)", op.N, len(src.text()), map[bool]string{true: "after", false: "before"}[op.N == "t1"], len(map[bool]c01Src{true: sa, false: sb}[op.N == "t1"].text()), si),
							Broken: "theorem C01_history_independence no longer describes the code (implementation-only oracle: direct computation of a text/print/if/for template)",
							Replay: c01Replay(h, f)}) {
							return false, nil
						}
					}
				}
			}
		}
	}
	r.Note(fmt.Sprintf("size pairs: %d histories over %d (length, shape) kinds, lengths %v", n, len(kinds), c01SizeLadder))
	return true, nil
}

// c01SizeCorpus: the regression corpus with long sources.
func c01SizeCorpus(e *Env) (bool, error) {
	falling := []int{20500, 10100, 6100, 4600, 4097}
	rising := []int{4097, 4600, 6100, 10100, 20500}
	ladders := [][]int{falling, rising}
	if e.Thorough() {
		ladders = append(ladders, []int{4600}, []int{4096, 4097}, []int{6100, 2600, 4600}, []int{10100})
	}
	for li, sizes := range ladders {
		for _, h := range c01Corpus() {
			big := 1 << 30
			p := 0.0
			if li == 0 {
				p = 0.15
			}
			e.Rep.Hit("padded-corpus")
			if ok, err := c01Check(e, c01PadHistory(h, sizes), "corpus-padded", p, &big); err != nil || !ok {
				return ok, err
			}
		}
	}
	return true, nil
}

// c01MaybePad is the random generator's size dimension: about one source in forty is padded (a long source
// makes every later step of its history expensive for the model, so the share stays small).
func c01MaybePad(r *rand.Rand, s c01Src) c01Src {
	if r.Intn(40) != 0 {
		return s
	}
	size := c01SizeLadder[r.Intn(len(c01SizeLadder)-2)] + r.Intn(3)*r.Intn(700)
	if r.Intn(8) == 0 {
		size = c01SizeLadder[len(c01SizeLadder)-2+r.Intn(2)] + r.Intn(700)
	}
	at := r.Intn(len(s.Nodes) + 1)
	if len(s.Nodes) > 0 && s.Nodes[0].T == "extends" && at == 0 {
		at = 1
	}
	for i, n := range s.Nodes { // never in front of a child's extends that is not the first node
		if n.T == "extends" && at <= i {
			at = i + 1
		}
	}
	s.Nodes = c01PadNodes(s.Nodes, size, r.Intn(3), at, []string{"lorem", "ipsum", "dolor"}[r.Intn(3)])
	return s
}
