package main

// C07, apply-block position — every shape of body.
//
// {% apply e %}…{% endapply %} escapes whatever its body renders. The body need not be a print tag of a plain value:
// it can be exactly one print tag whose value is a callable the print tag runs itself (a macro call — own, _self,
// imported, from-imported — or parent()), exactly one tag of another kind (include, block, if, for, nested apply),
// the same between trimmed whitespace, or any of these next to text. Each shape is a route: the text the body writes
// around the value (ipre / ipost) is known literally, so the expected output is escape(ipre) + escape(v) +
// escape(ipost) with escape(v) taken from the model (Escape.escReg) — independent of how ApplyNode collects its body.

// the macro every macro-call shape uses: all five special characters in its own text
const (
	c07MacroPre  = `<b class="t" title='q'>`
	c07MacroPost = ` & co</b>`
)

func c07ShapeRoutes(f string) []c07Route {
	macro := func(name string) string {
		return "{% macro " + name + "(x) %}" + c07MacroPre + "{{ x }}" + c07MacroPost + "{% endmacro %}"
	}
	open, end := "{% apply "+f+" %}", "{% endapply %}"
	lib := map[string]string{"macros": macro("show")}
	mk := func(name, src string, extra map[string]string, pre, ipre, ipost, post string) c07Route {
		t := map[string]string{"main": src}
		for k, v := range extra {
			t[k] = v
		}
		return c07Route{name: name + ":" + f, main: "main", tpls: t, pre: pre, post: post, ipre: ipre, ipost: ipost, light: true, twice: len(name) > 6 && name[:6] == "twice-"}
	}
	mp, mq := c07MacroPre, c07MacroPost
	return []c07Route{
		// the body is exactly one print tag and its value is a macro call
		mk("apply-macro-local", macro("tag")+open+"{{ tag(v) }}"+end, nil, "", mp, mq, ""),
		mk("apply-macro-self", macro("tag")+open+"{{ _self.tag(v) }}"+end, nil, "", mp, mq, ""),
		mk("apply-macro-import", "{% import 'macros' as mm %}"+open+"{{ mm.show(v) }}"+end, lib, "", mp, mq, ""),
		mk("apply-macro-from", "{% from 'macros' import show %}"+open+"{{ show(v) }}"+end, lib, "", mp, mq, ""),
		mk("apply-macro-from-alias", "{% from 'macros' import show as g %}a"+open+"{{ g(v) }}"+end+"b", lib, "a", mp, mq, "b"),
		// the same between trimmed whitespace, next to text, twice removed (macro calling a macro), inside a loop / a condition
		mk("apply-macro-trim", macro("tag")+"{% apply "+f+" -%} {{ tag(v) }} {%- endapply %}", nil, "", mp, mq, ""),
		mk("apply-macro-text", macro("tag")+open+"[{{ tag(v) }}]"+end, nil, "", "["+mp, mq+"]", ""),
		mk("apply-macro-in-macro", macro("tag")+"{% macro outer(x) %}("+open+"{{ _self.tag(x) }}"+end+"){% endmacro %}{{ _self.outer(v) }}", nil, "(", mp, mq, ")"),
		mk("apply-macro-for", macro("tag")+open+"{% for x in [v] %}{{ tag(x) }}{% endfor %}"+end, nil, "", mp, mq, ""),
		mk("apply-macro-if", macro("tag")+open+"{% if true %}{{ tag(v) }}{% endif %}"+end, nil, "", mp, mq, ""),
		mk("apply-macro-include", "{% include 'inc' %}", map[string]string{"inc": macro("tag") + open + "{{ tag(v) }}" + end}, "", mp, mq, ""),
		// the body is exactly one print tag and its value is parent()
		mk("apply-parent", "{% extends 'base' %}{% block b %}"+open+"{{ parent() }}"+end+"{% endblock %}",
			map[string]string{"base": "[{% block b %}<p class=\"x\">{{ v }}&</p>{% endblock %}]"}, "[", "<p class=\"x\">", "&</p>", "]"),
		// the body is exactly one print tag of an expression that is more than a variable
		mk("apply-concat", open+"{{ '<\"' ~ v ~ \"'>\" }}"+end, nil, "", "<\"", "'>", ""),
		mk("apply-ternary", open+"{{ true ? v : '<' }}"+end, nil, "", "", "", ""),
		mk("apply-filtered", open+"{{ v|raw }}"+end, nil, "", "", "", ""),
		// the body is exactly one tag of another kind
		mk("apply-include-only", open+"{% include 'inc' %}"+end, map[string]string{"inc": "<i>{{ v }}</i>&"}, "", "<i>", "</i>&", ""),
		mk("apply-block-only", open+"{% block b %}<{{ v }}>{% endblock %}"+end, nil, "", "<", ">", ""),
		mk("apply-if-only", open+"{% if true %}'{{ v }}'{% endif %}"+end, nil, "", "'", "'", ""),
		mk("apply-for-only", open+"{% for x in [v] %}\"{{ x }}\"{% endfor %}"+end, nil, "", "\"", "\"", ""),
		mk("apply-verbatim-first", open+"{% verbatim %}<&>{% endverbatim %}{{ v }}"+end, nil, "", "<&>", "", ""),
		mk("twice-apply-nested", open+open+"{{ v }}"+end+end, nil, "", "", "", ""),
		mk("twice-apply-nested-macro", macro("tag")+open+open+"{{ tag(v) }}"+end+end, nil, "", mp, mq, ""),
	}
}
