package main

import (
	"bytes"
	"encoding/json"
	"fmt"
	"io"
	"os"
	"sort"
	"strings"
	"sync"
	"time"

	"github.com/semihalev/twig"
)

// c02OrderSweep (added after seeded change C02-R was missed): every order in which a few overlapping calls can START
// and FINISH, on engines of every setting.
//
// c02ManyInFlight stops many calls inside the templates and lets all of them go at once: which call finishes first is
// the scheduler's choice, and its engines have the default settings only. The random workloads overlap calls for
// microseconds. So code that keeps a record of the calls in progress on something shared — a list of active renders or
// traces, a stack of "current" things, a slot handed out at the start and given back at the end — and is right only
// when calls finish in the reverse order of their start (as nested calls of one goroutine do), or in the same order,
// is never driven through the other orders on purpose; and the settings that switch such book-keeping on (debug mode)
// are not used at all.
//
// Here k = 2, 3 and 4 calls are stopped by user code inside the innermost template of a nest (the templates, the ways
// of stopping and the API routes of c02ManyInFlight) and a schedule — a sequence of events "call i starts and runs
// until it is stopped" / "call i is let go and runs until it has returned", each call starting before it finishes,
// the calls numbered by their start — fixes the order. EVERY such schedule is run ((2k-1)!! of them: 3, 15, 105), so
// first-in-first-out, last-in-first-out, one call inside another, one after another and every mixture. The engine
// settings: default, debug mode (Engine.SetDebug: the engine-level calls go through DebugRender and the process-wide
// debugger is on), development mode, strict variables, and templates from a loader with the cache on / off / with
// auto-reload. Pages, stopping mechanisms and routes rotate through the calls so that every (setting, page, route) is
// used.
//
// Expected values: a twin engine of the same setting whose user code never stops, called serially with the same
// contexts. Every call must return what it returns there — in particular it must return (a call that panics or does
// not come back is reported with the schedule).
//
// Keys: completion-order-differs, completion-order-stuck.

type c02OrdGates struct {
	mu      sync.Mutex
	block   bool
	release map[string]chan struct{} // per label of a call that is to be stopped (once)
	stopped map[string]bool
	arrived chan string
}

func (g *c02OrdGates) stop(label string) {
	g.mu.Lock()
	ch := g.release[label]
	if !g.block || ch == nil || g.stopped[label] {
		g.mu.Unlock()
		return
	}
	g.stopped[label] = true // a page that reaches the user code twice is stopped the first time
	g.mu.Unlock()
	g.arrived <- label
	<-ch
}

// c02OrdReq is a context value whose method is slow for the stopped calls.
type c02OrdReq struct {
	label string
	stop  bool
	g     *c02OrdGates
}

func (q *c02OrdReq) Held() string {
	if q.stop {
		q.g.stop(q.label)
	}
	return q.label
}

// c02OrdWriter stops, once, when the text written so far contains the call's own label.
type c02OrdWriter struct {
	buf   bytes.Buffer
	label string
	g     *c02OrdGates
	done  bool
}

func (w *c02OrdWriter) Write(p []byte) (int, error) {
	w.buf.Write(p)
	if !w.done && bytes.Contains(w.buf.Bytes(), []byte(w.label)) {
		w.done = true
		w.g.stop(w.label)
	}
	return len(p), nil
}

var c02OrdSettings = []string{"default", "debug", "development", "strict-vars", "loader-cache-on", "loader-cache-off", "loader-auto-reload", "debug-loader-cache-off"}

func c02OrdEngine(g *c02OrdGates, setting string, src map[string]string) (*twig.Engine, error) {
	eng := twig.New()
	eng.AddFunction("hold", func(args ...interface{}) (interface{}, error) {
		if len(args) > 1 && c02Truthy(args[1]) {
			g.stop(fmt.Sprint(args[0]))
		}
		if len(args) == 0 {
			return "", nil
		}
		return args[0], nil
	})
	eng.AddFilter("held", func(v interface{}, args ...interface{}) (interface{}, error) {
		if len(args) > 0 && c02Truthy(args[0]) {
			g.stop(fmt.Sprint(v))
		}
		return v, nil
	})
	if strings.Contains(setting, "loader") {
		cp := map[string]string{}
		for k, v := range src {
			cp[k] = v
		}
		eng.RegisterLoader(twig.NewArrayLoader(cp))
	} else {
		names := make([]string, 0, len(src))
		for n := range src {
			names = append(names, n)
		}
		sort.Strings(names)
		for _, n := range names {
			if err := eng.RegisterString(n, src[n]); err != nil {
				return nil, fmt.Errorf("RegisterString(%q): %v", n, err)
			}
		}
	}
	switch setting {
	case "debug":
		eng.SetDebug(true)
	case "debug-loader-cache-off":
		eng.SetDebug(true)
		eng.SetCache(false)
	case "development":
		eng.SetDevelopmentMode(true)
	case "strict-vars":
		eng.SetStrictVars(true)
	case "loader-cache-off":
		eng.SetCache(false)
	case "loader-auto-reload":
		eng.SetAutoReload(true)
	}
	return eng, nil
}

var c02OrdRoutes = []string{"Render", "RenderTo", "Load+Template.Render", "ParseTemplate+Template.Render"}

type c02OrdCall struct {
	page, parsedSrc, label, want string
	route                        int
	out                          string
	err                          error
}

func (c *c02OrdCall) routeName() string {
	if strings.HasSuffix(c.page, "_plain") {
		return "RenderTo"
	}
	return c02OrdRoutes[c.route]
}

func (c *c02OrdCall) String() string {
	if c.routeName() == c02OrdRoutes[3] {
		return fmt.Sprintf("%s(%q) %s", c.routeName(), c.parsedSrc, c.label)
	}
	return fmt.Sprintf("%s(%q) %s", c.routeName(), c.page, c.label)
}

// run makes the call; the page decides which user code stops it (the writer for the _plain pages and for RenderTo).
func (c *c02OrdCall) run(eng *twig.Engine, g *c02OrdGates, depth int) (out string, err error) {
	defer func() {
		if p := recover(); p != nil {
			err = fmt.Errorf("panic: %v", p)
		}
	}()
	plain := strings.HasSuffix(c.page, "_plain")
	stop := 1
	if plain {
		stop = 0
	}
	ctx := map[string]interface{}{"label": c.label, "stop": stop, "depth": depth, "req": &c02OrdReq{label: c.label, stop: !plain, g: g}}
	if plain || c.route == 1 {
		w := &c02OrdWriter{label: c.label, g: g, done: !plain}
		err = eng.RenderTo(w, c.page, ctx)
		return w.buf.String(), err
	}
	switch c.route {
	case 2:
		t, lerr := eng.Load(c.page)
		if lerr != nil {
			return "", lerr
		}
		return t.Render(ctx)
	case 3:
		t, perr := eng.ParseTemplate(c.parsedSrc)
		if perr != nil {
			return "", perr
		}
		return t.Render(ctx)
	}
	return eng.Render(c.page, ctx)
}

// c02OrdEvent: call i starts (and runs until user code stops it) or is let go (and runs until it has returned).
type c02OrdEvent struct {
	finish bool
	i      int
}

// c02OrdSchedules: every sequence of the 2k events in which the calls start in the order of their numbers and each
// starts before it finishes.
func c02OrdSchedules(k int) [][]c02OrdEvent {
	var out [][]c02OrdEvent
	var rec func(cur []c02OrdEvent, started int, finished []bool)
	rec = func(cur []c02OrdEvent, started int, finished []bool) {
		if len(cur) == 2*k {
			out = append(out, append([]c02OrdEvent(nil), cur...))
			return
		}
		if started < k {
			rec(append(cur, c02OrdEvent{false, started}), started+1, finished)
		}
		for i := 0; i < started; i++ {
			if !finished[i] {
				finished[i] = true
				rec(append(cur, c02OrdEvent{true, i}), started, finished)
				finished[i] = false
			}
		}
	}
	rec(nil, 0, make([]bool, k))
	return out
}

func c02OrdScheduleText(s []c02OrdEvent) string {
	var parts []string
	for _, e := range s {
		if e.finish {
			parts = append(parts, fmt.Sprintf("call %d is let go and returns", e.i))
		} else {
			parts = append(parts, fmt.Sprintf("call %d starts and is stopped by user code", e.i))
		}
	}
	return strings.Join(parts, "; ")
}

func c02OrderSweep(col *c02Collector, tier string) {
	const depth = 4
	src, pages, parsedSrcs := c02InFlightTemplates()
	perMech := len(pages) / len(parsedSrcs)
	var schedules [][]c02OrdEvent
	maxK := 4
	if c02RaceBuild && tier != "thorough" {
		maxK = 3
	}
	for k := 2; k <= maxK; k++ {
		schedules = append(schedules, c02OrdSchedules(k)...)
	}
	reps := 1
	if tier == "thorough" {
		reps = 4
	}
	for _, setting := range c02OrdSettings {
		if col.failed() {
			return
		}
		debug := strings.HasPrefix(setting, "debug")
		if debug {
			// debug mode switches the process-wide debugger on: its output is not what is looked at here
			twig.SetDebugWriter(io.Discard)
		}
		halt := c02OrdSetting(col, setting, src, pages, parsedSrcs, perMech, schedules, reps, depth)
		if debug {
			twig.SetDebugLevel(twig.DebugOff)
			twig.SetDebugWriter(os.Stderr)
		}
		if halt {
			return
		}
	}
}

func c02OrdSetting(col *c02Collector, setting string, src map[string]string, pages, parsedSrcs []string, perMech int, schedules [][]c02OrdEvent, reps, depth int) (halt bool) {
	twinG := &c02OrdGates{}
	twin, err := c02OrdEngine(twinG, setting, src)
	if err != nil {
		col.violate(c02Violation{Key: "completion-order-setup", What: err.Error()})
		return true
	}
	g := &c02OrdGates{block: true, release: map[string]chan struct{}{}, stopped: map[string]bool{}, arrived: make(chan string, 8)}
	eng, err := c02OrdEngine(g, setting, src)
	if err != nil {
		col.violate(c02Violation{Key: "completion-order-setup", What: err.Error()})
		return true
	}
	ctr := 0
	ran, stoppedInside := 0, 0
	for rep := 0; rep < reps; rep++ {
		for si, sched := range schedules {
			k := len(sched) / 2
			calls := make([]*c02OrdCall, k)
			usable := true
			for i := range calls {
				pi := ctr % len(pages)
				c := &c02OrdCall{page: pages[pi], route: (ctr / len(pages)) % 4, parsedSrc: parsedSrcs[pi/perMech], label: fmt.Sprintf("«C%d.%d.%d»", rep, si, i)}
				ctr++
				o1, e1 := c.run(twin, twinG, depth)
				o2, e2 := c.run(twin, twinG, depth)
				if e1 != nil || e2 != nil || o1 != o2 || !strings.Contains(o1, c.label) {
					col.mu.Lock()
					col.res.Skips["completion-order-serial-reference-unusable:"+setting+":"+c.page]++
					col.mu.Unlock()
					usable = false
				}
				c.want = o1
				calls[i] = c
			}
			if !usable {
				continue
			}
			g.mu.Lock()
			for _, c := range calls {
				g.release[c.label] = make(chan struct{})
			}
			g.mu.Unlock()
			done := make([]chan struct{}, k)
			returned := make([]bool, k)
			stopped := make([]bool, k)
			replay := func() map[string]any {
				var cs, got, want []string
				for i, c := range calls {
					cs = append(cs, c.String())
					if returned[i] {
						got = append(got, fmt.Sprintf("%q (%v)", c.out, c.err))
					} else {
						got = append(got, "(not back)")
					}
					want = append(want, c.want)
				}
				return map[string]any{"kind": "completion-order", "setting": setting, "calls": cs, "schedule": c02OrdScheduleText(sched),
					"context": "{'label': <the call's label>, 'stop': 1, 'depth': " + fmt.Sprint(depth) + ", 'req': value with method Held}; hold(label, stop) / label|held(stop) / req.Held / the io.Writer stop the call when asked to",
					"results": got, "results_serially": want, "templates": src, "rerun": "harness -child c02order <tier>"}
			}
			stuck := func(c *c02OrdCall, when string) {
				col.violate(c02Violation{Key: "completion-order-stuck",
					What: fmt.Sprintf("setting %s: %s did not return within %v (%s). Schedule: %s. Run one after another these calls return at once",
						setting, c, c02StuckAfter, when, c02OrdScheduleText(sched)),
					Replay: replay()})
			}
			failed := false
			for _, ev := range sched {
				c := calls[ev.i]
				if !ev.finish {
					ch := make(chan struct{})
					done[ev.i] = ch
					go func() {
						defer close(ch)
						c.out, c.err = c.run(eng, g, depth)
					}()
					t := time.NewTimer(c02StuckAfter)
					select {
					case <-g.arrived:
						stopped[ev.i] = true
						stoppedInside++
					case <-ch:
						returned[ev.i] = true // not stopped at all (the text reached the writer in no piece that holds the label, say)
					case <-t.C:
						stuck(c, "after its start, before user code was reached")
						failed = true
					}
					t.Stop()
				} else if !returned[ev.i] {
					g.mu.Lock()
					close(g.release[c.label])
					g.mu.Unlock()
					t := time.NewTimer(c02StuckAfter)
					select {
					case <-done[ev.i]:
						returned[ev.i] = true
					case <-t.C:
						stuck(c, "after user code let it go on")
						failed = true
					}
					t.Stop()
				}
				if failed {
					break
				}
			}
			if failed {
				// let everything go; the engine is not used again
				g.mu.Lock()
				g.block = false
				for i, c := range calls {
					if done[i] != nil && !returned[i] {
						select {
						case <-g.release[c.label]:
						default:
							close(g.release[c.label])
						}
					}
				}
				g.mu.Unlock()
				return true
			}
			g.mu.Lock()
			for _, c := range calls {
				delete(g.release, c.label)
				delete(g.stopped, c.label)
			}
			g.mu.Unlock()
			ran++
			for i, c := range calls {
				col.seen(fmt.Sprintf("completion-order|%s|%s|%s|%d|%v", setting, c.page, c.routeName(), k, stopped[i]))
				if c.err != nil || c.out != c.want {
					col.violate(c02Violation{Key: "completion-order-differs",
						What: fmt.Sprintf("setting %s: %s returned %q (%v); the same call made serially returns %q. %d calls overlapped: %s",
							setting, c, truncate(c.out, 120), c.err, truncate(c.want, 120), k, c02OrdScheduleText(sched)),
						Replay: replay()})
					return true
				}
			}
		}
	}
	col.mu.Lock()
	col.res.Hits["completion-order-schedules"] += ran
	col.res.Hits["completion-order-schedules:"+setting] += ran
	col.res.Hits["completion-order-calls-stopped-inside"] += stoppedInside
	col.mu.Unlock()
	return false
}

// child mode `-child c02order <tier>`: the completion-order sweep alone.
func init() {
	children["c02order"] = func(args []string) int {
		tier := "quick"
		if len(args) > 0 {
			tier = args[0]
		}
		res := &c02Result{Hits: map[string]int{}, Skips: map[string]int{}, Violations: []c02Violation{}, Samples: []any{}, Notes: []string{}}
		col := &c02Collector{res: res, seq: map[string]struct{}{}}
		c02OrderSweep(col, tier)
		b, _ := json.Marshal(res)
		fmt.Println(string(b))
		if len(res.Violations) > 0 {
			return 3
		}
		return 0
	}
}
