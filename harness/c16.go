package main

import (
	"bytes"
	"encoding/binary"
	"encoding/gob"
	"encoding/hex"
	"fmt"
	"hash/fnv"
	"math"
	"math/rand"
	"os"
	"path/filepath"
	"runtime"
	"runtime/debug"
	"strconv"
	"strings"
	"time"

	"github.com/semihalev/twig"
)

// C16 — a compiled template is interchangeable with its source.
//
// Correspondence M: SerializeCompiledTemplate / DeserializeCompiledTemplate (real code) against
// Codec.encode / Codec.decode (Lean; theorems C16_roundtrip, C16_prefix_rejected, C16_alloc_bounded,
// C16_encode_injective …).  The model's FACTs (gobFallbackOnV1, lengthCheckedBeforeAlloc) are probed on the
// real code, and the statement about encoding/gob used by the pinned-tree regression theorems (GobFacts:
// what gob does on inputs starting with 0x01) is checked exhaustively with the harness's own gob decoder.  Implementation-only oracles: (1) serialise∘deserialise reproduces all five fields;
// (2) no strict prefix of a serialised template is accepted; (3) decoding never panics, hangs, or allocates
// out of proportion to its input; (4) a template compiled → serialised → deserialised → registered on a
// second engine (three routes + CompiledLoader files) renders byte for byte like its source.

func init() { register("C16", runC16) }

type c16Case struct {
	Name, Source string
	LM, CT       int64
	AST          []byte
}

func (c c16Case) tpl() *twig.CompiledTemplate {
	return &twig.CompiledTemplate{Name: c.Name, Source: c.Source, LastModified: c.LM, CompileTime: c.CT, AST: c.AST}
}

func (c c16Case) replay() map[string]any {
	return map[string]any{"name_hex": c16short(hx(c.Name)), "source_hex": c16short(hx(c.Source)), "lm": strconv.FormatInt(c.LM, 10),
		"ct": strconv.FormatInt(c.CT, 10), "ast_hex": c16short(hex.EncodeToString(c.AST)),
		"name_len": len(c.Name), "source_len": len(c.Source), "ast_len": len(c.AST)}
}

func c16short(h string) string {
	if len(h) > 4096 {
		return h[:4096] + fmt.Sprintf("…(+%d hex digits; regenerate from seed)", len(h)-4096)
	}
	return h
}

// ---- guarded calls into the real code ------------------------------------------------------------

type c16Dec struct {
	OK    bool
	C     *twig.CompiledTemplate
	Err   string
	Panic string
	Dur   time.Duration
}

func c16GoDecode(data []byte) (res c16Dec) {
	start := time.Now()
	defer func() {
		if p := recover(); p != nil {
			res = c16Dec{Panic: fmt.Sprintf("%v\n%s", p, truncate(string(debug.Stack()), 1200))}
		}
		res.Dur = time.Since(start)
	}()
	c, err := twig.DeserializeCompiledTemplate(data)
	if err != nil {
		return c16Dec{Err: err.Error()}
	}
	if c == nil {
		return c16Dec{Err: "<nil template, nil error>"}
	}
	return c16Dec{OK: true, C: c}
}

func c16GoEncode(c *twig.CompiledTemplate) (out []byte, pn string, err error) {
	defer func() {
		if p := recover(); p != nil {
			pn = fmt.Sprint(p)
		}
	}()
	out, err = twig.SerializeCompiledTemplate(c)
	return
}

// c16MaxClaim walks the binary layout like deserializeBinaryFormat does and returns the largest length
// prefix the decoder would pass to make() on this input.
func c16MaxClaim(d []byte) uint64 {
	if len(d) == 0 || d[0] != 1 {
		return 0
	}
	var max uint64
	p := 1
	readLen := func() (uint64, bool) {
		if p+4 > len(d) {
			return 0, false
		}
		l := uint64(binary.LittleEndian.Uint32(d[p:]))
		p += 4
		if l > max {
			max = l
		}
		if uint64(len(d)-p) < l {
			return l, false
		}
		p += int(l)
		return l, true
	}
	if _, ok := readLen(); !ok {
		return max
	}
	if _, ok := readLen(); !ok {
		return max
	}
	if p+16 > len(d) {
		return max
	}
	p += 16
	readLen()
	return max
}

// inputs whose length prefix claims more than this are not run in-process while the allocation oracle reports that
// the decoder allocates claimed lengths unchecked (a claim of 4 GiB costs minutes and gigabytes); once the decoder
// validates lengths against the remaining input the cap is lifted (c16AllocOracle sets it)
var c16ClaimCap uint64 = 8 << 20

// local mirror of CompiledTemplate for the harness's own (independent) use of encoding/gob
type c16GobMirror struct {
	Name         string
	Source       string
	LastModified int64
	CompileTime  int64
	AST          []byte
}

func c16GobDecode(data []byte) (m c16GobMirror, ok bool) {
	defer func() {
		if recover() != nil {
			ok = false
		}
	}()
	err := gob.NewDecoder(bytes.NewReader(data)).Decode(&m)
	return m, err == nil
}

// ---- model calls ---------------------------------------------------------------------------------

func c16ModelEncode(m *Model, c c16Case) (string, error) {
	resp, err := m.Call(map[string]any{"op": "codec_encode", "name": hx(c.Name), "source": hx(c.Source),
		"ast": hex.EncodeToString(c.AST), "lm": strconv.FormatInt(c.LM, 10), "ct": strconv.FormatInt(c.CT, 10)})
	if err != nil {
		return "", err
	}
	s, _ := resp["out"].(string)
	return s, nil
}

// c16Fb: when non-nil, overrides the model's FACT gobFallbackOnV1 (environment C16_FALLBACK_V1=0|1; only for
// running the harness against a tree whose dispatch differs from the FACT, e.g. the pinned tree with C16_FALLBACK_V1=1)
var c16Fb *bool

func c16Req(req map[string]any) map[string]any {
	if c16Fb != nil {
		req["fallback_v1"] = *c16Fb
	}
	return req
}

func c16ModelDecodeBatch(m *Model, datas [][]byte) ([]map[string]any, error) {
	hs := make([]string, len(datas))
	for i, d := range datas {
		hs[i] = hex.EncodeToString(d)
	}
	resp, err := m.Call(c16Req(map[string]any{"op": "codec_decode_batch", "datas": hs}))
	if err != nil {
		return nil, err
	}
	arr, _ := resp["results"].([]any)
	if len(arr) != len(datas) {
		return nil, fmt.Errorf("codec_decode_batch: %d answers for %d inputs", len(arr), len(datas))
	}
	out := make([]map[string]any, len(arr))
	for i, a := range arr {
		out[i], _ = a.(map[string]any)
	}
	return out, nil
}

type c16Mut struct {
	Pos int
	Val byte
}

// c16ModelVariants asks the model about truncations, one-byte mutations and a junk suffix of one encoding
// in a single request (the encoding travels once).
func c16ModelVariants(m *Model, data []byte, cuts []int, muts []c16Mut, junk []byte, digest bool) ([]map[string]any, error) {
	ms := make([][2]int, len(muts))
	for i, x := range muts {
		ms[i] = [2]int{x.Pos, int(x.Val)}
	}
	if cuts == nil {
		cuts = []int{}
	}
	resp, err := m.Call(c16Req(map[string]any{"op": "codec_variants", "data": hex.EncodeToString(data), "cuts": cuts, "muts": ms,
		"junk": hex.EncodeToString(junk), "digest": digest}))
	if err != nil {
		return nil, err
	}
	arr, _ := resp["results"].([]any)
	want := len(cuts) + len(muts)
	if len(junk) > 0 {
		want++
	}
	if len(arr) != want {
		return nil, fmt.Errorf("codec_variants: %d answers for %d inputs", len(arr), want)
	}
	out := make([]map[string]any, len(arr))
	for i, a := range arr {
		out[i], _ = a.(map[string]any)
	}
	return out, nil
}

func c16Digest(b []byte) string {
	h := fnv.New64a()
	h.Write(b)
	return fmt.Sprintf("%d:%d", len(b), h.Sum64())
}

var c16Sample int

// ---- comparison of one decode --------------------------------------------------------------------

func c16Fields(c *twig.CompiledTemplate) map[string]any {
	return map[string]any{"name": c16short(hx(c.Name)), "source": c16short(hx(c.Source)), "lm": strconv.FormatInt(c.LastModified, 10),
		"ct": strconv.FormatInt(c.CompileTime, 10), "ast": c16short(hex.EncodeToString(c.AST))}
}

// c16Check compares the real decoder with the model's answer on one input. kind tags the input class.
func c16Check(e *Env, data []byte, mres map[string]any, kind string, digest ...bool) {
	dg := len(digest) > 0 && digest[0]
	field := func(b []byte) string {
		if dg {
			return c16Digest(b)
		}
		return hex.EncodeToString(b)
	}
	r := e.Rep
	if claim := c16MaxClaim(data); claim > c16ClaimCap {
		r.Skip("length-prefix>8MiB not run in-process (unchecked allocation; see oracle alloc-unchecked-length-prefix)")
		return
	}
	c16Sample++
	measure := mres != nil && len(data) > 0 && data[0] == 1 && c16Sample%29 == 0
	var m0, m1 runtime.MemStats
	if measure {
		runtime.ReadMemStats(&m0)
	}
	g := c16GoDecode(data)
	if measure {
		runtime.ReadMemStats(&m1)
	}
	replay := map[string]any{"kind": "decode", "input_class": kind, "data_hex": c16short(hex.EncodeToString(data)), "data_len": len(data)}
	if measure {
		// allocation against the model: the decoder's buffers (allocBin) are each copied once into a string
		// (name, source), plus small fixed overhead; never more than a small multiple of the input
		delta := m1.TotalAlloc - m0.TotalAlloc
		ma, _ := mres["alloc"].(float64)
		r.Hit("alloc-sampled")
		if delta > 3*uint64(ma)+16384 || uint64(ma) > uint64(len(data)) { // 3×: two copies plus size-class rounding
			replay["allocated_bytes"], replay["model_alloc"] = delta, ma
			r.Violate(Violation{Key: "alloc-vs-model", What: "DeserializeCompiledTemplate allocated more than three times what Codec.allocBin predicts (+16 KiB), or the model's allocation exceeds the input length",
				Broken: "C16_alloc_bounded / correspondence of Codec.allocBin with compiled.go readString", Replay: replay})
		}
	}
	if g.Panic != "" {
		replay["panic"] = g.Panic
		r.Violate(Violation{Key: "decode-panic", What: "DeserializeCompiledTemplate panicked on " + kind + " input",
			Broken: "C16_decode_total (and C05): decoding returns a value or an error", Replay: replay})
		return
	}
	if g.Dur > 3*time.Second {
		replay["seconds"] = g.Dur.Seconds()
		r.Violate(Violation{Key: "decode-slow", What: fmt.Sprintf("DeserializeCompiledTemplate took %.1fs on %d bytes", g.Dur.Seconds(), len(data)),
			Broken: "C16_decode_total (and C05): decoding terminates promptly", Replay: replay})
	}
	if mres == nil {
		return
	}
	r.Compared++
	mclass, _ := mres["class"].(string)
	mgob, _ := mres["gob"].(string)
	r.Hit("decode:" + kind + ":bin=" + fmt.Sprint(mres["bin"]) + ",gob=" + mgob)
	want := mclass == "ok"
	wantFields := map[string]any{}
	if want {
		for _, k := range []string{"name", "source", "lm", "ct", "ast"} {
			wantFields[k] = mres[k]
		}
	}
	if mgob == "opaque" {
		// first byte is not the version byte: the model leaves encoding/gob open; adjudicate with our own decoder
		mm, ok := c16GobDecode(data)
		want = ok
		if ok {
			r.Hit("gob-legacy-accepted")
			wantFields = map[string]any{"name": field([]byte(mm.Name)), "source": field([]byte(mm.Source)), "lm": strconv.FormatInt(mm.LastModified, 10),
				"ct": strconv.FormatInt(mm.CompileTime, 10), "ast": field(mm.AST)}
		}
	}
	if g.OK != want {
		replay["impl_ok"], replay["impl_err"], replay["model"] = g.OK, g.Err, mres
		r.Violate(Violation{Key: "decode-class-" + kind, What: fmt.Sprintf("DeserializeCompiledTemplate ok=%v but model (gob=%s) says ok=%v on %s input", g.OK, mgob, want, kind),
			Broken: "correspondence codec_decode (TwigModel.Codec.decode vs compiled.go DeserializeCompiledTemplate)", Replay: replay})
		return
	}
	if g.OK {
		got := map[string]any{"name": field([]byte(g.C.Name)), "source": field([]byte(g.C.Source)), "lm": strconv.FormatInt(g.C.LastModified, 10),
			"ct": strconv.FormatInt(g.C.CompileTime, 10), "ast": field(g.C.AST)}
		for k, v := range wantFields {
			if got[k] != v {
				replay["field"], replay["impl"], replay["model"] = k, c16short(fmt.Sprint(got[k])), c16short(fmt.Sprint(v))
				r.Violate(Violation{Key: "decode-field-" + k, What: "decoded field " + k + " differs between DeserializeCompiledTemplate and the model on " + kind + " input",
					Broken: "correspondence codec_decode (TwigModel.Codec.decode vs compiled.go)", Replay: replay})
				return
			}
		}
	}
}

// ---- generators ----------------------------------------------------------------------------------

var c16Stamps = []int64{0, 1, -1, math.MinInt64, math.MaxInt64, math.MinInt64 + 1, 1 << 31, -(1 << 31), 1 << 32, 0x0102030405060708,
	-0x0102030405060708, 255, 256, 1790000000}

func c16Stamp(r *rand.Rand) int64 {
	if r.Intn(3) == 0 {
		return int64(r.Uint64())
	}
	return c16Stamps[r.Intn(len(c16Stamps))]
}

func c16Bytes(r *rand.Rand, n int) []byte {
	out := make([]byte, n)
	switch r.Intn(5) {
	case 0: // ascii template-like
		const al = "ab {}%#-|.<>&\"'\n"
		for i := range out {
			out[i] = al[r.Intn(len(al))]
		}
	case 1: // arbitrary binary
		r.Read(out)
	case 2: // invalid UTF-8 heavy
		for i := range out {
			out[i] = byte(0x80 + r.Intn(0x80))
		}
	case 3: // zeros and 0x01 (version byte look-alikes)
		for i := range out {
			out[i] = byte(r.Intn(2))
		}
	default: // valid multi-byte UTF-8
		var sb strings.Builder
		for sb.Len() < n {
			sb.WriteString(litAlphabet[r.Intn(len(litAlphabet))])
		}
		copy(out, sb.String())
	}
	return out
}

var c16SmallSizes = []int{0, 0, 1, 2, 3, 5, 8, 13, 21, 36, 42, 63}
var c16EdgeSizes = []int{255, 256, 257, 292, 298}
var c16Edge64K = []int{65535, 65536, 65537}
var c16BigSizes = []int{1<<20 - 1, 1 << 20, 1<<20 + 1}

func c16Size(r *rand.Rand, edge bool) int {
	if edge && r.Intn(5) == 0 {
		return c16EdgeSizes[r.Intn(len(c16EdgeSizes))]
	}
	if edge && r.Intn(60) == 0 {
		return c16Edge64K[r.Intn(len(c16Edge64K))]
	}
	return c16SmallSizes[r.Intn(len(c16SmallSizes))]
}

func c16Gen(r *rand.Rand, edge bool) c16Case {
	return c16Case{Name: string(c16Bytes(r, c16Size(r, edge))), Source: string(c16Bytes(r, c16Size(r, edge))),
		LM: c16Stamp(r), CT: c16Stamp(r), AST: c16Bytes(r, c16Size(r, edge))}
}

// ---- (a)+(b) on one case -------------------------------------------------------------------------

// c16Container runs encode comparison, round trip, truncations, mutations and junk on one value.
// full=false limits the decode variants (large values).
func c16Container(e *Env, c c16Case, full bool, tag string) error {
	r := e.Rep
	data, pn, err := c16GoEncode(c.tpl())
	if pn != "" || err != nil {
		r.Violate(Violation{Key: "encode-fails", What: "SerializeCompiledTemplate failed: " + pn + fmt.Sprint(err),
			Broken: "correspondence codec_encode (encode is total)", Replay: c.replay()})
		return nil
	}
	nontrivial := len(c.Name)+len(c.Source)+len(c.AST) > 0
	r.Seen(tag+string(data), nontrivial)
	r.Hit(fmt.Sprintf("sizes:name<%d,source<%d,ast<%d", c16Bucket(len(c.Name)), c16Bucket(len(c.Source)), c16Bucket(len(c.AST))))
	// (a) byte-for-byte against the model
	if e.Model != nil {
		mh, err := c16ModelEncode(e.Model, c)
		if err != nil {
			return err
		}
		r.Compared++
		if mh != hex.EncodeToString(data) {
			rp := c.replay()
			rp["kind"], rp["impl_hex"], rp["model_hex"] = "encode", c16short(hex.EncodeToString(data)), c16short(mh)
			r.Violate(Violation{Key: "encode-bytes", What: "SerializeCompiledTemplate and Codec.encode produce different bytes",
				Broken: "correspondence codec_encode (TwigModel.Codec.encode vs compiled.go SerializeCompiledTemplate)", Replay: rp})
			return nil
		}
	}
	// implementation-only: round trip reproduces all five fields
	g := c16GoDecode(data)
	if !g.OK || g.C.Name != c.Name || g.C.Source != c.Source || g.C.LastModified != c.LM || g.C.CompileTime != c.CT || !bytes.Equal(g.C.AST, c.AST) {
		rp := c.replay()
		rp["kind"], rp["impl_err"], rp["panic"] = "roundtrip", g.Err, g.Panic
		if g.OK {
			rp["decoded"] = c16Fields(g.C)
		}
		r.Violate(Violation{Key: "roundtrip", What: "Deserialize(Serialize(c)) ≠ c", Broken: "theorem C16_roundtrip no longer describes the code (implementation-only oracle)", Replay: rp})
		return nil
	}
	// (b) inputs for the decoder
	type in struct {
		d    []byte
		kind string
	}
	digest := len(data) > 4096
	junk := c16Bytes(e.Rng, 1+e.Rng.Intn(9))
	var cuts []int
	if full && len(data) <= 400 {
		for k := 0; k < len(data); k++ {
			cuts = append(cuts, k)
		}
	} else {
		// field boundaries ±1 and a few random cuts
		bs := []int{0, 1, 2, 4, 5, 5 + len(c.Name), 9 + len(c.Name), 9 + len(c.Name) + len(c.Source), 17 + len(c.Name) + len(c.Source),
			25 + len(c.Name) + len(c.Source), 29 + len(c.Name) + len(c.Source), len(data) - 1}
		seen := map[int]bool{}
		around := []int{-1, 0, 1}
		if len(data) > 200000 {
			around = []int{0}
		}
		for _, b0 := range bs {
			for _, d := range around {
				k := b0 + d
				if k >= 0 && k < len(data) && !seen[k] {
					seen[k] = true
					cuts = append(cuts, k)
				}
			}
		}
		for i := 0; i < 4; i++ {
			if k := e.Rng.Intn(len(data)); !seen[k] {
				seen[k] = true
				cuts = append(cuts, k)
			}
		}
	}
	// one-byte mutations
	nmut := len(data)
	if !full || nmut > 400 {
		nmut = 16
		if len(data) > 200000 {
			nmut = 6
		}
	}
	var muts []c16Mut
	for i := 0; i < nmut; i++ {
		pos := i
		if nmut != len(data) {
			if i < 8 {
				pos = e.Rng.Intn(min(len(data), 30+len(c.Name))) // the header region
			} else {
				pos = e.Rng.Intn(len(data))
			}
		}
		var nb byte
		switch e.Rng.Intn(4) {
		case 0:
			nb = data[pos] + 1
		case 1:
			nb = data[pos] ^ byte(1<<uint(e.Rng.Intn(8)))
		case 2:
			nb = data[pos] - 1
		default:
			nb = byte(e.Rng.Intn(256))
			if nb == data[pos] {
				nb ^= 0x80
			}
		}
		muts = append(muts, c16Mut{pos, nb})
	}
	var ins []in
	for _, k := range cuts {
		ins = append(ins, in{data[:k], "truncated"})
	}
	for _, m := range muts {
		d := append([]byte{}, data...)
		d[m.Pos] = m.Val
		ins = append(ins, in{d, "mutated"})
	}
	ins = append(ins, in{append(append([]byte{}, data...), junk...), "valid+junk"})
	var mres []map[string]any
	if e.Model != nil {
		var err error
		mres, err = c16ModelVariants(e.Model, data, cuts, muts, junk, digest)
		if err != nil {
			return err
		}
		// the unmodified encoding
		one, err := c16ModelVariants(e.Model, data, []int{len(data)}, nil, nil, digest)
		if err != nil {
			return err
		}
		mres = append(mres, one[0])
	}
	ins = append(ins, in{data, "valid"})
	for i, x := range ins {
		var mr map[string]any
		if mres != nil {
			mr = mres[i]
		}
		c16Check(e, x.d, mr, x.kind, digest)
		// implementation-only: a strict prefix of a valid encoding is never accepted
		if x.kind == "truncated" && c16MaxClaim(x.d) <= c16ClaimCap {
			if g := c16GoDecode(x.d); g.OK {
				rp := c.replay()
				rp["kind"], rp["cut"], rp["data_hex"], rp["accepted_as"] = "truncation", len(x.d), c16short(hex.EncodeToString(x.d)), c16Fields(g.C)
				r.Violate(Violation{Key: "truncated-accepted-as-empty", What: "a strict prefix (≥ 2 bytes) of a serialised template is accepted by DeserializeCompiledTemplate as a template with empty name and source (legacy gob fallback; name length ≡ 36 or 42 mod 256)",
					Broken: "theorem C16_prefix_rejected no longer describes the code (implementation-only oracle; pinned-tree defect, see C16_pinned_counterexample_prefix_gob)", Replay: rp})
			}
		}
		if r.Full() {
			return nil
		}
	}
	return nil
}

func c16Bucket(n int) int {
	for _, b := range []int{1, 64, 256, 65536, 1 << 20} {
		if n < b {
			return b
		}
	}
	return 1 << 30
}

// ---- gob facts -----------------------------------------------------------------------------------

// c16GobFacts checks the model's only assumption about encoding/gob: on input 0x01 x t the legacy decoder
// answers exactly as gobOnV1 x, whatever t; on the single byte 0x01 it fails.
func c16GobFacts(e *Env) error {
	r := e.Rep
	tails := [][]byte{{}, {0}, {0, 0}, {0, 0, 0}, {1, 0, 0, 0, 0, 0, 0}, {0xff, 0xff, 0xff, 0x7f}, []byte("\x00\x00\x00aaaaaaaaaaaaaaaaaaaaaaaaaaaaaaaaaaaaaaaa")}
	for i := 0; i < 3; i++ {
		tails = append(tails, append([]byte{0, 0, 0}, c16Bytes(e.Rng, 1+e.Rng.Intn(300))...))
	}
	var datas [][]byte
	datas = append(datas, []byte{1})
	for x := 0; x < 256; x++ {
		for _, t := range tails {
			datas = append(datas, append([]byte{1, byte(x)}, t...))
		}
	}
	var mres, facts []map[string]any
	if e.Model != nil {
		var err error
		if mres, err = c16ModelDecodeBatch(e.Model, datas); err != nil {
			return err
		}
		// the table itself (GobFacts speaks about encoding/gob, whatever the dispatch in effect)
		saved := c16Fb
		yes := true
		c16Fb = &yes
		facts, err = c16ModelDecodeBatch(e.Model, datas)
		c16Fb = saved
		if err != nil {
			return err
		}
	}
	for i, d := range datas {
		// the harness's own gob decoder must agree with the model's table where the binary decoder fails
		if facts != nil && facts[i]["bin"] != "ok" {
			_, gok := c16GobDecode(d)
			want := facts[i]["gob"] == "accept-empty"
			if gok != want {
				r.Violate(Violation{Key: "gob-facts", What: fmt.Sprintf("encoding/gob accepts=%v on % x… but GobFacts says %v", gok, d[:min(len(d), 6)], want),
					Broken: "FACT Codec.gobOnV1 / GobFacts (hypothesis of C16_pinned_prefix_rejected_partial)", Replay: map[string]any{"kind": "gob-facts", "data_hex": hex.EncodeToString(d)}})
			}
		}
		var mr map[string]any
		if mres != nil {
			mr = mres[i]
		}
		c16Check(e, d, mr, "v1-prefix")
		r.Seen("g:"+string(d), true)
	}
	return nil
}

// ---- allocation oracle ---------------------------------------------------------------------------

// c16AllocOracle: decoding n bytes must not allocate memory out of proportion to n. Measured on inputs whose
// length prefix claims 64 MiB (name, source, AST positions) while the input has a handful of bytes.
func c16AllocOracle(e *Env) {
	bounded := true
	r := e.Rep
	le := func(n uint32) []byte { return binary.LittleEndian.AppendUint32(nil, n) }
	cases := map[string][]byte{
		"name":   append([]byte{1}, le(64<<20)...),
		"source": append(append([]byte{1}, le(0)...), le(64<<20)...),
		"ast":    append(append(append(append([]byte{1}, le(0)...), le(0)...), make([]byte, 16)...), le(64<<20)...),
	}
	for _, field := range []string{"name", "source", "ast"} {
		d := cases[field]
		var m0, m1 runtime.MemStats
		runtime.GC()
		runtime.ReadMemStats(&m0)
		g := c16GoDecode(d)
		runtime.ReadMemStats(&m1)
		delta := m1.TotalAlloc - m0.TotalAlloc
		r.Seen("alloc:"+field, true)
		r.Hit("alloc-oracle:" + field)
		if g.OK || g.Panic != "" {
			r.Violate(Violation{Key: "alloc-case-accepted", What: "truncated input with a 64 MiB length prefix was not rejected cleanly: " + g.Panic,
				Broken: "C16_decode_total", Replay: map[string]any{"kind": "alloc", "data_hex": hex.EncodeToString(d)}})
			continue
		}
		if delta > uint64(len(d))*64+(4<<20) {
			bounded = false
			r.Violate(Violation{Key: "alloc-unchecked-length-prefix",
				What:   "DeserializeCompiledTemplate allocates the full claimed length (64 MiB here) to reject an input of a few bytes: length prefixes are passed to make() unchecked; a prefix of ff ff ff ff costs 4 GiB and minutes",
				Broken: "theorem C16_alloc_bounded no longer describes the code (implementation-only oracle; pinned-tree defect, see C16_pinned_counterexample_alloc; C05 mechanism \"deserialisation validates lengths against the remaining input\")",
				Replay: map[string]any{"kind": "alloc", "field": field, "data_hex": hex.EncodeToString(d), "allocated_bytes": delta}})
		}
	}
	debug.FreeOSMemory()
	if bounded {
		c16ClaimCap = math.MaxUint64
		r.Note("allocation bounded by input: huge length prefixes are run in-process")
	} else {
		c16ClaimCap = 8 << 20
	}
}

// ---- (c) end to end ------------------------------------------------------------------------------

type c16Site struct {
	tpls    map[string]string // file-safe names
	entries []string          // templates that are rendered
}

func c16HandSites() []c16Site {
	big := strings.Repeat("lorem <b>ipsum</b> {{ a }} ", 3000) // > 64 KiB
	return []c16Site{
		{map[string]string{"main": "Hello {{ name }}! {% if t %}yes{% else %}no{% endif %} {% for i in xs %}[{{ loop.index }}:{{ i }}]{% endfor %}{% set q = c + 1 %}{{ q }}"}, []string{"main"}},
		{map[string]string{"main": "A{% include 'part' %}B{% include 'part' with {'a': 'inner'} %}C", "part": "<p>{{ a }}|{{ c }}</p>"}, []string{"main", "part"}},
		{map[string]string{"macros": "{% macro input(name, value) %}<input name=\"{{ name }}\" value=\"{{ value }}\">{% endmacro %}{% macro wrap(x) %}[{{ x|upper }}]{% endmacro %}",
			"main": "{% import 'macros' as m %}{{ m.input('a', a) }}{{ m.wrap(b) }}", "from": "{% from 'macros' import wrap %}{{ wrap(name) }}",
			"self": "{% macro twice(x) %}{{ x }}{{ x }}{% endmacro %}{{ _self.twice(c) }}"}, []string{"main", "from", "self"}},
		{map[string]string{"layout": "<html>{% block head %}H{% endblock %}|{% block body %}default {{ a }}{% endblock %}</html>",
			"child": "{% extends 'layout' %}{% block body %}child {{ name }} {{ parent() }}{% endblock %}"}, []string{"layout", "child"}},
		{map[string]string{"empty": "", "text": "just text \x00\xff\xc3 é世😀 { } % #", "ws": "a  {{- a -}}  b {%- if t -%} c {%- endif -%} d",
			"verb": "{% verbatim %}{{ a }}{% endverbatim %}{# gone #}x", "big": big, "esc": "{{ name|e }}{{ name|escape }}{{ name|raw }}{{ name }}"},
			[]string{"empty", "text", "ws", "verb", "big", "esc"}},
		// names that differ only by an extension, a repeated extension or the loader's own suffix: each keeps its own file
		{map[string]string{"card": "<div>{{ name|upper }}</div>", "card.twig": "{% if name %}<section>{{ name }}</section>{% endif %}", "card.twig.twig": "tt {{ a }}",
			"card.compiled": "cc {{ c }}", "card.html": "<b>{{ a }}</b>", "card.html.twig": "<i>{{ a }}</i>", "mail.txt": "Dear {{ name }},", "Card": "upper-case {{ name }}", "card.": "dot {{ c }}", "card.twig.compiled": "tc {{ b }}"},
			[]string{"card", "card.twig", "card.twig.twig", "card.compiled", "card.html", "card.html.twig", "mail.txt", "Card", "card.", "card.twig.compiled"}},
	}
}

var c16PieceAlts = []func(r *rand.Rand) string{
	func(r *rand.Rand) string { return genLit(r, 12) },
	func(r *rand.Rand) string {
		return "{{ " + pick(r, []string{"a", "c", "name", "name|upper", "c + 1", "xs|length", "a ~ b ~ c", "m.k", "name|e", "xs|join(',')", "c * 2 - 1", "b|default('dflt')"}) + " }}"
	},
	func(r *rand.Rand) string { return "{# " + strings.ReplaceAll(genLit(r, 8), "#}", "") + " #}" },
	func(r *rand.Rand) string {
		return "{% if " + pick(r, []string{"t", "b", "c > 2", "not t", "a == 'x'", "xs"}) + " %}yes" + genLit(r, 4) + "{% else %}no{% endif %}"
	},
	func(r *rand.Rand) string { return "{% for i in xs %}[{{ i }}:{{ loop.index }}]{% endfor %}" },
	func(r *rand.Rand) string { return "{% set q = 'z' ~ c %}{{ q }}" },
	func(r *rand.Rand) string { return "{% for k in [] %}x{% else %}empty{% endfor %}" },
	func(r *rand.Rand) string { return "{% include 'part' %}" },
	func(r *rand.Rand) string {
		return "{% import 'macros' as mm %}{{ mm.show(" + pick(r, []string{"a", "c", "name", "'lit'"}) + ") }}"
	},
	func(r *rand.Rand) string { return "{% for k, v in m %}{{ k }}={{ v }};{% endfor %}" },
}

func c16GenSite(r *rand.Rand) c16Site {
	gen := func(allowRefs bool) string {
		var sb strings.Builder
		n := 1 + r.Intn(6)
		for i := 0; i < n; i++ {
			k := r.Intn(len(c16PieceAlts))
			if !allowRefs && (k == 7 || k == 8) {
				k = 1
			}
			sb.WriteString(c16PieceAlts[k](r))
		}
		return sb.String()
	}
	return c16Site{map[string]string{"main": gen(true), "part": gen(false),
		"macros": "{% macro show(v) %}<" + gen(false) + "{{ v }}>{% endmacro %}"}, []string{"main", "part"}}
}

func c16Ctx(r *rand.Rand) map[string]any {
	str := func() string { return genLit(r, 8) }
	xs := make([]any, r.Intn(4))
	for i := range xs {
		switch r.Intn(3) {
		case 0:
			xs[i] = str()
		case 1:
			xs[i] = r.Intn(100) - 50
		default:
			xs[i] = r.Intn(2) == 0
		}
	}
	return map[string]any{"a": str(), "b": pick(r, []string{"", "x", "<&>"}), "c": r.Intn(7) - 2, "xs": xs, "t": r.Intn(2) == 0,
		"name": pick(r, []string{"<n&m>", "World", "", "é\"'"}), "m": map[string]any{"k": str(), "z": r.Intn(9)}}
}

type c16Render struct {
	out, err, pn string
}

func c16RenderOn(eng *twig.Engine, name string, ctx map[string]any) c16Render {
	res := guarded(func() (string, error) { return eng.Render(name, ctx) })
	x := c16Render{out: res.Out, pn: res.Panic}
	if res.Class == "timeout" {
		x.pn = "timeout"
	}
	if res.Err != nil {
		x.err = res.Err.Error()
	}
	return x
}

// c16EndToEnd compiles every template of a site on the source engine and loads the results on fresh
// engines through every public route, then renders the entries on the same contexts everywhere.
func c16EndToEnd(e *Env, site c16Site, astConst []byte, nctx int, tag string) {
	r := e.Rep
	viol := func(key, what string, extra map[string]any) {
		rp := map[string]any{"kind": "end-to-end", "site": site.tpls}
		for k, v := range extra {
			rp[k] = v
		}
		r.Violate(Violation{Key: key, What: what, Broken: "C16_load_equiv / C16_load_is_original no longer describe the code (implementation-only oracle: compiled ≡ source)", Replay: rp})
	}
	src, err := newEngine(site.tpls)
	if err != nil {
		r.Skip("site does not parse: " + truncate(err.Error(), 60))
		return
	}
	names := sortedKeys(site.tpls)
	eng2, eng3 := twig.New(), twig.New() // RegisterCompiledTemplate, LoadFromCompiledData
	dir, err := os.MkdirTemp("", "c16-compiled-")
	if err != nil {
		viol("tempdir", "cannot create temp dir: "+err.Error(), nil)
		return
	}
	defer os.RemoveAll(dir)
	saver := twig.NewCompiledLoader(dir)
	compiled := map[string]*twig.CompiledTemplate{}
	ok := true
	step := func(name, what string, f func() error) {
		if !ok {
			return
		}
		res := guarded(func() (string, error) { return "", f() })
		if res.Class == "panic" || res.Class == "timeout" || res.Err != nil {
			ok = false
			viol("e2e-step-"+what, fmt.Sprintf("%s failed for template %q: %v %s", what, name, res.Err, res.Panic), map[string]any{"template": name})
		}
	}
	for _, name := range names {
		name := name
		var c, c2 *twig.CompiledTemplate
		var data []byte
		step(name, "compile", func() error {
			t, err := src.Load(name)
			if err != nil {
				return err
			}
			c, err = t.Compile()
			return err
		})
		if !ok {
			return
		}
		if c.Name != name || c.Source != site.tpls[name] {
			viol("compile-fields", "CompileTemplate stored a different name or source", map[string]any{"template": name, "got": c16Fields(c)})
			return
		}
		// FACT "the stored AST never decodes": it is the same short type descriptor for every template
		if !bytes.Equal(c.AST, astConst) || len(c.AST) > 64 {
			viol("ast-const", "CompileTemplate stored an AST that depends on the template (expected the bare RootNode type descriptor)", map[string]any{"template": name, "ast_hex": hex.EncodeToString(c.AST), "expected_hex": hex.EncodeToString(astConst)})
		}
		var node twig.Node
		if derr := func() (err error) {
			defer func() {
				if p := recover(); p != nil {
					err = fmt.Errorf("panic: %v", p)
				}
			}()
			return gob.NewDecoder(bytes.NewReader(c.AST)).Decode(&node)
		}(); derr == nil && node != nil {
			r.Note("AST of " + name + " decodes: hypothesis hast of C16_load_equiv does not hold for it (AST route is live)")
			r.Hit("ast-decodes")
		} else {
			r.Hit("ast-does-not-decode")
		}
		step(name, "serialize", func() error {
			var err error
			data, err = twig.SerializeCompiledTemplate(c)
			return err
		})
		step(name, "deserialize", func() error {
			var err error
			c2, err = twig.DeserializeCompiledTemplate(data)
			return err
		})
		if !ok {
			return
		}
		if c2.Name != c.Name || c2.Source != c.Source || c2.LastModified != c.LastModified || c2.CompileTime != c.CompileTime || !bytes.Equal(c2.AST, c.AST) {
			viol("e2e-roundtrip", "fields differ after serialise/deserialise", map[string]any{"template": name, "before": c16Fields(c), "after": c16Fields(c2)})
			return
		}
		compiled[name] = c
		step(name, "RegisterCompiledTemplate", func() error { return eng2.RegisterCompiledTemplate(c2) })
		step(name, "LoadFromCompiledData", func() error { return eng3.LoadFromCompiledData(data) })
		step(name, "SaveCompiled(loader)", func() error { return saver.SaveCompiled(src, name) })
		// Template.SaveCompiled must agree with the explicit route except for the compile time
		step(name, "Template.SaveCompiled", func() error {
			t, _ := src.Load(name)
			d2, err := t.SaveCompiled()
			if err != nil {
				return err
			}
			c3, err := twig.DeserializeCompiledTemplate(d2)
			if err != nil {
				return err
			}
			if c3.Name != c.Name || c3.Source != c.Source || c3.LastModified != c.LastModified || !bytes.Equal(c3.AST, c.AST) || c3.CompileTime < c.CompileTime {
				return fmt.Errorf("Template.SaveCompiled differs from Compile+Serialize: %v vs %v", c16Fields(c3), c16Fields(c))
			}
			return nil
		})
		// the file written by the loader reads back as the same compiled template
		step(name, "read compiled file", func() error {
			fd, err := os.ReadFile(filepath.Join(dir, name+".twig.compiled"))
			if err != nil {
				return err
			}
			c4, err := twig.DeserializeCompiledTemplate(fd)
			if err != nil {
				return err
			}
			if c4.Name != c.Name || c4.Source != c.Source || c4.LastModified != c.LastModified || !bytes.Equal(c4.AST, c.AST) ||
				c4.CompileTime < c.CompileTime || c4.CompileTime > time.Now().Unix()+1 {
				return fmt.Errorf("file differs from compiled template: %v vs %v", c16Fields(c4), c16Fields(c))
			}
			return nil
		})
		if !ok {
			return
		}
	}
	eng4 := twig.New() // CompiledLoader as an ordinary loader
	eng4.RegisterLoader(twig.NewCompiledLoader(dir))
	eng5 := twig.New() // CompiledLoader.LoadAll
	step("*", "LoadAll", func() error { return twig.NewCompiledLoader(dir).LoadAll(eng5) })
	if !ok {
		return
	}
	// a template loaded from compiled data recompiles to the same name/source/lastModified
	for _, name := range names {
		for ri, eng := range []*twig.Engine{eng2, eng3} {
			t, err := eng.Load(name)
			if err != nil {
				viol("e2e-load", "template registered from compiled data cannot be loaded: "+err.Error(), map[string]any{"template": name, "route": ri})
				return
			}
			rc, err := t.Compile()
			c := compiled[name]
			if err != nil || rc.Name != c.Name || rc.Source != c.Source || !bytes.Equal(rc.AST, c.AST) || (c.LastModified != 0 && rc.LastModified != c.LastModified) {
				viol("e2e-recompile", "recompiling the loaded template gives different fields", map[string]any{"template": name, "route": ri, "before": c16Fields(c), "after": c16Fields(rc)})
				return
			}
		}
	}
	// the loader routes hand the engine the stored source itself: CompiledLoader.Load returns it byte for byte, and an
	// engine that reads the compiled files through the loader (Load, LoadCompiled, CompileTemplate; cache on or off)
	// holds — and recompiles to — exactly the source that was compiled (added after seeded change C16-O was missed:
	// the recompile check used to cover the in-memory routes only)
	eng10 := twig.New() // CompiledLoader as an ordinary loader, cache off: every render reads the file again
	eng10.SetCache(false)
	eng10.RegisterLoader(twig.NewCompiledLoader(dir))
	eng11 := twig.New() // LoadCompiled one by one
	reader := twig.NewCompiledLoader(dir)
	eng11.RegisterLoader(reader)
	for _, name := range names {
		name := name
		step(name, "LoadCompiled", func() error { return reader.LoadCompiled(eng11, name) })
	}
	if !ok {
		return
	}
	for _, name := range names {
		c := compiled[name]
		stored, err := reader.Load(name)
		if err != nil || stored != c.Source {
			viol("loader-source", "CompiledLoader.Load does not return the source that was compiled", map[string]any{"template": name, "source_hex": c16short(hx(c.Source)), "loaded_hex": c16short(hx(stored)), "err": fmt.Sprint(err)})
			return
		}
		for _, rt := range []struct {
			route string
			eng   *twig.Engine
		}{{"CompiledLoader", eng4}, {"CompiledLoader.LoadAll", eng5}, {"CompiledLoader-cache-off", eng10}, {"CompiledLoader.LoadCompiled", eng11}} {
			var rc *twig.CompiledTemplate
			res := guarded(func() (string, error) {
				var err error
				rc, err = rt.eng.CompileTemplate(name)
				return "", err
			})
			if res.Class == "panic" || res.Class == "timeout" || res.Err != nil || rc == nil {
				viol("e2e-load", fmt.Sprintf("template read from its compiled file cannot be compiled again: %v %s", res.Err, res.Panic), map[string]any{"template": name, "route": rt.route})
				return
			}
			if rc.Name != c.Name || rc.Source != c.Source || !bytes.Equal(rc.AST, c.AST) {
				viol("e2e-recompile-"+rt.route, "an engine that read the compiled file through the loader holds a different name or source than the one that was compiled",
					map[string]any{"template": name, "route": rt.route, "source_hex": c16short(hx(c.Source)), "before": c16Fields(c), "after": c16Fields(rc)})
				break // the renders below show what the difference does to the output
			}
		}
	}
	// engines that are not fresh: an earlier release of every template is registered already; the cache is off;
	// development mode is on — the compiled data registered afterwards is what renders
	// eng12/eng13: the compiled snapshot carries an older timestamp than the release it replaces (LastModified 0 as from a
	// loader without timestamps; a day old) — whether that happens for eng6/eng9 depends on the wall clock crossing a second
	eng6, eng7, eng8, eng9, eng12, eng13 := twig.New(), twig.New(), twig.New(), twig.New(), twig.New(), twig.New()
	eng7.SetCache(false)
	eng8.SetDevelopmentMode(true)
	for _, name := range names {
		name := name
		step(name, "pre-register old release", func() error {
			if err := eng6.RegisterString(name, "OLD RELEASE of "+name); err != nil {
				return err
			}
			if _, err := eng6.Render(name, nil); err != nil {
				return err
			}
			if err := eng12.RegisterString(name, "OLD RELEASE of "+name); err != nil {
				return err
			}
			if _, err := eng12.Render(name, nil); err != nil {
				return err
			}
			if err := eng13.RegisterString(name, "OLD RELEASE of "+name); err != nil {
				return err
			}
			return eng9.RegisterString(name, "OLD RELEASE of "+name)
		})
	}
	for _, name := range names {
		name := name
		c := compiled[name]
		if c == nil {
			continue
		}
		data, _ := twig.SerializeCompiledTemplate(c)
		step(name, "RegisterCompiledTemplate over an old release", func() error { return eng6.RegisterCompiledTemplate(c) })
		step(name, "RegisterCompiledTemplate with the cache off", func() error { return eng7.RegisterCompiledTemplate(c) })
		step(name, "LoadFromCompiledData in development mode", func() error { return eng8.LoadFromCompiledData(data) })
		step(name, "LoadFromCompiledData over an old release", func() error { return eng9.LoadFromCompiledData(data) })
		unstamped, dayOld := *c, *c
		unstamped.LastModified = 0
		dayOld.LastModified = c.LastModified - 86400
		dayOldData, _ := twig.SerializeCompiledTemplate(&dayOld)
		step(name, "RegisterCompiledTemplate (LastModified 0) over a release registered later", func() error { return eng12.RegisterCompiledTemplate(&unstamped) })
		step(name, "LoadFromCompiledData (LastModified a day ago) over a release registered later", func() error { return eng13.LoadFromCompiledData(dayOldData) })
	}
	if !ok {
		return
	}
	routes := []struct {
		name string
		eng  *twig.Engine
	}{{"RegisterCompiledTemplate", eng2}, {"LoadFromCompiledData", eng3}, {"CompiledLoader", eng4}, {"CompiledLoader.LoadAll", eng5},
		{"CompiledLoader-cache-off", eng10}, {"CompiledLoader.LoadCompiled", eng11},
		{"RegisterCompiledTemplate-over-old-release", eng6}, {"RegisterCompiledTemplate-cache-off", eng7}, {"LoadFromCompiledData-development-mode", eng8}, {"LoadFromCompiledData-over-old-release", eng9},
		{"RegisterCompiledTemplate-unstamped-over-later-release", eng12}, {"LoadFromCompiledData-day-old-over-later-release", eng13}}
	for i := 0; i < nctx; i++ {
		ctx := c16Ctx(e.Rng)
		for _, entry := range site.entries {
			want := c16RenderOn(src, entry, ctx)
			if want.pn != "" {
				r.Skip("source render panics/hangs (C05, not C16)")
				continue
			}
			r.Seen(tag+entry+"\x00"+site.tpls[entry]+"\x00"+fmt.Sprint(ctx), want.out != "")
			if want.err != "" {
				r.Hit("e2e:source-render-error")
			} else {
				r.Hit("e2e:source-render-ok")
			}
			// direct computation: a source without any "{" is text and renders as itself, byte for byte
			verbatim := !strings.Contains(site.tpls[entry], "{")
			if verbatim && (want.err != "" || want.out != site.tpls[entry]) {
				viol("text-source-not-verbatim", fmt.Sprintf("template %q has no tag at all but the source engine does not render it as itself", entry),
					map[string]any{"entry": entry, "entry_source_hex": c16short(hx(site.tpls[entry])), "source_out_hex": c16short(hx(want.out)), "source_err": want.err})
				return
			}
			for _, rt := range routes {
				got := c16RenderOn(rt.eng, entry, ctx)
				if got != want {
					viol("e2e-render-"+rt.name, fmt.Sprintf("template %q loaded through %s renders differently from its source", entry, rt.name),
						map[string]any{"entry": entry, "route": rt.name, "entry_source_hex": c16short(hx(site.tpls[entry])), "context": fmt.Sprint(ctx), "source_out_hex": c16short(hx(want.out)), "source_err": want.err,
							"compiled_out_hex": c16short(hx(got.out)), "compiled_err": got.err, "compiled_panic": got.pn})
					return
				}
			}
			// and the source engine again (compiling must not have disturbed it)
			if again := c16RenderOn(src, entry, ctx); again != want {
				viol("e2e-source-disturbed", "the source engine renders differently after its templates were compiled", map[string]any{"entry": entry})
				return
			}
		}
	}
}

// c16ParseEquiv: a source that does not parse must be refused by the compiled routes too, one that parses
// must load; crafted AST bytes must not change what is rendered.
func c16ParseEquiv(e *Env, src string, ast []byte) {
	r := e.Rep
	e1 := twig.New()
	res1 := guarded(func() (string, error) { return "", e1.RegisterString("t", src) })
	if res1.Class == "panic" || res1.Class == "timeout" {
		r.Skip("RegisterString panics/hangs on raw source (C05, not C16)")
		return
	}
	data, _, err := c16GoEncode(&twig.CompiledTemplate{Name: "t", Source: src, LastModified: 5, CompileTime: 6, AST: ast})
	if err != nil {
		return
	}
	e2 := twig.New()
	res2 := guarded(func() (string, error) { return "", e2.LoadFromCompiledData(data) })
	r.Seen("p:"+src+"\x00"+string(ast), strings.Contains(src, "{"))
	rp := map[string]any{"kind": "parse-equiv", "source_hex": hx(src), "ast_hex": hex.EncodeToString(ast), "source_err": fmt.Sprint(res1.Err), "compiled_err": fmt.Sprint(res2.Err), "compiled_panic": res2.Panic}
	if res2.Class == "panic" || res2.Class == "timeout" {
		r.Violate(Violation{Key: "load-panic", What: "LoadFromCompiledData panicked or hung", Broken: "C16_decode_total / C05", Replay: rp})
		return
	}
	if (res1.Err == nil) != (res2.Err == nil) {
		r.Violate(Violation{Key: "parse-equiv", What: "source and compiled form disagree on whether the template parses", Broken: "C16_load_equiv (loading re-parses the stored source)", Replay: rp})
		return
	}
	if res1.Err != nil {
		r.Hit("parse-equiv:both-reject")
		return
	}
	r.Hit("parse-equiv:both-accept")
	ctx := c16Ctx(e.Rng)
	a, b2 := c16RenderOn(e1, "t", ctx), c16RenderOn(e2, "t", ctx)
	if a.pn == "" && a != b2 {
		rp["context"], rp["source_out_hex"], rp["compiled_out_hex"], rp["source_render_err"], rp["compiled_render_err"] = fmt.Sprint(ctx), hx(a.out), hx(b2.out), a.err, b2.err
		r.Violate(Violation{Key: "parse-equiv-render", What: "compiled form (with crafted AST bytes) renders differently from the source", Broken: "C16_load_equiv hypothesis hast (the stored AST never decodes)", Replay: rp})
	}
}

func c16AstOfThisProcess() []byte {
	e := twig.New()
	if err := e.RegisterString("probe", "x{{ y }}"); err != nil {
		return nil
	}
	t, err := e.Load("probe")
	if err != nil {
		return nil
	}
	c, err := t.Compile()
	if err != nil {
		return nil
	}
	return c.AST
}

// ---- runner --------------------------------------------------------------------------------------

func runC16(e *Env) error {
	r := e.Rep
	r.Rule = "(a) SerializeCompiledTemplate vs Codec.encode byte for byte on random (name, source, lastModified, compileTime, ast): contents ascii/binary/invalid-UTF-8/zeros/multi-byte, " +
		"sizes 0..63, 255..257, 65535..65537, 2^20±1, timestamps incl. min/max/negative; (b) DeserializeCompiledTemplate vs Codec.decode on each valid encoding, with junk appended, " +
		"every truncation (encodings ≤ 400 bytes; field boundaries ±1 otherwise) and one-byte mutations (every position for ≤ 400 bytes), plus all 256 second bytes after 0x01 (GobFacts) and legacy gob streams; " +
		"(c) handwritten and generated sites (text, print, if, for, set, include, macros/import/from/_self, extends/blocks, verbatim, whitespace control, 80 KiB) compiled → serialised → deserialised → " +
		"loaded on fresh engines via RegisterCompiledTemplate, LoadFromCompiledData, CompiledLoader (temp dir; cache on/off), LoadCompiled and LoadAll, rendered on random contexts against the source engine, recompiled on every route; " +
		"source edges: 42 byte sequences (byte order marks, line ends, white space, NUL, DOS EOF, invalid/denormalised UTF-8, lone tag characters) at head, tail, both ends, middle, second line and alone around text/print/tag bodies through all routes; raw/broken sources and crafted AST bytes; " +
		"compiled-directory histories: one compiled file written again and again (every ordered pair of 7 releases stamped by older/newer/equal/future source mtime, ArrayLoader, RegisterString; removed and rewritten) by the observing loader, another instance, a throw-away instance or a file copy, " +
		"asked before and after every write by 2-3 loader instances and engines (cached, auto-reload, development mode, cache off, before a fallback loader) against the source of what is on disk. " +
		"non-trivial = some field non-empty (a,b) / source output non-empty (c); distinct by encoding resp. (template, context)"
	// what CompileTemplate stores as AST in this process (a gob type descriptor; see Codec.astExample)
	astConst := c16AstOfThisProcess()
	phase := time.Now()
	lap := func(name string) {
		r.Note(fmt.Sprintf("phase %s: %.1fs", name, time.Since(phase).Seconds()))
		phase = time.Now()
	}

	c16AllocOracle(e)
	c16Sequences(e)
	// FACT gobFallbackOnV1: does the code hand inputs that start with the version byte to the gob decoder?
	c16Fb = nil
	if v := os.Getenv("C16_FALLBACK_V1"); v != "" {
		b := v == "1"
		c16Fb = &b
		r.Note("C16_FALLBACK_V1 override in effect: model runs with gobFallbackOnV1 = " + fmt.Sprint(b))
	}
	implFb := c16GoDecode([]byte{1, 0x24}).OK
	if e.Model != nil {
		resp, err := e.Model.Call(map[string]any{"op": "codec_facts"})
		if err != nil {
			return err
		}
		modelChk, _ := resp["length_checked_before_alloc"].(bool)
		if modelChk != (c16ClaimCap == math.MaxUint64) {
			r.Violate(Violation{Key: "fact-length-checked-before-alloc", What: fmt.Sprintf("FACT Codec.lengthCheckedBeforeAlloc = %v but the allocation oracle observed bounded = %v", modelChk, c16ClaimCap == math.MaxUint64),
				Broken: "FACT lengthCheckedBeforeAlloc (hypothesis of C16_alloc_bounded)", Replay: map[string]any{"kind": "fact", "data_hex": "0100000004"}})
		}
		modelFb, _ := resp["gob_fallback_on_v1"].(bool)
		if c16Fb != nil {
			modelFb = *c16Fb
		}
		if modelFb != implFb {
			r.Violate(Violation{Key: "fact-gob-fallback-v1", What: fmt.Sprintf("FACT Codec.gobFallbackOnV1 = %v but DeserializeCompiledTemplate([01 24]) accepted = %v", modelFb, implFb),
				Broken: "FACT gobFallbackOnV1 (selects decode vs decodePinned; hypothesis of C16_prefix_rejected)", Replay: map[string]any{"kind": "fact", "data_hex": "0124"}})
		}
	}
	r.Note(fmt.Sprintf("dispatch observed: gob fallback on inputs starting with 0x01 = %v", implFb))

	// ---- regression corpus (fixed cases first) ----
	fixed := []c16Case{
		{},
		{Name: "t0", Source: "hello", LM: 1790781088, CT: 1790781088, AST: astConst},
		{Name: "\xff\x00\xc3", Source: "", LM: math.MinInt64, CT: math.MaxInt64, AST: []byte{0x80}},
		{Name: "", Source: "\x01\x01\x01\x01\x01", LM: -1, CT: 0, AST: nil},
		{Name: strings.Repeat("a", 36), Source: "{{ x }}", LM: 1, CT: 2, AST: astConst}, // C16_pinned_counterexample_prefix_gob (pinned-tree regression)
		{Name: strings.Repeat("n", 42), Source: "s", LM: 1, CT: 2},
		{Name: strings.Repeat("n", 292), Source: "s", LM: 1, CT: 2}, // 292 = 256+36
		{Name: strings.Repeat("n", 255), Source: strings.Repeat("s", 256), LM: 3, CT: 4, AST: bytes.Repeat([]byte{7}, 257)},
	}
	for i, c := range fixed {
		if err := c16Container(e, c, true, fmt.Sprintf("fix%d:", i)); err != nil {
			return err
		}
	}
	r.Sample(map[string]any{"kind": "container", "case": fixed[2].replay()})
	if err := c16GobFacts(e); err != nil {
		return err
	}
	// legacy gob streams: accepted through the fallback; the model calls them opaque
	for i := 0; i < 6; i++ {
		c := c16Gen(e.Rng, false)
		var buf bytes.Buffer
		gob.NewEncoder(&buf).Encode(c16GobMirror{c.Name, c.Source, c.LM, c.CT, c.AST})
		d := buf.Bytes()
		var mr map[string]any
		if e.Model != nil {
			ms, err := c16ModelDecodeBatch(e.Model, [][]byte{d})
			if err != nil {
				return err
			}
			mr = ms[0]
		}
		c16Check(e, d, mr, "legacy-gob")
		r.Seen("lg:"+string(d), true)
	}
	lap("regression corpus, gob facts, allocation oracle")
	if r.Full() {
		return nil
	}

	// ---- (a)+(b) random containers ----
	n := e.N(260, 6000)
	for i := 0; i < n && !r.Full(); i++ {
		c := c16Gen(e.Rng, true)
		if i < 2 {
			r.Sample(map[string]any{"kind": "container", "case": c.replay()})
		}
		full := len(c.Name)+len(c.Source)+len(c.AST) <= 371
		if err := c16Container(e, c, full, "r:"); err != nil {
			return err
		}
	}
	lap("random containers")
	// large values: one field at a time around 2^20 (and 2^24 / 64 MiB implementation-only in the thorough tier)
	for _, sz := range c16BigSizes {
		if r.Full() {
			break
		}
		which := e.Rng.Intn(3)
		c := c16Case{Name: "big", Source: "s", LM: c16Stamp(e.Rng), CT: c16Stamp(e.Rng), AST: []byte{1}}
		bs := c16Bytes(e.Rng, sz)
		switch which {
		case 0:
			c.Name = string(bs)
		case 1:
			c.Source = string(bs)
		default:
			c.AST = bs
		}
		if err := c16Container(e, c, false, "big:"); err != nil {
			return err
		}
	}
	if e.Thorough() {
		for _, sz := range []int{1 << 24, 64 << 20} {
			c := c16Case{Name: "huge", Source: string(c16Bytes(e.Rng, sz)), LM: 1, CT: 2, AST: []byte{1, 2, 3}}
			data, _, err := c16GoEncode(c.tpl())
			g := c16GoDecode(data)
			r.Seen(fmt.Sprintf("huge:%d", sz), true)
			r.Hit(fmt.Sprintf("impl-only-roundtrip:%dMiB", sz>>20))
			if err != nil || !g.OK || g.C.Source != c.Source || g.C.Name != c.Name || g.C.LastModified != 1 || g.C.CompileTime != 2 || !bytes.Equal(g.C.AST, c.AST) || len(data) != 29+4+sz+3 {
				r.Violate(Violation{Key: "roundtrip-huge", What: fmt.Sprintf("round trip of a %d MiB source fails", sz>>20), Broken: "C16_roundtrip (implementation-only oracle)", Replay: map[string]any{"kind": "huge", "size": sz, "seed": e.Seed}})
			}
		}
		debug.FreeOSMemory()
	}
	if r.Full() {
		return nil
	}

	lap("large containers")
	// ---- (c) end to end ----
	c16ConcurrentDecode(e)
	c16OddStamps(e)
	for i, s := range c16HandSites() {
		c16EndToEnd(e, s, astConst, e.N(4, 40), fmt.Sprintf("hand%d:", i))
		if i == 1 {
			r.Sample(map[string]any{"kind": "end-to-end", "site": s.tpls})
		}
	}
	c16SourceEdges(e, astConst)
	lap("end to end: hand sites, source edges")
	c16DirHistories(e)
	lap("compiled-directory histories")
	ns := e.N(250, 4000)
	for i := 0; i < ns && !r.Full(); i++ {
		s := c16GenSite(e.Rng)
		if i%3 == 2 {
			s = c16MarkSite(e.Rng, s)
		}
		if i == 0 {
			r.Sample(map[string]any{"kind": "end-to-end", "site": s.tpls})
		}
		c16EndToEnd(e, s, astConst, e.N(3, 6), "gen:")
	}
	np := e.N(1500, 30000)
	for i := 0; i < np && !r.Full(); i++ {
		var src string
		switch e.Rng.Intn(3) {
		case 0:
			src = genRaw(e.Rng, 30)
		case 1:
			src = c16PieceAlts[e.Rng.Intn(7)](e.Rng) + genRaw(e.Rng, 10) + c16PieceAlts[e.Rng.Intn(7)](e.Rng)
		default:
			s := c16GenSite(e.Rng)
			src = s.tpls["part"]
		}
		var ast []byte
		switch e.Rng.Intn(4) {
		case 0:
			ast = astConst
		case 1:
			ast = c16Bytes(e.Rng, e.Rng.Intn(40))
		case 2:
			if len(astConst) > 0 {
				ast = append([]byte{}, astConst...)
				ast[e.Rng.Intn(len(ast))] ^= byte(1 << uint(e.Rng.Intn(8)))
			}
		}
		c16ParseEquiv(e, src, ast)
	}
	lap("end to end")
	return nil
}

// c16ConcurrentDecode: several goroutines serialise, deserialise and load compiled templates of different shapes at the
// same time (a deployment that warms several engines at once): every call returns its own template's fields.
func c16ConcurrentDecode(e *Env) {
	r := e.Rep
	type blob struct {
		name, src string
		data      []byte
	}
	var blobs []blob
	for i := 0; i < 12; i++ {
		name := strings.Repeat("n", 1+i*7) + fmt.Sprint(i)
		src := fmt.Sprintf("T%d {{ v }} ", i) + strings.Repeat("x", i*i*37)
		eng := twig.New()
		if err := eng.RegisterString(name, src); err != nil {
			return
		}
		ct, err := eng.CompileTemplate(name)
		if err != nil {
			return
		}
		data, err := twig.SerializeCompiledTemplate(ct)
		if err != nil {
			return
		}
		blobs = append(blobs, blob{name, src, data})
	}
	rounds := e.N(6, 60)
	for round := 0; round < rounds && !r.Full(); round++ {
		errs := make([]string, 12)
		c02Barrier(12, func(g int) {
			defer func() {
				if p := recover(); p != nil {
					errs[g] = fmt.Sprintf("panic: %v", p)
				}
			}()
			for k := 0; k < 150; k++ {
				b := blobs[(g+k)%len(blobs)]
				ct, err := twig.DeserializeCompiledTemplate(b.data)
				if err != nil || ct.Name != b.name || ct.Source != b.src {
					errs[g] = fmt.Sprintf("DeserializeCompiledTemplate of a valid %d-byte blob: name %q (want %q), source length %d (want %d), error %v", len(b.data), truncate(ctName(ct), 30), truncate(b.name, 30), len(ctSource(ct)), len(b.src), err)
					return
				}
				if k%10 == 0 {
					eng := twig.New()
					if err := eng.LoadFromCompiledData(b.data); err != nil {
						errs[g] = "LoadFromCompiledData: " + err.Error()
						return
					}
					if out, err := eng.Render(b.name, map[string]interface{}{"v": g}); err != nil || !strings.HasPrefix(out, fmt.Sprintf("T%d %d ", (g+k)%len(blobs), g)) {
						errs[g] = fmt.Sprintf("render of the loaded template: %q %v", truncate(out, 30), err)
						return
					}
					if data2, err := twig.SerializeCompiledTemplate(ct); err != nil || len(data2) != len(b.data) {
						errs[g] = fmt.Sprintf("re-serialising gives %d bytes, want %d (%v)", len(data2), len(b.data), err)
						return
					}
				}
			}
		})
		r.Seen(fmt.Sprintf("concurrent-decode:%d", round), true)
		r.Hit("concurrent-decode")
		for g, msg := range errs {
			if msg != "" {
				r.Violate(Violation{Key: "concurrent-decode", What: fmt.Sprintf("12 goroutines decoding 12 valid compiled templates at once: goroutine %d: %s", g, msg),
					Broken: "theorem C16_decode_encode (decoding is a function of the bytes; implementation-only oracle under concurrency)", Replay: map[string]any{"kind": "concurrent-decode", "round": round, "goroutine": g, "error": msg}})
				return
			}
		}
	}
}

func ctName(c *twig.CompiledTemplate) string {
	if c == nil {
		return "<nil>"
	}
	return c.Name
}
func ctSource(c *twig.CompiledTemplate) string {
	if c == nil {
		return ""
	}
	return c.Source
}

// c16OddStamps: a template whose loader reports an unusual modification time (in the future, in milli- or nanoseconds,
// zero, negative) is compiled, saved and read back like any other; and the bytes handed to the decoder may be reused
// by the caller afterwards without changing the decoded template.
func c16OddStamps(e *Env) {
	r := e.Rep
	now := time.Now()
	src := map[string]string{"page": "<p>Hello {{ name }}!</p>{% for i in items %}[{{ i }}]{% endfor %}{% include 'part' %}", "part": strings.Repeat("part text ", 300) + "{{ name }}"}
	ctx := map[string]interface{}{"name": "World", "items": []interface{}{1, 2, 3}}
	for _, mt := range []int64{now.Add(36 * time.Hour).Unix(), now.UnixMilli(), now.UnixNano(), 0, -5, 1, 1<<62 + 12345, now.Unix() + 2} {
		dir, err := os.MkdirTemp("", "c16st-")
		if err != nil {
			return
		}
		res := guarded(func() (string, error) {
			build := twig.New()
			build.RegisterLoader(&flakyLoader{src: src, mtime: map[string]int64{"page": mt, "part": mt}})
			want, err := build.Render("page", ctx)
			if err != nil {
				return "", err
			}
			cl := twig.NewCompiledLoader(dir)
			for _, n := range []string{"page", "part"} {
				if err := cl.SaveCompiled(build, n); err != nil {
					return "", fmt.Errorf("SaveCompiled(%s): %w", n, err)
				}
			}
			fresh := twig.New()
			loader := twig.NewCompiledLoader(dir)
			fresh.RegisterLoader(loader)
			if !loader.Exists("page") {
				return "", fmt.Errorf("STAMP: the compiled loader does not see the file it wrote")
			}
			got, err := fresh.Render("page", ctx)
			if err != nil || got != want {
				return "", fmt.Errorf("STAMP: compiled file of a template with modification time %d renders %q (%v), its source %q", mt, truncate(got, 60), err, truncate(want, 60))
			}
			// decoding from a buffer the caller reuses
			files, _ := filepath.Glob(filepath.Join(dir, "part*"))
			if len(files) == 0 {
				return "", fmt.Errorf("no compiled file for part")
			}
			buf, err := os.ReadFile(files[0])
			if err != nil {
				return "", err
			}
			ct, err := twig.DeserializeCompiledTemplate(buf)
			if err != nil {
				return "", err
			}
			eng2 := twig.New()
			if err := eng2.LoadFromCompiledData(buf); err != nil {
				return "", err
			}
			for i := range buf {
				buf[i] = 'Z'
			}
			if ct.Source != src["part"] || ct.Name != "part" {
				return "", fmt.Errorf("STAMP: the decoded template changed when the caller reused its buffer: name %q, source %q…", ct.Name, truncate(ct.Source, 40))
			}
			if out, err := eng2.Render("part", ctx); err != nil || out != strings.Repeat("part text ", 300)+"World" {
				return "", fmt.Errorf("STAMP: the loaded template changed when the caller reused its buffer: %q… %v", truncate(out, 40), err)
			}
			return "ok", nil
		})
		os.RemoveAll(dir)
		r.Seen(fmt.Sprintf("stamps:%d", mt), true)
		r.Hit("unusual-modification-times")
		if res.Class == "panic" || res.Class == "timeout" || (res.Err != nil && strings.Contains(res.Err.Error(), "STAMP")) {
			if r.Violate(Violation{Key: "e2e-render-CompiledLoader", What: fmt.Sprintf("%v %s", res.Err, res.Class),
				Broken: "theorem C16_load_equiv / C16_decode_encode (implementation-only oracle)", Replay: map[string]any{"kind": "stamps", "mtime": mt, "err": fmt.Sprint(res.Err)}}) {
				return
			}
		} else if res.Err != nil {
			r.Skip("stamps-setup:" + truncate(res.Err.Error(), 60))
		}
	}
}
