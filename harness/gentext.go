package main

import (
	"math/rand"
	"strings"
)

// literal-text generator: bytes the properties name explicitly (multi-byte and invalid UTF-8, NUL,
// lone braces, percent signs, quotes, backslashes, line breaks, dashes).
var litAlphabet = []string{
	"a", "b", "Z", "0", " ", " ", "\n", "\t", "\r", "{", "}", "%", "#", "-", "\\", "\"", "'", "<", ">", "&",
	"\x00", "é", "世", "😀", "\x80", "\xff", "\xc3", "|", "=", ".", " ", " ",
	// control bytes and non-ASCII spaces are literal text, not trimmable whitespace
	"\x00", "\x01", "\x0b", "\x0c", "\x1f", "\x7f", "\u00a0", "\u2028",
}

func isLit(s string) bool {
	if strings.Contains(s, "{{") || strings.Contains(s, "{%") || strings.Contains(s, "{#") {
		return false
	}
	if strings.HasSuffix(s, "{") || strings.HasSuffix(s, "\\") {
		return false
	}
	return true
}

// genLit returns a literal chunk (possibly empty) satisfying isLit.
func genLit(r *rand.Rand, maxLen int) string {
	n := r.Intn(maxLen + 1)
	var sb strings.Builder
	for i := 0; i < n; i++ {
		sb.WriteString(litAlphabet[r.Intn(len(litAlphabet))])
	}
	return fixLit(sb.String())
}

func fixLit(s string) string {
	for changed := true; changed; {
		changed = false
		for _, op := range []string{"{{", "{%", "{#"} {
			if strings.Contains(s, op) {
				s = strings.ReplaceAll(s, op, "{ "+op[1:])
				changed = true
			}
		}
	}
	for strings.HasSuffix(s, "{") || strings.HasSuffix(s, "\\") {
		s = s[:len(s)-1] + "."
	}
	return s
}

// genRaw returns arbitrary bytes over the scanner-relevant alphabet (may contain tags, broken tags).
var rawAlphabet = []string{"{", "{", "}", "}", "%", "#", "-", "\\", " ", "a", "\x80", "\n", "x", "|", "\"", "=", "i", "f"}

func genRaw(r *rand.Rand, maxLen int) string {
	n := r.Intn(maxLen + 1)
	var sb strings.Builder
	for i := 0; i < n; i++ {
		sb.WriteString(rawAlphabet[r.Intn(len(rawAlphabet))])
	}
	return sb.String()
}

// allStrings enumerates every string of length ≤ n over the alphabet, calling f on each.
func allStrings(alpha []string, n int, f func(string) bool) {
	var rec func(prefix string, depth int) bool
	rec = func(prefix string, depth int) bool {
		if !f(prefix) {
			return false
		}
		if depth == n {
			return true
		}
		for _, a := range alpha {
			if !rec(prefix+a, depth+1) {
				return false
			}
		}
		return true
	}
	rec("", 0)
}

var ident = []string{"a", "b", "c", "x", "y", "item", "user", "v1", "_k"}

func pick[T any](r *rand.Rand, xs []T) T { return xs[r.Intn(len(xs))] }

func ws(r *rand.Rand) string {
	return pick(r, []string{"", " ", "  ", "\n", " \t", "\r\n "})
}
