package main

import (
	"bytes"
	"fmt"
	"math/rand"
	"strings"

	"github.com/semihalev/twig"
)

// C04 (f) — the literal text of a template belongs to the *Template object, for as long as the caller holds it.
//
// Callers keep what Engine.Load and Engine.ParseTemplate return and render it many times (Template.Render /
// RenderTo). Meanwhile the engine lives on: the same name is registered again (hot reload), with the same or another
// source or with a source that does not parse; other names are registered, parsed, loaded and rendered; a pre-built or
// compiled template replaces the registration; cache, auto-reload and development mode are switched; other engines
// parse. None of this may change a single byte of what a held template emits: its chunks exactly once and in order,
// nothing of any other template, no context data it does not print itself. And the name rendered through the engine
// gives the text of the registration that is current.
//
// Expected outputs are computed here from the generated chunks and marker values (no engine involved).

type litTpl struct{ src, want string }

// genLitTpl: literal chunks around print tags of fresh marker variables (added to ctx) and comments; every sixth is
// larger than 4096 bytes (the large-template scanner).
func genLitTpl(rg *rand.Rand, prefix string, ctx map[string]any) litTpl {
	var src, want strings.Builder
	k := 1 + rg.Intn(4)
	for j := 0; j < k; j++ {
		l := genLit(rg, 10)
		if j == 0 && l == "" {
			l = prefix + ":"
		}
		src.WriteString(l)
		want.WriteString(l)
		if rg.Intn(3) < 2 {
			name := fmt.Sprintf("%s%d", prefix, j)
			val := "⟦" + prefix + fmt.Sprint(rg.Intn(1000)) + "⟧"
			ctx[name] = val
			src.WriteString("{{" + ws(rg) + name + ws(rg) + "}}")
			want.WriteString(val)
		} else {
			src.WriteString("{# " + prefix + " {{ secret }} #}")
		}
	}
	tail := genLit(rg, 10)
	if rg.Intn(6) == 0 {
		tail += strings.Repeat("<p>"+prefix+" filler</p>\n", 300)
	}
	src.WriteString(tail)
	want.WriteString(tail)
	return litTpl{src.String(), want.String()}
}

type heldTpl struct {
	tpl   *twig.Template
	src   string
	want  string
	how   string
	after int // number of engine operations done when it was obtained
}

func heldTemplateCases(e *Env) {
	r := e.Rep
	rg := e.Rng
	n := e.N(250, 20000)
	for i := 0; i < n && !r.Full(); i++ {
		ctx := map[string]any{"secret": "S3CR3T"}
		page := genLitTpl(rg, "a", ctx)
		const name = "page"
		var log []string // the operations so far, for the report
		var held []heldTpl
		current := page // what the name renders through the engine
		var bad *Violation
		fail := func(what string, extra map[string]any) {
			if bad != nil {
				return
			}
			rp := map[string]any{"kind": "held-template", "first_src_hex": hx(page.src), "first_src": page.src, "ctx": ctx, "operations": append([]string{}, log...)}
			for k, v := range extra {
				rp[k] = v
			}
			bad = &Violation{Key: "held-template-text-changed", What: what,
				Broken: "theorem C04_chunks / C01_history_independence: the literal text a template emits is a function of its own source (implementation-only oracle: a *Template handed out by the engine keeps rendering its source whatever the engine does afterwards)",
				Replay: rp}
		}
		res := guarded(func() (string, error) {
			eng := twig.New()
			other := genLitTpl(rg, "b", ctx)
			route := "registered"
			if rg.Intn(3) == 0 {
				// the name comes from a loader; a later registration of the name takes precedence over it
				route = "loader"
				eng.RegisterLoader(twig.NewArrayLoader(map[string]string{name: page.src, "fromloader": other.src}))
			} else if err := eng.RegisterString(name, page.src); err != nil {
				return "", fmt.Errorf("parsing error: %w", err)
			}
			r.Hit("held-route:" + route)
			log = append(log, "engine with "+name+" "+route)
			hold := func(how string) error {
				var t *twig.Template
				var err error
				of := current
				switch how {
				case "Load":
					t, err = eng.Load(name)
				default:
					t, err = eng.ParseTemplate(page.src)
					of = page
				}
				if err != nil {
					return fmt.Errorf("%s: %w", how, err)
				}
				held = append(held, heldTpl{t, of.src, of.want, how, len(log)})
				log = append(log, fmt.Sprintf("hold#%d = %s", len(held)-1, how))
				return nil
			}
			renderHeld := func(h heldTpl, viaWriter bool) (string, error) {
				c2, _ := deepCopy(map[string]interface{}(ctx)).(map[string]interface{})
				if viaWriter {
					var buf bytes.Buffer
					err := h.tpl.RenderTo(&buf, c2)
					return buf.String(), err
				}
				return h.tpl.Render(c2)
			}
			checkAll := func() {
				for idx, h := range held {
					for _, viaWriter := range []bool{false, true} {
						got, err := renderHeld(h, viaWriter)
						if err != nil || got != h.want {
							fail(fmt.Sprintf("a *Template obtained by %s renders %q (err %v) after the engine operations %v; its own source %q gives %q", h.how, truncate(got, 120), err, log[h.after:], truncate(h.src, 80), truncate(h.want, 120)),
								map[string]any{"held": idx, "how": h.how, "want_hex": hx(h.want), "got_hex": hx(got), "err": fmt.Sprint(err)})
							return
						}
					}
				}
				c2, _ := deepCopy(map[string]interface{}(ctx)).(map[string]interface{})
				got, err := eng.Render(name, c2)
				if err != nil || got != current.want {
					fail(fmt.Sprintf("Engine.Render(%q) gives %q (err %v) after the engine operations %v; the current registration %q gives %q", name, truncate(got, 120), err, log, truncate(current.src, 80), truncate(current.want, 120)),
						map[string]any{"current_src_hex": hx(current.src), "want_hex": hx(current.want), "got_hex": hx(got), "err": fmt.Sprint(err)})
				}
			}
			if err := hold("Load"); err != nil {
				return "", err
			}
			if rg.Intn(2) == 0 {
				if err := hold("ParseTemplate"); err != nil {
					return "", err
				}
			}
			checkAll()
			steps := 2 + rg.Intn(5)
			for s := 0; s < steps && bad == nil; s++ {
				other = genLitTpl(rg, string(rune('c'+s)), ctx)
				op := pick(rg, []string{"register-same-name", "register-same-name", "register-same-name-same-source", "register-same-name-failing", "register-other-name", "parse-other",
					"register-prebuilt", "compile-roundtrip", "cache-off", "cache-on", "dev-mode-on", "dev-mode-off", "auto-reload", "other-engine", "load-again", "parse-again", "render-other"})
				r.Hit("held-op:" + op)
				log = append(log, op)
				switch op {
				case "register-same-name":
					if err := eng.RegisterString(name, other.src); err != nil {
						return "", fmt.Errorf("parsing error: %w", err)
					}
					current = other
				case "register-same-name-same-source":
					if err := eng.RegisterString(name, current.src); err != nil {
						return "", fmt.Errorf("parsing error: %w", err)
					}
				case "register-same-name-failing":
					// a reload that does not parse leaves the registration as it was
					// (sources the text scanner itself rejects: an opener that is never closed)
					if err := eng.RegisterString(name, other.src+pick(rg, []string{"{{ never closed", "{# never closed", "{% never closed", "{{- 1 +"})); err == nil {
						r.Skip("held: broken source accepted")
						return "", nil
					}
				case "register-other-name":
					if err := eng.RegisterString(fmt.Sprintf("other%d", s), other.src); err != nil {
						return "", fmt.Errorf("parsing error: %w", err)
					}
				case "parse-other":
					if _, err := eng.ParseTemplate(other.src); err != nil {
						return "", fmt.Errorf("parsing error: %w", err)
					}
				case "register-prebuilt":
					t, err := eng.ParseTemplate(other.src)
					if err != nil {
						return "", fmt.Errorf("parsing error: %w", err)
					}
					eng.RegisterTemplate(name, t)
					current = other
				case "compile-roundtrip":
					// the name compiled and registered again from its compiled form: same source, same text
					ct, err := eng.CompileTemplate(name)
					if err != nil {
						return "", err
					}
					if err := eng.RegisterCompiledTemplate(ct); err != nil {
						return "", err
					}
				case "cache-off":
					eng.SetCache(false)
				case "cache-on":
					eng.SetCache(true)
				case "dev-mode-on":
					eng.SetDevelopmentMode(true)
				case "dev-mode-off":
					eng.SetDevelopmentMode(false)
				case "auto-reload":
					eng.SetAutoReload(true)
				case "other-engine":
					x := twig.New()
					x.RegisterString(name, other.src)
					x.RegisterString(name, other.src+"!")
					x.Render(name, map[string]interface{}{})
				case "load-again":
					if err := hold("Load"); err != nil {
						return "", err
					}
				case "parse-again":
					if err := hold("ParseTemplate"); err != nil {
						return "", err
					}
				case "render-other":
					eng.RegisterString("o", other.src)
					c2, _ := deepCopy(map[string]interface{}(ctx)).(map[string]interface{})
					if got, err := eng.Render("o", c2); err != nil || got != other.want {
						fail(fmt.Sprintf("template %q registered after %v renders %q (err %v), expected %q", truncate(other.src, 80), log, truncate(got, 120), err, truncate(other.want, 120)),
							map[string]any{"current_src_hex": hx(other.src), "want_hex": hx(other.want), "got_hex": hx(got)})
					}
				}
				// another parse takes whatever the operation may have handed back to the pools
				twig.New().RegisterString("taker", "TEXT OF ANOTHER TEMPLATE {{ secret }}"+other.src)
				checkAll()
			}
			return "", nil
		})
		r.Seen("held:"+page.src+strings.Join(log, ";"), true)
		if bad == nil && (res.Class == "panic" || res.Class == "timeout") {
			fail(fmt.Sprintf("%s while a held template of %q was rendered after the engine operations %v: %s", res.Class, truncate(page.src, 80), log, truncate(res.Panic, 200)), map[string]any{"panic": res.Panic})
		}
		if bad == nil && res.Err != nil {
			// the generated sources are well-formed and the operations legal: an error here is a failure of the engine route itself
			fail(fmt.Sprintf("engine operation failed on well-formed literal-text templates after %v: %v", log, res.Err), map[string]any{"err": res.Err.Error()})
		}
		if bad != nil {
			if r.Violate(*bad) {
				break
			}
		}
	}
}
