package main

import (
	"encoding/json"
	"fmt"
	"math/rand"
	"os"
	"reflect"
	"strings"
	"sync"
	"time"
)

// C18, the "records kept by value" dimension.
//
// A struct the caller keeps BY VALUE (element of a []T / [n]T / map[K]T, field of another struct, a T put
// directly into the context or into a []interface{}) reaches the template as a copy: a loop variable, a
// subscript, first / last, a filter result, a set variable, a macro or include parameter never is the
// caller's own record.  Reading cannot tell a copy from an alias; the difference shows when the template
// calls something on the value that WRITES - a pointer-receiver method that counts its calls, memoises its
// result or edits an exported field (lazily computed fields of view models).  On a copy the write is lost;
// through an alias (&slice[i], field.Addr(), a window onto the caller's backing array) it lands in the
// caller's data and later renders see it.  The contexts of c18.go / c18_sized.go hold structs without such
// methods, so that route was never exercised.  Here:
//
//   - record types of 16, 48, 64, 72, 88 (with references), 112 (many fields), 136, 264 and 1040 bytes (code
//     that treats values differently by size: register-sized, cache line, "large"), all with the pointer-receiver
//     methods Bump (call counter, unexported field), Heading (memoised string), Rename (edits the exported
//     field Title) and the value-receiver method Plain;
//   - one context per type holding the records by value in 19 places: []T with spare capacity, a named slice
//     type, [3]T, *[3]T, [][]T, map[string][]T, []interface{} of T, a long []T, lists inside untyped maps,
//     slices / arrays / maps in a struct held by value and in one behind a pointer, map[string]T, map[int]T,
//     plus single records (T in the context, in a map, as a struct field);
//   - every route from a place to a record variable: for (values, key+value, else, nested, twice, in a block,
//     under apply), for over slice / reverse / sort / merge / default / raw / [a:b], set, macro parameter (list
//     and element), include with (list, element, only) and inherited, subscripts, first, last, cycle, ?? and
//     ?:, list and hash literals, do;  every route ends in the same body calling all methods;
//   - oracles: (a) the deep walk of the caller's context is the same after the renders as before
//     ("caller-data-modified"), (b) the same engine rendering the same template over the same data a second
//     time renders the same text ("shared-data-render-differs"; a counter that lives in the caller's record
//     shows 2 the second time), (c) concurrent renders over one context leave it alone and render what they
//     render alone.  The full product type × place × route runs on every seed; random combinations on top.
//
// Records reached through a POINTER the caller put into its data ([]*T, a *T field) are shared by design:
// calling Bump on them changes the caller's record in the unchanged engine as well.  The templates here never
// call a method through such a pointer (phold.List[i] is a value inside the struct behind the pointer: a copy).

func init() {
	c18Extra = append(c18Extra, c18Records)
	c18ReplayExtra["records"] = c18RecordsReplay
	c18ReplayExtra["records-shared"] = c18RecordsReplay
}

// C18RecCore carries the state the methods write. Outer types embed it and add padding / further fields.
type C18RecCore struct {
	ID      int
	Title   string
	hits    int
	heading string
}

// Bump counts calls on the receiver.
func (c *C18RecCore) Bump() int { c.hits++; return c.hits }

// Heading is computed on first use and remembered in the receiver.
func (c *C18RecCore) Heading() string {
	if c.heading == "" {
		c.heading = "H:" + strings.ToUpper(c.Title)
	}
	return c.heading
}

// Rename edits an exported field of the receiver.
func (c *C18RecCore) Rename() string { c.Title += "!"; return c.Title }

// Plain only reads (value receiver).
func (c C18RecCore) Plain() string { return fmt.Sprintf("%s#%d%s", c.Title, c.hits, c.heading) }

// c18Rec16: two words, its own methods
type c18Rec16 struct {
	ID   int
	hits int
}

func (c *c18Rec16) Bump() int       { c.hits++; return c.hits }
func (c *c18Rec16) Heading() string { c.hits += 100; return fmt.Sprintf("H:%d", c.ID) }
func (c *c18Rec16) Rename() string  { c.ID += 1000; return fmt.Sprint(c.ID) }
func (c c18Rec16) Plain() string    { return fmt.Sprintf("%d#%d", c.ID, c.hits) }

type c18Rec48 struct{ C18RecCore }
type c18Rec64 struct {
	C18RecCore
	Pad [2]int64
}
type c18Rec72 struct {
	C18RecCore
	Pad [3]int64
}
type c18Rec88 struct {
	C18RecCore
	Tags []string
	Meta map[string]interface{}
	Next *c18Rec48 // never dereferenced by the templates
}
type c18Rec112 struct {
	C18RecCore
	Author, Section, Summary, Language string
}
type c18Rec136 struct {
	C18RecCore
	Pad [11]int64
}
type c18Rec264 struct {
	C18RecCore
	Pad [27]int64
}
type c18Rec1040 struct {
	C18RecCore
	Pad [124]int64
}

type c18RecList[T any] []T

type c18RecHolder[T any] struct {
	Name string
	Rec  T
	List []T
	Arr  [3]T
	Map  map[string]T
}

func c18Core(id int) C18RecCore { return C18RecCore{ID: id, Title: fmt.Sprintf("t%d", id)} }

// c18RecCtx builds the context for one record type: every place holds its own records (distinct IDs), so a
// difference names one culprit.  Deterministic.
func c18RecCtx[T any](mk func(id int) T) map[string]interface{} {
	id := 0
	next := func() T { id++; return mk(id) }
	list := func(n, spare int) []T {
		s := make([]T, n, n+spare)
		full := s[:n+spare]
		for i := range full {
			full[i] = next()
		}
		return s
	}
	arr := func() [3]T { return [3]T{next(), next(), next()} }
	tmap := func() map[string]T { return map[string]T{"k1": next(), "k2": next(), "k3": next()} }
	var zero T
	size := int(reflect.TypeOf(zero).Size())
	long := 16384 / size
	if long < 24 {
		long = 24
	}
	if long > 300 {
		long = 300
	}
	parr := arr()
	hold := c18RecHolder[T]{Name: "hv", Rec: next(), List: list(3, 2), Arr: arr(), Map: tmap()}
	phold := &c18RecHolder[T]{Name: "hp", Rec: next(), List: list(3, 2), Arr: arr(), Map: tmap()}
	return map[string]interface{}{
		"recs":  list(3, 2),
		"named": c18RecList[T](list(3, 1)),
		"arr":   arr(),
		"parr":  &parr,
		"grid":  [][]T{list(2, 1), list(3, 2)},
		"tmap":  map[string][]T{"k": list(3, 2), "j": list(1, 0)},
		"boxed": []interface{}{next(), next(), next()},
		"long":  list(long, 3),
		"box": map[string]interface{}{"list": list(3, 2), "one": next(), "mp": tmap(),
			"inner": map[string]interface{}{"list": list(3, 0)}},
		"hold":  hold,
		"phold": phold,
		"one":   next(),
		"mp":    tmap(),
		"mi":    map[int]T{1: next(), 2: next(), 3: next()},
		"rows":  []map[string]interface{}{{"rec": next(), "list": list(2, 1)}, {"rec": next(), "list": list(3, 0)}},
		"a":     "str",
		"n":     5,
	}
}

type c18RecKind struct {
	Name string
	Size int
	Ctx  func() map[string]interface{}
}

func c18MkKind[T any](name string, mk func(id int) T) c18RecKind {
	var zero T
	return c18RecKind{Name: name, Size: int(reflect.TypeOf(zero).Size()), Ctx: func() map[string]interface{} { return c18RecCtx(mk) }}
}

var c18RecKinds = []c18RecKind{
	c18MkKind("rec136", func(id int) c18Rec136 { return c18Rec136{C18RecCore: c18Core(id), Pad: [11]int64{int64(id), 7}} }),
	c18MkKind("rec16", func(id int) c18Rec16 { return c18Rec16{ID: id} }),
	c18MkKind("rec48", func(id int) c18Rec48 { return c18Rec48{c18Core(id)} }),
	c18MkKind("rec64", func(id int) c18Rec64 { return c18Rec64{C18RecCore: c18Core(id), Pad: [2]int64{int64(id), 7}} }),
	c18MkKind("rec72", func(id int) c18Rec72 { return c18Rec72{C18RecCore: c18Core(id), Pad: [3]int64{int64(id), 7}} }),
	c18MkKind("rec88", func(id int) c18Rec88 {
		return c18Rec88{C18RecCore: c18Core(id), Tags: c18SpareStr([]string{"b", "a"}, 2), Meta: map[string]interface{}{"k": id}, Next: &c18Rec48{c18Core(-id)}}
	}),
	c18MkKind("rec112", func(id int) c18Rec112 {
		return c18Rec112{C18RecCore: c18Core(id), Author: "ann", Section: "news", Summary: fmt.Sprintf("s%d", id), Language: "en"}
	}),
	c18MkKind("rec264", func(id int) c18Rec264 { return c18Rec264{C18RecCore: c18Core(id), Pad: [27]int64{int64(id), 7}} }),
	c18MkKind("rec1040", func(id int) c18Rec1040 { return c18Rec1040{C18RecCore: c18Core(id), Pad: [124]int64{int64(id), 7}} }),
}

// ---- templates ------------------------------------------------------------------------------------------

// what every route finally does with the record variable a
const c18RecBody = "[{{ a.Bump }}{{ a.Bump }}|{{ a.Heading }}|{{ a.Rename }}|{{ a.Title }}{{ a.ID }}|{{ a.Plain }}]"

var c18RecAux = map[string]string{
	"recloop": "{% for a in seq %}" + c18RecBody + "{% endfor %}",
	"recone":  c18RecBody,
	"reclib":  "{% macro each(seq) %}{% for a in seq %}" + c18RecBody + "{% endfor %}{% endmacro %}{% macro one(a) %}" + c18RecBody + "{% endmacro %}",
}

// places holding several records (%P)
var c18RecPlaces = []string{"recs", "named", "arr", "parr", "grid[1]", "tmap.k", "boxed", "long", "box.list", "box.inner.list",
	"hold.List", "hold.Arr", "phold.List", "phold.Arr", "mp", "mi", "box.mp", "hold.Map", "phold.Map"}

// places holding one record (%E)
var c18RecSingles = []string{"one", "hold.Rec", "phold.Rec", "box.one", "mp.k1", "mp['k2']", "mi[1]", "box.mp.k3", "hold.Map.k1", "phold.Map.k2",
	"recs[0]", "arr[1]", "parr[2]", "boxed[0]", "phold.List[1]", "hold.Arr[2]"}

// routes from a place with several records to the record variable a (%B: the body)
var c18RecRoutes = []string{
	"{% for a in %P %}%B{% endfor %}",
	"{% for k, a in %P %}{{ k }}%B{% endfor %}",
	"{% for a in %P|slice(0, 2) %}%B{% endfor %}|{% for a in %P|slice(1) %}%B{% endfor %}",
	"{% for a in %P|reverse %}%B{% endfor %}",
	"{% for a in %P|sort %}%B{% endfor %}",
	"{% for a in %P|merge(%P) %}%B{% endfor %}|{% for a in merge(%P, []) %}%B{% endfor %}",
	"{% for a in %P|default([]) %}%B{% endfor %}|{% for a in %P|raw %}%B{% endfor %}",
	"{% set q = %P %}{% for a in q %}%B{% endfor %}{% for a in q %}%B{% endfor %}",
	"{% macro each(seq) %}{% for a in seq %}%B{% endfor %}{% endmacro %}{{ _self.each(%P) }}",
	"{% macro one(a) %}%B{% endmacro %}{% for x in %P %}{{ _self.one(x) }}{% endfor %}",
	"{% import 'reclib' as lib %}{{ lib.each(%P) }}|{% from 'reclib' import one %}{% for x in %P %}{{ one(x) }}{% endfor %}",
	"{% include 'recloop' with {'seq': %P} %}|{% include 'recloop' with {'seq': %P} only %}",
	"{% for x in %P %}{% include 'recone' with {'a': x} %}{% endfor %}",
	"{% include 'recsub' %}",
	"{% for a in %P %}{% for b in %P %}{{ b.Bump }}{{ b.Heading }}{% endfor %}%B{% endfor %}",
	"{% for a in %P %}{% set b = a %}{{ b.Bump }}{{ b.Rename }}%B{% endfor %}",
	"{% for a in %P %}{% if loop.first or loop.last %}%B{% endif %}{% endfor %}",
	"{% for a in %P %}{{ a.Bump }}{% else %}none{% endfor %}|{% for a in %P %}{{ a.Bump }}{{ a.Plain }}{% endfor %}",
	"{% block b %}{% for a in %P %}%B{% endfor %}{% endblock %}|{% apply upper %}{% for a in %P %}%B{% endfor %}{% endapply %}",
	"{% for a in %P %}{% do a.Bump %}{% do a.Rename %}{{ a.Title }}{{ a.Plain }}{% endfor %}",
	"{% for a in %P %}{{ a|json_encode|raw }}{{ a.Bump }}{{ a.Plain }}{% endfor %}",
	"{% for a in %P %}{{ a.Bump ~ a.Bump }}|{{ a.Bump + a.Bump }}|{{ a.Bump == 1 ? 'y' : 'n' }}{{ a.Bump is defined ? 'd' : 'u' }}{{ a.Rename ~ a.Title }}{% endfor %}",
	"{% set a = %P[0] %}%B|{% set a = %P[2] %}%B|{% set a = %P['k1'] %}%B",
	"{% set a = %P|first %}%B|{% set a = %P|last %}%B",
	"{% set a = cycle(%P, 1) %}%B|{% set a = %P ? %P[0] : null %}%B|{% set a = n ? %P[1] : %P[0] %}%B|{% set a = %P[9]|default(%P[0]) %}%B",
	"{% for a in [%P[0], %P[1]] %}%B{% endfor %}|{% for k, a in {'x': %P[0], 'y': %P|last} %}%B{% endfor %}",
	"{% set a = %P|slice(1, 1)|first %}%B|{% set a = %P|reverse|first %}%B|{% set z = %P|merge(%P) %}{% set a = z[4] %}%B{% set a = z|last %}%B",
}

// routes from a place with one record
var c18RecSingleRoutes = []string{
	"{{ %E.Bump }}{{ %E.Bump }}|{{ %E.Heading }}|{{ %E.Rename }}|{{ %E.Title }}|{{ %E.Plain }}",
	"{% set a = %E %}%B|%B",
	"{% for a in [%E, %E] %}%B{% endfor %}|{% for k, a in {'x': %E} %}%B{% endfor %}",
	"{% macro one(a) %}%B{% endmacro %}{{ _self.one(%E) }}{{ _self.one(%E) }}",
	"{% include 'recone' with {'a': %E} %}|{% include 'recone' with {'a': %E} only %}",
	"{% set a = n ? %E : null %}%B|{% set a = %E|default(null) %}%B|{% set a = %E is defined ? %E : null %}%B",
	"{% if %E.Bump > 0 %}{{ %E.Bump }}{% endif %}{% do %E.Rename %}{{ %E.Title }}{{ %E.Plain }}",
}

// templates over the fixed nested places
var c18RecFixed = []string{
	"{% for row in grid %}{% for a in row %}%B{% endfor %}{% endfor %}",
	"{% for k, row in tmap %}{% for a in row %}%B{% endfor %}{% endfor %}",
	"{% for r in rows %}{% for a in r.list %}%B{% endfor %}{% set a = r.rec %}%B{{ r.rec.Bump }}{% endfor %}",
	"{% set h = hold %}{% for a in h.List %}%B{% endfor %}{% set a = h.Rec %}%B{{ h.Rec.Bump }}{% for a in h.Arr %}%B{% endfor %}",
	"{% set h = phold %}{% for a in h.List %}%B{% endfor %}{% set a = h.Rec %}%B{{ h.Rec.Bump }}{% for k, a in h.Map %}%B{% endfor %}",
	"{% for k, v in box %}{% if k == 'list' %}{% for a in v %}%B{% endfor %}{% endif %}{% if k == 'one' %}{{ v.Bump }}{{ v.Rename }}{% endif %}{% endfor %}",
}

func c18RecProg(kind, route, place string) c18Prog {
	rep := strings.NewReplacer("%P", place, "%E", place, "%B", c18RecBody)
	src := rep.Replace(route)
	t := map[string]string{"main": src}
	for k, v := range c18RecAux {
		if strings.Contains(src, "'"+k+"'") {
			t[k] = v
		}
	}
	if strings.Contains(src, "'recsub'") {
		t["recsub"] = rep.Replace("{% for a in %P %}%B{% endfor %}{% set a = %P|first %}%B")
	}
	return c18Prog{Kind: kind, Tpls: t}
}

// c18RecRandom: a few random routes over random places, with a random variation of the body
func c18RecRandom(rng *rand.Rand) c18Prog {
	var sb strings.Builder
	for i := 1 + rng.Intn(3); i > 0; i-- {
		var t, place string
		if rng.Intn(4) == 0 {
			t, place = pick(rng, c18RecSingleRoutes), pick(rng, c18RecSingles)
			if strings.Contains(t, "%E.") && strings.Contains(place, "[") {
				place = "one" // the engine has no x[0].y
			}
		} else {
			t, place = pick(rng, c18RecRoutes), pick(rng, c18RecPlaces)
			if rng.Intn(3) == 0 {
				f := pick(rng, []string{"slice(0, 2)", "slice(1)", "reverse", "sort", "merge(recs)", "merge(" + pick(rng, c18RecPlaces) + ")", "default([])", "raw", "keys", "slice(1, 1)|merge(boxed)"})
				t = "{% for a in %P|" + f + pick(rng, []string{"", "|reverse", "|slice(0, 5)"}) + " %}%B{% endfor %}"
			}
		}
		if rng.Intn(3) == 0 {
			body := pick(rng, []string{"{{ a.Bump }}", "{{ a.Heading }}{{ a.Heading }}", "{{ a.Rename }}{{ a.Title }}", "{{ a.Plain }}{{ a.Bump }}{{ a.Plain }}",
				"{% set b = a %}{{ b.Bump }}{% set a = b %}{{ a.Bump }}", "{% if a.Bump %}{{ a.Heading|upper }}{% endif %}", "{{ a.Bump + a.Bump }}{{ a.Title ~ a.Rename }}"})
			t = strings.ReplaceAll(t, "%B", body)
		}
		p := c18RecProg("x", t, place)
		if strings.Contains(p.Tpls["main"], "'recsub'") {
			continue // the included template is specific to one place
		}
		sb.WriteString(p.Tpls["main"])
		sb.WriteString("|")
	}
	if sb.Len() == 0 {
		sb.WriteString(c18RecProg("x", c18RecRoutes[0], "recs").Tpls["main"])
	}
	p := c18Prog{Kind: "records-random", Tpls: map[string]string{"main": sb.String()}}
	for k, v := range c18RecAux {
		if strings.Contains(p.Tpls["main"], "'"+k+"'") {
			p.Tpls[k] = v
		}
	}
	return p
}

// ---- checked renders --------------------------------------------------------------------------------------

// c18RenderTwice: one engine, the same template over the same data twice
func c18RenderTwice(tpls map[string]string, ctx map[string]interface{}) (first, second RenderResult) {
	eng, err := newEngine(tpls)
	if err != nil {
		first = RenderResult{Err: fmt.Errorf("parsing error: %w", err)}
		first.Class = classify(first.Err)
		return first, first
	}
	first = guarded(func() (string, error) { return eng.Render("main", ctx) })
	second = guarded(func() (string, error) { return eng.Render("main", ctx) })
	return first, second
}

type c18RecState struct {
	kind c18RecKind
	ctx  map[string]interface{}
	hash uint64
}

func (s *c18RecState) fresh() {
	s.ctx = s.kind.Ctx()
	s.hash = c18Hash(s.ctx)
}

// c18RecChecked renders p twice over the context all renders of one record type share.
func c18RecChecked(e *Env, st *c18RecState, p c18Prog) RenderResult {
	r := e.Rep
	first, second := c18RenderTwice(p.Tpls, st.ctx)
	nontrivial := first.Class == "" && strings.ContainsAny(first.Out, "0123456789")
	r.Seen(fmt.Sprintf("%s:%s:%s", p.Kind, st.kind.Name, p.Tpls["main"]), nontrivial)
	if first.Class != "" {
		r.Hit(p.Kind + ":" + first.Class)
	} else {
		r.Hit(p.Kind + ":ok")
	}
	if first.Class == "panic" || second.Class == "panic" {
		r.Hit("panic")
	}
	where := fmt.Sprintf("c18RecKinds[%q].Ctx() in harness/c18_records.go (records of %d bytes kept by value)", st.kind.Name, st.kind.Size)
	if c18Hash(st.ctx) != st.hash {
		// name the difference: the same renders over a fresh context, with the line snapshots
		ctx := st.kind.Ctx()
		before := c18Snap(ctx, true)
		f2, _ := c18RenderTwice(p.Tpls, ctx)
		d := c18Diff(before, c18Snap(ctx, true))
		if len(d) == 0 {
			d = []string{"(the context shared by all renders of this record type changed during this render; the change did not repeat on a fresh context)"}
		}
		r.Violate(Violation{Key: "caller-data-modified",
			What:   fmt.Sprintf("rendering %s over records of %d bytes the caller keeps by value changes the caller's records: %s", truncate(p.Tpls["main"], 100), st.kind.Size, truncate(d[0], 120)),
			Broken: "C18_frame / C18_sites_ok no longer describe the code (implementation-only oracle: deep walk of the context before/after)",
			Replay: map[string]any{"kind": "records", "record_type": st.kind.Name, "templates": p.Tpls, "context": where, "diff": d,
				"output": truncate(f2.Out, 300), "class": f2.Class}})
		st.fresh()
	}
	if c18MaskAddr(first.Out) != c18MaskAddr(second.Out) || first.Class != second.Class {
		r.Violate(Violation{Key: "shared-data-render-differs",
			What:   fmt.Sprintf("rendering %s a second time over the same records of %d bytes renders something else", truncate(p.Tpls["main"], 100), st.kind.Size),
			Broken: "C18: two renders that share context data cannot influence each other (implementation-only oracle: same engine, same template, same data, twice)",
			Replay: map[string]any{"kind": "records", "record_type": st.kind.Name, "templates": p.Tpls, "context": where,
				"first": truncate(first.Out, 300), "second": truncate(second.Out, 300), "class_first": first.Class, "class_second": second.Class}})
	}
	return first
}

// c18RecCorpus: c18RecChecked for the hand-written templates: one that does not parse exercises nothing, which
// is a defect of this harness.
func c18RecCorpus(e *Env, st *c18RecState, p c18Prog) RenderResult {
	res := c18RecChecked(e, st, p)
	if res.Class == "parse-error" {
		e.Rep.Violate(Violation{Key: "harness-template-does-not-parse", What: fmt.Sprintf("the fixed C18 template %q does not parse: %v", truncate(p.Tpls["main"], 120), res.Err), Broken: "C18 harness corpus",
			Replay: map[string]any{"kind": "src", "src": p.Tpls["main"], "err": fmt.Sprint(res.Err)}})
	}
	return res
}

func c18RecConcurrent(e *Env, kind c18RecKind, progs []c18Prog) {
	r := e.Rep
	shared := kind.Ctx()
	h0 := c18Hash(shared)
	outs := make([]RenderResult, len(progs))
	var wg sync.WaitGroup
	for i := range progs {
		wg.Add(1)
		go func(i int) {
			defer wg.Done()
			outs[i] = renderFresh(progs[i].Tpls, "main", shared)
		}(i)
	}
	wg.Wait()
	r.Hit("records-concurrent")
	var all []map[string]string
	var seq []string
	for _, p := range progs {
		all = append(all, p.Tpls)
		seq = append(seq, p.Tpls["main"])
	}
	r.Seen(fmt.Sprintf("records-shared:%s:%s", kind.Name, strings.Join(seq, "\x00")), true)
	if c18Hash(shared) != h0 {
		r.Violate(Violation{Key: "caller-data-modified",
			What:   fmt.Sprintf("concurrent renders sharing records of %d bytes kept by value change them", kind.Size),
			Broken: "C18_frame (implementation-only oracle: deep walk around renders that share data)",
			Replay: map[string]any{"kind": "records-shared", "record_type": kind.Name, "programs": all}})
	}
	for i, p := range progs {
		w := renderFresh(p.Tpls, "main", kind.Ctx())
		if c18MaskAddr(outs[i].Out) != c18MaskAddr(w.Out) || outs[i].Class != w.Class {
			r.Violate(Violation{Key: "shared-data-render-differs",
				What:   fmt.Sprintf("a render sharing records of %d bytes with concurrent renders differs from the same render alone", kind.Size),
				Broken: "C18: two renders that share context data cannot influence each other (implementation-only oracle)",
				Replay: map[string]any{"kind": "records", "record_type": kind.Name, "templates": p.Tpls, "others": seq, "alone": truncate(w.Out, 300), "shared": truncate(outs[i].Out, 300),
					"class_alone": w.Class, "class_shared": outs[i].Class}})
		}
	}
}

// c18Records: part (7) of runC18.
func c18Records(e *Env) {
	r := e.Rep
	r.Rule += "; (7) records kept by value: 9 struct types of 16…1040 bytes with pointer-receiver methods that write (counter, memoised field, exported field) in 19 places of a context, " +
		"reached through every loop / filter / subscript / set / macro / include route (full product on every seed) and random combinations, each rendered twice on one engine over the " +
		"context all renders of a type share: deep walk unchanged, second output = first; concurrent renders"
	sampled := false
	for _, kind := range c18RecKinds {
		st := &c18RecState{kind: kind}
		st.fresh()
		t0, ev0 := time.Now(), r.Evaluations
		var loops []c18Prog
		for ri, route := range c18RecRoutes {
			for pi, place := range c18RecPlaces {
				if place == "long" && strings.Contains(route, "{% for b in %P %}") && !e.Thorough() {
					continue // quadratic in the length
				}
				p := c18RecProg("records", route, place)
				res := c18RecCorpus(e, st, p)
				if res.Class == "" && (ri+pi)%5 == 0 && len(loops) < 60 {
					loops = append(loops, p)
				}
				if r.Full() {
					return
				}
			}
		}
		for _, route := range c18RecSingleRoutes {
			for _, place := range c18RecSingles {
				if strings.Contains(route, "%E.") && strings.Contains(place, "[") {
					continue // the engine has no x[0].y
				}
				c18RecCorpus(e, st, c18RecProg("records-single", route, place))
				if r.Full() {
					return
				}
			}
		}
		for _, src := range c18RecFixed {
			c18RecCorpus(e, st, c18RecProg("records-fixed", src, ""))
		}
		for i := e.N(60, 3000); i > 0 && !r.Full(); i-- {
			p := c18RecRandom(e.Rng)
			res := c18RecChecked(e, st, p)
			if res.Class == "" && len(loops) < 120 {
				loops = append(loops, p)
			}
		}
		for round := e.N(2, 40); round > 0 && len(loops) > 1 && !r.Full(); round-- {
			seq := make([]c18Prog, 2+e.Rng.Intn(4))
			for i := range seq {
				seq[i] = pick(e.Rng, loops)
			}
			c18RecConcurrent(e, kind, seq)
		}
		r.Note(fmt.Sprintf("C18 records %s: %d cases in %.1fs", kind.Name, r.Evaluations-ev0, time.Since(t0).Seconds()))
		if !sampled {
			sampled = true
			r.Sample(map[string]any{"kind": "records", "record_type": kind.Name, "template": c18RecProg("records", c18RecRoutes[0], "recs").Tpls["main"]})
		}
	}
}

// c18RecordsReplay re-runs a recorded "records" / "records-shared" case.
func c18RecordsReplay(e *Env, _ int, raw json.RawMessage) error {
	var f struct {
		Case struct {
			Kind       string              `json:"kind"`
			RecordType string              `json:"record_type"`
			Programs   []map[string]string `json:"programs"`
		} `json:"case"`
	}
	b, err := os.ReadFile(e.Replay)
	if err != nil {
		return err
	}
	if err := json.Unmarshal(b, &f); err != nil {
		return err
	}
	var kind *c18RecKind
	for i := range c18RecKinds {
		if c18RecKinds[i].Name == f.Case.RecordType {
			kind = &c18RecKinds[i]
		}
	}
	if kind == nil {
		return fmt.Errorf("C18 replay: unknown record type %q", f.Case.RecordType)
	}
	if f.Case.Kind == "records-shared" {
		progs := make([]c18Prog, len(f.Case.Programs))
		for i, t := range f.Case.Programs {
			progs[i] = c18Prog{Kind: "replay", Tpls: t}
		}
		for round := 0; round < 20 && len(e.Rep.Violations) == 0; round++ {
			c18RecConcurrent(e, *kind, progs)
		}
		fmt.Printf("replay records-shared (%s): reproduced: %v\n", kind.Name, len(e.Rep.Violations) > 0)
		return nil
	}
	var tpls map[string]string
	if err := json.Unmarshal(raw, &tpls); err != nil {
		return err
	}
	st := &c18RecState{kind: *kind}
	st.fresh()
	res := c18RecChecked(e, st, c18Prog{Kind: "replay", Tpls: tpls})
	fmt.Printf("replay records (%s): output %q (class %q); reproduced: %v\n", kind.Name, truncate(res.Out, 300), res.Class, len(e.Rep.Violations) > 0)
	return nil
}
