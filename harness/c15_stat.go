package main

import (
	"encoding/json"
	"fmt"
	"os"
	"path/filepath"
	"strings"
	"time"

	"github.com/semihalev/twig"
)

// C15 with the library's file-backed loaders when the FILE METADATA does not tell that the content changed.
//
// The histories of c15fs.go give every written file a strictly newer modification time and a version tag of
// growing width, so a loader (or engine) that decides "unchanged" from what os.Stat reports — modification time,
// size, inode — is never contradicted. Here every write chooses independently
//   stamp:  newer | the stamp the name had before | older | newer by a fraction of a second
//   length: the length the name had before | another length
//   route:  rewritten in place (same inode) | written aside and renamed over the name (new inode)
// and removals followed by a re-creation with the very same stamp and length occur too; several operations may
// happen between two looks of the engines. Loaders: FileSystemLoader, CompiledLoader, each also inside a ChainLoader.
// One loader object lives as long as the history and is shared by all engines.
//
// Expected values are computed here, from what the harness itself wrote (the sources are "tag[{{ x }}]" plus an
// optional include, so the rendering is known without any engine):
//   loader.Load(name)                          = the source on disk now                    (all sentences rest on it)
//   long-lived engine, cache off               = rendering of what is on disk now          ("every call re-reads the loaders")
//   engine created now over the same loader    = rendering of what is on disk now          (first load of a name)
//   long-lived engine, cache on, reload off    = what it served first                      ("a cached template stays as it was")
//   long-lived engine, cache on, auto-reload   = the new source once the loader reports a newer time (whole seconds, the
//                                                 unit of GetModifiedTime), the cached one while it reports the same time;
//                                                 where the sentence does not decide (time went backwards after a removal,
//                                                 sub-second difference) either of the two is accepted
// CompiledLoader and FileSystemLoader are outside the Lean model: implementation-only oracle.

type c15statOp struct {
	Op      string `json:"op"` // write | remove | look
	Name    string `json:"name,omitempty"`
	Stamp   string `json:"stamp,omitempty"`   // newer | same | older | subsec
	Len     string `json:"len,omitempty"`     // same | other
	Route   string `json:"route,omitempty"`   // inplace | rename
	Include bool   `json:"include,omitempty"` // only for "other" length: body includes the next name (ignore missing)
}

func (o c15statOp) String() string {
	switch o.Op {
	case "write":
		s := fmt.Sprintf("write %s stamp=%s len=%s %s", o.Name, o.Stamp, o.Len, o.Route)
		if o.Include {
			s += " +include"
		}
		return s
	case "remove":
		return "remove " + o.Name
	}
	return "look"
}

var c15statNames = []string{"a", "b", "c"}
var c15statKinds = []string{"compiled", "fs", "chain(compiled)", "chain(fs)"}

// what the harness knows about one name
type c15statFile struct {
	exists  bool
	known   bool // existed at some time: stamp/size/shape below are those of the last copy
	stamp   time.Time
	size    int64
	version int
	pad     int
	include bool
	source  string
}

type c15statCache struct {
	has    bool
	text   string // the source's own text part (before the include)
	incl   string // included name or ""
	stamp  int64  // loader-reported time at load
	unsure bool   // the sentence did not decide between text and the disk: accept both, then follow the engine
}

type c15statWorld struct {
	kind    string
	root    string
	dir     string
	staging string
	clock   int64
	version int
	files   map[string]*c15statFile
	build   *twig.Engine
	writer  *twig.CompiledLoader
	loader  twig.Loader // long-lived, shared
	tsAware bool
	offEng  *twig.Engine
	onEng   *twig.Engine
	arEng   *twig.Engine
	onC     map[string]*c15statCache
	arC     map[string]*c15statCache
}

func c15statNew(kind string) (*c15statWorld, error) {
	root, err := os.MkdirTemp("", "c15st-")
	if err != nil {
		return nil, err
	}
	w := &c15statWorld{kind: kind, root: root, dir: filepath.Join(root, "live"), staging: filepath.Join(root, "staging"),
		files: map[string]*c15statFile{}, onC: map[string]*c15statCache{}, arC: map[string]*c15statCache{}}
	os.Mkdir(w.dir, 0o755)
	os.Mkdir(w.staging, 0o755)
	for _, n := range c15statNames {
		w.files[n] = &c15statFile{}
		w.onC[n] = &c15statCache{}
		w.arC[n] = &c15statCache{}
	}
	w.build = twig.New()
	w.writer = twig.NewCompiledLoader(w.staging)
	var base twig.Loader
	if strings.Contains(kind, "compiled") {
		base = twig.NewCompiledLoader(w.dir)
	} else {
		base = twig.NewFileSystemLoader([]string{w.dir})
	}
	w.loader, w.tsAware = base, true
	if strings.HasPrefix(kind, "chain") {
		w.loader, w.tsAware = twig.NewChainLoader([]twig.Loader{base}), false
	}
	mk := func(cache, reload bool) *twig.Engine {
		e := twig.New()
		e.RegisterLoader(w.loader)
		e.SetCache(cache)
		e.SetAutoReload(reload)
		return e
	}
	w.offEng, w.onEng, w.arEng = mk(false, false), mk(true, false), mk(true, true)
	return w, nil
}

func (w *c15statWorld) close() { os.RemoveAll(w.root) }

func (w *c15statWorld) path(name string) string {
	if strings.Contains(w.kind, "compiled") {
		return filepath.Join(w.dir, name+".twig.compiled")
	}
	return filepath.Join(w.dir, name+".twig")
}

func c15statNext(name string) string {
	for i, n := range c15statNames {
		if n == name {
			return c15statNames[(i+1)%len(c15statNames)]
		}
	}
	return c15statNames[0]
}

func c15statText(name string, version, pad int) string {
	return fmt.Sprintf("%s#%05d%s", name, version, strings.Repeat("~", pad))
}

func c15statSource(name string, version, pad int, include bool) string {
	s := c15statText(name, version, pad) + "[{{ x }}]"
	if include {
		s += "{% include '" + c15statNext(name) + "' ignore missing %}"
	}
	return s
}

// bytes of the file that holds `source` under `name` for this kind of loader
func (w *c15statWorld) encode(name, source string) ([]byte, error) {
	if !strings.Contains(w.kind, "compiled") {
		return []byte(source), nil
	}
	if err := w.build.RegisterString(name, source); err != nil {
		return nil, err
	}
	if err := w.writer.SaveCompiled(w.build, name); err != nil {
		return nil, err
	}
	return os.ReadFile(filepath.Join(w.staging, name+".twig.compiled"))
}

func (w *c15statWorld) apply(o c15statOp) error {
	switch o.Op {
	case "remove":
		f := w.files[o.Name]
		if f.exists {
			f.exists = false
			return os.Remove(w.path(o.Name))
		}
		return nil
	case "write":
		f := w.files[o.Name]
		w.version++
		pad, include := f.pad, f.include
		if !f.known || o.Len != "same" {
			// 1..3 more (mod 5) than before: never the old length; the last name includes nothing (no include cycles)
			pad, include = (f.pad+1+w.version%3)%5, o.Include && o.Name != c15statNames[len(c15statNames)-1]
		}
		var stamp time.Time
		switch {
		case !f.known || o.Stamp == "newer":
			w.clock += 3
			stamp = time.Unix(1_700_000_000+w.clock, 0)
		case o.Stamp == "same":
			stamp = f.stamp
		case o.Stamp == "older":
			stamp = f.stamp.Add(-2 * time.Second)
		default: // a fraction of a second later, still within the same second
			stamp = f.stamp.Add(time.Millisecond)
			if stamp.Unix() != f.stamp.Unix() {
				stamp = f.stamp
			}
		}
		source := c15statSource(o.Name, w.version, pad, include)
		data, err := w.encode(o.Name, source)
		if err != nil {
			return err
		}
		target := w.path(o.Name)
		if o.Route == "rename" {
			tmp := filepath.Join(w.staging, "incoming")
			if err := os.WriteFile(tmp, data, 0o644); err != nil {
				return err
			}
			if err := os.Chtimes(tmp, stamp, stamp); err != nil {
				return err
			}
			if err := os.Rename(tmp, target); err != nil {
				return err
			}
		} else {
			if err := os.WriteFile(target, data, 0o644); err != nil {
				return err
			}
			if err := os.Chtimes(target, stamp, stamp); err != nil {
				return err
			}
		}
		info, err := os.Stat(target)
		if err != nil {
			return err
		}
		*f = c15statFile{exists: true, known: true, stamp: info.ModTime(), size: info.Size(), version: w.version, pad: pad, include: include, source: source}
	}
	return nil
}

// rendering of what is on disk now, with x = "X"
func (w *c15statWorld) diskRender(name string, depth int) string {
	f := w.files[name]
	if !f.exists {
		return "<not-found>"
	}
	out := c15statText(name, f.version, f.pad) + "[X]"
	if f.include && depth < 8 {
		if in := w.diskRender(c15statNext(name), depth+1); in != "<not-found>" {
			out += in
		}
	}
	return out
}

// served computes what a long-lived caching engine may answer for `name` and moves the cache model on. It returns
// the acceptable outputs (one, or two where the property's sentences do not decide).
func (w *c15statWorld) served(cache map[string]*c15statCache, reload bool, name string, depth int) []string {
	f, c := w.files[name], cache[name]
	loadNow := func() bool {
		if !f.exists {
			return false
		}
		*c = c15statCache{has: true, text: c15statText(name, f.version, f.pad), stamp: f.stamp.Unix()}
		if f.include {
			c.incl = c15statNext(name)
		}
		return true
	}
	var own []string // acceptable texts of this template itself; "" = not found
	switch {
	case !c.has:
		if !loadNow() {
			return []string{"<not-found>"}
		}
		own = []string{"L"}
	case !reload || !w.tsAware:
		own = []string{"C"}
	case !f.exists:
		// the loader cannot report a time any more: the engine re-reads, finds nothing, and the cache stays as it was
		return []string{"<not-found>"}
	case f.stamp.Unix() > c.stamp:
		loadNow()
		own = []string{"L"}
	case f.stamp.Unix() == c.stamp && (f.stamp.Nanosecond() == 0 || c.text == c15statText(name, f.version, f.pad)):
		own = []string{"C"}
	default:
		// older than the cached copy, or later within the same second: "changed" or "unchanged" is a matter of reading
		own = []string{"C", "D"}
	}
	var outs []string
	for _, which := range own {
		text, incl := c.text, c.incl
		if which == "D" {
			text, incl = c15statText(name, f.version, f.pad), ""
			if f.include {
				incl = c15statNext(name)
			}
		}
		heads := []string{text + "[X]"}
		if incl != "" && depth < 8 {
			heads = nil
			for _, in := range w.served(cache, reload, incl, depth+1) {
				if in == "<not-found>" {
					in = ""
				}
				heads = append(heads, text+"[X]"+in)
			}
		}
		outs = append(outs, heads...)
	}
	return outs
}

func c15statRender(e *twig.Engine, name string) string {
	res := guarded(func() (string, error) { return e.Render(name, map[string]interface{}{"x": "X"}) })
	if res.Class != "" {
		return "<" + res.Class + ">"
	}
	return res.Out
}

type c15statMismatch struct {
	observer, name, got, want string
	step                      int
}

// look lets every observer look at every name and compares.
func (w *c15statWorld) look(r *Report, step int) *c15statMismatch {
	for _, name := range c15statNames {
		f := w.files[name]
		want := w.diskRender(name, 0)
		// (1) cache off, (2) an engine created now over the same loader object
		if got := c15statRender(w.offEng, name); got != want {
			return &c15statMismatch{"long-lived engine with the cache off: Render", name, got, want, step}
		}
		fresh := twig.New()
		fresh.RegisterLoader(w.loader)
		if got := c15statRender(fresh, name); got != want {
			return &c15statMismatch{"engine created now over the long-lived loader: Render", name, got, want, step}
		}
		r.Hit("stat-invisible:cache-off+fresh")
		// (3) the loader itself
		src, err := w.loader.Load(name)
		r.Hit("stat-invisible:loader")
		switch {
		case f.exists && (err != nil || src != f.source):
			return &c15statMismatch{"loader.Load", name, fmt.Sprintf("%q, %v", src, err), fmt.Sprintf("%q", f.source), step}
		case !f.exists && classify(err) != "not-found":
			return &c15statMismatch{"loader.Load", name, fmt.Sprintf("%q, %v", src, err), "an error matching ErrTemplateNotFound", step}
		}
	}
	// (4) cache on without auto-reload, (5) with auto-reload; the cache models move with the calls, so each engine
	// gets exactly one Render per name per look
	for _, name := range c15statNames {
		for _, en := range []struct {
			label  string
			e      *twig.Engine
			cache  map[string]*c15statCache
			reload bool
		}{{"long-lived engine, cache on, auto-reload off: Render", w.onEng, w.onC, false}, {"long-lived engine, cache on, auto-reload on: Render", w.arEng, w.arC, true}} {
			wants := w.served(en.cache, en.reload, name, 0)
			got := c15statRender(en.e, name)
			ok := false
			for _, x := range wants {
				ok = ok || x == got
			}
			r.Hit("stat-invisible:caching")
			if !ok {
				return &c15statMismatch{en.label, name, got, strings.Join(wants, " or "), step}
			}
			if len(wants) > 1 {
				// follow the engine where both answers were acceptable
				r.Hit("stat-invisible:undecided")
				w.follow(en.cache, name, got, 0)
			}
		}
	}
	return nil
}

// follow sets the cache model of `name` (and of what it includes) to the copy the engine showed to hold.
func (w *c15statWorld) follow(cache map[string]*c15statCache, name, got string, depth int) {
	f, c := w.files[name], cache[name]
	if !c.has || !f.exists || depth > 8 {
		return
	}
	if disk := c15statText(name, f.version, f.pad) + "[X]"; strings.HasPrefix(got, disk) && !strings.HasPrefix(got, c.text+"[X]") {
		*c = c15statCache{has: true, text: c15statText(name, f.version, f.pad), stamp: f.stamp.Unix()}
		if f.include {
			c.incl = c15statNext(name)
		}
	}
	if c.incl != "" {
		if rest := strings.TrimPrefix(got, c.text+"[X]"); rest != got && rest != "" {
			w.follow(cache, c.incl, rest, depth+1)
		}
	}
}

// c15statRun plays one history; a "look" happens at every look op and once at the end.
func c15statRun(r *Report, kind string, ops []c15statOp) (*c15statMismatch, error) {
	w, err := c15statNew(kind)
	if err != nil {
		return nil, err
	}
	defer w.close()
	for i, o := range ops {
		if o.Op == "look" {
			if mm := w.look(r, i); mm != nil {
				return mm, nil
			}
			continue
		}
		if err := w.apply(o); err != nil {
			return nil, err
		}
	}
	return w.look(r, len(ops)), nil
}

func c15statRandomOp(e *Env) c15statOp {
	rng := e.Rng
	name := pick(rng, c15statNames)
	switch k := rng.Intn(20); {
	case k < 12:
		o := c15statOp{Op: "write", Name: name, Route: pick(rng, []string{"inplace", "rename"})}
		o.Stamp = pick(rng, []string{"same", "same", "same", "newer", "newer", "older", "subsec"})
		o.Len = pick(rng, []string{"same", "same", "other"})
		o.Include = rng.Intn(3) == 0
		return o
	case k < 15:
		return c15statOp{Op: "remove", Name: name}
	}
	return c15statOp{Op: "look"}
}

func c15statOpsJSON(ops []c15statOp) []any {
	var out []any
	for _, o := range ops {
		b, _ := json.Marshal(o)
		var m map[string]any
		json.Unmarshal(b, &m)
		out = append(out, m)
	}
	return out
}

// c15statNormalize spells out what apply does anyway: the first copy of a name has a new stamp and its own length.
func c15statNormalize(ops []c15statOp) []c15statOp {
	out := append([]c15statOp{}, ops...)
	known := map[string]bool{}
	for i, o := range out {
		if o.Op != "write" {
			continue
		}
		if !known[o.Name] {
			out[i].Stamp, out[i].Len = "newer", "other"
		}
		if out[i].Len == "same" || o.Name == c15statNames[len(c15statNames)-1] {
			out[i].Include = false // the shape of the previous copy is kept; the last name includes nothing
		}
		known[o.Name] = true
	}
	return out
}

func c15statReport(r *Report, kind string, ops []c15statOp, mm *c15statMismatch) bool {
	ops = c15statNormalize(ops)
	var log []string
	for i, o := range ops {
		if i >= mm.step {
			break
		}
		log = append(log, o.String())
	}
	return r.Violate(Violation{Key: "loader-serves-stale-file",
		What:   fmt.Sprintf("loader %s, %s: %q gives %s, want %s (computed from the files as written), after [%s]", kind, mm.observer, mm.name, mm.got, mm.want, strings.Join(log, "; ")),
		Broken: "theorem C15_serves_expected / C15_cache_off_rereads (the library's file-backed loaders are outside the model: implementation-only oracle against the content the harness wrote)",
		Replay: map[string]any{"kind": "stat-invisible-history", "loader": kind, "ops": c15statOpsJSON(ops[:min(mm.step, len(ops))]), "observer": mm.observer, "name": mm.name, "got": mm.got, "want": mm.want}})
}

// shrink: drop operations one at a time while some observer still disagrees
func c15statShrink(kind string, ops []c15statOp, mm *c15statMismatch) ([]c15statOp, *c15statMismatch) {
	ops = ops[:min(mm.step, len(ops))]
	scratch := NewReport("C15", "scratch", 0)
	for changed := true; changed; {
		changed = false
		for i := 0; i < len(ops); {
			cand := append(append([]c15statOp{}, ops[:i]...), ops[i+1:]...)
			if m2, err := c15statRun(scratch, kind, cand); err == nil && m2 != nil {
				ops, mm, changed = cand[:min(m2.step, len(cand))], m2, true
				if i > len(ops) {
					i = len(ops)
				}
				continue
			}
			i++
		}
	}
	return ops, mm
}

func c15StatInvisible(e *Env) {
	r := e.Rep
	rounds := e.N(32, 600)
	for round := 0; round < rounds && !r.Full(); round++ {
		kind := c15statKinds[round%len(c15statKinds)]
		var ops []c15statOp
		// every name gets a first copy, then the engines look once
		for _, n := range c15statNames {
			if e.Rng.Intn(5) > 0 {
				ops = append(ops, c15statOp{Op: "write", Name: n, Stamp: "newer", Len: "other", Route: "inplace", Include: e.Rng.Intn(3) == 0})
			}
		}
		ops = append(ops, c15statOp{Op: "look"})
		for k := e.N(40, 80); k > 0; k-- {
			ops = append(ops, c15statRandomOp(e))
		}
		var canon []string
		for _, o := range ops {
			canon = append(canon, o.String())
		}
		mm, err := c15statRun(r, kind, ops)
		r.Seen("stat-invisible:"+kind+":"+strings.Join(canon, ";"), true)
		if err != nil {
			r.Skip("stat-invisible-setup:" + truncate(err.Error(), 60))
			continue
		}
		if mm == nil {
			continue
		}
		ops, mm = c15statShrink(kind, ops, mm)
		if c15statReport(r, kind, ops, mm) {
			return
		}
	}
}

// c15statReplay re-runs a stored stat-invisible history.
func c15statReplay(e *Env, doc map[string]any) error {
	kind, _ := doc["loader"].(string)
	b, _ := json.Marshal(doc["ops"])
	var ops []c15statOp
	if err := json.Unmarshal(b, &ops); err != nil {
		return err
	}
	mm, err := c15statRun(e.Rep, kind, ops)
	if err != nil {
		return err
	}
	e.Rep.Seen("stat-invisible-replay", true)
	if mm != nil {
		c15statReport(e.Rep, kind, ops, mm)
	}
	return nil
}
