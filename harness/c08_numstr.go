package main

import (
	"fmt"
	"math/big"
	"math/rand"
	"strings"
)

// C08 (f) — a COMPUTED integer means the same where the evaluator turns it into text as where it is printed.
//
// Every arithmetic result is a float64 inside the engine, and the engine has more than one routine that writes a
// number as text (the print tag, the evaluator's ToString used by ~, starts with, ends with, matches, hash keys and
// subscripts, the string filters, join, the comparison of a number with a string). Section (e) of runC08 prints
// results only. Here an integer v, |v| <= 2^53, of every decimal length 1..16 (around every power of ten, around the
// powers of two up to 2^53, and random ones) is produced by an arithmetic operator (+ - * / % ^, unary minus; from
// context variables and from literals) or handed over as it is (literal, Go int / int64 / float64 context value) and written in every text-taking position; the expected text of each
// position is computed from math/big's decimal spelling of v, never from the engine.

// numForm is one position: a template fragment with E for the expression (always replaced by a parenthesised or
// operator-safe spelling), and the text it must produce given the decimal spelling w of the value.
type numForm struct {
	name string
	tpl  string // E = the expression, W = decimal spelling, P = first up-to-3 chars of W, S = last up-to-3 chars of W
	want func(w string) string
}

func sameW(w string) string  { return w }
func trueW(w string) string  { return "true" }
func foundW(w string) string { return "found" }

var numForms = []numForm{
	{"print", "{{ E }}", sameW},
	{"print-parens", "{{ (E) }}", sameW},
	{"concat-empty", "{{ (E) ~ '' }}", sameW},
	{"concat-right-operand", "{{ 'n' ~ (E) }}", func(w string) string { return "n" + w }},
	{"concat-both", "{{ (E) ~ 'u' ~ (E) }}", func(w string) string { return w + "u" + w }},
	{"starts-with", "{{ (E) starts with 'P' }}", trueW},
	{"ends-with", "{{ (E) ends with 'S' }}", trueW},
	{"starts-and-ends-with-whole", "{{ (E) starts with 'W' and (E) ends with 'W' }}", trueW},
	{"in-string", "{{ 'S' in (E) ~ '' }}", trueW},
	{"matches", "{{ (E) matches '/^W$/' }}", trueW},
	{"hash-literal-subscript", "{{ {'W': 'found', 'other': 'no'}[E] }}", foundW},
	{"hash-literal-key", "{{ {(E): 'v'}|keys|join(',') }}", sameW},
	{"context-map-subscript", "{{ m[E] }}", foundW},
	{"filter-upper", "{{ (E)|upper }}", sameW},
	{"filter-lower", "{{ (E)|lower }}", sameW},
	{"filter-trim", "{{ (E)|trim }}", sameW},
	{"filter-title", "{{ (E)|title }}", sameW},
	{"filter-capitalize", "{{ (E)|capitalize }}", sameW},
	{"filter-escape", "{{ (E)|escape }}", sameW},
	{"filter-raw", "{{ (E)|raw }}", sameW},
	{"filter-url_encode", "{{ (E)|url_encode }}", sameW},
	{"filter-striptags", "{{ (E)|striptags }}", sameW},
	{"filter-nl2br", "{{ (E)|nl2br }}", sameW},
	{"filter-replace", "{{ (E)|replace('q', 'r') }}", sameW},
	// (E)|spaceless: the unchanged tree wrote its operand with fmt's %v ({{ (1000 * 1000)|spaceless }} gave 1e+06);
	// repaired in /repo 8bd2988. '%s'|format(E) does not accept numbers at all and stays out.
	{"filter-spaceless", "{{ (E)|spaceless }}", sameW},
	{"filter-default", "{{ (E)|default('d') ~ '' }}", func(w string) string {
		if w == "0" {
			return "d"
		}
		return w
	}},
	{"filter-json_encode", "{{ (E)|json_encode|raw }}", sameW},
	{"filter-abs-concat", "{{ (E)|abs ~ '' }}", func(w string) string { return strings.TrimPrefix(w, "-") }},
	{"filter-split-join", "{{ (E)|split('')|join('.') }}", func(w string) string { return strings.Join(strings.Split(w, ""), ".") }},
	{"filter-join", "{{ [E, E]|join('-') }}", func(w string) string { return w + "-" + w }},
	{"filter-first-concat", "{{ [E]|first ~ '' }}", sameW},
	{"filter-merge-join", "{{ [E]|merge([1])|join(',') }}", func(w string) string { return w + ",1" }},
	{"length-of-text", "{{ ((E) ~ '')|length }}", func(w string) string { return fmt.Sprint(len(w)) }},
	{"function-max-concat", "{{ max(E, E) ~ '' }}", sameW},
	{"equals-its-text", "{{ (E) == 'W' }}", trueW},
	{"text-equals-text", "{{ (E) ~ '' == 'W' }}", trueW},
	{"in-list-of-text", "{{ (E) in ['W'] }}", trueW},
	{"text-in-list-of-it", "{{ 'W' in [E] }}", trueW},
	{"set-then-concat", "{% set numstr_t = E %}{{ numstr_t ~ '' }}/{{ numstr_t }}", func(w string) string { return w + "/" + w }},
	{"set-concat", "{% set numstr_l = 'n' ~ (E) %}{{ numstr_l }}", func(w string) string { return "n" + w }},
	{"conditional-arm", "{{ t ? (E) ~ '' : '' }}", sameW},
	{"for-sequence", "{% for c in [(E) ~ '', E] %}{{ c }};{% endfor %}", func(w string) string { return w + ";" + w + ";" }},
	{"if-condition", "{% if (E) ~ '' == 'W' %}yes{% else %}no{% endif %}", func(w string) string { return "yes" }},
	{"include-variable", "{% include 'show' with {'v': (E) ~ ''} only %}", sameW},
	{"include-variable-number", "{% include 'showcat' with {'v': E} only %}", func(w string) string { return w + "|" + w }},
	{"macro-argument", "{{ numstr_id(E) }}", func(w string) string { return w + "|" + w }},
}

const numstrMacro = "{% macro numstr_id(q) %}{{ q ~ '' }}|{{ q }}{% endmacro %}"

func fillNumForm(tpl, expr, w string) string {
	p, s := w, w
	if len(p) > 3 {
		p = w[:3]
		s = w[len(w)-3:]
	}
	return strings.NewReplacer("E", expr, "W", w, "P", p, "S", s).Replace(tpl)
}

// numExpr spells an arithmetic expression whose exact value is v; vars receives the context variables it uses.
// ok = false when this way of computing does not fit v (no divisor, operand beyond 2^53, ...).
func numExpr(rg *rand.Rand, how string, v int64, vars map[string]any) (src string, ok bool) {
	const lim = int64(1) << 53
	fits := func(xs ...int64) bool {
		for _, x := range xs {
			if x > lim || x < -lim {
				return false
			}
		}
		return true
	}
	abs := func(x int64) int64 {
		if x < 0 {
			return -x
		}
		return x
	}
	bind := func(x, y int64) { vars["x"], vars["y"] = int(x), int(y) }
	switch how {
	case "add", "add-lit", "sub", "sub-lit":
		d := rg.Int63n(abs(v)/2+1000) + 1
		if rg.Intn(3) == 0 {
			d = rg.Int63n(9) + 1 // the carry/borrow across a power of ten or two happens in the last digit
		}
		x, op := v-d, "+"
		if strings.HasPrefix(how, "sub") {
			x, op = v+d, "-"
		}
		if !fits(x, d) {
			return "", false
		}
		if strings.HasSuffix(how, "-lit") {
			if x < 0 {
				return "", false
			}
			return fmt.Sprintf("%d %s %d", x, op, d), true
		}
		bind(x, d)
		return "x " + op + " y", true
	case "mul", "mul-lit":
		var divs []int64
		for _, p := range []int64{2, 3, 4, 5, 7, 8, 9, 10, 11, 13, 16, 25, 64, 100, 125, 1000, 1024, 4000000, 1 << 20, 1 << 26, 1000000007, -1, -2, -5} {
			if v%p == 0 && v != 0 {
				divs = append(divs, p)
			}
		}
		if len(divs) == 0 {
			return "", false
		}
		y := pick(rg, divs)
		x := v / y
		if rg.Intn(2) == 0 {
			x, y = y, x
		}
		if how == "mul-lit" {
			if x < 0 || y < 0 {
				return "", false
			}
			return fmt.Sprintf("%d * %d", x, y), true
		}
		bind(x, y)
		return "x * y", true
	case "div":
		y := pick(rg, []int64{2, 3, 5, 7, 10, 16, 1000, -1, -4})
		if abs(v) > lim/abs(y) {
			y = pick(rg, []int64{1, -1})
		}
		if v == 0 && y < 0 {
			y = -y
		}
		bind(v*y, y)
		return "x / y", true
	case "mod":
		m := abs(v) + 1 + rg.Int63n(abs(v)/4+10)
		x := v
		if v >= 0 {
			x += m * int64(1+rg.Intn(2))
		} else {
			x -= m * int64(1+rg.Intn(2))
		}
		if !fits(x, m) {
			return "", false
		}
		bind(x, m)
		return "x % y", true
	case "pow":
		for _, b := range []int64{10, 2, 3, 7} {
			p, k := int64(1), 0
			for abs(p) < abs(v) {
				p *= b
				k++
			}
			if p == v && k >= 1 {
				bind(b, int64(k))
				return "x ^ y", true
			}
			if -p == v && k%2 == 1 {
				bind(-b, int64(k))
				return "x ^ y", true
			}
		}
		return "", false
	case "neg":
		if v == 0 {
			return "", false
		}
		vars["x"] = int(-v)
		return "-x", true
	case "zero-minus":
		vars["x"] = int(-v)
		return "0 - x", true
	case "var-int", "var-int64", "var-float64":
		// no operator at all: a context value as Go int, int64 or (what a JSON decoder delivers) float64
		switch how {
		case "var-int":
			vars["x"] = int(v)
		case "var-int64":
			vars["x"] = v
		default:
			vars["x"] = float64(v)
		}
		return "x", true
	case "literal":
		if v < 0 {
			return "", false
		}
		return fmt.Sprint(v), true
	case "three-operands":
		d := rg.Int63n(abs(v)/3+50) + 1
		f := pick(rg, []int64{2, 3, 5, 10})
		if v%f != 0 || !fits(v/f-d, d) {
			return "", false
		}
		vars["x"], vars["y"], vars["z"] = int(v/f-d), int(d), int(f)
		return "(x + y) * z", true
	}
	return "", false
}

var numHows = []string{"add", "add-lit", "sub", "sub-lit", "mul", "mul-lit", "div", "mod", "pow", "neg", "zero-minus", "three-operands", "var-int", "var-int64", "var-float64", "literal"}

// numValues: the integers under test. Deterministic part: around every power of ten and every power of two, both
// signs, up to 2^53; random part: a random value of every decimal length.
func numValues(rg *rand.Rand, random int) []int64 {
	const lim = int64(1) << 53
	seen := map[int64]bool{}
	var out []int64
	add := func(v int64) {
		if v > lim || v < -lim || seen[v] {
			return
		}
		seen[v] = true
		out = append(out, v)
	}
	p := int64(1)
	for k := 0; k <= 15; k++ {
		for _, m := range []int64{1, 5, 9} { // 10^k, 5·10^k, 9·10^k and their neighbours
			for _, d := range []int64{-1, 0, 1} {
				add(p*m + d)
				add(-(p*m + d))
			}
		}
		p *= 10
	}
	for k := uint(30); k <= 53; k++ {
		for _, d := range []int64{-1, 0, 1} {
			add(int64(1)<<k + d)
			add(-(int64(1)<<k + d))
		}
	}
	for i := 0; i < random; i++ {
		digits := 1 + i%16
		lo := int64(1)
		for j := 1; j < digits; j++ {
			lo *= 10
		}
		hi := lo * 10
		if hi > lim {
			hi = lim + 1
		}
		v := lo + rg.Int63n(hi-lo)
		if rg.Intn(2) == 0 {
			v = -v
		}
		add(v)
	}
	return out
}

func c08NumbersAsText(e *Env) error {
	r := e.Rep
	rg := e.Rng
	vals := numValues(rg, e.N(96, 20000))
	howsPer := e.N(3, 6)
	for vi, v := range vals {
		if r.Full() {
			break
		}
		w := big.NewInt(v).String() // the decimal spelling, from math/big
		tried := 0
		for _, hi := range rg.Perm(len(numHows)) {
			if tried >= howsPer {
				break
			}
			how := numHows[hi]
			ctx := map[string]any{"t": true, "m": map[string]interface{}{w: "found", "other": "no"}}
			expr, ok := numExpr(rg, how, v, ctx)
			if !ok {
				continue
			}
			tried++
			// all positions in one template, one per line; on a difference the position is rendered alone as well
			var src, want strings.Builder
			src.WriteString(numstrMacro)
			for _, f := range numForms {
				src.WriteString(fillNumForm(f.tpl, expr, w) + "\n")
				want.WriteString(f.want(w) + "\n")
			}
			tpls := func(main string) map[string]string {
				return map[string]string{"main": main, "show": "{{ v }}", "showcat": "{{ v ~ '' }}|{{ v }}"}
			}
			c := &Case{Templates: tpls(src.String()), Main: "main", Ctx: ctx, FailAt: -1}
			im := runImpl(c)
			r.Seen(fmt.Sprintf("numstr:%s:%d", how, v), true)
			r.Hit("number-as-text:" + how)
			r.Hit(fmt.Sprintf("number-as-text-digits:%02d", len(strings.TrimPrefix(w, "-"))))
			if vi < 1 && tried == 1 {
				r.Sample(map[string]any{"number_as_text_expr": expr, "value": w, "ctx": fmt.Sprint(ctx), "positions": len(numForms)})
			}
			if im.Class == "" && im.Out == want.String() {
				// the model's view of the plainest text position, for a sample (Lean Int arithmetic and its own toString)
				// (the model driver's context encoding knows Go int only)
				if vi%8 == 0 && tried == 1 && how != "var-int64" && how != "var-float64" {
					mc := &Case{Templates: tpls("{{ (" + expr + ") ~ '' }}|{{ " + expr + " }}"), Main: "main", Ctx: ctx, FailAt: -1}
					if _, _, _, err := compareCase(e, mc, "render-model-c08", "correspondence (Lean evaluator vs real engine) on computed integers written as text"); err != nil {
						return err
					}
				}
				continue
			}
			// which position?
			reported := false
			for _, f := range numForms {
				one := numstrMacro + fillNumForm(f.tpl, expr, w)
				oc := &Case{Templates: tpls(one), Main: "main", Ctx: ctx, FailAt: -1}
				om := runImpl(oc)
				if om.Class == "" && om.Out == f.want(w) {
					continue
				}
				reported = true
				rp := numReplay(oc, om)
				rp["want"], rp["value"], rp["expr"], rp["position"], rp["computed_by"] = f.want(w), w, expr, f.name, how
				if r.Violate(Violation{Key: "computed-number-as-text", What: fmt.Sprintf("%s with %s is exactly %s; as %s, %s gives %q (%s %s), expected %q",
					expr, ctxXYZ(ctx), w, f.name, fillNumForm(f.tpl, expr, w), om.Out, om.Class, truncate(om.Msg, 80), f.want(w)),
					Broken: "theorem C08_arith_exact / C08_position no longer describes the code (implementation-only oracle: decimal spelling from math/big in every text-taking position)",
					Replay: rp}) {
					return nil
				}
				break // one position per value and way of computing is enough
			}
			if !reported {
				rp := numReplay(c, im)
				rp["want"], rp["value"], rp["expr"], rp["computed_by"] = want.String(), w, expr, how
				if r.Violate(Violation{Key: "computed-number-as-text", What: fmt.Sprintf("%s with %s is exactly %s; every position alone is right, but all %d in one template give %q (%s %s), expected %q",
					expr, ctxXYZ(ctx), w, len(numForms), truncate(im.Out, 300), im.Class, truncate(im.Msg, 80), truncate(want.String(), 300)),
					Broken: "theorem C08_arith_exact / C08_position no longer describes the code (implementation-only oracle: decimal spelling from math/big in every text-taking position)",
					Replay: rp}) {
					return nil
				}
			}
		}
	}
	return nil
}

// numReplay: a "render" replay object built here, because Case.replay also encodes the context for the model driver,
// which knows Go int only (the context may hold an int64 or a float64 here)
func numReplay(c *Case, im Outcome) map[string]any {
	tpls := map[string]any{}
	for k, v := range c.Templates {
		tpls[k] = v
	}
	types := map[string]any{}
	for _, k := range []string{"x", "y", "z"} {
		if v, ok := c.Ctx[k]; ok {
			types[k] = fmt.Sprintf("%T", v)
		}
	}
	return map[string]any{"kind": "render", "templates": tpls, "main": c.Main, "ctx": c.Ctx, "ctx_go_types": types,
		"impl": map[string]any{"out": im.Out, "class": im.Class, "msg": im.Msg, "panic": im.Panic}}
}

func ctxXYZ(ctx map[string]any) string {
	var parts []string
	for _, k := range []string{"x", "y", "z"} {
		if v, ok := ctx[k]; ok {
			parts = append(parts, fmt.Sprintf("%s=%v", k, v))
		}
	}
	if len(parts) == 0 {
		return "literals"
	}
	return strings.Join(parts, ", ")
}
