package main

import (
	"fmt"
	"os"
	"path/filepath"
	"sort"
	"strings"
)

// relNamesCorpus: template names starting with "./" or "../" in include / extends / import / from-import.
//
// The engine joins such a name to the directory of the template THE RENDER CALL STARTED FROM (ctx.templateName, copied
// into every derived context), cleans the result (filepath.Join) and loads that; if nothing is registered under the
// resolved name and it differs from the written one, the name as written is loaded. The Lean model does the same
// (TwigModel.Render: resolveTpl / pathJoin / pathDir / pathClean, Env.entry set by the driver to the main template).
//
// Part 1 is a grid: entry names x relative names x tag kinds x {target registered under the resolved name, under the
// written name, under both, under neither}. Besides the model (compareCase) every grid case has an implementation-only
// oracle: the expected output, computed here with path/filepath.
// Part 2 are hand-written sets: relative names inside included / extended / imported templates and macro bodies (they
// resolve against the ENTRY's directory, not the directory of the template holding the tag), computed names, names
// that only look relative, odd entry names.
//
// Every case must be supported by the model: a skip is reported as a violation.
func relNamesCorpus(e *Env) error {
	r := e.Rep
	cases, skipped := 0, 0
	skippedWhy := map[string]int{}
	run := func(c *Case, label string, want *Outcome) error {
		im, mo, _, err := compareCase(e, c, "render-model-c11-relative-names", "correspondence (Lean pipeline vs real engine) on relative template names: resolveTpl / pathJoin / pathDir")
		if err != nil {
			return err
		}
		cases++
		r.Seen("rel-names:"+label, true)
		r.Hit("rel-names")
		if e.Model != nil && (mo.Unsupported != "" || mo.Fuel) {
			skipped++
			why := mo.Unsupported
			if mo.Fuel {
				why = "out of fuel"
			}
			skippedWhy[why]++
			r.Violate(Violation{Key: "relative-name-outside-model", What: fmt.Sprintf("%s: the model does not cover this case (%s)", label, why),
				Broken: "correspondence render: relative template names are inside the model (resolveTpl)", Replay: c.replay(im, mo)})
		}
		if want != nil && (im.Class != want.Class || (want.Class == "" && im.Out != want.Out)) {
			r.Violate(Violation{Key: "relative-name-resolution", What: fmt.Sprintf("%s: renders %q (%s %s), expected %q (%s)", label, truncate(im.Out, 160), im.Class, truncate(im.Msg, 100), want.Out, want.Class),
				Broken: "theorems C11_relative_resolves_against_entry / C11_relative_falls_back_to_written / C11_relative_without_entry (implementation-only oracle: filepath.Join(filepath.Dir(entry), name), then the name as written)",
				Replay: c.replay(im, Outcome{})})
		}
		return nil
	}

	// ---- part 1: the grid ----------------------------------------------------------------------------------------
	type kind struct {
		name   string
		main   func(nameExpr string) string // the entry template
		target func(label string) string    // the template the name is meant to reach
		found  func(label string) string    // expected output when `label` is the template reached
		tol    bool                         // ignore missing
	}
	incTarget := func(l string) string { return "T(" + l + "){{ v }}{{ w }}" }
	libTarget := func(l string) string { return "{% macro m(x) %}T(" + l + ")<{{ x }}>{% endmacro %}" }
	kinds := []kind{
		{"include", func(n string) string { return "A{% include " + n + " %}B" }, incTarget, func(l string) string { return "AT(" + l + ")B" }, false},
		{"include-with", func(n string) string { return "A{% include " + n + " with {'v': 1} %}B" }, incTarget, func(l string) string { return "AT(" + l + ")1B" }, false},
		{"include-only", func(n string) string { return "{% set w = 2 %}A{% include " + n + " with {'v': 1} only %}B" }, incTarget, func(l string) string { return "AT(" + l + ")1B" }, false},
		{"include-ignore-missing", func(n string) string { return "A{% include " + n + " ignore missing %}B" }, incTarget, func(l string) string { return "AT(" + l + ")B" }, true},
		{"extends", func(n string) string { return "{% extends " + n + " %}{% block c %}child{% endblock %}" },
			func(l string) string { return "T(" + l + ")[{% block c %}base{% endblock %}]" }, func(l string) string { return "T(" + l + ")[child]" }, false},
		{"import", func(n string) string { return "{% import " + n + " as l %}{{ l.m(1) }}" }, libTarget, func(l string) string { return "T(" + l + ")<1>" }, false},
		{"from", func(n string) string { return "{% from " + n + " import m %}{{ m(2) }}" }, libTarget, func(l string) string { return "T(" + l + ")<2>" }, false},
	}
	entries := []string{"main", "pages/home", "a/b/c/page", "/abs/page", "pages//home"}
	rels := []string{"./x", "../x", "../../x", "./a/../x", ".//x", "./x/", "../../../../x", "../shared/x", "./sub/./x"}
	for _, entry := range entries {
		for _, rel := range rels {
			resolved := filepath.Join(filepath.Dir(entry), rel)
			if resolved == entry {
				continue
			}
			for _, k := range kinds {
				for _, variant := range []string{"resolved", "written", "both", "neither"} {
					if resolved == rel && (variant == "written" || variant == "both") {
						continue // names resolving to themselves: one registration
					}
					tp := map[string]string{entry: k.main("'" + rel + "'")}
					reached := ""
					if variant == "written" || variant == "both" {
						tp[rel] = k.target("W:" + rel)
						reached = "W:" + rel
					}
					if variant == "resolved" || variant == "both" {
						tp[resolved] = k.target("R:" + resolved)
						reached = "R:" + resolved
					}
					want := &Outcome{}
					switch {
					case reached != "":
						want.Out = k.found(reached)
					case k.tol:
						want.Out = "AB"
					default:
						want.Class = "notFound"
					}
					c := &Case{Templates: tp, Main: entry, Ctx: map[string]any{"n": "x"}, FailAt: -1}
					if err := run(c, fmt.Sprintf("grid %s from %q: %s, target registered under: %s", k.name, entry, rel, variant), want); err != nil {
						return err
					}
					if r.Full() {
						return nil
					}
				}
			}
		}
	}

	// ---- part 2: hand-written sets ---------------------------------------------------------------------------------
	type set struct {
		name string
		tpls map[string]string
		main string
		out  string // expected output ("" with class != "" for failures)
		cls  string
	}
	with := func(base map[string]string, kv ...string) map[string]string {
		m := map[string]string{}
		for k, v := range base {
			m[k] = v
		}
		for i := 0; i+1 < len(kv); i += 2 {
			if kv[i+1] == "\x00" {
				delete(m, kv[i])
			} else {
				m[kv[i]] = kv[i+1]
			}
		}
		return m
	}
	const del = "\x00"
	lib := "{% macro m(x) %}<{{ x }}>{% endmacro %}"
	nested := map[string]string{
		"pages/home":  "H[{% include 'shared/box' %}]",
		"shared/box":  "B[{% include './part' %}]",
		"pages/part":  "P-pages",
		"shared/part": "P-shared",
	}
	layout := map[string]string{
		"pages/home":   "{% extends 'layouts/base' %}{% block c %}C{% include './foot' %}{% endblock %}",
		"layouts/base": "L[{% block c %}{% endblock %}|{% include './foot' %}|{% include '../pages/foot' %}]",
		"pages/foot":   "F-pages",
		"layouts/foot": "F-layouts",
	}
	macroLib := map[string]string{
		"pages/home":   "{% import 'shared/lib' as l %}{{ l.box() }}|{% from 'shared/lib' import box as bx %}{{ bx() }}",
		"shared/lib":   "{% macro box() %}M[{% include './part' %}{% import './icons' as i %}{{ i.star() }}]{% endmacro %}",
		"pages/part":   "P-pages",
		"shared/part":  "P-shared",
		"pages/icons":  "{% macro star() %}*pages{% endmacro %}",
		"shared/icons": "{% macro star() %}*shared{% endmacro %}",
	}
	ownMacro := map[string]string{
		"pages/home":  "{% macro m() %}({% include './part' %}){% endmacro %}{{ m() }}{% include 'shared/box' %}{% include '../shared/box' with {'q': 1} %}",
		"shared/box":  "[{{ m() }}{% include './part' %}]",
		"pages/part":  "P-pages",
		"shared/part": "P-shared",
	}
	deep := map[string]string{
		"a/b/c/page": "1{% include '../d/t1' %}",
		"a/b/d/t1":   "2{% include './t2' %}{% include '../../x/t3' %}",
		"a/b/c/t2":   "3c",
		"a/b/d/t2":   "3d",
		"a/x/t3":     "4{% include '../../../top' %}{% include '../../../../top' %}",
		"a/b/x/t3":   "4wrong",
		"top":        "5top",
		"../top":     "5up",
	}
	libTop := map[string]string{
		"pages/home":   "{% import '../shared/lib' as l %}{{ l.m(1) }}",
		"shared/lib":   "{% from './icons' import star %}" + lib + "{{ star() }}",
		"pages/icons":  "{% macro star() %}*pages{% endmacro %}",
		"shared/icons": "{% macro star() %}*shared{% endmacro %}",
	}
	computed := map[string]string{
		"pages/home":   "{% include './' ~ n %}|{% set p = '../shared/' ~ n %}{% include p %}|{% for q in ['x', 'y'] %}{% include './' ~ q ignore missing %};{% endfor %}|{% import './' ~ 'lib' as l %}{{ l.m(n) }}|{% include (n == 'x') ? './x' : './y' %}|{% include ['.', n]|join('/') %}",
		"pages/x":      "X-pages",
		"shared/x":     "X-shared",
		"pages/lib":    lib,
		"x":            "X-top",
		"layouts/base": "L[{% block c %}{% endblock %}]",
	}
	sets := []set{
		{"relative name inside an included template of another directory", nested, "pages/home", "H[B[P-pages]]", ""},
		{"… entry-relative target missing, template next to the includING template exists: not found", with(nested, "pages/part", del), "pages/home", "", "notFound"},
		{"… entry-relative target missing, the name as written is registered", with(nested, "pages/part", del, "./part", "P-written"), "pages/home", "H[B[P-written]]", ""},
		{"… the included template as the entry", nested, "shared/box", "B[P-shared]", ""},
		{"relative names inside an extended layout and inside an overriding block", layout, "pages/home", "L[CF-pages|F-pages|F-pages]", ""},
		{"… the layout as the entry", layout, "layouts/base", "L[|F-layouts|F-pages]", ""},
		{"… entry-relative target missing", with(layout, "pages/foot", del), "pages/home", "", "notFound"},
		{"relative names in the body of an imported macro", macroLib, "pages/home", "M[P-pages*pages]|M[P-pages*pages]", ""},
		{"… entry-relative import target missing", with(macroLib, "pages/icons", del), "pages/home", "", "notFound"},
		{"… the library as the entry (top level renders nothing)", macroLib, "shared/lib", "", ""},
		{"relative names in the body of the entry's own macro called from an included template", ownMacro, "pages/home", "(P-pages)[(P-pages)P-pages][(P-pages)P-pages]", ""},
		{"a chain of relative names through three directories", deep, "a/b/c/page", "123c45top5up", ""},
		{"… with the resolved last link missing the name as written is used", with(deep, "top", del, "../../../top", "5written"), "a/b/c/page", "123c45written5up", ""},
		{"… with a link missing everywhere", with(deep, "a/b/c/t2", del), "a/b/c/page", "", "notFound"},
		{"a relative from-import at the top level of an imported library", libTop, "pages/home", "<1>", ""},
		{"… whose entry-relative target is missing", with(libTop, "pages/icons", del), "pages/home", "", "notFound"},
		{"computed relative names", computed, "pages/home", "X-pages|X-shared|X-pages;;|<x>|X-pages|X-pages", ""},
		{"computed relative names, other context", with(computed, "pages/y", "Y-pages"), "pages/home", "", ""},
		{"computed relative extends", with(computed, "pages/home", "{% extends '../' ~ 'layouts/' ~ b %}{% block c %}C{% endblock %}"), "pages/home", "L[C]", ""},
		{"computed relative extends falling back to the name as written", with(computed, "pages/home", "{% extends './' ~ b %}{% block c %}C{% endblock %}", "./base", "W[{% block c %}{% endblock %}]"), "pages/home", "W[C]", ""},
	}
	// names that only look relative are looked up as written (no cleaning), relative ones are cleaned
	for _, nm := range []string{".x", "..x", ".../x", "x/./y", "x/../y", "..", ".", "/x", "//x", "x/", "./", "../", "./.", "./..", "../..", "./../", ".//", "./x//y/", "./x/../../y", "./..x", "./.x"} {
		main := "A{% include '" + nm + "' ignore missing %}B"
		for _, entry := range []string{"pages/home", "home"} {
			res := nm
			if strings.HasPrefix(nm, "./") || strings.HasPrefix(nm, "../") {
				res = filepath.Join(filepath.Dir(entry), nm)
			}
			tp := map[string]string{entry: main}
			// every name the lookup could conceivably use, each with its own text; the entry itself keeps its source
			cands := map[string]bool{nm: true, res: true, filepath.Clean(nm): true, filepath.Join(filepath.Dir(entry), nm): true, "x": true, "y": true, "pages": true, "pages/x": true, "pages/y": true}
			for cnd := range cands {
				if _, taken := tp[cnd]; !taken && cnd != "" {
					tp[cnd] = "T(" + cnd + ")"
				}
			}
			want := &Outcome{Out: "AT(" + res + ")B"}
			if res == entry {
				continue // would include itself for ever
			}
			sets = append(sets, set{fmt.Sprintf("look-alike %q from %q", nm, entry), tp, entry, want.Out, ""})
		}
	}
	// odd entry names
	for _, entry := range []string{"x", "/root", "dir/", "./rel/entry", "../up/entry", "a/../b/entry", "/", "//double/entry", "a/./entry", ".hidden/entry", "..", "../", "a//", "/a/b/../../../entry"} {
		for _, nm := range []string{"./y", "../y", "../../y"} {
			res := filepath.Join(filepath.Dir(entry), nm)
			if res == entry || nm == entry {
				continue
			}
			for _, reg := range []string{"resolved", "written", "neither"} {
				tp := map[string]string{entry: "A{% include '" + nm + "' %}B"}
				want := Outcome{Class: "notFound"}
				switch reg {
				case "resolved":
					tp[res] = "T(" + res + ")"
					want = Outcome{Out: "AT(" + res + ")B"}
				case "written":
					if res == nm {
						continue
					}
					tp[nm] = "W(" + nm + ")"
					want = Outcome{Out: "AW(" + nm + ")B"}
				}
				sets = append(sets, set{fmt.Sprintf("entry %q includes %q, registered: %s", entry, nm, reg), tp, entry, want.Out, want.Class})
			}
		}
	}
	for _, s := range sets {
		var want *Outcome
		if s.out != "" || s.cls != "" || strings.Contains(s.name, "renders nothing") {
			want = &Outcome{Out: s.out, Class: s.cls}
		}
		c := &Case{Templates: s.tpls, Main: s.main, Ctx: map[string]any{"n": "x", "b": "base"}, FailAt: -1}
		if err := run(c, s.name, want); err != nil {
			return err
		}
		if r.Full() {
			return nil
		}
	}
	// the second context for the computed set: n = 'y'
	{
		c := &Case{Templates: with(computed, "pages/y", "Y-pages", "shared/y", "Y-shared"), Main: "pages/home", Ctx: map[string]any{"n": "y", "b": "base"}, FailAt: -1}
		if err := run(c, "computed relative names with n = 'y'", &Outcome{Out: "Y-pages|Y-shared|X-pages;Y-pages;|<y>|Y-pages|Y-pages"}); err != nil {
			return err
		}
	}
	why := make([]string, 0, len(skippedWhy))
	for k, n := range skippedWhy {
		why = append(why, fmt.Sprintf("%s x%d", k, n))
	}
	sort.Strings(why)
	note := fmt.Sprintf("relative-name corpus: %d cases, %d skipped by the model %v", cases, skipped, why)
	r.Note(note)
	fmt.Fprintln(os.Stderr, note)
	return nil
}
