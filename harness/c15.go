package main

import (
	"encoding/json"
	"errors"
	"fmt"
	"os"
	"sort"
	"strconv"
	"strings"

	"github.com/semihalev/twig"
)

// C15 — template cache and loaders always serve the source the configuration calls for.
//
// Correspondence M: the real twig.Engine (Load / Render / RegisterString / RegisterTemplate /
// RegisterCompiledTemplate / SetCache / SetAutoReload / SetDevelopmentMode / RegisterLoader) driven through
// whole operation histories against `EngineCache.step` (Lean, op enginecache_run), compared after EVERY
// step on: what was served (version tag) or the error class, the Load / GetModifiedTime call counters of
// every loader and name, the key set of the cache and the three flags. The loaders are in-memory loaders
// defined here (public interfaces twig.Loader / twig.TimestampAwareLoader; one flavour is deliberately not
// timestamp-aware). The driver also returns what the *specification* (Spec.expected, a function of the
// history only) says each call must return; that is compared with the implementation as well.
//
// Implementation-only oracles (no model): the six sentences S1–S6 checked directly on the real engine
// (see ecImpl.call).

func init() { register("C15", runC15) }

// ---- in-memory loaders -------------------------------------------------------------------------

type ecFile struct {
	src   string
	mtime int64
	ver   int64 // the version this source stands for (ecWorld.src(ver) == src)
}

// ecLoader satisfies twig.Loader only (method set: Load, Exists).
type ecLoader struct {
	files map[string]ecFile
	loads map[string]int // calls of Load(name)
	stats map[string]int // calls of GetModifiedTime(name) (timestamp-aware flavour only)
	wrap  bool           // whether the "no such template" error wraps twig.ErrTemplateNotFound
	// backing (c15_content.go): nil = the map above answers; otherwise the library's own loader holds the sources
	// (files stays the harness-side ground truth and keeps the modification times)
	lib   twig.Loader
	arr   *twig.ArrayLoader
	chain bool
}

func newEcLoader(wrap bool) *ecLoader {
	return &ecLoader{files: map[string]ecFile{}, loads: map[string]int{}, stats: map[string]int{}, wrap: wrap}
}

func (l *ecLoader) missing(name string) error {
	if l.wrap {
		return fmt.Errorf("%w: %s", twig.ErrTemplateNotFound, name)
	}
	return errors.New("ecLoader: no such template " + name)
}

func (l *ecLoader) Load(name string) (string, error) {
	l.loads[name]++
	if l.lib != nil {
		return l.lib.Load(name)
	}
	f, ok := l.files[name]
	if !ok {
		return "", l.missing(name)
	}
	return f.src, nil
}

func (l *ecLoader) Exists(name string) bool {
	if l.lib != nil {
		return l.lib.Exists(name)
	}
	_, ok := l.files[name]
	return ok
}

// ecTSLoader additionally satisfies twig.TimestampAwareLoader (Loader + GetModifiedTime).
type ecTSLoader struct{ *ecLoader }

func (l ecTSLoader) GetModifiedTime(name string) (int64, error) {
	l.stats[name]++
	f, ok := l.files[name]
	if !ok {
		return 0, l.missing(name)
	}
	return f.mtime, nil
}

var (
	_ twig.Loader               = (*ecLoader)(nil)
	_ twig.TimestampAwareLoader = ecTSLoader{}
)

// ---- operations --------------------------------------------------------------------------------

// ecOp is one operation; its JSON form (a flat array) is the driver's input format.
type ecOp struct {
	Tag string // cache auto dev addloader regstr regtpl put del touch load render
	A   []int64
}

func (o ecOp) json() []any {
	a := []any{o.Tag}
	for _, x := range o.A {
		a = append(a, x)
	}
	return a
}

func (o ecOp) String() string {
	s := o.Tag
	for _, x := range o.A {
		s += " " + strconv.FormatInt(x, 10)
	}
	return s
}

func ecOpsJSON(ops []ecOp) []any {
	a := make([]any, len(ops))
	for i, o := range ops {
		a[i] = o.json()
	}
	return a
}

func ecOpsString(ops []ecOp) string {
	p := make([]string, len(ops))
	for i, o := range ops {
		p[i] = o.String()
	}
	return strings.Join(p, "; ")
}

func op(tag string, a ...int64) ecOp { return ecOp{tag, a} }

const ecNames = 3

func ecName(n int64) string { return [...]string{"a.twig", "b", "dir/c.html"}[n%ecNames] }
func ecTag(s int64) string  { return "v" + strconv.FormatInt(s, 10) }

const (
	ecQuiet    = -2
	ecNotFound = -1
	ecOtherErr = -3
	ecBadTag   = -4
	ecPanic    = -5
)

func ecParseTag(out string) int64 {
	if !strings.HasPrefix(out, "v") {
		return ecBadTag
	}
	k, err := strconv.ParseInt(out[1:], 10, 64)
	if err != nil || k < 0 {
		return ecBadTag
	}
	return k
}

// ---- the real engine under a history -------------------------------------------------------------

type ecImpl struct {
	e       *twig.Engine
	w       ecWorld
	loaders []*ecLoader
	ts      []bool
	// bookkeeping for the implementation-only oracles
	lastReg  map[int64]int64 // name -> most recently registered version
	prevCall int64           // name of the immediately preceding successful call (-1: none / other op in between)
	prevOut  int64
	oracle   []string // oracle failures of the current step
	pending  []string // loaderTruth failures since the last call: reported after that call's own oracles (or at the end)
}

func newEcImpl(w ecWorld) *ecImpl {
	return &ecImpl{e: twig.New(), w: w, lastReg: map[int64]int64{}, prevCall: -1}
}

func (x *ecImpl) cachedMask() int64 {
	var m int64
	for _, n := range x.e.GetCachedTemplateNames() {
		found := false
		for k := int64(0); k < ecNames; k++ {
			if ecName(k) == n {
				m |= 1 << k
				found = true
			}
		}
		if !found {
			m |= 1 << 40
		}
	}
	return m
}

func (x *ecImpl) counters() (loads, stats []int64) {
	for _, l := range x.loaders {
		for k := int64(0); k < ecNames; k++ {
			loads = append(loads, int64(l.loads[ecName(k)]))
			stats = append(stats, int64(l.stats[ecName(k)]))
		}
	}
	return
}

// firstHolder: the first loader in registration order that has the name (harness-side ground truth).
func (x *ecImpl) firstHolder(name string) (int, ecFile, bool) {
	for i, l := range x.loaders {
		if f, ok := l.files[name]; ok {
			return i, f, true
		}
	}
	return -1, ecFile{}, false
}

func (x *ecImpl) fail(format string, a ...any) {
	x.oracle = append(x.oracle, fmt.Sprintf(format, a...))
}

// call performs Load(n) (+ Template.Render) or Engine.Render(n) and checks the six sentences directly.
func (x *ecImpl) call(n int64, viaRender bool) int64 {
	name := ecName(n)
	cacheOn, autoOn := x.e.IsCacheEnabled(), x.e.IsAutoReloadEnabled()
	namesBefore := x.e.GetCachedTemplateNames()
	sort.Strings(namesBefore)
	wasCached := false
	for _, c := range namesBefore {
		wasCached = wasCached || c == name
	}
	loadsBefore, _ := x.counters()
	holderIdx, holderFile, anyHolder := x.firstHolder(name)

	var out string
	var err error
	if viaRender {
		out, err = x.e.Render(name, nil)
	} else {
		var t *twig.Template
		t, err = x.e.Load(name)
		if err == nil {
			out, err = t.Render(nil)
		}
	}
	var res int64
	switch {
	case err == nil:
		res = x.w.parse(out)
	case errors.Is(err, twig.ErrTemplateNotFound):
		res = ecNotFound
	default:
		res = ecOtherErr
	}

	loadsAfter, _ := x.counters()
	reads := make([]int64, len(x.loaders)) // Load(name) calls per loader during this call
	var anyRead bool
	for i := range x.loaders {
		reads[i] = loadsAfter[i*ecNames+int(n)] - loadsBefore[i*ecNames+int(n)]
		anyRead = anyRead || reads[i] != 0
	}
	for j := range loadsAfter {
		if j%ecNames != int(n) && loadsAfter[j] != loadsBefore[j] {
			x.fail("a call for %s read another name", name)
		}
	}
	reg, isReg := x.lastReg[n]

	// S1: the most recent registration is what is served, whatever the configuration
	if isReg && (res != x.w.wantOut(reg) || anyRead) {
		x.fail("S1: %s was last registered as v%d (a call for it shows %d) but the call gave %d (loader reads %v)", name, reg, x.w.wantOut(reg), res, reads)
	}
	// S2: caching disabled => every call reads the loaders again
	if !isReg && !cacheOn && !anyRead && len(x.loaders) > 0 {
		x.fail("S2: caching is off but the call for %s read no loader", name)
	}
	// S5: whenever loaders are read, they are read in registration order up to the first that has the name,
	// each exactly once, and that loader's current source is served
	if anyRead {
		for i := range x.loaders {
			want := int64(0)
			if !anyHolder || i <= holderIdx {
				want = 1
			}
			if reads[i] != want {
				x.fail("S5: reads per loader %v, first holder of %s is loader %d", reads, name, holderIdx)
				break
			}
		}
		if anyHolder && res != x.w.wantOut(holderFile.ver) {
			x.fail("S5: loaders were read, loader %d holds %.40q (v%d, a call for it shows %d) for %s, but the call gave %d", holderIdx, holderFile.src, holderFile.ver, x.w.wantOut(holderFile.ver), name, res)
		}
		// a first holder whose text is no template: the call is an error and nothing is put into (or taken out of) the cache
		if anyHolder && x.w.kind(holderFile.ver) == c15NoParse {
			namesAfter := x.e.GetCachedTemplateNames()
			sort.Strings(namesAfter)
			if strings.Join(namesAfter, "\x00") != strings.Join(namesBefore, "\x00") {
				x.fail("S5: the call for %s failed on the unparsable text of its first holder (loader %d) and changed the cached names %v -> %v", name, holderIdx, namesBefore, namesAfter)
			}
		}
		if !anyHolder && res != ecNotFound {
			x.fail("S6: loaders were read, none has %s, result %d", name, res)
		}
	}
	// S4: auto-reload off and caching on => what is cached stays: no loader is read
	if cacheOn && !autoOn && wasCached && anyRead {
		x.fail("S4: %s is cached, auto-reload is off, but loaders were read %v", name, reads)
	}
	// S3 (unchanged half) / S4: an immediately repeated call with caching on serves the same and reads nothing
	if cacheOn && x.prevCall == n && x.prevOut >= 0 && (res != x.prevOut || anyRead) {
		x.fail("S3/S4: repeated call for %s with nothing in between gave %d after %d (reads %v)", name, res, x.prevOut, reads)
	}
	// S6: unknown name => ErrTemplateNotFound, and an ErrTemplateNotFound leaves the cache as it was
	if !wasCached && !anyHolder && res != ecNotFound {
		x.fail("S6: nobody has %s and it is not cached, but the call gave %d", name, res)
	}
	if res == ecNotFound {
		namesAfter := x.e.GetCachedTemplateNames()
		sort.Strings(namesAfter)
		if strings.Join(namesAfter, "\x00") != strings.Join(namesBefore, "\x00") {
			x.fail("S6: a not-found call changed the cached names %v -> %v", namesBefore, namesAfter)
		}
		if anyHolder && (!wasCached || !cacheOn) {
			x.fail("S5: loader %d has %s but the call said not found", holderIdx, name)
		}
	}
	if res >= 0 {
		x.prevCall, x.prevOut = n, res
	} else {
		x.prevCall = -1
	}
	// what the library's loaders answered wrongly since the last call comes after what the engine made of it
	x.oracle = append(x.oracle, x.pending...)
	x.pending = nil
	return res
}

// do applies one operation to the real engine and returns the observation
// [out, flags, cachedMask, loads…, stats…] (same layout as the driver's steps without the spec slot).
func (x *ecImpl) do(o ecOp) (obs []int64) {
	x.oracle = x.oracle[:0]
	out := int64(ecQuiet)
	a := func(i int) int64 {
		if i < len(o.A) {
			return o.A[i]
		}
		return 0
	}
	isCall := o.Tag == "load" || o.Tag == "render"
	if !isCall {
		x.prevCall = -1
	}
	func() {
		defer func() {
			if p := recover(); p != nil {
				out = ecPanic
				x.fail("panic in %s: %v", o, p)
			}
		}()
		switch o.Tag {
		case "cache":
			x.e.SetCache(a(0) != 0)
		case "auto":
			x.e.SetAutoReload(a(0) != 0)
		case "dev":
			x.e.SetDevelopmentMode(a(0) != 0)
		case "addloader":
			l := newEcLoader(len(x.loaders)%2 == 0)
			x.w.back(l)
			x.loaders = append(x.loaders, l)
			x.ts = append(x.ts, a(0) != 0)
			if a(0) != 0 {
				x.e.RegisterLoader(ecTSLoader{l})
			} else {
				x.e.RegisterLoader(l)
			}
		case "regstr":
			err := x.e.RegisterString(ecName(a(0)), x.w.src(a(1)))
			if x.w.kind(a(1)) == c15NoParse {
				// no registration: the name keeps what it had
				if err == nil {
					x.fail("S1: RegisterString accepted the unparsable text %.40q", x.w.src(a(1)))
				}
				return
			}
			if err != nil {
				x.fail("RegisterString: %v", err)
			}
			x.lastReg[a(0)] = a(1)
		case "regtpl":
			// even versions: ParseTemplate + RegisterTemplate; odd versions: RegisterCompiledTemplate
			noParse := x.w.kind(a(1)) == c15NoParse
			if a(1)%2 == 0 {
				t, err := x.e.ParseTemplate(x.w.src(a(1)))
				if err != nil {
					if !noParse {
						x.fail("ParseTemplate: %v", err)
					}
					return
				}
				x.e.RegisterTemplate(ecName(a(0)), t)
			} else {
				c := &twig.CompiledTemplate{Name: ecName(a(0)), Source: x.w.src(a(1))}
				if err := x.e.RegisterCompiledTemplate(c); err != nil {
					if !noParse {
						x.fail("RegisterCompiledTemplate: %v", err)
					}
					return
				}
			}
			if noParse {
				x.fail("S1: the unparsable text %.40q was accepted as a template", x.w.src(a(1)))
			}
			x.lastReg[a(0)] = a(1)
		case "put":
			if i := int(a(0)); i < len(x.loaders) {
				x.loaders[i].put(ecName(a(1)), ecFile{x.w.src(a(2)), a(3), a(2)})
				x.loaderTruth(i)
			}
		case "del":
			if i := int(a(0)); i < len(x.loaders) {
				x.loaders[i].del(ecName(a(1)))
				x.loaderTruth(i)
			}
		case "touch":
			if i := int(a(0)); i < len(x.loaders) {
				if f, ok := x.loaders[i].files[ecName(a(1))]; ok {
					x.loaders[i].files[ecName(a(1))] = ecFile{f.src, a(2), f.ver}
				}
			}
		case "load":
			out = x.call(a(0), false)
		case "render":
			out = x.call(a(0), true)
		default:
			x.fail("harness: unknown op %s", o.Tag)
		}
	}()
	var flags int64
	if x.e.IsCacheEnabled() {
		flags |= 1
	}
	if x.e.IsAutoReloadEnabled() {
		flags |= 2
	}
	if x.e.IsDebugEnabled() {
		flags |= 4
	}
	loads, stats := x.counters()
	obs = append(obs, out, flags, x.cachedMask())
	obs = append(obs, loads...)
	obs = append(obs, stats...)
	return obs
}

func ecOracleBroken(cls string) string {
	if cls == "loader" {
		return "implementation-only oracle of C15: the library's ArrayLoader / ChainLoader hand back what they were given (what \"a loader has the name\" means in theorems C15_S5_first_loader_wins / C15_S6_notfound_iff)"
	}
	return "implementation-only oracle for sentence " + cls + " of C15 (theorems C15_" + cls + "_*)"
}

type ecMismatch struct {
	step   int
	key    string
	what   string
	broken string
	impl   []int64
	model  []int64
}

// ecRun runs one history on a fresh real engine and (if present) the model, returns the first disagreement.
func ecRun(e *Env, w ecWorld, ops []ecOp) (*ecMismatch, [][]int64, error) {
	x := newEcImpl(w)
	obs := make([][]int64, 0, len(ops))
	var first *ecMismatch
	for k, o := range ops {
		ob := x.do(o)
		obs = append(obs, ob)
		if len(x.oracle) > 0 && first == nil {
			cls := x.oracle[0]
			if i := strings.Index(cls, ":"); i > 0 {
				cls = cls[:i]
			}
			first = &ecMismatch{step: k, key: "oracle-" + cls, what: x.oracle[0],
				broken: ecOracleBroken(cls), impl: ob}
		}
	}
	if first == nil && len(x.pending) > 0 {
		first = &ecMismatch{step: len(ops) - 1, key: "oracle-loader", what: x.pending[0],
			broken: ecOracleBroken("loader"), impl: obs[len(obs)-1]}
	}
	// the sentences computed directly in Go (c15_broken.go), on every history
	first = c15RefCompare(w, ops, obs, first)
	// EngineCache.step has no source that does not parse; a render-failing version is "served" there
	if e.Model == nil || w.uses(ops, c15NoParse) {
		return first, obs, nil
	}
	resp, err := e.Model.Call(map[string]any{"op": "enginecache_run", "names": ecNames, "ops": ecOpsJSON(ops)})
	if err != nil {
		return nil, obs, err
	}
	steps, _ := resp["steps"].([]any)
	if len(steps) != len(ops) {
		return nil, obs, fmt.Errorf("enginecache_run: %d steps for %d ops", len(steps), len(ops))
	}
	e.Rep.Compared++
	for k := range ops {
		if first != nil && first.step < k {
			break
		}
		raw, _ := steps[k].([]any)
		m := make([]int64, len(raw))
		for i, v := range raw {
			f, _ := v.(float64)
			m[i] = int64(f)
		}
		if len(m) < 2 {
			return nil, obs, fmt.Errorf("enginecache_run: short step")
		}
		spec := w.wantOut(m[1])
		mm := append([]int64{w.wantOut(m[0])}, m[2:]...) // drop the spec slot
		same := len(mm) == len(obs[k])
		for i := 0; same && i < len(mm); i++ {
			same = mm[i] == obs[k][i]
		}
		if !same {
			key := "model-step"
			switch {
			case len(mm) > 0 && mm[0] != obs[k][0]:
				key = "model-served"
			case len(mm) > 2 && (mm[1] != obs[k][1]):
				key = "model-flags"
			case len(mm) > 2 && (mm[2] != obs[k][2]):
				key = "model-cache-keys"
			default:
				key = "model-counters"
			}
			first = &ecMismatch{step: k, key: key,
				what:   fmt.Sprintf("engine and EngineCache.step differ at step %d (%s) of [%s]", k, ops[k], truncate(ecOpsString(ops), 300)),
				broken: "correspondence enginecache_run (TwigModel.EngineCache.step vs twig.go Engine.Load & co.)", impl: obs[k], model: mm}
			break
		}
		if spec != obs[k][0] {
			first = &ecMismatch{step: k, key: "spec-served",
				what:   fmt.Sprintf("engine serves %d where Spec.expected says %d at step %d (%s) of [%s]", obs[k][0], spec, k, ops[k], truncate(ecOpsString(ops), 300)),
				broken: "theorem C15_refines no longer describes the code (Spec.expected vs the real engine)", impl: obs[k], model: []int64{spec}}
			break
		}
	}
	return first, obs, nil
}

// ecShrink drops operations while the same class of failure remains.
func ecShrink(e *Env, w ecWorld, ops []ecOp, mm *ecMismatch) ([]ecOp, *ecMismatch) {
	cur := append([]ecOp(nil), ops[:mm.step+1]...)
	best := mm
	if m2, _, err := ecRun(e, w, cur); err == nil && m2 != nil && m2.key == mm.key {
		best = m2
	} else {
		return ops, mm
	}
	for changed := true; changed; {
		changed = false
		for i := len(cur) - 1; i >= 0; i-- {
			cand := append(append([]ecOp(nil), cur[:i]...), cur[i+1:]...)
			// a loader index must stay meaningful: never drop an addloader that is followed by later ones
			m2, _, err := ecRun(e, w, cand)
			if err == nil && m2 != nil && m2.key == mm.key {
				cur, best, changed = cand[:m2.step+1], m2, true
				break
			}
		}
	}
	return cur, best
}

// ecCheck runs a history, records coverage, reports (shrunk) violations. false = violation budget exhausted.
func ecCheck(e *Env, w ecWorld, ops []ecOp, tag string, want []int64) (bool, error) {
	r := e.Rep
	mm, obs, err := ecRun(e, w, ops)
	if err != nil {
		return false, err
	}
	calls, served, nf := 0, 0, 0
	for k, o := range ops {
		r.Hit("op:" + o.Tag)
		if o.Tag == "load" || o.Tag == "render" {
			calls++
			switch {
			case obs[k][0] >= 0:
				served++
			case obs[k][0] == ecNotFound:
				nf++
				r.Hit("out:not-found")
			default:
				r.Hit("out:other-error")
			}
		}
	}
	if served > 0 {
		r.Hit("history-with-served-call")
	}
	r.Hit(fmt.Sprintf("len:%d", (len(ops)+9)/10*10))
	r.Hit("backing:" + w.backingName())
	r.Seen(w.String()+ecOpsString(ops), calls > 0 && (served > 0 || nf > 0))
	if mm == nil && want != nil {
		// regression corpus: the outputs of the calls are pinned
		var got []int64
		for k, o := range ops {
			if o.Tag == "load" || o.Tag == "render" {
				got = append(got, obs[k][0])
			}
		}
		if fmt.Sprint(got) != fmt.Sprint(want) {
			mm = &ecMismatch{step: len(ops) - 1, key: "regression-" + tag,
				what:   fmt.Sprintf("regression case %s: calls gave %v, pinned expectation %v", tag, got, want),
				broken: "regression corpus of C15 (" + tag + ")", impl: got, model: want}
			v := Violation{Key: mm.key, What: mm.what, Broken: mm.broken,
				Replay: map[string]any{"kind": "enginecache", "ops": ecOpsJSON(ops), "text": ecOpsString(ops), "got": got, "want": want,
					"backing": w.backingName(), "odd": w.oddJSON()}}
			return !r.Violate(v), nil
		}
	}
	if mm == nil {
		return true, nil
	}
	small, m2 := ecShrink(e, w, ops, mm)
	v := Violation{Key: m2.key, What: m2.what, Broken: m2.broken,
		Replay: map[string]any{"kind": "enginecache", "names": ecNames, "ops": ecOpsJSON(small), "text": ecOpsString(small),
			"step": m2.step, "impl": m2.impl, "model": m2.model, "layout": "[out, flags(cache+2auto+4debug), cachedMask, loads…, stats…] loader-major",
			"original_len": len(ops), "source": tag, "backing": w.backingName(), "odd": w.usedBy(small).oddJSON(),
			"sources": "version k stands for the source \"vk\" unless listed in odd; backing = which loader implementation holds the loaders' sources"}}
	return !r.Violate(v), nil
}

// ---- generators ----------------------------------------------------------------------------------

type ecRegression struct {
	name string
	ops  []ecOp
	want []int64 // outputs of the load/render steps, in order
}

func ecCorpus() []ecRegression {
	ts2 := []ecOp{op("addloader", 1), op("addloader", 1)}
	cat := func(parts ...[]ecOp) []ecOp {
		var o []ecOp
		for _, p := range parts {
			o = append(o, p...)
		}
		return o
	}
	return []ecRegression{
		// pinned tree: RegisterString / RegisterTemplate silently did nothing while caching was off (0018)
		{"register-while-cache-off", []ecOp{op("cache", 0), op("regstr", 0, 1), op("render", 0), op("load", 0)}, []int64{1, 1}},
		{"register-template-while-cache-off", []ecOp{op("cache", 0), op("regtpl", 1, 2), op("render", 1), op("regtpl", 1, 3), op("load", 1)}, []int64{2, 3}},
		{"register-in-dev-mode", []ecOp{op("dev", 1), op("regstr", 0, 4), op("render", 0), op("dev", 0), op("render", 0)}, []int64{4, 4}},
		{"register-then-cache-off", []ecOp{op("regstr", 2, 5), op("cache", 0), op("render", 2), op("regstr", 2, 6), op("render", 2)}, []int64{5, 6}},
		{"register-shadows-loader", cat(ts2, []ecOp{op("put", 0, 0, 7, 10), op("render", 0), op("regstr", 0, 8), op("render", 0),
			op("put", 0, 0, 9, 20), op("auto", 1), op("render", 0), op("cache", 0), op("render", 0)}), []int64{7, 8, 8, 8}},
		// development mode toggles: dev on = cache off + auto-reload on
		{"dev-mode-toggles", cat(ts2, []ecOp{op("put", 0, 0, 1, 10), op("dev", 1), op("render", 0), op("put", 0, 0, 2, 10), op("render", 0),
			op("dev", 0), op("render", 0), op("put", 0, 0, 3, 20), op("render", 0), op("dev", 1), op("render", 0), op("dev", 0), op("render", 0)}),
			[]int64{1, 2, 2, 2, 3, 2}},
		// auto-reload: equal mtime is "unchanged", newer is "changed", older is "unchanged"
		{"auto-reload-equal-mtime", cat(ts2, []ecOp{op("put", 0, 0, 1, 10), op("auto", 1), op("render", 0), op("put", 0, 0, 2, 10), op("render", 0),
			op("put", 0, 0, 3, 9), op("render", 0), op("put", 0, 0, 4, 11), op("render", 0), op("touch", 0, 0, 12), op("load", 0)}),
			[]int64{1, 1, 1, 4, 4}},
		{"auto-reload-off-stays", cat(ts2, []ecOp{op("put", 1, 0, 1, 10), op("render", 0), op("put", 1, 0, 2, 20), op("render", 0), op("del", 1, 0),
			op("render", 0), op("auto", 1), op("render", 0)}), []int64{1, 1, 1, ecNotFound}},
		{"auto-reload-deleted-then-back", cat(ts2, []ecOp{op("put", 0, 1, 1, 10), op("auto", 1), op("render", 1), op("del", 0, 1), op("render", 1),
			op("render", 1), op("put", 0, 1, 2, 5), op("render", 1), op("touch", 0, 1, 11), op("render", 1)}), []int64{1, ecNotFound, ecNotFound, 1, 2}},
		{"auto-reload-not-timestamp-aware", []ecOp{op("addloader", 0), op("put", 0, 0, 1, 10), op("auto", 1), op("render", 0), op("put", 0, 0, 2, 99),
			op("render", 0), op("cache", 0), op("render", 0)}, []int64{1, 1, 2}},
		// loader order
		{"first-loader-wins", cat(ts2, []ecOp{op("put", 1, 0, 1, 10), op("put", 0, 0, 2, 5), op("render", 0), op("del", 0, 0), op("cache", 0), op("render", 0)}),
			[]int64{2, 1}},
		// what the code does when a higher-priority loader gains a cached name under auto-reload: not noticed until
		// the cached template's own loader reports a change (theorem C15_S5_eager_counterexample)
		{"higher-priority-loader-gains-name", cat(ts2, []ecOp{op("put", 1, 0, 1, 10), op("auto", 1), op("render", 0), op("put", 0, 0, 2, 20),
			op("render", 0), op("touch", 1, 0, 30), op("render", 0)}), []int64{1, 1, 2}},
		// exactly the witness of theorem C15_S5_eager_counterexample (TwigProofs/C15.lean: eagerWitness) followed by the call
		{"eager-witness", []ecOp{op("addloader", 1), op("addloader", 1), op("put", 1, 0, 1, 10), op("auto", 1), op("load", 0), op("put", 0, 0, 2, 20),
			op("load", 0)}, []int64{1, 1}},
		{"stale-entry-after-cache-off-on", cat(ts2, []ecOp{op("put", 0, 0, 1, 10), op("render", 0), op("cache", 0), op("put", 0, 0, 2, 20), op("render", 0),
			op("cache", 1), op("render", 0), op("auto", 1), op("render", 0)}), []int64{1, 2, 1, 2}},
		{"unknown-name", cat(ts2, []ecOp{op("render", 2), op("put", 1, 0, 1, 1), op("render", 0), op("load", 2), op("cache", 0), op("load", 2)}),
			[]int64{ecNotFound, 1, ecNotFound, ecNotFound}},
		{"no-loaders", []ecOp{op("render", 0), op("auto", 1), op("load", 1)}, []int64{ecNotFound, ecNotFound}},
	}
}

// exhaustive alphabet: everything happens to name 0; L0 and L1 exist (setup decides which is timestamp-aware
// and who holds the name at the start). Versions/mtimes are made distinct per position by ecInstantiate.
var ecAlphabet = []string{"render", "cache0", "cache1", "auto1", "auto0", "reg", "putHi", "putLoNewer", "putLoSame", "delLo"}

type ecSetup struct {
	name string
	ops  []ecOp
	lo   int64 // index of the loader that holds name 0 initially ("Lo"); the other is "Hi" = index 0 if lo = 1
}

func ecSetups() []ecSetup {
	return []ecSetup{
		{"ts-ts", []ecOp{op("addloader", 1), op("addloader", 1), op("put", 1, 0, 1, 100)}, 1},
		{"ts-plain", []ecOp{op("addloader", 1), op("addloader", 0), op("put", 1, 0, 1, 100)}, 1},
		{"plain-ts", []ecOp{op("addloader", 0), op("addloader", 1), op("put", 1, 0, 1, 100)}, 1},
	}
}

func ecInstantiate(su ecSetup, word []int) []ecOp {
	ops := append([]ecOp(nil), su.ops...)
	for pos, w := range word {
		ver := int64(10 + pos)
		switch ecAlphabet[w] {
		case "render":
			if pos%2 == 0 {
				ops = append(ops, op("render", 0))
			} else {
				ops = append(ops, op("load", 0))
			}
		case "cache0":
			ops = append(ops, op("cache", 0))
		case "cache1":
			ops = append(ops, op("cache", 1))
		case "auto1":
			ops = append(ops, op("auto", 1))
		case "auto0":
			ops = append(ops, op("auto", 0))
		case "reg":
			ops = append(ops, op("regstr", 0, ver))
		case "putHi":
			ops = append(ops, op("put", 0, 0, ver, 100+int64(pos)+1))
		case "putLoNewer":
			ops = append(ops, op("put", su.lo, 0, ver, 100+int64(pos)+1))
		case "putLoSame":
			ops = append(ops, op("put", su.lo, 0, ver, 100))
		case "delLo":
			ops = append(ops, op("del", su.lo, 0))
		}
	}
	return ops
}

func ecRandomHistory(e *Env, maxLen int) []ecOp {
	rng := e.Rng
	nl := 2 + rng.Intn(2)
	var ops []ecOp
	for i := 0; i < nl; i++ {
		ts := int64(1)
		if rng.Intn(3) == 0 {
			ts = 0
		}
		ops = append(ops, op("addloader", ts))
	}
	n := 1 + rng.Intn(maxLen)
	ver := int64(1)
	clock := int64(rng.Intn(5)) - 2
	hot := int64(rng.Intn(ecNames)) // most traffic goes to one name so that histories interact
	lastPut := map[int64]int64{}    // the version most recently put into some loader, per name
	name := func() int64 {
		if rng.Intn(4) != 0 {
			return hot
		}
		return int64(rng.Intn(ecNames))
	}
	for len(ops) < n+nl {
		ldr := int64(rng.Intn(nl))
		if rng.Intn(40) == 0 {
			ldr = int64(nl) // a loader index that does not exist (or not yet)
		}
		mtime := func() int64 {
			switch rng.Intn(6) {
			case 0:
				return clock // equal to the newest so far
			case 1:
				return clock - int64(rng.Intn(4)) // older
			case 2:
				return int64(rng.Intn(7)) - 3 // small absolute, incl. 0 and negative
			default:
				clock += 1 + int64(rng.Intn(3))
				return clock
			}
		}
		switch k := rng.Intn(100); {
		case k < 34:
			if rng.Intn(2) == 0 {
				ops = append(ops, op("render", name()))
			} else {
				ops = append(ops, op("load", name()))
			}
		case k < 54:
			ver++
			nm := name()
			lastPut[nm] = ver
			ops = append(ops, op("put", ldr, nm, ver, mtime()))
		case k < 60:
			ops = append(ops, op("touch", ldr, name(), mtime()))
		case k < 67:
			ops = append(ops, op("del", ldr, name()))
		case k < 75:
			ops = append(ops, op("cache", int64(rng.Intn(2))))
		case k < 84:
			ops = append(ops, op("auto", int64(rng.Intn(2))))
		case k < 89:
			ops = append(ops, op("dev", int64(rng.Intn(2))))
		case k < 93:
			// a registration may carry exactly the text a loader holds (or held) for that name
			nm := name()
			v, same := lastPut[nm]
			if !same || rng.Intn(3) != 0 {
				ver++
				v = ver
			}
			ops = append(ops, op("regstr", nm, v))
		case k < 96:
			nm := name()
			v, same := lastPut[nm]
			if !same || rng.Intn(3) != 0 {
				ver++
				v = ver
			}
			ops = append(ops, op("regtpl", nm, v))
		case k < 98 && nl < 4:
			ops = append(ops, op("addloader", int64(rng.Intn(2))))
			nl++
		default:
			ops = append(ops, op("render", int64(rng.Intn(ecNames))))
		}
	}
	return ops
}

func ecReplay(e *Env) error {
	b, err := os.ReadFile(e.Replay)
	if err != nil {
		return err
	}
	var doc map[string]any
	if err := json.Unmarshal(b, &doc); err != nil {
		return err
	}
	if inner, ok := doc["replay"].(map[string]any); ok {
		doc = inner
	}
	if inner, ok := doc["case"].(map[string]any); ok { // the file as written by ../check
		doc = inner
	}
	if doc["kind"] == "stat-invisible-history" {
		return c15statReplay(e, doc)
	}
	raw, _ := doc["ops"].([]any)
	var ops []ecOp
	for _, x := range raw {
		arr, _ := x.([]any)
		if len(arr) == 0 {
			continue
		}
		o := ecOp{}
		o.Tag, _ = arr[0].(string)
		for _, v := range arr[1:] {
			f, _ := v.(float64)
			o.A = append(o.A, int64(f))
		}
		ops = append(ops, o)
	}
	_, err = ecCheck(e, ecWorldFromReplay(doc), ops, "replay", nil)
	return err
}

func runC15(e *Env) error {
	r := e.Rep
	r.Rule = "(0) 40-step histories of file writes / removals / renders over FileSystemLoader with three search paths, two registered loaders and a ChainLoader: a long-lived engine (cache off; cache + auto-reload) renders what an engine created now renders; (0b) histories over FileSystemLoader / CompiledLoader (bare and inside a ChainLoader) whose writes keep or change modification time (newer, same, older, sub-second), length and inode independently, removals and re-creations with identical metadata: loader.Load, a cache-less engine and an engine created now over the long-lived loader give the content as written, caching engines what the six sentences say; operation histories on a fresh twig.Engine with 2–4 in-memory loaders (timestamp-aware and not) and 3 names; every source is a " +
		"version tag, or (content sweep and half of the random histories) some versions stand for unusual sources — empty, blank-only, comment-only, \"0\" / \"false\" / \"null\", > 4096 bytes — " +
		"and the loaders' sources are held by the harness map, by the library's ArrayLoader (SetTemplate / NewArrayLoader) or by an ArrayLoader inside a ChainLoader, whose Load / Exists are also compared with what was put; " +
		"and (broken-source sweep and a third of the random histories) some versions stand for a text that cannot be served — it does not parse (8 kinds of syntax error, one beyond 4096 bytes) or it parses and fails when rendered — in a loader in front of, behind or instead of a good copy, or handed to a registration: the first loader that has the name still wins (an error, no later loader read, nothing cached or dropped), expected observations from the sentences computed directly in Go (c15Ref, run on every history next to EngineCache.step) and from pinned answers; " +
		"(a) pinned regression histories, (a') the pinned histories and every word of length ≤ 2–3 in every backing × rotation of the unusual sources, (b) every word of length ≤ N over a 10-letter alphabet acting on one name, from 3 loader " +
		"setups, (c) random histories of ≤ 60 ops over 11 operation kinds; after every op: served tag / error class, Load and GetModifiedTime " +
		"counters per loader×name, cache keys and flags are compared with EngineCache.step, served with Spec.expected, and the six sentences are " +
		"checked directly; non-trivial = the history contains a call that served a version or reported not-found; distinct by op sequence"
	if e.Replay != "" {
		return ecReplay(e)
	}
	// (0) the library's own loaders over real files
	c15OwnLoaders(e)
	c15StatInvisible(e)
	c15Compiled(e)
	// (a) regression corpus
	for _, c := range ecCorpus() {
		ok, err := ecCheck(e, ecWorld{}, c.ops, c.name, c.want)
		if err != nil {
			return err
		}
		r.Hit("corpus")
		if !ok {
			return nil
		}
	}
	// (a') the same histories with unusual sources (empty, blank, comment-only, …) and with the library's own
	// ArrayLoader / ChainLoader holding the loaders' sources (c15_content.go)
	if ok, err := ecContentSweep(e); err != nil || !ok {
		return err
	}
	// (a'') sources that cannot be served: a loader (or a registration) with a text that does not parse, or that parses
	// and fails when rendered (c15_broken.go)
	if ok, err := c15BrokenSweep(e); err != nil || !ok {
		return err
	}
	// (b) exhaustive small scope
	depth := e.N(4, 5)
	setups := ecSetups()
	var ferr error
	total := 0
	stop := false
	var rec func(su ecSetup, word []int)
	rec = func(su ecSetup, word []int) {
		if stop {
			return
		}
		ops := ecInstantiate(su, word)
		ok, err := ecCheck(e, ecWorld{}, ops, "exhaustive:"+su.name, nil)
		total++
		if err != nil {
			ferr, stop = err, true
			return
		}
		if !ok {
			stop = true
			return
		}
		if len(word) == 3 && len(r.Samples) < 2 {
			r.Sample(map[string]any{"kind": "exhaustive", "setup": su.name, "ops": ecOpsString(ops)})
		}
		if len(word) == depth {
			return
		}
		for w := range ecAlphabet {
			rec(su, append(word, w))
		}
	}
	for i, su := range setups {
		d := depth
		if e.Thorough() && i == 0 {
			depth = 6 // one setup one level deeper
		}
		rec(su, nil)
		depth = d
	}
	if ferr != nil {
		return ferr
	}
	r.Note(fmt.Sprintf("exhaustive: %d histories = every word of length ≤ %d over %d letters × %d setups (thorough: setup 0 to length 6)", total, depth, len(ecAlphabet), len(setups)))
	if r.Full() || stop {
		return nil
	}
	// (c) random long histories
	n := e.N(3000, 100000)
	for i := 0; i < n && !r.Full(); i++ {
		ops := ecRandomHistory(e, 60)
		if i < 3 {
			r.Sample(map[string]any{"kind": "random", "ops": truncate(ecOpsString(ops), 400)})
		}
		ok, err := ecCheck(e, ecRandomWorld(e), ops, "random", nil)
		if err != nil {
			return err
		}
		if !ok {
			break
		}
	}
	return nil
}
