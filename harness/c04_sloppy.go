package main

import (
	"fmt"
	"math/rand"
	"strings"
)

// C04 (e) — literal text next to tags whose CONTENT the expression scanner only partly understands.
//
// The text scanners hand the inside of every {{ }} and {% %} tag to a second scanner (TokenizeExpression and the
// block-tag splitter) that shares position, line and source fields with them. What that scanner meets inside a tag —
// a quote that is never closed, a backslash before a quote, bytes it has no rule for (@ $ ` ; NUL, bytes >= 0x80),
// a string holding braces or percent signs, an empty tag — must never change which bytes of the template are literal
// text: every chunk before, between and after such tags is emitted exactly once and in order as long as the template
// is accepted at all.
//
// Two independent expectations:
//   - the Lean pipeline model through compareCase (the model scans tag content with the same rules, so it also says
//     which of these templates are rejected);
//   - a metamorphic relation of the property itself (implementation-only): the units of a template are self-contained
//     (no dash, no closer inside, each reads only its own variable), so  render(L0 U1 L1 … Un Ln) =
//     L0 render(U1) L1 … render(Un) Ln  with every unit rendered alone on a fresh engine, and the template is accepted
//     exactly when every unit is.

// what may stand inside a tag next to a well-formed expression; none of it contains a closer or a dash
var sloppyJunk = []string{
	"'", "\"", "'", "\"", "'abc", "\"abc", "' \"", "\" '", "'é", "\"\x80", "'{", "\"{ %", "'\n", "\"\t x",
	"\\'", "\\\"", "\\", "\\\\'", "'a\\'b", "\"a\\\"",
	"@", "$", "`", ";", "\x00", "\x80", "\xff", "é", "世", " ", "\x7f", "&", "^",
	"'x'", "\"y\"", "'a' 'b", "\"\" '",
}

var sloppyExprs = []string{
	"V", "V", "V|upper", "V|lower|upper", "V ~ 'x'", "'lit'", "\"a'b\"", "'a\"b'", "7", "V|default('d')", "[V, 1]|join(',')",
	"V == 'x' ? 'y' : 'n'", "(V)", "V|length", "'{ x }'", "\"%\"", "not V",
}

// sloppyExpr returns an expression over variable v with junk after it, inside it or before it.
func sloppyExpr(rg *rand.Rand, v string) string {
	ex := strings.ReplaceAll(pick(rg, sloppyExprs), "V", v)
	j := pick(rg, sloppyJunk)
	sep := pick(rg, []string{" ", " ", "", "\n", "\t"})
	switch rg.Intn(8) {
	case 0:
		return ex // a clean tag among the sloppy ones
	case 1:
		return j + sep + ex // junk first: an unclosed quote swallows the whole expression
	case 2:
		// junk between two tokens
		if i := strings.IndexAny(ex, "|~=?"); i > 0 {
			return ex[:i] + sep + j + sep + ex[i:]
		}
		return ex + sep + j
	case 3:
		return ex + sep + j + sep + pick(rg, sloppyJunk)
	default:
		return ex + sep + j
	}
}

// sloppyUnit returns one self-contained fragment: a print tag, or a block construct around literal text.
func sloppyUnit(rg *rand.Rand, j int, ctx map[string]any) string {
	v := fmt.Sprintf("v%d", j)
	switch rg.Intn(3) {
	case 0:
		ctx[v] = "⟦" + fmt.Sprint(rg.Intn(1000)) + "⟧"
	case 1:
		ctx[v] = "x"
	default:
		ctx[v] = []interface{}{"p", "q"}
	}
	inner := genLit(rg, 6)
	switch rg.Intn(10) {
	case 0, 1:
		return "{% if " + sloppyExpr(rg, v) + " %}" + inner + "{% else %}E" + inner + "{% endif %}"
	case 2:
		return "{% set s" + fmt.Sprint(j) + " = " + sloppyExpr(rg, v) + " %}" + inner + "{{ s" + fmt.Sprint(j) + " }}"
	case 3:
		return "{% for i" + fmt.Sprint(j) + " in " + sloppyExpr(rg, v) + " %}" + inner + "{% endfor %}"
	case 4:
		// tags the scanner gets nothing out of
		return pick(rg, []string{"{{}}", "{{ }}", "{{ ' }}", "{{ \" }}", "{{ @ }}", "{%%}", "{% %}", "{% ' %}", "{{\n}}", "{{ \\ }}"})
	default:
		return "{{" + ws(rg) + sloppyExpr(rg, v) + ws(rg) + "}}"
	}
}

func sloppyTagCases(e *Env) error {
	r := e.Rep
	rg := e.Rng
	n := e.N(500, 30000)
	for i := 0; i < n && !r.Full(); i++ {
		k := 1 + rg.Intn(3)
		ctx := map[string]any{}
		chunks := []string{}
		units := []string{}
		var src strings.Builder
		if i%5 == 4 {
			// the sloppy tag behind more than 4096 bytes of text: the large-template scanner shares the same expression scanner
			filler := strings.Repeat("<li>filler é</li>\n", 240)
			chunks = append(chunks, filler+genLit(rg, 10))
			r.Hit("sloppy-tag-in-large-template")
		} else {
			chunks = append(chunks, genLit(rg, 10))
		}
		src.WriteString(chunks[0])
		nonEmpty := 0
		for j := 0; j < k; j++ {
			u := sloppyUnit(rg, j, ctx)
			l := genLit(rg, 10)
			if j == k-1 && l == "" {
				l = pick(rg, []string{"tail", "\n", "é", "}", "'", "\""}) // there is always text behind the last tag
			}
			units = append(units, u)
			chunks = append(chunks, l)
			src.WriteString(u)
			src.WriteString(l)
			if l != "" {
				nonEmpty++
			}
		}
		c := &Case{Templates: map[string]string{"main": src.String()}, Main: "main", Ctx: ctx, FailAt: -1}
		im, _, _, err := c04Compare(e, c, "render-model-c04", "correspondence render (Lean pipeline vs real engine) on literal text around tags with partly scannable content")
		if err != nil {
			return err
		}
		r.Seen("s:"+src.String(), nonEmpty > 0)
		r.Hit("sloppy-tag-content")
		if im.Class == "panic" || im.Class == "timeout" {
			continue // reported by compareCase
		}
		// the units alone
		allOK := true
		failing := ""
		var want strings.Builder
		want.WriteString(chunks[0])
		for j, u := range units {
			res := renderSrc(u, ctx)
			if res.Class != "" {
				allOK = false
				failing = u
				break
			}
			want.WriteString(res.Out)
			want.WriteString(chunks[j+1])
		}
		if i < 2 {
			r.Sample(map[string]any{"template": src.String(), "units": units})
		}
		switch {
		case allOK && im.Class == "":
			r.Hit("sloppy-accepted")
			if im.Out == want.String() {
				continue
			}
		case !allOK && im.Class != "":
			r.Hit("sloppy-rejected")
			continue
		}
		what := fmt.Sprintf("template %q renders %q (%s); its tags rendered one by one give %q between the same literal chunks", truncate(src.String(), 120), truncate(im.Out, 120), im.Class, truncate(want.String(), 120))
		if !allOK {
			what = fmt.Sprintf("template %q is accepted and renders %q although its tag %q alone is rejected: text and tags behind it cannot all have been read", truncate(src.String(), 120), truncate(im.Out, 120), truncate(failing, 60))
		} else if im.Class != "" {
			what = fmt.Sprintf("template %q is rejected (%s: %s) although each of its tags alone is accepted and only literal text stands between them", truncate(src.String(), 120), im.Class, truncate(im.Msg, 100))
		}
		if r.Violate(Violation{Key: "chunks-not-exact-around-sloppy-tag", What: what,
			Broken: "theorem C04_chunks (every literal chunk exactly once and in order, whatever stands inside the tags between them; implementation-only metamorphic oracle)",
			Replay: map[string]any{"kind": "src", "src": src.String(), "src_hex": hx(src.String()), "ctx": ctx, "want": want.String(), "want_hex": hx(want.String()), "got_hex": hx(im.Out), "class": im.Class, "units": units}}) {
			break
		}
	}
	return nil
}
