package main

import (
	"fmt"
	"strconv"
	"strings"
)

// C08 (l) — a string literal written from a value denotes that value.
//
// "Expressions mean the same in every position" starts at the operands: the literal '\\' is the one-character string \,
// 'a\\' is a\, 'a\'b' is a'b, 'a\\\'b' is a\'b. A quote ends the literal iff an EVEN number of backslashes stands in
// front of it (every backslash pair is one escaped backslash); on the tree before the repair of TokenizeExpression a
// quote counted as escaped whenever the byte before it was a backslash, so no literal could end in a backslash:
// {{ '\\' }}, {% set v = 'a\\' %}, {% macro m(p, q = "\\") %} were parse errors.
//
// The corpus is written from VALUES (the same for every seed): every string of length ≤ 3 over the alphabet
// { \ ' " a { } } and a list of longer ones (runs of backslashes of every length up to 8 in front of and behind quotes,
// paths that end in a backslash, backslash-n which is NOT a newline once the backslash is escaped, runs of braces).
// Each value is spelled with single and with double quotes; backslashes and the delimiter are escaped, the other
// quote is escaped or not, braces are escaped or not (a brace that would complete }} inside the tag always is);
// every spelling stands in 25 positions: print, either side of ~, comparison, conditional arm, hash key and value,
// list element, subscript, filter subject and argument, function and macro argument, macro default, set, if / elseif,
// include-with, for sequence, in-list, and the large-template tokenizer. The expected output is computed here from the
// value (never from the engine); every case also goes through the Lean model (theorem
// C08_quote_after_escaped_backslash_closes, C08_string_literal_round_trip), which must support all of them:
// a case the model skips is reported as a violation.

type c08QSpelling struct {
	name string
	lit  string
}

// c08QuoteLit spells v between two q's. Always escaped: backslash, q. escOther: the other quote kind too.
// allBraces: every { and }; otherwise only a } that directly follows a } (so that the literal never contains }}).
func c08QuoteLit(v string, q byte, escOther, allBraces bool) string {
	var sb strings.Builder
	sb.WriteByte(q)
	last := byte(0)
	for i := 0; i < len(v); i++ {
		c := v[i]
		esc := false
		switch {
		case c == '\\' || c == q:
			esc = true
		case c == '\'' || c == '"':
			esc = escOther
		case c == '{':
			esc = allBraces
		case c == '}':
			esc = allBraces || last == '}'
		}
		if esc {
			sb.WriteByte('\\')
		}
		sb.WriteByte(c)
		last = c
	}
	sb.WriteByte(q)
	return sb.String()
}

func c08QuoteSpellings(v string) []c08QSpelling {
	var out []c08QSpelling
	seen := map[string]bool{}
	for _, q := range []byte{'\'', '"'} {
		for _, variant := range []struct {
			name                string
			escOther, allBraces bool
		}{{"", false, false}, {"+other-quote-escaped", true, false}, {"+braces-escaped", false, true}, {"+other-quote-and-braces-escaped", true, true}} {
			lit := c08QuoteLit(v, q, variant.escOther, variant.allBraces)
			if seen[lit] {
				continue
			}
			seen[lit] = true
			out = append(out, c08QSpelling{map[byte]string{'\'': "single", '"': "double"}[q] + variant.name, lit})
		}
	}
	return out
}

func c08QuoteValues() []string {
	alphabet := []string{"\\", "'", "\"", "a", "{", "}"}
	vals := []string{""}
	level := []string{""}
	for n := 1; n <= 3; n++ {
		var next []string
		for _, p := range level {
			for _, c := range alphabet {
				next = append(next, p+c)
			}
		}
		vals = append(vals, next...)
		level = next
	}
	for n := 4; n <= 8; n++ {
		bs := strings.Repeat("\\", n)
		vals = append(vals, bs, bs+"'", bs+"\"", "a"+bs, "'"+bs, "a"+bs+"'b", "a"+bs+"\"b")
	}
	vals = append(vals,
		"it's", "say \"hi\"", "'\"'\"", "''''", "\"\"\"\"", "\\'\\\"", "'\\'\\", "\"\\\\\"",
		"\\n", "\\\\n", "a\\tb", "\\r\\n", "n\\", "\\nn\\",
		"C:\\dir\\", "\\\\host\\share\\", "end\\", "a\\b\\c", "a\\\\'b", "a\\'b", "a\\\\\\'b",
		"{{\\}}", "}}}}", "{{{{", "\\{\\}", "}\\}", "{{ x }}", "{{ '\\\\' }}", "a'b\"c\\d{e}f",
		" \\ ", "\\ \\", "' '", "a\\ 'b' \\\"c\\\"")
	return vals
}

type c08QPos struct {
	name string
	tpl  string // L = the literal
	want func(v string) string
}

func c08QuotePositions() []c08QPos {
	id := func(v string) string { return v }
	k := func(s string) func(string) string { return func(string) string { return s } }
	truth := func(v string) bool { return v != "" }
	return []c08QPos{
		{"print", "{{ L }}", id},
		{"print-tight", "{{L}}", id},
		{"concat-left", "{{ L ~ '|' }}", func(v string) string { return v + "|" }},
		{"concat-right", "{{ '|' ~ L }}", func(v string) string { return "|" + v }},
		{"concat-tight-both", "{{ L~L }}", func(v string) string { return v + v }},
		{"comparison", "{{ L == s }}|{{ s == L }}|{{ L != s }}|{{ L == L ~ 'z' }}", k("true|true|false|false")},
		{"conditional-arm", "{{ t ? L : 'n' }}|{{ f ? 'n' : L }}", func(v string) string { return v + "|" + v }},
		{"hash-value", "{{ {'k': L}['k'] }}|{% set h = {'k': L, 'l': 1} %}{{ h.k }}", func(v string) string { return v + "|" + v }},
		{"hash-key", "{{ {L: 'x'}[s] }}{{ {L: 'y'}[L] }}", k("xy")},
		{"list-element", "{{ [L, 'z']|first }}|{{ ['z', L][1] }}|{{ [L]|join('+') }}", func(v string) string { return v + "|" + v + "|" + v }},
		{"subscript", "{{ m[L] }}", k("found")},
		{"in-list", "{{ L in [s] }}|{{ s in [L, 'z'] }}|{{ L not in [s] }}", k("true|true|false")},
		{"filter-subject", "{{ L|upper }}|{{ L|length }}", func(v string) string { return strings.ToUpper(v) + "|" + strconv.Itoa(len(v)) }},
		{"filter-argument", "{{ ['p', 'q']|join(L) }}|{{ nul|default(L) }}", func(v string) string { return "p" + v + "q|" + v }},
		{"function-argument", "{{ length(L) }}|{{ length([L, L]) }}", func(v string) string { return strconv.Itoa(len(v)) + "|2" }},
		{"macro-argument", "{% macro c08q_id(q) %}{{ q }}{% endmacro %}{{ c08q_id(L) }}|{{ c08q_id(L ~ L) }}", func(v string) string { return v + "|" + v + v }},
		{"macro-default", "{% macro c08q_d(p, q = L) %}{{ p }}{{ q }}{% endmacro %}{{ c08q_d(1) }}|{{ c08q_d(2, 'o') }}", func(v string) string { return "1" + v + "|2o" }},
		{"set", "{% set x = L %}{{ x }}|{% set y = L ~ L %}{{ y }}", func(v string) string { return v + "|" + v + v }},
		{"if", "{% if L == s %}T{% else %}F{% endif %}{% if s != L %}T{% else %}F{% endif %}{% if L %}T{% else %}F{% endif %}", func(v string) string {
			if truth(v) {
				return "TFT"
			}
			return "TFF"
		}},
		{"elseif", "{% if f %}A{% elseif L == s %}B{% else %}C{% endif %}", k("B")},
		{"include-with", "{% include 'show' with {'v': L} %}|{% include 'show' with {'v': L} only %}", func(v string) string { return v + "|" + v }},
		{"for-sequence", "{% for x in [L, L] %}{{ x }};{% endfor %}", func(v string) string { return v + ";" + v + ";" }},
		{"for-body", "{% for x in [1, 2] %}{{ L }}{{ x }}{% endfor %}", func(v string) string { return v + "1" + v + "2" }},
		{"large-print", largeFiller + "{{ L }}|{{ L ~ L }}", func(v string) string { return largeFiller + v + "|" + v + v }},
		{"large-tags", largeFiller + "{% set x = L %}{% if L == s %}{{ x }}{% endif %}", func(v string) string { return largeFiller + v }},
	}
}

func c08QuoteEscapes(e *Env) error {
	r := e.Rep
	const broken = "theorem C08_quote_after_escaped_backslash_closes / C08_string_literal_round_trip: a literal written from a value (backslashes and the delimiter escaped) denotes that value; a quote behind an escaped backslash ends the literal"
	const corr = "correspondence (Lean lexer+parser+evaluator vs real engine) on string literals with escaped backslashes and quotes"
	vals := c08QuoteValues()
	positions := c08QuotePositions()
	cases, skips := 0, 0
	rot := 0
	for _, v := range vals {
		ctx := map[string]any{"s": v, "nul": nil, "t": true, "f": false, "m": map[string]interface{}{v: "found"}}
		for _, sp := range c08QuoteSpellings(v) {
			rot++
			for pi, p := range positions {
				if r.Full() {
					return nil
				}
				// quick tier: values of up to two characters stand in every position, longer ones in a fifth of the
				// positions (rotating, the same on every seed); the thorough tier runs the full product
				if !e.Thorough() && len(v) > 2 && (rot+pi)%5 != 0 {
					continue
				}
				tpl := strings.ReplaceAll(p.tpl, "L", sp.lit)
				want := p.want(v)
				c := c08LitCase(tpl, ctx)
				im, mo, _, err := compareCase(e, c, "render-model-c08", corr)
				if err != nil {
					return err
				}
				cases++
				r.Seen("quote:"+p.name+":"+sp.lit, true)
				r.Hit("quote-literal")
				if e.Model != nil && (mo.Unsupported != "" || mo.Fuel) {
					skips++
					if r.Violate(Violation{Key: "string-literal-model-skip", What: fmt.Sprintf("value %q spelled %s (%s) at %s: the model does not decide %s (unsupported=%q fuel=%v)", v, sp.lit, sp.name, p.name, truncate(tpl, 120), mo.Unsupported, mo.Fuel),
						Broken: broken + " (the model must cover every case of this corpus)",
						Replay: c08Replay(c, im, want, map[string]any{"value": v, "literal": sp.lit, "position": p.name})}) {
						return nil
					}
				}
				if im.Class != "" || im.Out != want {
					got, exp, src := im.Out, want, tpl
					if strings.HasPrefix(p.name, "large-") {
						got, exp, src = strings.TrimPrefix(got, largeFiller), strings.TrimPrefix(exp, largeFiller), "<filler>"+strings.TrimPrefix(src, largeFiller)
					}
					if r.Violate(Violation{Key: "string-literal-round-trip", What: fmt.Sprintf("value %q spelled %s (%s) at %s: %s renders %q (%s %s), expected %q", v, sp.lit, sp.name, p.name, src, got, im.Class, truncate(im.Msg, 80), exp),
						Broken: broken,
						Replay: c08Replay(c, im, want, map[string]any{"value": v, "literal": sp.lit, "position": p.name})}) {
						return nil
					}
				}
			}
		}
	}
	// raw soup: every byte string of length ≤ 4 (thorough: 6) over { \ ' " a ~ space } as the whole expression of a print tag, well
	// formed or not (unterminated literals, backslashes outside literals, a quote of the other kind behind a backslash):
	// engine and model must agree on the outcome, whatever it is (no expectation computed here)
	soup := []string{""}
	level := []string{""}
	maxLen := 4
	if e.Thorough() {
		maxLen = 6
	}
	for n := 1; n <= maxLen; n++ {
		var next []string
		for _, p := range level {
			for _, ch := range []string{"\\", "'", "\"", "a", "~", " "} {
				next = append(next, p+ch)
			}
		}
		soup = append(soup, next...)
		level = next
	}
	raw := 0
	for _, x := range soup {
		if r.Full() {
			return nil
		}
		c := c08LitCase("{{ "+x+" }}|{% set v = "+x+" %}", map[string]any{"a": "A"})
		im, mo, _, err := compareCase(e, c, "render-model-c08", corr+" (raw quote / backslash sequences)")
		if err != nil {
			return err
		}
		raw++
		r.Seen("quote-soup:"+x, true)
		r.Hit("quote-soup")
		if e.Model != nil && (mo.Unsupported != "" || mo.Fuel) {
			skips++
			if r.Violate(Violation{Key: "string-literal-model-skip", What: fmt.Sprintf("raw expression %q: the model does not decide it (unsupported=%q fuel=%v)", x, mo.Unsupported, mo.Fuel),
				Broken: broken + " (the model must cover every case of this corpus)",
				Replay: c08Replay(c, im, im.Out, map[string]any{"raw": x})}) {
				return nil
			}
		}
	}
	r.Note(fmt.Sprintf("string literals written from values: %d values, %d cases, %d raw quote/backslash sequences, %d model skips", len(vals), cases, raw, skips))
	return nil
}
