package main

import (
	"fmt"
	"strings"
)

// C12 — a parameter that is omitted is bound to the VALUE OF ITS DEFAULT EXPRESSION.
//
// "… to its default expression when the argument is omitted": the default written in the signature is an expression
// like any other. Whatever is written there — a quoted string with escape sequences, in either quoting style, with
// punctuation of the signature inside it; a number in any spelling; a word constant; a variable of the caller; an
// operator, filter, function, list or hash expression — the call that leaves the argument out, the call that passes
// the very same expression explicitly, and the body rendered in place after `set`ting each parameter to that
// expression all render the same text. The same whatever follows the default in the signature ("," or ")"), however
// the "=" is spaced, and through every route.
//
// Dimensions (deterministic sweep; every default meets every route in the quick tier, the other dimensions rotate;
// the thorough tier crosses everything):
//   - the default expression: see c12DefaultPool (string literals are BUILT from pieces whose value is known by
//     construction — the literal is never parsed here —, every escape the language knows × alone / leading /
//     trailing / in the middle / doubled / mixed × both quoting styles; numbers; word constants; expressions);
//   - where the defaulted parameter sits: the only one, the last one, one in the middle, all of them;
//   - the spelling of the "=": spaced, tight;
//   - the route: local name, _self, import … as, from … import, from … import … as.
//
// Oracles: (a) the three renderings agree (metamorphic relation stated by the property); (b) for defaults whose value
// is known by construction the text is computed here (independent spec); (c) the Lean pipeline (compareCase).

type c12Default struct {
	src   string // the expression as written
	known bool   // the fields below are known by construction
	out   string // what {{ q }} prints
	null  bool   // q is null
	truth bool   // q is truthy
}

// c12StrPiece is a fragment of a string literal: how it is written between the quotes and the text it stands for.
type c12StrPiece struct{ src, val string }

func c12DefaultPool() []c12Default {
	var pool []c12Default
	escapes := []c12StrPiece{{`\n`, "\n"}, {`\t`, "\t"}, {`\r`, "\r"}, {`\\`, `\`}, {`\'`, `'`}, {`\"`, `"`}, {`\{`, "{"}, {`\}`, "}"}, {`\q`, "q"}}
	str := func(quote string, pieces ...c12StrPiece) {
		var s, v strings.Builder
		for _, p := range pieces {
			s.WriteString(p.src)
			v.WriteString(p.val)
		}
		pool = append(pool, c12Default{src: quote + s.String() + quote, known: true, out: v.String(), truth: v.Len() > 0})
	}
	plain := func(s string) c12StrPiece { return c12StrPiece{s, s} }
	for i, esc := range escapes {
		q1, q2 := "'", `"`
		if i%2 == 1 {
			q1, q2 = q2, q1
		}
		if esc.src != `\\` { // a literal that ENDS in an escaped backslash does not tokenize (see the report of round 9)
			str(q1, esc)
			str(q2, plain("a"), esc)
			str(q1, esc, esc, plain("!"))
		}
		str(q2, esc, plain("b"))
		str(q1, plain("a"), esc, plain("b"))
		str(q2, esc, escapes[(i+1)%len(escapes)], plain("z"))
	}
	// punctuation of a signature inside the literal, the other quote, and strings without any escape
	for _, s := range []string{"", "x", "a,b", "a)b", "(a", "a=b", "a = 'b", `say "hi"`, "a|b~c", "p", "q", "0.0", " ", "{%"} {
		if strings.Contains(s, "'") {
			str(`"`, plain(s))
		} else {
			str("'", plain(s))
		}
	}
	pool = append(pool, c12Default{src: `""`, known: true})
	num := func(src, out string, truth bool) {
		pool = append(pool, c12Default{src: src, known: true, out: out, truth: truth})
	}
	num("0", "0", false)
	num("7", "7", true)
	num("42", "42", true)
	num("-1", "-1", true)
	num("1.5", "1.5", true)
	num("0.5", "0.5", true)
	num("-2.25", "-2.25", true)
	num("2147483648", "2147483648", true)
	num("10000000000", "10000000000", true)
	pool = append(pool,
		c12Default{src: "true", known: true, out: "true", truth: true},
		c12Default{src: "false", known: true, out: "false"},
		c12Default{src: "null", known: true, null: true},
		c12Default{src: "none", known: true, null: true},
		c12Default{src: "g", known: true, out: "G", truth: true},
		c12Default{src: "undefinedname", known: true, null: true},
	)
	// the value of these comes from the other renderings and from the model
	for _, s := range []string{"1.0", "007", "nil", "TRUE", "(1)", "1 + 2", "-g2", "not true", `'a' ~ '\n'`, `"\t" ~ g`, "[1, 2]", "[]", `['\t', "\n"]|join('-')`,
		"{'a': 1}", `{'k': '\t'}['k']`, `['\t', 'x'][0]`, "'x'|upper", `'a\tb'|upper`, "g|lower", "'a' in ['a']", "1 == 1 ? 'y' : 'n'", `g == 'G' ? '\n' : '\t'`, "range(1, 3)|join(',')", "g ~ '!'", "'#{g}'"} {
		pool = append(pool, c12Default{src: s})
	}
	return pool
}

// c12DefaultSep separates the three renderings of a case on the page
const c12DefaultSep = "<#>"

var c12DefaultPositions = []string{"only", "last", "middle", "all"}
var c12DefaultRoutes = []string{"local", "self", "import", "from", "from-alias"}

// c12DefaultCase builds the templates of one case: the page prints the call that omits the defaulted parameter(s),
// the call that passes the default expression explicitly, and the body in place after set (c12DefaultSep between them).
func c12DefaultCase(d c12Default, pos, route string, tight bool) (tpls map[string]string, sig string, segWant string, known bool) {
	eq := " = "
	if tight {
		eq = "="
	}
	D := d.src
	var omitted, explicit, sets string
	// what p and r print in the body: parameters where the signature has them, the caller's variables otherwise
	pOut, rOut := "OUTER-p", "OUTER-r"
	switch pos {
	case "only":
		sig = "q" + eq + D
		omitted, explicit = "", D
		sets = "{% set q = " + D + " %}"
	case "last":
		sig = "p, q" + eq + D
		omitted, explicit = "1", "1, "+D
		sets = "{% set p = 1 %}{% set q = " + D + " %}"
		pOut = "1"
	case "middle":
		sig = "p, q" + eq + D + ", r" + eq + "'R'"
		omitted, explicit = "1", "1, "+D
		sets = "{% set p = 1 %}{% set q = " + D + " %}{% set r = 'R' %}"
		pOut, rOut = "1", "R"
	case "all":
		sig = "p" + eq + D + ", q" + eq + D + ", r" + eq + D
		omitted, explicit = "", D+", "+D+", "+D
		sets = "{% set p = " + D + " %}{% set q = " + D + " %}{% set r = " + D + " %}"
		pOut, rOut = d.out, d.out
	}
	body := "[{{ p }}|{{ q }}|{{ r }}|{{ q is null ? 'n' : 'v' }}|{{ q ? 'T' : 'F' }}]"
	lib := "{% macro m(" + sig + ") %}" + body + "{% endmacro %}"
	var prelude, name string
	switch route {
	case "local":
		prelude, name = lib, "m"
	case "self":
		prelude, name = lib, "_self.m"
	case "import":
		prelude, name = "{% import 'lib' as L %}", "L.m"
	case "from":
		prelude, name = "{% from 'lib' import m %}", "m"
	case "from-alias":
		prelude, name = "{% from 'lib' import m as mm %}", "mm"
	}
	page := prelude + "{{ " + name + "(" + omitted + ") }}" + c12DefaultSep + "{{ " + name + "(" + explicit + ") }}" + c12DefaultSep + sets + body
	tpls = map[string]string{"main": page, "lib": lib}
	if d.known {
		nv, tf := "v", "F"
		if d.null {
			nv = "n"
		}
		if d.truth {
			tf = "T"
		}
		segWant = "[" + pOut + "|" + d.out + "|" + rOut + "|" + nv + "|" + tf + "]"
	}
	return tpls, sig, segWant, d.known
}

func runC12Defaults(e *Env) error {
	r := e.Rep
	pool := c12DefaultPool()
	type combo struct {
		d     c12Default
		pos   string
		route string
		tight bool
	}
	var combos []combo
	if e.Thorough() {
		for _, d := range pool {
			for _, pos := range c12DefaultPositions {
				for _, route := range c12DefaultRoutes {
					for _, tight := range []bool{false, true} {
						combos = append(combos, combo{d, pos, route, tight})
					}
				}
			}
		}
	} else {
		// every default × every position, the route and the spelling rotating so that every default also meets
		// two routes at least and every (position, route, spelling) triple occurs
		for i, d := range pool {
			for j, pos := range c12DefaultPositions {
				combos = append(combos, combo{d, pos, c12DefaultRoutes[(i+2*j)%len(c12DefaultRoutes)], (i+j)%2 == 1})
			}
		}
	}
	for _, k := range combos {
		if r.Full() {
			break
		}
		tpls, sig, segWant, known := c12DefaultCase(k.d, k.pos, k.route, k.tight)
		c := &Case{Templates: tpls, Main: "main", Ctx: map[string]any{"g": "G", "g2": 5, "p": "OUTER-p", "q": "OUTER-q", "r": "OUTER-r"}, FailAt: -1}
		im, _, _, err := compareCase(e, c, "render-model-c12", "correspondence (Lean pipeline vs real engine) on macro default expressions")
		if err != nil {
			return err
		}
		r.Seen(fmt.Sprintf("default/%s/%s/%s/%v", k.d.src, k.pos, k.route, k.tight), true)
		r.Hit("default-position:" + k.pos)
		r.Hit("default-route:" + k.route)
		replay := map[string]any{"kind": "render", "templates": tpls, "main": "main", "ctx": c.Ctx, "got": im.Out, "class": im.Class, "msg": im.Msg}
		if im.Class != "" {
			if known {
				replay["want"] = segWant + c12DefaultSep + segWant + c12DefaultSep + segWant
				if r.Violate(Violation{Key: "macro-default-not-its-expression", What: fmt.Sprintf("macro m(%s) via %s does not render: %s (%s); expected %q for the call without the argument, the call with it and the body in place", sig, k.route, im.Class, truncate(im.Msg, 120), segWant),
					Broken: "theorem C12_binding (implementation-only oracle: a default is an expression like any other)", Replay: replay}) {
					return nil
				}
			} else {
				r.Skip("default expression does not render: " + k.d.src)
			}
			continue
		}
		segs := strings.Split(im.Out, c12DefaultSep)
		bad := ""
		switch {
		case known && im.Out != segWant+c12DefaultSep+segWant+c12DefaultSep+segWant:
			replay["want"] = segWant + c12DefaultSep + segWant + c12DefaultSep + segWant
			bad = fmt.Sprintf("expected %q three times (value of the default known by construction)", segWant)
		case !known && (len(segs) != 3 || segs[0] != segs[1] || segs[1] != segs[2]):
			bad = "the three renderings differ"
		}
		if bad != "" {
			if r.Violate(Violation{Key: "macro-default-not-its-expression", What: fmt.Sprintf("macro m(%s) via %s: argument omitted <#> the default expression %s passed explicitly <#> the body in place after set render %q — %s", sig, k.route, k.d.src, truncate(im.Out, 200), bad),
				Broken: "theorem C12_binding (implementation-only oracle: an omitted parameter is bound to the value of its default expression — the same value the expression has as an argument or on the right of set)", Replay: replay}) {
				return nil
			}
		}
	}
	return nil
}
