package main

import (
	"encoding/json"
	"errors"
	"fmt"
	"hash/adler32"
	"hash/crc32"
	"hash/fnv"
	"math/rand"
	"os"
	"reflect"
	"regexp"
	"sort"
	"strings"
	"time"

	"github.com/semihalev/twig"
)

// C20 — attribute access returns the right member whatever was looked up before.
//
// Implementation-only oracles (no model):
//   (1) every `{{ x.name }}` / `{{ x['name'] }}` equals the member found by DIRECT reflection written here
//       independently of getAttribute (own depth-by-depth promoted-field search cross-checked with
//       reflect's FieldByName, CanInterface, MethodByName on the value then on the pointer), printed
//       through the same `{{ v }}` toString;
//   (2) the same lookup gives the same output before, during and after flooding the process-wide attribute
//       cache with more distinct (type, name) pairs than it holds, in random orders.
// Correspondence M: the Lean model (TwigModel.AttrCache) is driven with the same lookup history (types as
// JSON descriptions, values as trees) and must print the same string at every step; its method tables and
// resolveCode entries are compared with package reflect's.

func init() { register("C20", runC20) }

var c20PlainName = regexp.MustCompile(`^[A-Za-z_][A-Za-z0-9_]*$`)

// ---- the hand-written zoo ------------------------------------------------------------------------

type c20Inner struct {
	X    int
	Name string
	hid  int
}

func (i c20Inner) Hello() string   { return i.Name }
func (i *c20Inner) PHello() string { return "c20Inner.PHello" }
func (i c20Inner) Add(n int) int   { return i.X + n }
func (i *c20Inner) PGet() int      { return i.X }
func (i c20Inner) secret() string  { return "secret" }

type c20Outer struct {
	c20Inner // unexported embedded field
	Y        int
}

type C20Pub struct {
	P int
	Q string
}

func (p C20Pub) Pub() string { return "C20Pub.Pub" }

type c20Deep struct {
	c20Outer
	C20Pub
	Z string
}
type c20OuterP struct {
	*c20Inner
	Y int
}
type c20Shadow struct {
	c20Inner
	Name string
}
type c20A1 struct {
	V int
	W int
}
type c20A2 struct {
	V int
	U string
}
type c20Amb struct {
	c20A1
	c20A2
}
type c20AmbDeep struct {
	c20Amb
	C20Pub
	V2 int
}
type c20MethShadow struct{ c20Inner }

func (c20MethShadow) Name() string { return "c20MethShadow.Name()" }

type c20FieldOverMethod struct {
	c20Inner
	Hello string
}
type c20M1 struct{ P int }

func (c20M1) Who() string { return "M1" }

type c20M2 struct{ Q int }

func (c20M2) Who() string { return "M2" }

type c20MethAmb struct {
	c20M1
	c20M2
}
type c20MethOverride struct{ c20M1 }

func (c20MethOverride) Who() string { return "override" }

type c20WithArgs struct{ Z int }

func (w c20WithArgs) Add(a int) int      { return a + w.Z }
func (w c20WithArgs) Two() (int, string) { return 1, "x" }
func (w c20WithArgs) Nothing()           {}
func (w *c20WithArgs) PAdd(a, b int) int { return a + b }

type c20Iface struct {
	I interface{}
	J interface{}
	E error
}
type c20EmbIface struct {
	error
	N int
}
type c20lower struct {
	Q int
	r int
}
type c20EmbLower struct {
	c20lower
	K int
}
type c20PtrOnly struct{ N int }

func (*c20PtrOnly) Get() string { return "c20PtrOnly.Get" }
func (p *c20PtrOnly) GetN() int { return p.N }

type c20Cyclic struct {
	*c20Cyclic
	V int
}
type c20Mixed struct {
	c20Outer
	*c20A1
	M map[string]int
	L []int
	F func()
	S C20Pub
	T *C20Pub
}
type c20PtrChain struct {
	*c20OuterP
	K string
}
type c20Named map[string]int
type c20StrKey string

// declared methods of the zoo types, for the model: name, pointer receiver, parameters, body
// (nil = no result, {"c": s} = constant, {"f": i} = i-th field of the receiver)
type c20Decl struct {
	Name  string
	Ptr   bool
	NumIn int
	Body  any
}

func c20Const(s string) any { return map[string]any{"c": s} }
func c20Field(i int) any    { return map[string]any{"f": i} }

var c20Decls = map[reflect.Type][]c20Decl{
	reflect.TypeOf(c20Inner{}): {{"Hello", false, 0, c20Field(1)}, {"PHello", true, 0, c20Const("c20Inner.PHello")},
		{"Add", false, 1, c20Const("never")}, {"PGet", true, 0, c20Field(0)}, {"secret", false, 0, c20Const("secret")}},
	reflect.TypeOf(C20Pub{}):          {{"Pub", false, 0, c20Const("C20Pub.Pub")}},
	reflect.TypeOf(c20MethShadow{}):   {{"Name", false, 0, c20Const("c20MethShadow.Name()")}},
	reflect.TypeOf(c20M1{}):           {{"Who", false, 0, c20Const("M1")}},
	reflect.TypeOf(c20M2{}):           {{"Who", false, 0, c20Const("M2")}},
	reflect.TypeOf(c20MethOverride{}): {{"Who", false, 0, c20Const("override")}},
	reflect.TypeOf(c20WithArgs{}): {{"Add", false, 1, c20Const("never")}, {"Two", false, 0, c20Const("1")},
		{"Nothing", false, 0, nil}, {"PAdd", true, 2, c20Const("never")}},
	reflect.TypeOf(c20PtrOnly{}): {{"Get", true, 0, c20Const("c20PtrOnly.Get")}, {"GetN", true, 0, c20Field(0)}},
}

// zoo types the model does not cover (embedded interface: its methods are promoted)
var c20Unmodelled = map[reflect.Type]bool{reflect.TypeOf(c20EmbIface{}): true}

func c20ZooValues() []any {
	in := c20Inner{X: 1, Name: "in", hid: 5}
	out := c20Outer{in, 2}
	pub := C20Pub{P: 7, Q: "q"}
	cyc := c20Cyclic{&c20Cyclic{nil, 7}, 5}
	return []any{
		in, out, c20Deep{out, pub, "z"},
		c20OuterP{&c20Inner{X: 3, Name: "pin"}, 4}, c20OuterP{nil, 4},
		c20Shadow{in, "outer"}, c20Amb{c20A1{1, 11}, c20A2{2, "u"}}, c20AmbDeep{c20Amb{c20A1{1, 11}, c20A2{2, "u"}}, pub, 9},
		c20MethShadow{in}, c20FieldOverMethod{in, "field-hello"}, c20MethAmb{c20M1{1}, c20M2{2}}, c20MethOverride{c20M1{3}},
		c20WithArgs{5}, c20Iface{I: 42, J: "str", E: nil}, c20Iface{I: nil, J: pub, E: errors.New("boom")},
		c20EmbIface{errors.New("emb"), 3}, c20EmbLower{c20lower{7, 8}, 9}, c20PtrOnly{6}, cyc, c20Cyclic{nil, 4},
		c20Mixed{c20Outer: out, c20A1: &c20A1{5, 6}, M: map[string]int{"a": 1}, L: []int{1, 2}, S: pub, T: &pub},
		c20Mixed{c20Outer: out, c20A1: nil, S: pub},
		c20PtrChain{&c20OuterP{&c20Inner{X: 8, Name: "deep"}, 9}, "k"}, c20PtrChain{&c20OuterP{nil, 9}, "k"}, c20PtrChain{nil, "k"},
		pub,
	}
}

func c20ZooMaps() []any {
	pub := C20Pub{P: 7, Q: "q"}
	return []any{
		map[string]interface{}{"A": 1, "Name": "n", "nil": nil, "X": pub, "Hello": "not a method"},
		map[string]int{"A": 1, "X": 2}, map[int]string{1: "one"}, map[string]string{}, c20Named{"A": 3},
		map[c20StrKey]int{"A": 4, "Name": 5}, map[string]C20Pub{"A": pub}, map[string]*C20Pub{"A": &pub, "B": nil},
		map[interface{}]int{"A": 6}, []int{1, 2}, 42, "str", nil, (*c20Outer)(nil), (*map[string]int)(nil),
	}
}

// ---- generated struct types (reflect.StructOf) ----------------------------------------------------

const (
	c20KInt = iota
	c20KString
	c20KBool
	c20KIface
	c20KStruct
	c20KPtr
)

type c20FieldSpec struct {
	Name     string
	Kind     int
	Embedded bool
	Sub      *c20Spec
}
type c20Spec struct{ Fields []c20FieldSpec }

var c20PlainNames = []string{"A", "B", "C", "D", "E", "F", "G", "X", "Y", "Name", "Val", "Id", "a", "b", "hid"}
var c20EmbNames = []string{"E1", "E2", "E3", "e4"}
var c20ExtraNames = []string{"Zed", "Hello", "PHello", "Who"}

func c20AllNames() []string {
	var ns []string
	ns = append(ns, c20PlainNames...)
	ns = append(ns, c20EmbNames...)
	ns = append(ns, c20ExtraNames...)
	return ns
}

func c20GenSpec(rng *rand.Rand, depth int) *c20Spec {
	n := 2 + rng.Intn(7)
	used := map[string]bool{}
	sp := &c20Spec{}
	for i := 0; i < n; i++ {
		if depth > 0 && rng.Intn(10) < 4 {
			name := c20EmbNames[rng.Intn(len(c20EmbNames))]
			if used[name] {
				continue
			}
			used[name] = true
			k := c20KStruct
			if rng.Intn(2) == 0 {
				k = c20KPtr
			}
			sp.Fields = append(sp.Fields, c20FieldSpec{Name: name, Kind: k, Embedded: true, Sub: c20GenSpec(rng, depth-1)})
			continue
		}
		name := c20PlainNames[rng.Intn(len(c20PlainNames))]
		if used[name] {
			continue
		}
		used[name] = true
		k := rng.Intn(4)
		var sub *c20Spec
		if depth > 0 && rng.Intn(10) == 0 {
			k = c20KStruct + rng.Intn(2)
			sub = c20GenSpec(rng, 0)
		}
		sp.Fields = append(sp.Fields, c20FieldSpec{Name: name, Kind: k, Sub: sub})
	}
	if len(sp.Fields) == 0 {
		sp.Fields = append(sp.Fields, c20FieldSpec{Name: "A", Kind: c20KInt})
	}
	return sp
}

func (s *c20Spec) String() string {
	var sb strings.Builder
	sb.WriteString("{")
	for i, f := range s.Fields {
		if i > 0 {
			sb.WriteString("; ")
		}
		if f.Embedded {
			sb.WriteString("embed ")
		}
		sb.WriteString(f.Name)
		switch f.Kind {
		case c20KInt:
			sb.WriteString(" int")
		case c20KString:
			sb.WriteString(" string")
		case c20KBool:
			sb.WriteString(" bool")
		case c20KIface:
			sb.WriteString(" any")
		case c20KStruct:
			sb.WriteString(" " + f.Sub.String())
		case c20KPtr:
			sb.WriteString(" *" + f.Sub.String())
		}
	}
	sb.WriteString("}")
	return sb.String()
}

// c20BuildType returns nil (and the panic text) when reflect.StructOf refuses the layout.
func c20BuildType(s *c20Spec) (t reflect.Type, refused string) {
	defer func() {
		if p := recover(); p != nil {
			t, refused = nil, fmt.Sprint(p)
		}
	}()
	fs := make([]reflect.StructField, 0, len(s.Fields))
	for _, f := range s.Fields {
		sf := reflect.StructField{Name: f.Name, Anonymous: f.Embedded}
		if f.Name[0] >= 'a' && f.Name[0] <= 'z' {
			sf.PkgPath = "verif/harness"
		}
		switch f.Kind {
		case c20KInt:
			sf.Type = reflect.TypeOf(0)
		case c20KString:
			sf.Type = reflect.TypeOf("")
		case c20KBool:
			sf.Type = reflect.TypeOf(false)
		case c20KIface:
			sf.Type = reflect.TypeOf((*interface{})(nil)).Elem()
		case c20KStruct, c20KPtr:
			sub, why := c20BuildType(f.Sub)
			if sub == nil {
				return nil, why
			}
			if f.Kind == c20KPtr {
				sub = reflect.PtrTo(sub)
			}
			sf.Type = sub
		}
		fs = append(fs, sf)
	}
	return reflect.StructOf(fs), ""
}

// c20Fill sets every settable field to a random value (embedded pointers are nil one time in three).
func c20Fill(v reflect.Value, rng *rand.Rand, depth int) {
	for i := 0; i < v.NumField(); i++ {
		f := v.Field(i)
		if !f.CanSet() {
			continue
		}
		switch f.Kind() {
		case reflect.Int:
			f.SetInt(int64(rng.Intn(1000)))
		case reflect.String:
			f.SetString(fmt.Sprintf("s%d", rng.Intn(1000)))
		case reflect.Bool:
			f.SetBool(rng.Intn(2) == 0)
		case reflect.Interface:
			switch rng.Intn(3) {
			case 0:
				f.Set(reflect.ValueOf(rng.Intn(1000)))
			case 1:
				f.Set(reflect.ValueOf(fmt.Sprintf("i%d", rng.Intn(1000))))
			}
		case reflect.Struct:
			c20Fill(f, rng, depth+1)
		case reflect.Ptr:
			if f.Type().Elem().Kind() == reflect.Struct && rng.Intn(3) != 0 && depth < 6 {
				p := reflect.New(f.Type().Elem())
				c20Fill(p.Elem(), rng, depth+1)
				f.Set(p)
			}
		}
	}
}

// ---- rendering ------------------------------------------------------------------------------------

type c20Eng struct {
	e    *twig.Engine
	have map[string]bool
}

func c20NewEng() *c20Eng { return &c20Eng{e: twig.New(), have: map[string]bool{}} }

// render returns the output, or "<panic>", or "<err:…>". kind: 'd' x.NAME, 'i' x['NAME'], 'v' the value itself.
func (g *c20Eng) render(kind byte, name string, x any) (out string) {
	defer func() {
		if p := recover(); p != nil {
			out = "<panic>"
		}
	}()
	tn := string(kind) + ":" + name
	if !g.have[tn] {
		var src string
		switch kind {
		case 'd':
			src = "{{ x." + name + " }}"
		case 'i':
			src = "{{ x['" + name + "'] }}"
		default:
			src = "{{ x }}"
		}
		if err := g.e.RegisterString(tn, src); err != nil {
			return "<err:register:" + err.Error() + ">"
		}
		g.have[tn] = true
	}
	s, err := g.e.Render(tn, map[string]interface{}{"x": x})
	if err != nil {
		return "<err:" + err.Error() + ">"
	}
	return s
}

func (g *c20Eng) print(v any) string { return g.render('v', "", v) }

// ---- expected value by direct reflection (independent of getAttribute) -----------------------------

// c20FindField: Go's promoted-field rule done by hand: level by level, the unique field of that name at
// the shallowest level that has one. Works on types only; a type already expanded at a shallower level
// is not expanded again (cycles).
func c20FindField(t reflect.Type, name string) (path []int, ok bool) {
	type node struct {
		t    reflect.Type
		path []int
	}
	level := []node{{t, nil}}
	seen := map[reflect.Type]bool{}
	for depth := 0; len(level) > 0 && depth < 64; depth++ {
		var hits [][]int
		var next []node
		for _, n := range level {
			seen[n.t] = true
		}
		for _, n := range level {
			for i := 0; i < n.t.NumField(); i++ {
				f := n.t.Field(i)
				p := append(append([]int{}, n.path...), i)
				if f.Name == name {
					hits = append(hits, p)
					continue
				}
				if f.Anonymous {
					ft := f.Type
					if ft.Kind() == reflect.Ptr {
						ft = ft.Elem()
					}
					if ft.Kind() == reflect.Struct && !seen[ft] {
						next = append(next, node{ft, p})
					}
				}
			}
		}
		if len(hits) == 1 {
			return hits[0], true
		}
		if len(hits) > 1 {
			return nil, false
		}
		level = next
	}
	return nil, false
}

// c20Walk follows an index path through a value; ok=false on a nil embedded pointer.
func c20Walk(v reflect.Value, path []int) (reflect.Value, bool) {
	for i, x := range path {
		if i > 0 && v.Kind() == reflect.Ptr {
			if v.IsNil() {
				return reflect.Value{}, false
			}
			v = v.Elem()
		}
		v = v.Field(x)
	}
	return v, true
}

// c20Expect is the specification on real Go values: what `x.name` (item=false) / `x['name']` must yield.
// class "panic": calling the method panics (Go's own behaviour for that call).
func c20Expect(obj any, name string, item bool) (val any, class string, note string) {
	calling := false
	defer func() {
		if p := recover(); p != nil {
			if !calling {
				panic(p) // a bug of this oracle, not of the method
			}
			val, class = nil, "panic"
		}
	}()
	if obj == nil {
		return nil, "", ""
	}
	v := reflect.ValueOf(obj)
	if item {
		// the property speaks about maps only
		if v.Kind() == reflect.Map && v.Type().Key().Kind() == reflect.String {
			e := v.MapIndex(reflect.ValueOf(name).Convert(v.Type().Key()))
			if e.IsValid() {
				return e.Interface(), "", ""
			}
		}
		if v.Kind() == reflect.Map && v.Type().Key().Kind() == reflect.Interface {
			e := v.MapIndex(reflect.ValueOf(name))
			if e.IsValid() {
				return e.Interface(), "", ""
			}
		}
		return nil, "", ""
	}
	isPtr := v.Kind() == reflect.Ptr
	if isPtr {
		if v.IsNil() {
			return nil, "", ""
		}
		v = v.Elem()
	}
	switch v.Kind() {
	case reflect.Map:
		if v.Type().Key().Kind() == reflect.String {
			e := v.MapIndex(reflect.ValueOf(name).Convert(v.Type().Key()))
			if e.IsValid() {
				return e.Interface(), "", ""
			}
		}
		return nil, "", ""
	case reflect.Struct:
	default:
		return nil, "", ""
	}
	t := v.Type()
	path, ok := c20FindField(t, name)
	// cross-check of the hand-written search with package reflect
	if sf, rok := t.FieldByName(name); rok != ok || (ok && !reflect.DeepEqual(sf.Index, path)) {
		note = fmt.Sprintf("own promoted-field search (%v,%v) and reflect.FieldByName (%v,%v) differ", path, ok, sf.Index, rok)
	}
	if ok {
		if fv, reach := c20Walk(v, path); reach && fv.CanInterface() {
			return fv.Interface(), "", note
		}
	}
	// zero-argument method of the value's method set, else of the pointer's
	call := func(m reflect.Value) (any, string, string) {
		calling = true
		res := m.Call(nil)
		calling = false
		if len(res) == 0 {
			return nil, "", note
		}
		return res[0].Interface(), "", note
	}
	if m := v.MethodByName(name); m.IsValid() && m.Type().NumIn() == 0 {
		return call(m)
	}
	var pv reflect.Value
	if isPtr {
		pv = reflect.ValueOf(obj)
	} else {
		pv = reflect.New(t)
		pv.Elem().Set(v)
	}
	if m := pv.MethodByName(name); m.IsValid() && m.Type().NumIn() == 0 {
		return call(m)
	}
	return nil, "", note
}

// ---- model descriptions ------------------------------------------------------------------------------

type c20ModelEnv struct {
	ids   map[reflect.Type]int
	types []reflect.Type
	bad   map[reflect.Type]bool // not covered by the model
}

func c20NewModelEnv() *c20ModelEnv {
	return &c20ModelEnv{ids: map[reflect.Type]int{}, bad: map[reflect.Type]bool{}}
}

// add registers a struct type and every struct type reachable through its fields; returns its id.
func (m *c20ModelEnv) add(t reflect.Type) int {
	if id, ok := m.ids[t]; ok {
		return id
	}
	id := len(m.types)
	m.ids[t] = id
	m.types = append(m.types, t)
	if c20Unmodelled[t] {
		m.bad[t] = true
	}
	for i := 0; i < t.NumField(); i++ {
		f := t.Field(i)
		ft := f.Type
		if ft.Kind() == reflect.Ptr {
			ft = ft.Elem()
		}
		if ft.Kind() == reflect.Struct && ft.PkgPath() != "time" {
			m.add(ft)
			if f.Anonymous && m.bad[ft] {
				m.bad[t] = true
			}
		} else if f.Anonymous && f.Type.NumMethod() > 0 {
			m.bad[t] = true // embedded interface or named non-struct type with methods
		}
	}
	return id
}

// covered: the type and everything it embeds (transitively) is modelled
func (m *c20ModelEnv) covered(t reflect.Type) bool {
	seen := map[reflect.Type]bool{}
	var walk func(t reflect.Type) bool
	walk = func(t reflect.Type) bool {
		if seen[t] {
			return true
		}
		seen[t] = true
		if m.bad[t] {
			return false
		}
		for i := 0; i < t.NumField(); i++ {
			f := t.Field(i)
			if !f.Anonymous {
				continue
			}
			ft := f.Type
			if ft.Kind() == reflect.Ptr {
				ft = ft.Elem()
			}
			if ft.Kind() == reflect.Struct {
				if !walk(ft) {
					return false
				}
			} else if f.Type.NumMethod() > 0 {
				return false
			}
		}
		return true
	}
	return walk(t)
}

func (m *c20ModelEnv) json() []any {
	out := make([]any, len(m.types))
	for id, t := range m.types {
		fields := make([]any, t.NumField())
		for i := 0; i < t.NumField(); i++ {
			f := t.Field(i)
			ty := "s"
			if f.Type.Kind() == reflect.Struct {
				if sid, ok := m.ids[f.Type]; ok {
					ty = fmt.Sprintf("S%d", sid)
				}
			} else if f.Type.Kind() == reflect.Ptr && f.Type.Elem().Kind() == reflect.Struct {
				if sid, ok := m.ids[f.Type.Elem()]; ok {
					ty = fmt.Sprintf("P%d", sid)
				}
			}
			fields[i] = []any{f.Name, f.IsExported(), f.Anonymous, ty}
		}
		methods := []any{}
		for _, d := range c20Decls[t] {
			exported := d.Name[0] >= 'A' && d.Name[0] <= 'Z'
			methods = append(methods, []any{d.Name, exported, d.Ptr, d.NumIn, d.Body})
		}
		out[id] = map[string]any{"name": t.String(), "fields": fields, "methods": methods}
	}
	return out
}

// valJSON describes a value for the model. `repr` strings come from the real toString (`{{ x }}`), which does
// not go through getAttribute.
func (m *c20ModelEnv) valJSON(g *c20Eng, v reflect.Value, depth int) any {
	if !v.IsValid() {
		return nil
	}
	repr := func() string {
		if v.CanInterface() {
			return g.print(v.Interface())
		}
		return "<unexported>"
	}
	if depth > 12 {
		return map[string]any{"k": "o", "r": repr()}
	}
	fieldsOf := func(sv reflect.Value) []any {
		fs := make([]any, sv.NumField())
		for i := range fs {
			fs[i] = m.valJSON(g, sv.Field(i), depth+1)
		}
		return fs
	}
	entries := func(mv reflect.Value) []any {
		var es []any
		for _, k := range mv.MapKeys() {
			es = append(es, []any{k.String(), m.valJSON(g, mv.MapIndex(k), depth+1)})
		}
		sort.Slice(es, func(i, j int) bool { return es[i].([]any)[0].(string) < es[j].([]any)[0].(string) })
		if es == nil {
			es = []any{}
		}
		return es
	}
	switch v.Kind() {
	case reflect.Interface:
		if v.IsNil() {
			return nil
		}
		return m.valJSON(g, v.Elem(), depth+1)
	case reflect.Struct:
		if id, ok := m.ids[v.Type()]; ok {
			return map[string]any{"k": "st", "id": id, "r": repr(), "f": fieldsOf(v)}
		}
		return map[string]any{"k": "o", "r": repr()}
	case reflect.Ptr:
		if v.Type().Elem().Kind() == reflect.Struct {
			if id, ok := m.ids[v.Type().Elem()]; ok {
				if v.IsNil() {
					return map[string]any{"k": "np", "id": id, "r": repr()}
				}
				return map[string]any{"k": "pt", "id": id, "r": repr(), "f": fieldsOf(v.Elem())}
			}
		}
		if v.Type().Elem().Kind() == reflect.Map && v.Type().Elem().Key().Kind() == reflect.String && !v.IsNil() {
			return map[string]any{"k": "pm", "r": repr(), "e": entries(v.Elem())}
		}
		return map[string]any{"k": "o", "r": repr()}
	case reflect.Map:
		if v.Type() == reflect.TypeOf(map[string]interface{}{}) {
			return map[string]any{"k": "sm", "e": entries(v)}
		}
		if v.Type().Key().Kind() == reflect.String {
			return map[string]any{"k": "tm", "r": repr(), "e": entries(v)}
		}
		return map[string]any{"k": "o", "r": repr()}
	case reflect.Int, reflect.Int64, reflect.String, reflect.Bool, reflect.Uint, reflect.Uint64:
		return map[string]any{"k": "s", "v": repr()}
	}
	return map[string]any{"k": "o", "r": repr()}
}

// ---- objects, lookups, checks -------------------------------------------------------------------------

type c20Obj struct {
	label    string
	val      any
	rt       reflect.Type // struct type after one pointer indirection, nil otherwise
	modelled bool
	spec     string
	vi       int // index into the model's vals of the current batch, -1 if none
}

type c20Step struct {
	obj  *c20Obj
	name string
	item bool
	got  string
}

type c20Run struct {
	e      *Env
	g      *c20Eng
	first  map[string]string // (label, name, item) → first output seen
	pairs  map[string]bool   // distinct (type, name) pairs sent through getAttribute on structs
	steps  []c20Step         // lookups of the current batch on modelled objects, in order
	lookup int
	extra  []string // more names whose cache entries the model computes for every type of a batch
}

func c20StructType(val any) reflect.Type {
	if val == nil {
		return nil
	}
	t := reflect.TypeOf(val)
	if t.Kind() == reflect.Ptr {
		t = t.Elem()
	}
	if t.Kind() == reflect.Struct {
		return t
	}
	return nil
}

// c20PanicOK: when Go's own call of the method panics (nil embedded pointer on the way to the receiver, nil
// receiver read), C20 does not say what Render must do: a panic escaping Render (today), an error, or an empty
// value are all accepted here; which one happens is a C05 matter and is counted in the distribution.
func c20PanicOK(got string) bool {
	return got == "<panic>" || got == "" || strings.HasPrefix(got, "<err:")
}

// check performs one lookup through the real engine and applies oracles (1) and (2).
func (c *c20Run) check(o *c20Obj, name string, item bool, phase string) bool {
	r := c.e.Rep
	if item && o.val != nil {
		if k := reflect.TypeOf(o.val).Kind(); k == reflect.Slice || k == reflect.Array {
			// getItem converts a non-numeric string index to 0 and returns element 0; sequences indexed by a name
			// are outside C20 (maps and structs) — recorded as an observation in the report, not checked here
			r.Skip("item-on-sequence-outside-C20")
			return true
		}
	}
	kind := byte('d')
	if item {
		kind = 'i'
	}
	got := c.g.render(kind, name, o.val)
	c.lookup++
	if o.rt != nil && !item {
		c.pairs[o.rt.String()+"\x00"+name] = true
	}
	want, class, note := c20Expect(o.val, name, item)
	wantStr := "<panic>"
	if class == "" {
		wantStr = c.g.print(want)
	}
	if note != "" {
		r.Note(o.label + "." + name + ": " + note)
	}
	syntax := "x." + name
	if item {
		syntax = "x['" + name + "']"
	}
	key := fmt.Sprintf("%s\x00%s\x00%v", o.label, name, item)
	nontrivial := wantStr != ""
	r.Seen(key, nontrivial)
	switch {
	case class == "panic":
		r.Hit("expect:method-panics")
	case wantStr == "":
		r.Hit("expect:empty")
	default:
		r.Hit("expect:value")
	}
	r.Hit("phase:" + phase)
	replay := func() map[string]any {
		return map[string]any{"kind": "lookup", "object": o.label, "go_type": fmt.Sprintf("%T", o.val), "layout": o.spec,
			"value": truncate(fmt.Sprintf("%+v", o.val), 300), "expr": syntax, "got": got, "want": wantStr, "phase": phase,
			"lookups_before": c.lookup - 1, "distinct_pairs_before": len(c.pairs)}
	}
	if class == "panic" {
		r.Hit("method-panics→" + strings.SplitN(got, ":", 2)[0])
	}
	if got != wantStr && !(class == "panic" && c20PanicOK(got)) {
		k := "attr-wrong-member"
		if item {
			k = "item-wrong-value"
		}
		if got == "<panic>" {
			k = "attr-panic"
		}
		if prev, ok := c.first[key]; ok && prev == wantStr {
			k = "attr-history-dependent"
		}
		if r.Violate(Violation{Key: k,
			What:   fmt.Sprintf("%s on %s renders %q, direct reflection gives %q (phase %s)", syntax, o.label, truncate(got, 60), truncate(wantStr, 60), phase),
			Broken: "theorem C20_attribute_right / C20_resolution_right no longer describes the code (implementation-only oracle 1)",
			Replay: replay()}) {
			return false
		}
	}
	if prev, ok := c.first[key]; ok {
		if prev != got {
			if r.Violate(Violation{Key: "attr-history-dependent",
				What:   fmt.Sprintf("%s on %s rendered %q earlier and %q now (phase %s)", syntax, o.label, truncate(prev, 60), truncate(got, 60), phase),
				Broken: "theorem C20_history_independent / C20_cache_transparent no longer describes the code (implementation-only oracle 2)",
				Replay: replay()}) {
				return false
			}
		}
	} else {
		c.first[key] = got
	}
	if o.modelled && o.vi >= 0 {
		c.steps = append(c.steps, c20Step{o, name, item, got})
	}
	return true
}

// modelBatch sends the batch's history to the Lean model and compares every step; also compares the model's
// method tables and cache entries with package reflect.
func (c *c20Run) modelBatch(env *c20ModelEnv, objs []*c20Obj, oracle map[string]any) error {
	e := c.e
	r := e.Rep
	if e.Model == nil || len(c.steps) == 0 {
		c.steps = c.steps[:0]
		return nil
	}
	envJSON := env.json()
	// (a) types: method tables and resolveCode vs reflect
	var qs []any
	type q struct {
		t    reflect.Type
		name string
	}
	var qlist []q
	names := append(c20AllNames(), "Name", "Pub", "Get", "GetN", "Two", "Nothing", "Add", "PAdd", "PGet", "V", "c20Inner", "c20Cyclic", "secret")
	names = append(names, c.extra...)
	for id, t := range env.types {
		if !env.covered(t) {
			continue
		}
		for _, n := range names {
			if len(qlist) < 4000 || e.Rng.Intn(4) == 0 {
				qs = append(qs, []any{id, n})
				qlist = append(qlist, q{t, n})
			}
		}
	}
	if d := os.Getenv("C20_DUMP"); d != "" {
		b1, _ := json.Marshal(map[string]any{"op": "attr_types", "env": envJSON, "qs": qs})
		os.WriteFile(d+"/types.json", append(b1, '\n'), 0o644)
	}
	resp, err := e.Model.Call(map[string]any{"op": "attr_types", "env": envJSON, "qs": qs})
	if err != nil {
		return err
	}
	sets, _ := resp["sets"].([]any)
	for id, t := range env.types {
		if !env.covered(t) || id >= len(sets) {
			continue
		}
		pair := sets[id].([]any)
		for k, rt := range []reflect.Type{t, reflect.PtrTo(t)} {
			var want []string
			for i := 0; i < rt.NumMethod(); i++ {
				want = append(want, rt.Method(i).Name)
			}
			var got []string
			for _, x := range pair[k].([]any) {
				got = append(got, x.(string))
			}
			r.Compared++
			if strings.Join(want, ",") != strings.Join(got, ",") {
				if r.Violate(Violation{Key: "model-method-set", What: fmt.Sprintf("method table of %v: reflect %v, model %v", rt, want, got),
					Broken: "correspondence methodSet (TwigModel.AttrCache) vs reflect method tables",
					Replay: map[string]any{"kind": "method-set", "type": rt.String(), "reflect": want, "model": got}}) {
					return nil
				}
			}
		}
	}
	resolved, _ := resp["resolved"].([]any)
	for i, qq := range qlist {
		if i >= len(resolved) {
			break
		}
		want := c20ReflectResolve(qq.t, qq.name)
		got := fmt.Sprint(resolved[i])
		r.Compared++
		if want != got {
			if r.Violate(Violation{Key: "model-resolve", What: fmt.Sprintf("entry for (%v, %s): reflect %s, model %s", qq.t, qq.name, want, got),
				Broken: "correspondence resolveCode (TwigModel.AttrCache) vs FieldByName/MethodByName of package reflect",
				Replay: map[string]any{"kind": "resolve", "type": qq.t.String(), "attr": qq.name, "reflect": want, "model": got}}) {
				return nil
			}
		}
	}
	// (b) the history
	vals := []any{}
	for _, o := range objs {
		if o.modelled && o.vi >= 0 {
			for len(vals) <= o.vi {
				vals = append(vals, nil)
			}
			vals[o.vi] = env.valJSON(c.g, reflect.ValueOf(o.val), 0)
		}
	}
	hist := make([]any, len(c.steps))
	for i, s := range c.steps {
		hist[i] = []any{s.obj.vi, s.name, s.item}
	}
	req := map[string]any{"op": "attr_run", "env": envJSON, "vals": vals, "hist": hist}
	if oracle != nil {
		req["oracle"] = oracle
	}
	if d := os.Getenv("C20_DUMP"); d != "" {
		b1, _ := json.Marshal(req)
		os.WriteFile(d+"/run.json", append(b1, '\n'), 0o644)
	}
	resp, err = e.Model.Call(req)
	if err != nil {
		return err
	}
	res, _ := resp["res"].([]any)
	if len(res) != len(c.steps) {
		return fmt.Errorf("attr_run: %d results for %d steps", len(res), len(c.steps))
	}
	for i, s := range c.steps {
		r.Compared++
		if res[i].(string) != s.got && !(res[i].(string) == "<panic>" && c20PanicOK(s.got)) {
			syntax := "x." + s.name
			if s.item {
				syntax = "x['" + s.name + "']"
			}
			if r.Violate(Violation{Key: "model-impl-differ",
				What:   fmt.Sprintf("step %d: %s on %s: implementation %q, model %q", i, syntax, s.obj.label, truncate(s.got, 60), truncate(res[i].(string), 60)),
				Broken: "correspondence getAttribute/getItem (TwigModel.AttrCache) vs render.go",
				Replay: map[string]any{"kind": "model-step", "step": i, "object": s.obj.label, "go_type": fmt.Sprintf("%T", s.obj.val), "layout": s.obj.spec,
					"value": truncate(fmt.Sprintf("%+v", s.obj.val), 300), "expr": syntax, "impl": s.got, "model": res[i],
					"model_value": vals[s.obj.vi], "oracle": oracle}}) {
				break
			}
		}
	}
	r.Hit(fmt.Sprintf("model:evictions>0=%v", resp["evictions"].(float64) > 0))
	r.Note(fmt.Sprintf("model batch: %d steps, %d types, hits %v misses %v evictions %v maxLen %v oracle %v",
		len(c.steps), len(env.types), resp["hits"], resp["misses"], resp["evictions"], resp["maxLen"], oracle))
	if resp["maxLen"].(float64) > 1000 {
		r.Violate(Violation{Key: "model-size", What: "model cache exceeded maxSize", Broken: "theorem C20_size_bounded (model run)",
			Replay: map[string]any{"kind": "size", "maxLen": resp["maxLen"]}})
	}
	c.steps = c.steps[:0]
	return nil
}

// c20ReflectResolve: what the miss path must store, computed from package reflect, in the model's print form
// [fieldIndex [path] isMethod methodIndex ptrMethod]
func c20ReflectResolve(t reflect.Type, name string) string {
	fi, path := -1, []int{}
	if f, ok := t.FieldByName(name); ok {
		fi, path = f.Index[0], f.Index
	}
	isM, mi, pm := false, -1, false
	if m, ok := t.MethodByName(name); ok && m.Type.NumIn() == 1 {
		isM, mi = true, m.Index
	} else if m, ok := reflect.PtrTo(t).MethodByName(name); ok && m.Type.NumIn() == 1 {
		isM, mi, pm = true, m.Index, true
	}
	ps := make([]any, len(path))
	for i, p := range path {
		ps[i] = float64(p)
	}
	return fmt.Sprint([]any{float64(fi), ps, isM, float64(mi), pm})
}

// ---- the run -------------------------------------------------------------------------------------------

type c20Reg struct {
	name string
	val  any
	expr string
	want string
}

func c20Regressions() []c20Reg {
	in := c20Inner{X: 1, Name: "in"}
	out := c20Outer{in, 2}
	deep := c20Deep{out, C20Pub{7, "q"}, "z"}
	return []c20Reg{
		{"promoted-field-1-level", out, "d:X", "1"},
		{"promoted-field-1-level-ptr", &out, "d:Name", "in"},
		{"promoted-field-2-levels", deep, "d:X", "1"},
		{"promoted-field-2-levels-name", deep, "d:Name", "in"},
		{"promoted-field-2-levels-ptr", &deep, "d:Y", "2"},
		{"promoted-through-embedded-pointer", c20OuterP{&c20Inner{X: 3, Name: "pin"}, 4}, "d:X", "3"},
		{"nil-embedded-pointer", c20OuterP{nil, 4}, "d:X", ""},
		{"nil-embedded-pointer-own-field", c20OuterP{nil, 4}, "d:Y", "4"},
		{"nil-embedded-pointer-2-levels", c20PtrChain{&c20OuterP{nil, 9}, "k"}, "d:Name", ""},
		{"pointer-method-on-value", in, "d:PHello", "c20Inner.PHello"},
		{"pointer-method-on-pointer", &in, "d:PHello", "c20Inner.PHello"},
		{"value-method-on-pointer", &in, "d:Hello", "in"},
		{"promoted-pointer-method-on-value", out, "d:PHello", "c20Inner.PHello"},
		{"method-with-argument", in, "d:Add", ""},
		{"unexported-field", in, "d:hid", ""},
		{"ambiguous-promoted-field", c20Amb{c20A1{1, 11}, c20A2{2, "u"}}, "d:V", ""},
		{"shadowing", c20Shadow{in, "outer"}, "d:Name", "outer"},
		{"map-missing-key", map[string]interface{}{"a": 1}, "d:zz", ""},
		{"map-missing-key-item", map[string]interface{}{"a": 1}, "i:zz", ""},
		{"map-key", map[string]interface{}{"a": 1}, "d:a", "1"},
		{"typed-map-dot", map[string]int{"a": 1}, "d:a", "1"},
		{"typed-map-item", map[string]int{"a": 1}, "i:a", "1"},
		{"typed-map-missing", map[string]int{"a": 1}, "d:zz", ""},
		{"int-keyed-map-dot", map[int]string{1: "one"}, "d:a", ""},
		{"nil-pointer", (*c20Outer)(nil), "d:X", ""},
	}
}

func runC20(e *Env) error {
	r := e.Rep
	r.Rule = "every `{{ x.NAME }}` and `{{ x['NAME'] }}` for NAME in a pool of 23 (+13 zoo) attribute names on (a) a zoo of 26 hand-written struct values " +
		"(value/pointer methods, promoted fields/methods through embedded structs and nil/non-nil embedded pointers, shadowing, ambiguity, methods with " +
		"arguments, interface fields, recursive type) and 15 maps/other kinds, (b) random reflect.StructOf types (1–5 fields, embedded structs/pointers to " +
		"depth 3, exported/unexported names, nested structs), each as value and as pointer; compared with direct reflection before, during (random order, " +
		"interleaved probes) and after flooding the process-wide cache with > 1000 (thorough > 5000) distinct (type, name) pairs; the same history is replayed " +
		"on the Lean model; then (c) chains of 0–14 embedded structs / pointers (index paths up to 15 steps, levels of up to 300 fields, shadowed and ambiguous " +
		"names, nil pointers at any level; replayed on the model down to 12 levels) and (d) a long history of > 9000 (thorough > 80000) distinct (type, name) " +
		"pairs that each find a field, with pairs of the recent past, the older past and a hot set read again in between; " +
		"(e) maps of 8 shapes whose keys look like numbers, booleans, nil, blanks or each other (every single key of a pool of 41, the pool minus every key, random subsets), " +
		"every name of the pool asked as x.N, x['N'] and through computed keys (context string, set variable, concatenation, loop variable) against the map read directly, " +
		"and the same contents with literal / integer / boolean / null / looped indices and nested maps through the Lean model. " +
		"(f) fields of ~50 Go types (builtin scalars, named types with and without String()/Error()/Format(), time.Duration, fs.FileMode, json.Number, named slices / maps / structs, " +
		"pointers, interface fields holding named values), each as a direct field and promoted through embedded structs / pointers, looked up three times in a row, again after a flood, " +
		"on two values, value and pointer; x.F compared with direct reflection and, in 22 type-sensitive expressions, with a variable bound to the field's value; random layouts of the pool; " +
		"(g) names that are a promoted field at one depth and a method at a shallower one (hand-written nil-guard family and reflect.StructOf types embedding a method carrier), every nil / non-nil " +
		"combination, before / during / after a flood, replayed on the Lean model. " +
		"non-trivial = expected output non-empty; distinct by (object, name, syntax)"
	c := &c20Run{e: e, g: c20NewEng(), first: map[string]string{}, pairs: map[string]bool{}}

	// 0. regression corpus (pinned-tree defects: promoted fields returned the embedded struct; typed maps)
	for _, rg := range c20Regressions() {
		got := c.g.render(rg.expr[0], rg.expr[2:], rg.val)
		r.Hit("regression")
		if got != rg.want {
			if r.Violate(Violation{Key: "regression:" + rg.name, What: fmt.Sprintf("regression %s: %s renders %q, want %q", rg.name, rg.expr, got, rg.want),
				Broken: "theorem C20_resolution_right no longer describes the code (regression corpus)",
				Replay: map[string]any{"kind": "regression", "name": rg.name, "go_type": fmt.Sprintf("%T", rg.val), "value": fmt.Sprintf("%+v", rg.val),
					"expr": rg.expr, "got": got, "want": rg.want}}) {
				return nil
			}
		}
	}

	names := c20AllNames()
	zooNames := append(append([]string{}, names...), "Name", "Pub", "Get", "GetN", "Two", "Nothing", "Add", "PAdd", "PGet", "V", "W", "U", "Q", "P", "K",
		"Z", "I", "J", "M", "L", "S", "T", "N", "c20Inner", "c20Outer", "c20lower", "C20Pub", "c20A1", "c20Cyclic", "secret", "error", "Error", "V2", "r")

	// the zoo: every value also behind a pointer
	mkZoo := func() []*c20Obj {
		var objs []*c20Obj
		for i, v := range c20ZooValues() {
			objs = append(objs, &c20Obj{label: fmt.Sprintf("zoo%d:%T", i, v), val: v, rt: c20StructType(v), vi: -1})
			p := reflect.New(reflect.TypeOf(v))
			p.Elem().Set(reflect.ValueOf(v))
			objs = append(objs, &c20Obj{label: fmt.Sprintf("zoo%d:*%T", i, v), val: p.Interface(), rt: c20StructType(v), vi: -1})
		}
		for i, v := range c20ZooMaps() {
			objs = append(objs, &c20Obj{label: fmt.Sprintf("zoomap%d:%T", i, v), val: v, vi: -1})
			if v != nil && reflect.TypeOf(v).Kind() == reflect.Map {
				p := reflect.New(reflect.TypeOf(v))
				p.Elem().Set(reflect.ValueOf(v))
				objs = append(objs, &c20Obj{label: fmt.Sprintf("zoomap%d:*%T", i, v), val: p.Interface(), vi: -1})
			}
		}
		return objs
	}
	zoo := mkZoo()
	r.Sample(map[string]any{"kind": "zoo", "objects": len(zoo), "names": len(zooNames)})

	batches := e.N(1, 20)
	perBatch := e.N(60, 100)
	var all []*c20Obj // generated objects of earlier batches (global floods)
	seenTypes := map[reflect.Type]bool{}
	gen := 0
	for b := 0; b < batches && !r.Full(); b++ {
		env := c20NewModelEnv()
		var objs []*c20Obj
		objs = append(objs, zoo...)
		for tries := 0; len(objs)-len(zoo) < 2*perBatch && tries < 50*perBatch; tries++ {
			sp := c20GenSpec(e.Rng, 3)
			t, refused := c20BuildType(sp)
			if t == nil {
				r.Skip("structof-refused:" + truncate(refused, 60))
				continue
			}
			if seenTypes[t] {
				r.Skip("duplicate-type")
				continue
			}
			seenTypes[t] = true
			p := reflect.New(t)
			c20Fill(p.Elem(), e.Rng, 0)
			gen++
			objs = append(objs, &c20Obj{label: fmt.Sprintf("gen%d", gen), val: p.Elem().Interface(), rt: t, spec: sp.String(), vi: -1},
				&c20Obj{label: fmt.Sprintf("gen%d:ptr", gen), val: p.Interface(), rt: t, spec: sp.String(), vi: -1})
			if gen <= 3 {
				r.Sample(map[string]any{"kind": "generated-type", "layout": sp.String(), "value": fmt.Sprintf("%+v", p.Elem().Interface())})
			}
		}
		// model coverage
		nv := 0
		for _, o := range objs {
			if o.rt != nil {
				env.add(o.rt)
			}
		}
		for _, o := range objs {
			o.modelled = o.rt == nil || env.covered(o.rt)
			if o.rt == nil && o.val != nil {
				if t := reflect.TypeOf(o.val); t.Kind() == reflect.Map && t.Key().Kind() == reflect.Interface {
					o.modelled = false // map[interface{}]…: getItem finds string keys, the model has no such map
				}
			}
			if !o.modelled {
				r.Skip("unmodelled-type:" + fmt.Sprintf("%T", o.val))
				o.vi = -1
				continue
			}
			o.vi = nv
			nv++
		}
		namesOf := func(o *c20Obj) []string {
			if strings.HasPrefix(o.label, "zoo") {
				return zooNames
			}
			return names
		}
		sweep := func(phase string) bool {
			for _, o := range objs {
				for _, n := range namesOf(o) {
					if !c.check(o, n, false, phase) || !c.check(o, n, true, phase) {
						return false
					}
				}
			}
			return true
		}
		// A. before
		if !sweep("before") {
			break
		}
		// B. flood in random order with interleaved probes of the zoo
		type pair struct {
			o *c20Obj
			n string
		}
		var pairs []pair
		for _, o := range objs {
			for _, n := range namesOf(o) {
				pairs = append(pairs, pair{o, n})
			}
		}
		floods := 1
		for f := 0; f < floods; f++ {
			e.Rng.Shuffle(len(pairs), func(i, j int) { pairs[i], pairs[j] = pairs[j], pairs[i] })
			for i, p := range pairs {
				if !c.check(p.o, p.n, false, "flood") {
					break
				}
				if i%37 == 0 {
					z := zoo[e.Rng.Intn(len(zoo))]
					if !c.check(z, zooNames[e.Rng.Intn(len(zooNames))], e.Rng.Intn(4) == 0, "interleaved") {
						break
					}
				}
			}
		}
		// C. after
		if !r.Full() && !sweep("after") {
			break
		}
		// D. ONE render that reads attributes and then looks up more distinct names than the cache holds before its
		// context is released; afterwards the same attributes are read again
		for k := 0; k < 4 && !r.Full(); k++ {
			o := zoo[e.Rng.Intn(len(zoo))]
			if o.rt == nil {
				continue
			}
			var sb strings.Builder
			used := 0
			for _, n := range namesOf(o) {
				if c20PlainName.MatchString(n) && used < 6 {
					sb.WriteString("{{ x." + n + " }}{{ x." + n + " }}")
					used++
				}
			}
			for i := 0; i < 1150; i++ {
				fmt.Fprintf(&sb, "{{ x.ZzFlood%dx%dx%d }}", b, k, i)
			}
			src := sb.String()
			guarded(func() (string, error) {
				eng := twig.New()
				if err := eng.RegisterString("flood", src); err != nil {
					return "", err
				}
				return eng.Render("flood", map[string]interface{}{"x": o.val})
			})
			r.Hit("flood-inside-one-render")
			for _, n := range namesOf(o) {
				if !c.check(o, n, false, "after-render-flood") || !c.check(o, n, true, "after-render-flood") {
					break
				}
			}
		}
		// E. the FIRST lookups of fresh (type, name) pairs made by several goroutines at once: each gets the member, not a
		// half-built cache entry (types are generated, so every batch has pairs no lookup has touched yet)
		{
			fresh := 0
			for tries := 0; fresh < 6 && tries < 200; tries++ {
				sp := c20GenSpec(e.Rng, 2)
				t, _ := c20BuildType(sp)
				if t == nil || seenTypes[t] || t.NumField() == 0 {
					continue
				}
				seenTypes[t] = true
				fresh++
				p := reflect.New(t)
				c20Fill(p.Elem(), e.Rng, 0)
				o := &c20Obj{label: fmt.Sprintf("cold%d.%d", b, fresh), val: p.Elem().Interface(), rt: t, spec: sp.String(), vi: -1}
				var fieldNames []string
				for i := 0; i < t.NumField() && len(fieldNames) < 4; i++ {
					if f := t.Field(i); f.IsExported() && !f.Anonymous && c20PlainName.MatchString(f.Name) {
						fieldNames = append(fieldNames, f.Name)
					}
				}
				if len(fieldNames) == 0 {
					continue
				}
				var tpl strings.Builder
				for _, n := range fieldNames {
					tpl.WriteString("{{ x." + n + " }}\x1e")
				}
				eng := twig.New()
				if err := eng.RegisterString("t", tpl.String()); err != nil {
					continue
				}
				outs := make([]string, 8)
				c02Barrier(len(outs), func(g int) {
					defer func() {
						if pn := recover(); pn != nil {
							outs[g] = fmt.Sprintf("<panic %v>", pn)
						}
					}()
					out, err := eng.Render("t", map[string]interface{}{"x": o.val})
					if err != nil {
						out = "<error " + err.Error() + ">"
					}
					outs[g] = out
				})
				// the serial answer, now that the cache is warm, checked against reflection by the ordinary probe
				ref, _ := eng.Render("t", map[string]interface{}{"x": o.val})
				r.Hit("concurrent-first-lookups")
				for g, out := range outs {
					if out != ref {
						r.Violate(Violation{Key: "attr-history-dependent", What: fmt.Sprintf("8 goroutines read %v of a fresh struct type at once: goroutine %d got %q, a later serial render gives %q", fieldNames, g, truncate(out, 120), truncate(ref, 120)),
							Broken: "theorem C20_lookup_independent_of_history (first lookups in parallel; implementation-only oracle)",
							Replay: map[string]any{"kind": "cold-attr", "layout": sp.String(), "fields": fieldNames, "got": out, "want": ref}})
						break
					}
				}
				for _, n := range fieldNames {
					if !c.check(o, n, false, "after-concurrent-first") {
						break
					}
				}
			}
		}
		// E'. the same with wide types (100 string fields read by one template, 12 goroutines): a long run of first lookups
		for round := 0; round < 12 && !r.Full(); round++ {
			fields := make([]reflect.StructField, 100)
			for i := range fields {
				fields[i] = reflect.StructField{Name: fmt.Sprintf("W%dx%dx%dF%03d", e.Seed, b, round, i), Type: reflect.TypeOf("")}
			}
			v := reflect.New(reflect.StructOf(fields)).Elem()
			var tpl, want strings.Builder
			for i := range fields {
				v.Field(i).SetString(fmt.Sprintf("v%03d", i))
				tpl.WriteString("{{ x." + fields[i].Name + " }},")
				want.WriteString(fmt.Sprintf("v%03d,", i))
			}
			eng := twig.New()
			if err := eng.RegisterString("t", tpl.String()); err != nil {
				break
			}
			var x interface{} = v.Interface()
			if round%2 == 1 {
				x = v.Addr().Interface()
			}
			outs := make([]string, 12)
			c02Barrier(len(outs), func(g int) {
				defer func() {
					if pn := recover(); pn != nil {
						outs[g] = fmt.Sprintf("<panic %v>", pn)
					}
				}()
				out, err := eng.Render("t", map[string]interface{}{"x": x})
				if err != nil {
					out = "<error " + err.Error() + ">"
				}
				outs[g] = out
			})
			r.Hit("concurrent-first-lookups-wide")
			r.Seen(fmt.Sprintf("cold-wide:%d:%d", b, round), true)
			for g, out := range outs {
				if out != want.String() {
					k := firstDiff(out, want.String())
					r.Violate(Violation{Key: "attr-history-dependent", What: fmt.Sprintf("12 goroutines read the 100 fields of a fresh struct type at once: goroutine %d got …%q… where …%q… is right (offset %d)", g, truncate(out[min(k, len(out)):], 24), truncate(want.String()[min(k, want.Len()):], 24), k),
						Broken: "theorem C20_lookup_independent_of_history (first lookups in parallel; implementation-only oracle against the field values)",
						Replay: map[string]any{"kind": "cold-attr-wide", "round": round, "goroutine": g, "got": truncate(out, 400), "want": truncate(want.String(), 400)}})
					break
				}
			}
		}
		// model replay of this batch's history, with a random eviction oracle
		oracles := []map[string]any{nil, {"kind": "oldest", "k": 100}, {"kind": "newest", "k": 1 + e.Rng.Intn(200)},
			{"kind": "mod", "k": 1 + e.Rng.Intn(9)}, {"kind": "all", "k": 0}}
		if err := c.modelBatch(env, objs, oracles[(b+int(e.Seed))%len(oracles)]); err != nil {
			return err
		}
		// thorough: global floods over everything generated so far, every second batch
		all = append(all, objs[len(zoo):]...)
		if e.Thorough() && b%2 == 1 && !r.Full() {
			for i := 0; i < 6000 && !r.Full(); i++ {
				o := all[e.Rng.Intn(len(all))]
				o.vi = -1 // earlier batches are not part of a model history any more
				o.modelled = false
				if !c.check(o, names[e.Rng.Intn(len(names))], false, "global-flood") {
					break
				}
			}
		}
		for _, o := range zoo {
			o.vi = -1
		}
	}
	if !r.Full() {
		t0 := time.Now()
		if err := c20MapKeys(c); err != nil {
			return err
		}
		r.Note(fmt.Sprintf("map contents × keys (part e): %.1fs", time.Since(t0).Seconds()))
	}
	if !r.Full() {
		if err := c20DeepAndLong(c); err != nil {
			return err
		}
	}
	c20ReceiverResults(e)
	c20HashCollisions(e)
	// (I) field types, (J) field-and-method names: last, so that the random stream of the parts above stays what it was
	tNamed := time.Now()
	if !r.Full() {
		c20NamedFields(c)
	}
	if !r.Full() {
		if err := c20FieldMethodNames(c); err != nil {
			return err
		}
	}
	r.Note(fmt.Sprintf("field types and field/method names (parts f, g): %.1fs", time.Since(tNamed).Seconds()))
	r.Note(fmt.Sprintf("%d lookups, %d distinct (struct type, name) pairs through the cache (maxSize 1000), %d generated types", c.lookup, len(c.pairs), gen))
	if len(c.pairs) <= 1000 {
		r.Violate(Violation{Key: "harness-weak", What: "fewer than 1001 distinct pairs: eviction never ran", Broken: "C20 harness coverage",
			Replay: map[string]any{"pairs": len(c.pairs)}})
	}
	return nil
}

// Results that point INTO the receiver of a pointer-receiver method called on a struct value (the engine calls such a
// method on an addressable copy): a result kept in a variable must keep showing ITS value's data after the same method
// was looked up on other values of the type (seeded change C20-G: one receiver copy per render context).
type c20Stats struct {
	Population int
	Mayor      string
	Tags       []string
}
type c20City struct {
	Name  string
	stats c20Stats
	arr   [3]int
}

func (c *c20City) Stats() *c20Stats { return &c.stats }
func (c *c20City) Nums() []int      { return c.arr[:] }
func (c *c20City) Self() *c20City   { return c }
func (c c20City) Label() string     { return "city " + c.Name }

func c20ReceiverResults(e *Env) {
	r := e.Rep
	data := map[string]interface{}{
		"paris": c20City{Name: "Paris", stats: c20Stats{2100000, "Anne", []string{"fr"}}, arr: [3]int{1, 2, 3}},
		"rome":  c20City{Name: "Rome", stats: c20Stats{2800000, "Roberto", []string{"it"}}, arr: [3]int{7, 8, 9}},
		"oslo":  &c20City{Name: "Oslo", stats: c20Stats{700000, "Anne-L", []string{"no"}}, arr: [3]int{4, 5, 6}},
	}
	cases := []struct{ src, want string }{
		{"{% set p = paris.Stats %}{{ p.Population }},{{ p.Mayor }}|{{ rome.Stats.Population }},{{ rome.Name }}|{{ p.Population }},{{ p.Mayor }}|{{ oslo.Stats.Mayor }}|{{ p.Mayor }}", "2100000,Anne|2800000,Rome|2100000,Anne|Anne-L|Anne"},
		{"{% set a = paris.Nums %}{% set b = rome.Nums %}{% set c = oslo.Nums %}{{ a|join(',') }}|{{ b|join(',') }}|{{ c|join(',') }}|{{ a|join(',') }}", "1,2,3|7,8,9|4,5,6|1,2,3"},
		{"{% set s = paris.Self %}{{ rome.Self.Name }}{{ oslo.Self.Name }}|{{ s.Name }}|{{ s.Stats.Mayor }}|{{ rome.Label }}|{{ s.Label }}", "RomeOslo|Paris|Anne|city Rome|city Paris"},
		{"{% for c in [paris, rome, oslo] %}{% set st = c.Stats %}{% for d in [rome, oslo, paris] %}{{ d.Stats.Population > 0 ? '' : 'x' }}{% endfor %}{{ st.Mayor }};{% endfor %}", "Anne;Roberto;Anne-L;"},
		{"{% set t = paris.Stats.Tags %}{{ rome.Stats.Tags|first }}{{ t|first }}{{ oslo.Stats.Tags|first }}{{ t|first }}", "itfrnofr"},
	}
	for i, c := range cases {
		for rep := 0; rep < 3; rep++ {
			res := renderSrc(c.src, data)
			r.Seen(fmt.Sprintf("receiver-result:%d:%d", i, rep), true)
			r.Hit("receiver-results")
			if res.Class != "" || res.Out != c.want {
				r.Violate(Violation{Key: "attr-history-dependent", What: fmt.Sprintf("%s renders %q (%s), expected %q: a value obtained from one object changed when the same attribute was looked up on another", c.src, res.Out, res.Class, c.want),
					Broken: "theorem C20_lookup_independent_of_history (implementation-only oracle: results of pointer-receiver methods on values)",
					Replay: map[string]any{"kind": "src", "src": c.src, "want": c.want, "got": res.Out, "class": res.Class}})
				break
			}
		}
	}
}

// Attribute names that collide under common 32-bit string hashes (FNV-1, FNV-1a, CRC-32, Adler-32, the 31- and
// 33-multiplier polynomial hashes, sdbm): a lookup is by name, never by a digest of the name (seeded change C20-I).
// The pairs are searched once per run among generated identifiers.
func c20HashCollisions(e *Env) {
	r := e.Rep
	hashes, names := collisionHashes(), collisionNames()
	for _, hname := range sortedKeys(hashes) {
		h := hashes[hname]
		seen := map[uint32]string{}
		var pairs [][2]string
		for _, n := range names {
			k := h(n)
			if o, ok := seen[k]; ok && o != n {
				pairs = append(pairs, [2]string{o, n})
				if len(pairs) >= 4 {
					break
				}
			} else {
				seen[k] = n
			}
		}
		r.Hit(fmt.Sprintf("hash-collision-pairs:%s:%d", hname, len(pairs)))
		for pi, pr := range pairs {
			for _, order := range [][2]int{{0, 1}, {1, 0}} {
				// a fresh type per order: the first lookup decides what a digest-keyed table remembers
				fields := []reflect.StructField{{Name: pr[0], Type: reflect.TypeOf("")}, {Name: pr[1], Type: reflect.TypeOf("")}, {Name: fmt.Sprintf("Pad%s%d%d", hname, pi, order[0]), Type: reflect.TypeOf(0)}}
				v := reflect.New(reflect.StructOf(fields)).Elem()
				v.Field(0).SetString("value-of-" + pr[0])
				v.Field(1).SetString("value-of-" + pr[1])
				a, b := pr[order[0]], pr[order[1]]
				src := "{{ x." + a + " }}|{{ x." + b + " }}|{{ x." + a + " }}|{% for i in [1, 2] %}{{ x." + b + " }}{% endfor %}"
				want := "value-of-" + a + "|value-of-" + b + "|value-of-" + a + "|value-of-" + b + "value-of-" + b
				for _, x := range []interface{}{v.Interface(), v.Addr().Interface()} {
					res := renderSrc(src, map[string]any{"x": x})
					r.Seen(fmt.Sprintf("collision:%s:%d:%v:%T", hname, pi, order, x), true)
					if res.Class != "" || res.Out != want {
						r.Violate(Violation{Key: "attr-wrong-member", What: fmt.Sprintf("field names %q and %q (equal under the %s hash) on one struct: %s renders %q (%s), expected %q", pr[0], pr[1], hname, src, res.Out, res.Class, want),
							Broken: "theorem C20_attribute_right (the key of a lookup is the name itself; implementation-only oracle)", Replay: map[string]any{"kind": "src", "src": src, "fields": pr, "hash": hname, "got": res.Out, "want": want}})
						return
					}
				}
			}
		}
	}
}

func collisionHashes() map[string]func(string) uint32 {
	return map[string]func(string) uint32{
		"fnv1a": func(s string) uint32 { h := fnv.New32a(); h.Write([]byte(s)); return h.Sum32() },
		"fnv1":  func(s string) uint32 { h := fnv.New32(); h.Write([]byte(s)); return h.Sum32() },
		"crc32": func(s string) uint32 { return crc32.ChecksumIEEE([]byte(s)) },
		"adler": func(s string) uint32 { return adler32.Checksum([]byte(s)) },
		"poly31": func(s string) uint32 {
			var h uint32
			for i := 0; i < len(s); i++ {
				h = h*31 + uint32(s[i])
			}
			return h
		},
		"djb2": func(s string) uint32 {
			h := uint32(5381)
			for i := 0; i < len(s); i++ {
				h = h*33 + uint32(s[i])
			}
			return h
		},
		"sdbm": func(s string) uint32 {
			var h uint32
			for i := 0; i < len(s); i++ {
				h = uint32(s[i]) + (h << 6) + (h << 16) - h
			}
			return h
		},
	}
}

var collisionNamesCache []string

func collisionNames() []string {
	if collisionNamesCache != nil {
		return collisionNamesCache
	}
	const alphabet = "ABCDEFGHIJKLMNOPQRSTUVWXYZabcdefghijklmnopqrstuvwxyz0123456789"
	rng := rand.New(rand.NewSource(20)) // the same names on every run: the pairs depend on the hash functions only
	names := make([]string, 0, 1200000)
	for len(names) < 1200000 {
		n := 3 + rng.Intn(6)
		bs := make([]byte, n+1)
		bs[0] = "ABCDEFGHIJKLMNOPQRSTUVWXYZ"[rng.Intn(26)]
		for k := 1; k <= n; k++ {
			bs[k] = alphabet[rng.Intn(len(alphabet))]
		}
		names = append(names, string(bs))
	}
	collisionNamesCache = names
	return names
}

// collisionPairs: up to k pairs of names per hash function that the function maps to the same value
func collisionPairs(k int) map[string][][2]string {
	out := map[string][][2]string{}
	hashes, names := collisionHashes(), collisionNames()
	for hname, h := range hashes {
		seen := map[uint32]string{}
		for _, n := range names {
			d := h(n)
			if o, ok := seen[d]; ok && o != n {
				out[hname] = append(out[hname], [2]string{o, n})
				if len(out[hname]) >= k {
					break
				}
			} else {
				seen[d] = n
			}
		}
	}
	return out
}
