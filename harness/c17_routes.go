package main

import (
	"bufio"
	"bytes"
	"fmt"
	"io"
	"net/http/httptest"
	"os"
	"strings"

	"github.com/semihalev/twig"
)

// C17, routes — "the top-level render call returns a non-nil error": the library has four top-level render calls
// (Engine.Render, Engine.RenderTo, Template.Render, Template.RenderTo; the engine-level ones also in debug mode, where
// they go through DebugRender and wrap the error once more), and the RenderTo calls take ANY io.Writer. Which call is
// used and what kind of writer receives the output must not decide whether a failure surfaces: the engine treats some
// writer types specially (its own buffers, io.StringWriter, everything else through a pooled copy), so every kind of
// writer is a path of its own.
//
// A renderRoute is one (entry point, debug?, writer kind). Case.Route sends runImpl through it. On success the route
// returns what arrived in the writer; on an error it returns "" (what a failed RenderTo leaves in the writer is not
// part of the property). The expectation never comes from the route itself: it is the outcome of the same case through
// Engine.Render (which the model and the statement of C17 decide), or the statement of C17 alone (a failure that was
// made must surface with its cause).

type sinkKind struct {
	name string
	// open returns the writer and a function that completes the writing (flush, close) and returns what arrived
	open func() (io.Writer, func() string)
}

// plainSink has nothing but Write: what a socket or a hand-written sink looks like to the engine.
type plainSink struct{ data []byte }

func (s *plainSink) Write(p []byte) (int, error) { s.data = append(s.data, p...); return len(p), nil }

// stringSink is an io.StringWriter that is none of the library's known buffer types.
type stringSink struct{ plainSink }

func (s *stringSink) WriteString(p string) (int, error) {
	s.data = append(s.data, p...)
	return len(p), nil
}

// byteSink also has WriteByte and ReadFrom (what bufio and io.Copy look for).
type byteSink struct{ stringSink }

func (s *byteSink) WriteByte(b byte) error { s.data = append(s.data, b); return nil }
func (s *byteSink) ReadFrom(r io.Reader) (int64, error) {
	b, err := io.ReadAll(r)
	s.data = append(s.data, b...)
	return int64(len(b)), err
}

// embeddedBuffer is a named type around a bytes.Buffer: the methods of the buffer, not its type.
type embeddedBuffer struct{ *bytes.Buffer }

var sinkKinds = []sinkKind{
	{"plain-writer", func() (io.Writer, func() string) {
		s := &plainSink{}
		return s, func() string { return string(s.data) }
	}},
	{"string-writer", func() (io.Writer, func() string) {
		s := &stringSink{}
		return s, func() string { return string(s.data) }
	}},
	{"byte-writer-reader-from", func() (io.Writer, func() string) {
		s := &byteSink{}
		return s, func() string { return string(s.data) }
	}},
	{"bytes.Buffer", func() (io.Writer, func() string) {
		b := &bytes.Buffer{}
		return b, b.String
	}},
	{"strings.Builder", func() (io.Writer, func() string) {
		b := &strings.Builder{}
		return b, b.String
	}},
	{"twig.Buffer", func() (io.Writer, func() string) {
		b := twig.GetBuffer()
		return b, func() string { s := b.String(); b.Release(); return s }
	}},
	{"twig.StringBuffer", func() (io.Writer, func() string) {
		b := twig.NewStringBuffer()
		return b, func() string { s := b.String(); b.Release(); return s }
	}},
	{"embedded-bytes.Buffer", func() (io.Writer, func() string) {
		b := embeddedBuffer{&bytes.Buffer{}}
		return b, b.String
	}},
	{"bufio.Writer", func() (io.Writer, func() string) {
		s := &plainSink{}
		w := bufio.NewWriterSize(s, 16)
		return w, func() string { w.Flush(); return string(s.data) }
	}},
	{"io.MultiWriter", func() (io.Writer, func() string) {
		a, b := &plainSink{}, &bytes.Buffer{}
		return io.MultiWriter(a, b), func() string {
			if string(a.data) != b.String() {
				return "MULTIWRITER-HALVES-DIFFER:" + string(a.data) + "|" + b.String()
			}
			return string(a.data)
		}
	}},
	{"os.File", func() (io.Writer, func() string) {
		f, err := os.CreateTemp("", "c17-sink-*")
		if err != nil {
			s := &plainSink{}
			return s, func() string { return string(s.data) }
		}
		return f, func() string {
			f.Close()
			b, _ := os.ReadFile(f.Name())
			os.Remove(f.Name())
			return string(b)
		}
	}},
	{"io.Pipe", func() (io.Writer, func() string) {
		pr, pw := io.Pipe()
		got := make(chan string, 1)
		go func() { b, _ := io.ReadAll(pr); got <- string(b) }()
		return pw, func() string { pw.Close(); return <-got }
	}},
	{"http.ResponseWriter", func() (io.Writer, func() string) {
		rec := httptest.NewRecorder()
		return rec, func() string { return rec.Body.String() }
	}},
}

type renderRoute struct {
	name  string
	entry string // Engine.Render | Template.Render | Engine.RenderTo | Template.RenderTo
	debug bool   // the engine is in debug mode (Engine.SetDebug): the engine-level calls go through DebugRender
	sink  *sinkKind
}

func (rt *renderRoute) render(e *twig.Engine, name string, ctx map[string]interface{}) (string, error) {
	if rt.debug {
		twig.SetDebugWriter(io.Discard)
		e.SetDebug(true)
		defer func() {
			twig.SetDebugLevel(twig.DebugOff)
			twig.SetDebugWriter(os.Stderr)
		}()
	}
	switch rt.entry {
	case "Engine.Render":
		return e.Render(name, ctx)
	case "Template.Render":
		t, err := e.Load(name)
		if err != nil {
			return "", err
		}
		return t.Render(ctx)
	}
	w, done := rt.sink.open()
	var err error
	if rt.entry == "Engine.RenderTo" {
		err = e.RenderTo(w, name, ctx)
	} else {
		var t *twig.Template
		if t, err = e.Load(name); err == nil {
			err = t.RenderTo(w, ctx)
		}
	}
	got := done()
	if err != nil {
		return "", err
	}
	return got, nil
}

// renderRoutes: every entry point × every writer kind, the engine-level entry points also in debug mode.
var renderRoutes = func() []*renderRoute {
	rs := []*renderRoute{
		{name: "Engine.Render", entry: "Engine.Render"},
		{name: "Template.Render", entry: "Template.Render"},
		{name: "Engine.Render/debug", entry: "Engine.Render", debug: true},
	}
	for i := range sinkKinds {
		s := &sinkKinds[i]
		rs = append(rs,
			&renderRoute{name: "Engine.RenderTo(" + s.name + ")", entry: "Engine.RenderTo", sink: s},
			&renderRoute{name: "Template.RenderTo(" + s.name + ")", entry: "Template.RenderTo", sink: s},
			&renderRoute{name: "Engine.RenderTo(" + s.name + ")/debug", entry: "Engine.RenderTo", debug: true, sink: s})
	}
	return rs
}()

func routeByName(name string) *renderRoute {
	for _, rt := range renderRoutes {
		if rt.name == name {
			return rt
		}
	}
	return nil
}

func routeName(rt *renderRoute) string {
	if rt == nil {
		return "Engine.Render"
	}
	return rt.name
}

var routeTick int

// nextRoute walks the routes other than plain Engine.Render, one per call.
func nextRoute() *renderRoute {
	routeTick++
	return renderRoutes[1+routeTick%(len(renderRoutes)-1)]
}

// routeOracle renders the case through each of the given routes and compares with `ref`, the outcome of the same case
// through Engine.Render (already checked against the model / the statement of C17 by the caller):
//   - ref failed: the route fails too, with the same class and the same sentinel (errors.As), and hands back nothing;
//   - ref succeeded: the route succeeds and the writer received exactly ref's output.
//
// It returns true when the report is full.
func routeOracle(e *Env, c *Case, ref Outcome, routes []*renderRoute, what string) bool {
	r := e.Rep
	if ref.Class == "panic" || ref.Class == "timeout" {
		return false
	}
	for _, rt := range routes {
		cr := *c
		cr.Route = rt
		cr.Prime = ""
		im := runImpl(&cr)
		r.Hit("route:" + rt.entry)
		r.Seen(fmt.Sprintf("route:%s:%s:%d:%s", rt.name, what, c.FailAt, c.Templates[c.Main]), ref.Class != "")
		switch {
		case ref.Class != "" && (im.Class == "" || im.Out != ""):
			if r.Violate(Violation{Key: "failure-swallowed-by-entry-point", What: fmt.Sprintf("%s: Engine.Render fails (%s: %s) but the same render through %s returns a nil error and the output %q — the failure was replaced by partial output",
				what, ref.Class, truncate(ref.Msg, 120), rt.name, truncate(im.Out, 80)),
				Broken: "theorem C17_propagates / C17_unresolved: the top-level render call returns the error (implementation-only oracle: every top-level entry point and writer kind)", Replay: cr.replay(im, Outcome{})}) {
				return true
			}
		case ref.Class != "" && (im.Class != ref.Class || !sameInts(im.Causes, ref.Causes)):
			if r.Violate(Violation{Key: "cause-lost-by-entry-point", What: fmt.Sprintf("%s: Engine.Render fails with class %q causes %v, the same render through %s with class %q causes %v (%s) — the cause is no longer reachable",
				what, ref.Class, ref.Causes, rt.name, im.Class, im.Causes, truncate(im.Msg, 160)),
				Broken: "theorem C17_propagates: the cause stays reachable with errors.Is/As (implementation-only oracle: every top-level entry point and writer kind)", Replay: cr.replay(im, Outcome{})}) {
				return true
			}
		case ref.Class == "" && (im.Class != "" || im.Out != ref.Out):
			if r.Violate(Violation{Key: "entry-point-changes-outcome", What: fmt.Sprintf("%s: Engine.Render returns %q, the same render through %s returns %q, class %q %s",
				what, truncate(ref.Out, 80), rt.name, truncate(im.Out, 80), im.Class, truncate(im.Msg, 120)),
				Broken: "theorem C17_tolerances / correspondence render-model-c17 (implementation-only oracle: every top-level entry point and writer kind)", Replay: cr.replay(im, Outcome{})}) {
				return true
			}
		}
	}
	return false
}
