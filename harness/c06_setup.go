package main

import (
	"fmt"
	"strings"

	"github.com/semihalev/twig"
)

// C06 — engine set-up dimension.
//
// The property quantifies over every policy and configuration of the engine that renders the page: the confinement
// of `include … sandboxed` may depend on the policy the engine holds and on nothing else. The runner's base cases all
// build the engine the same way (EnableSandbox first, every template through RegisterString, one Engine.Render). Here
// the SAME case is rendered on engines that were set up differently:
//
//   - provenance: how the templates below the page reached the engine — RegisterString, a loader, a *Template built
//     by the engine itself (ParseTemplate / NewTemplate) or by ANOTHER engine (one without a policy, or one with a
//     policy that allows everything) and handed over with RegisterTemplate, a compiled template (RegisterCompiledTemplate,
//     LoadFromCompiledData);
//   - scope: which templates come that way — every template but the page, only the target of the sandboxed include,
//     or only the templates reached below it (its includes, parents, libraries);
//   - life: the sequence of engine calls around the installation of the policy — EnableSandbox before or after the
//     templates are registered, DisableSandbox before / after / between renders, a permissive policy replaced by the
//     strict one, renders in between (every render made while the strict policy is the engine's policy is checked);
//   - config: cache off, development mode, auto-reload;
//   - api: Engine.Render, Engine.RenderTo, Load + Template.Render / RenderTo.
//
// Expected value: the outcome of the base case (runImpl), which compareCase has just checked against the Lean model —
// same error class, same output, same callback invocations. If a callback the policy forbids ran, or the base case
// ends in a security violation and this one does not, the violation is a sandbox escape.

type c06Setup struct {
	Prov   string
	Scope  string
	Life   string
	Config string
	API    string
	Shape  string // how the policy value expresses the allowed set (c06_policy.go); "" = true entries only
}

var c06Provs = []string{"string", "loader", "own-parse", "own-new", "compiled", "compiled-data",
	"foreign-parse", "foreign-parse/helper-allows-all", "foreign-new", "foreign-load", "foreign-load/helper-allows-all"}
var c06Scopes = []string{"all-but-page", "sandboxed-target-only", "below-target-only"}

// c06ScopePageToo: the page (the entry template) itself was built by the other engine as well. On the unchanged tree
// Engine.Render then runs the whole render in the environment of the engine that BUILT the page (Template.Render uses
// the template's own env/engine): its loaders, its callbacks and its policy, not the rendering engine's. Whose policy
// "the engine's policy" is in that situation is not settled by the property text, so this scope is exercised (it must
// not panic or hang) but its outcome is only recorded, not judged.
const c06ScopePageToo = "page-too(recorded-only)"

// E = EnableSandbox(policy of the case), A = EnableSandbox(a policy that allows everything), D = DisableSandbox,
// T = configure the engine and register the templates, R = render the page
var c06Lives = []string{"E T R", "T E R", "E T D R", "D E T R", "E D T R", "E D E T R", "A T E R", "E T R D R", "A T R E R", "E T D R E R", "A D T E D R", "E T R R"}
var c06Configs = []string{"", "cache-off", "dev", "auto-reload"}
var c06APIs = []string{"Render", "RenderTo", "Load+Template.Render", "Load+Template.RenderTo"}

func (s c06Setup) String() string {
	shape := s.Shape
	if shape == "" {
		shape = c06BaseShape
	}
	return fmt.Sprintf("templates(%s) via %s; engine calls %q; config %q; rendered with %s; policy shape %s", s.Scope, s.Prov, s.Life, s.Config, s.API, shape)
}

// c06RunSetup renders the case on an engine set up as s says. It returns the outcome of every render made while the
// case's policy was the engine's policy.
func c06RunSetup(c *Case, s c06Setup) []Outcome {
	var outs []Outcome
	var spies []Ev
	addSpies := func(e *twig.Engine) {
		for _, f := range c.SpyFilters {
			name := f
			e.AddFilter(name, func(v interface{}, args ...interface{}) (interface{}, error) {
				spies = append(spies, Ev{"filter", name})
				return v, nil
			})
		}
		for _, f := range c.SpyFunctions {
			name := f
			e.AddFunction(name, func(args ...interface{}) (interface{}, error) {
				spies = append(spies, Ev{"function", name})
				return name, nil
			})
		}
		for _, f := range c.SpyTests {
			name := f
			e.AddTest(name, func(v interface{}, args ...interface{}) (bool, error) {
				spies = append(spies, Ev{"test", name})
				return true, nil
			})
		}
	}
	shaped := c06MakePolicy(s.Shape, c.Policy.Filters, c.Policy.Functions, c06Universe(c.Templates, c.SpyFilters, c.SpyFunctions))
	strict := shaped.Policy
	registered := false
	allowAll := &c06DenyPolicy{}
	target := "box"
	inScope := func(name string) bool {
		switch {
		case s.Scope == c06ScopePageToo:
			return true
		case name == c.Main:
			return false
		case s.Scope == "sandboxed-target-only":
			return name == target
		case s.Scope == "below-target-only":
			return name != target
		}
		return true
	}
	parseErr := func(err error) error { return fmt.Errorf("parsing error: %w", err) }

	var eng *twig.Engine
	register := func() error {
		switch s.Config {
		case "cache-off":
			eng.SetCache(false)
		case "dev":
			eng.SetDevelopmentMode(true)
		case "auto-reload":
			eng.SetAutoReload(true)
		}
		var helper *twig.Engine
		if strings.HasPrefix(s.Prov, "foreign") || strings.HasPrefix(s.Prov, "compiled") {
			helper = twig.New()
			addSpies(helper)
			if strings.HasSuffix(s.Prov, "/helper-allows-all") {
				helper.EnableSandbox(allowAll)
			}
		}
		prov := strings.TrimSuffix(s.Prov, "/helper-allows-all")
		loaded := map[string]string{}
		for _, n := range sortedKeys(c.Templates) {
			src := c.Templates[n]
			how := "string"
			if inScope(n) {
				how = prov
			}
			switch how {
			case "string":
				if err := eng.RegisterString(n, src); err != nil {
					return parseErr(err)
				}
			case "loader":
				loaded[n] = src
			case "own-parse", "foreign-parse":
				from := eng
				if how == "foreign-parse" {
					from = helper
				}
				t, err := from.ParseTemplate(src)
				if err != nil {
					return parseErr(err)
				}
				eng.RegisterTemplate(n, t)
			case "own-new", "foreign-new":
				from := eng
				if how == "foreign-new" {
					from = helper
				}
				nodes, err := (&twig.Parser{}).Parse(src)
				if err != nil {
					return parseErr(err)
				}
				eng.RegisterTemplate(n, from.NewTemplate(n, src, nodes))
			case "foreign-load":
				if err := helper.RegisterString(n, src); err != nil {
					return parseErr(err)
				}
				t, err := helper.Load(n)
				if err != nil {
					return err
				}
				eng.RegisterTemplate(n, t)
			case "compiled":
				if err := helper.RegisterString(n, src); err != nil {
					return parseErr(err)
				}
				ct, err := helper.CompileTemplate(n)
				if err != nil {
					return err
				}
				if err := eng.RegisterCompiledTemplate(ct); err != nil {
					return parseErr(err)
				}
			case "compiled-data":
				if err := helper.RegisterString(n, src); err != nil {
					return parseErr(err)
				}
				t, err := helper.Load(n)
				if err != nil {
					return err
				}
				data, err := t.SaveCompiled()
				if err != nil {
					return err
				}
				if err := eng.LoadFromCompiledData(data); err != nil {
					return parseErr(err)
				}
			}
		}
		if len(loaded) > 0 {
			eng.RegisterLoader(twig.NewArrayLoader(loaded))
		}
		return nil
	}
	render := func() (string, error) {
		ctx, _ := deepCopy(map[string]interface{}(c.Ctx)).(map[string]interface{})
		switch s.API {
		case "RenderTo":
			var sb strings.Builder
			if err := eng.RenderTo(&sb, c.Main, ctx); err != nil {
				return "", err
			}
			return sb.String(), nil
		case "Load+Template.Render":
			t, err := eng.Load(c.Main)
			if err != nil {
				return "", err
			}
			return t.Render(ctx)
		case "Load+Template.RenderTo":
			t, err := eng.Load(c.Main)
			if err != nil {
				return "", err
			}
			var sb strings.Builder
			if err := t.RenderTo(&sb, ctx); err != nil {
				return "", err
			}
			return sb.String(), nil
		}
		return eng.Render(c.Main, ctx)
	}

	strictInForce := false
	res := guarded(func() (string, error) {
		eng = twig.New()
		addSpies(eng)
		for _, op := range strings.Fields(s.Life) {
			switch op {
			case "E":
				eng.EnableSandbox(strict)
				strictInForce = true
				if shaped.Withdraw != nil && !shaped.RenderFirst {
					shaped.Withdraw() // the engine already holds the policy: a live edit
					shaped.Withdraw = nil
				}
			case "A":
				eng.EnableSandbox(allowAll)
				strictInForce = false
			case "D":
				eng.DisableSandbox()
			case "T":
				if err := register(); err != nil {
					return "", err
				}
				registered = true
			case "R":
				if strictInForce && shaped.Withdraw != nil {
					if registered {
						render() // while everything is still granted; not judged
					}
					shaped.Withdraw()
					shaped.Withdraw = nil
				}
				spies = nil
				out, err := render()
				o := Outcome{Out: out, Class: mapClass(classify(err)), Spies: append([]Ev(nil), spies...)}
				if err != nil {
					o.Msg = err.Error()
				}
				if strictInForce {
					outs = append(outs, o)
				}
			}
		}
		return "", nil
	})
	if res.Class != "" {
		// a panic, a hang or a failed registration: reported in place of the renders
		o := Outcome{Class: mapClass(res.Class), Panic: res.Panic}
		if res.Err != nil {
			o.Msg = res.Err.Error()
		}
		if res.Class == "timeout" {
			return []Outcome{o} // the goroutine may still be appending
		}
		return append(outs, o)
	}
	return outs
}

// c06CheckSetup renders the case under the set-up and compares every checked render with the base outcome `want`.
// It returns true when the report is full.
func c06CheckSetup(e *Env, c *Case, s c06Setup, want Outcome, allowed func(string) bool) bool {
	r := e.Rep
	r.Hit("setup-prov:" + s.Prov)
	r.Hit("setup-life:" + s.Life)
	r.Hit("setup-scope:" + s.Scope)
	if s.Shape != "" {
		r.Hit("policy-shape:" + s.Shape)
	}
	for k, got := range c06RunSetup(c, s) {
		var escaped []string
		for _, ev := range got.Spies {
			if ev.Kind != "test" && !allowed(ev.Name) {
				escaped = append(escaped, ev.Name)
			}
		}
		// callbacks the page itself invokes outside the sandbox are part of the base outcome too
		baseline := 0
		for _, ev := range want.Spies {
			if ev.Kind != "test" && !allowed(ev.Name) {
				baseline++
			}
		}
		key, what := "", ""
		switch {
		case got.Class == "panic" || got.Class == "timeout":
			key, what = "panic-or-hang", fmt.Sprintf("render %d ends in %s: %s", k+1, got.Class, truncate(got.Panic, 200))
		case s.Scope == c06ScopePageToo:
			if len(escaped) > baseline || got.Class != want.Class || got.Out != want.Out {
				r.Hit("page-built-by-other-engine:renders-under-the-builder's-environment")
			} else {
				r.Hit("page-built-by-other-engine:same-result")
			}
		case len(escaped) > baseline || (want.Class == "security" && got.Class != "security"):
			key = "sandbox-escape-setup"
			what = fmt.Sprintf("render %d: forbidden callbacks invoked %v, class %q (%s), output %q; the same case on an engine set up with EnableSandbox + RegisterString + Render: class %q, forbidden invocations %d",
				k+1, escaped, got.Class, truncate(got.Msg, 100), truncate(got.Out, 100), want.Class, baseline)
		case got.Class != want.Class || got.Out != want.Out || (got.Class == "" && !sameEvs(got.Spies, want.Spies)):
			key = "sandbox-setup-changes-result"
			what = fmt.Sprintf("render %d: class %q (%s), output %q, invocations %v; the same case on an engine set up with EnableSandbox + RegisterString + Render: class %q, output %q, invocations %v",
				k+1, got.Class, truncate(got.Msg, 100), truncate(got.Out, 100), got.Spies, want.Class, truncate(want.Out, 100), want.Spies)
		}
		if key == "" {
			continue
		}
		rp := c.replay(got, want)
		rp["kind"] = "c06-setup"
		rp["setup"] = map[string]any{"provenance": s.Prov, "scope": s.Scope, "engine_calls": s.Life, "config": s.Config, "api": s.API, "policy_shape": s.Shape, "render_index": k + 1,
			"legend": "E=EnableSandbox(policy) A=EnableSandbox(allow-all policy) D=DisableSandbox T=settings+register templates R=render; 'model' holds the base outcome (default set-up, agreed with the Lean model)"}
		if r.Violate(Violation{Key: key, What: s.String() + ": " + what,
			Broken: "theorem C06_confinement / C06_allowed_unchanged: the policy in force is the rendering engine's, whatever built the template and whatever was called before (implementation-only oracle: same case, other engine set-up)",
			Replay: rp}) {
			return true
		}
		return false // one report per case and set-up
	}
	return false
}

// c06SetupRotor walks the set-up dimensions deterministically (no PRNG): sweep() yields, for one case, every
// provenance and every engine-call sequence once, the remaining dimensions rotating with pairwise coprime strides so
// that over the corpus every pair of values meets.
type c06SetupRotor struct{ tick int }

func (ro *c06SetupRotor) next() c06Setup {
	t := ro.tick
	ro.tick++
	return c06Setup{Prov: c06Provs[t%len(c06Provs)], Scope: c06Scopes[(t/2)%len(c06Scopes)], Life: c06Lives[(t/3)%len(c06Lives)], Config: c06Configs[(t/5)%len(c06Configs)], API: c06APIs[(t/7)%len(c06APIs)], Shape: c06Shapes[(t/2)%len(c06Shapes)]}
}

func (ro *c06SetupRotor) sweep() []c06Setup {
	var out []c06Setup
	base := ro.next()
	for i, p := range c06Provs {
		s := base
		s.Prov = p
		s.Scope = c06Scopes[(ro.tick+i)%len(c06Scopes)]
		if i%2 == 1 {
			s.Life = c06Lives[(ro.tick+i)%len(c06Lives)]
		}
		out = append(out, s)
	}
	extra := base
	extra.Prov, extra.Scope = c06Provs[ro.tick%len(c06Provs)], c06ScopePageToo
	out = append(out, extra)
	for i, l := range c06Lives {
		s := base
		s.Life = l
		s.Config = c06Configs[(ro.tick+i)%len(c06Configs)]
		s.API = c06APIs[(ro.tick/3+i)%len(c06APIs)]
		out = append(out, s)
	}
	// every policy shape once, on the default provenance, the other dimensions rotating
	for i, sh := range c06Shapes {
		if sh == c06BaseShape {
			continue
		}
		s := base
		s.Prov, s.Shape = "string", sh
		s.Life = c06Lives[(ro.tick+i)%len(c06Lives)]
		s.API = c06APIs[(ro.tick/5+i)%len(c06APIs)]
		out = append(out, s)
	}
	return out
}
