package main

import (
	"fmt"
	"math/big"
	"strconv"
	"strings"
)

// C08 (j) — a number literal is the decimal number its digits spell.
//
// "On integers … the operators give the mathematically expected result" starts at the operands: the integer literal
// 010 is ten, 08 is eight, 0100 is one hundred, however many zeros are written in front, and 1.50 / 01.5 are one and
// a half. Nothing in the table of operators gives a leading zero, a digit above 7 or the length of the digit string a
// meaning. The digits → value step is a hand-written routine per token kind (and a strconv call per number kind), so
// this is swept on its own:
//
//	(j1) every integer 0..99 and a ladder of larger ones (every decimal length up to 2^53, all-7 / all-8 / all-9 digit
//	     strings, powers of two and of eight, file-mode look-alikes) written with 0..3 leading zeros, alone in a print tag;
//	(j2) padded literals as either operand of every operator, next to brackets / signs / commas without spaces, as
//	     conditional arms and conditions, filter / function / macro arguments and defaults, subscripts and hash keys,
//	     list elements, and in every tag that takes an expression (if / elseif / set / for / include), small template
//	     and large;
//	(j3) decimal fractions with zeros in front of the integer part and behind the fraction;
//	(j4) random expression trees of the shared generator with every integer literal padded: same value as the plain
//	     spelling of the same tree.
//
// Expected values are computed here from the digit string in base ten (math/big, strconv.ParseFloat) — never from the
// engine — and every case also goes through the Lean model (compareCase), whose lexer reads a literal digit by digit.
// The corpus j1–j3 is the same for every seed.

type c08Lit struct {
	spell string
	val   int64
}

func c08Pad(n int64, zeros int) c08Lit {
	return c08Lit{strings.Repeat("0", zeros) + strconv.FormatInt(n, 10), n}
}

// c08LitLadder: the integers above 99 of (j1).
func c08LitLadder() []int64 {
	out := []int64{100, 101, 108, 123, 144, 255, 256, 377, 400, 511, 512, 644, 700, 755, 777, 778, 800, 808, 999, 1000, 1777, 4095, 4096, 7777, 8080, 8888, 32767, 32768, 65535, 65536,
		77777, 1234567, 1<<31 - 1, 1 << 31, 1<<32 - 1, 1 << 32, 1<<53 - 1, 1 << 53}
	for digits := 4; digits <= 15; digits++ {
		for _, d := range []string{"7", "8", "9"} {
			n, _ := strconv.ParseInt(strings.Repeat(d, digits), 10, 64)
			out = append(out, n)
		}
		p, _ := strconv.ParseInt("1"+strings.Repeat("0", digits), 10, 64)
		out = append(out, p, p+8)
	}
	return out
}

// c08LitLine: one template around the padded literals P (value v) and Q (value w); V is v written plainly.
type c08LitLine struct {
	name  string
	tpl   string
	want  func(v, w int64) string
	skip  func(v, w int64) bool
	model bool // false: something else on the line is outside the Lean model (max / min); engine against Go only
}

func c08Truthy(n int64) bool { return n != 0 }

func c08LitLines() []c08LitLine {
	i := func(f func(v, w int64) int64) func(v, w int64) string {
		return func(v, w int64) string { return strconv.FormatInt(f(v, w), 10) }
	}
	b := func(f func(v, w int64) bool) func(v, w int64) string {
		return func(v, w int64) string { return strconv.FormatBool(f(v, w)) }
	}
	s := func(f func(v, w string) string) func(v, w int64) string {
		return func(v, w int64) string { return f(strconv.FormatInt(v, 10), strconv.FormatInt(w, 10)) }
	}
	yn := func(f func(v, w int64) bool, y, n string) func(v, w int64) string {
		return func(v, w int64) string {
			if f(v, w) {
				return y
			}
			return n
		}
	}
	wZero := func(v, w int64) bool { return w == 0 }
	rangeSkip := func(v, w int64) bool { return w > v || v-w > 40 }
	rangeWant := func(sep string) func(v, w int64) string {
		return func(v, w int64) string {
			var parts []string
			for k := w; k <= v; k++ {
				parts = append(parts, strconv.FormatInt(k, 10))
			}
			return strings.Join(parts, sep)
		}
	}
	ipow := func(base, exp int64) int64 {
		r := int64(1)
		for k := int64(0); k < exp; k++ {
			r *= base
		}
		return r
	}
	lines := []c08LitLine{
		// arithmetic, both sides
		{name: "add", tpl: "{{ P + Q }}", want: i(func(v, w int64) int64 { return v + w })},
		{name: "sub", tpl: "{{ P - Q }}", want: i(func(v, w int64) int64 { return v - w })},
		{name: "sub-swapped", tpl: "{{ Q - P }}", want: i(func(v, w int64) int64 { return w - v })},
		{name: "mul", tpl: "{{ P * Q }}", want: i(func(v, w int64) int64 { return v * w })},
		{name: "mod", tpl: "{{ P % Q }}", want: i(func(v, w int64) int64 { return v % w }), skip: wZero},
		{name: "div", tpl: "{{ P / Q }}", want: func(v, w int64) string { return dtFmt(float64(v) / float64(w)) }, skip: wZero},
		{name: "square", tpl: "{{ P ^ 02 }}", want: i(func(v, w int64) int64 { return v * v })},
		{name: "power-of-two", tpl: "{{ 02 ^ Q }}", want: i(func(v, w int64) int64 { return ipow(2, w) }), skip: func(v, w int64) bool { return w > 40 }},
		{name: "three-operands", tpl: "{{ 1 + P * 2 }} {{ (1 + (P * 2)) }} {{ V * 2 + 1 }}", want: func(v, w int64) string { x := strconv.FormatInt(1+v*2, 10); return x + " " + x + " " + x }},
		{name: "with-variable", tpl: "{{ a + P }} {{ P - a }} {{ a * P }}", want: func(v, w int64) string { return fmt.Sprintf("%d %d %d", 7+v, v-7, 7*v) }},
		// no spaces: a sign, a bracket or a comma next to the digits
		{name: "tight-add", tpl: "{{ P+Q }}", want: i(func(v, w int64) int64 { return v + w })},
		{name: "tight-sub", tpl: "{{ P-Q }}", want: i(func(v, w int64) int64 { return v - w })},
		{name: "tight-mul", tpl: "{{ P*Q }}", want: i(func(v, w int64) int64 { return v * w })},
		{name: "tight-print", tpl: "{{P}}", want: i(func(v, w int64) int64 { return v })},
		{name: "parenthesised", tpl: "{{ (P) }} {{ ((P))+(Q) }}", want: func(v, w int64) string { return fmt.Sprintf("%d %d", v, v+w) }},
		{name: "minus", tpl: "{{ -P }} {{ - P }} {{ 0 - P }} {{ a-P }}", want: func(v, w int64) string { return fmt.Sprintf("%d %d %d %d", -v, -v, -v, 7-v) }},
		{name: "plus", tpl: "{{ +P }} {{ a+P }}", want: func(v, w int64) string { return fmt.Sprintf("%d %d", v, 7+v) }},
		{name: "minus-minus", tpl: "{{ - -P }} {{ Q - -P }}", want: func(v, w int64) string { return fmt.Sprintf("%d %d", v, w+v) }},
		// text
		{name: "concat", tpl: "{{ P ~ Q }}", want: s(func(v, w string) string { return v + w })},
		{name: "concat-tight", tpl: "{{ P~Q }}", want: s(func(v, w string) string { return v + w })},
		{name: "concat-text", tpl: "{{ P ~ '' }}|{{ '0' ~ P }}|{{ 'n' ~ P }}", want: func(v, w int64) string { return fmt.Sprintf("%d|0%d|n%d", v, v, v) }},
		{name: "text-around", tpl: "007 {{ P }} 010", want: func(v, w int64) string { return fmt.Sprintf("007 %d 010", v) }},
		// comparison
		{name: "eq", tpl: "{{ P == Q }}", want: b(func(v, w int64) bool { return v == w })},
		{name: "ne", tpl: "{{ P != Q }}", want: b(func(v, w int64) bool { return v != w })},
		{name: "lt", tpl: "{{ P < Q }}", want: b(func(v, w int64) bool { return v < w })},
		{name: "gt", tpl: "{{ P > Q }}", want: b(func(v, w int64) bool { return v > w })},
		{name: "le", tpl: "{{ P <= Q }}", want: b(func(v, w int64) bool { return v <= w })},
		{name: "ge", tpl: "{{ P >= Q }}", want: b(func(v, w int64) bool { return v >= w })},
		{name: "tight-comparison", tpl: "{{ P<Q }} {{ P>=Q }} {{ P==Q }}", want: func(v, w int64) string { return fmt.Sprintf("%v %v %v", v < w, v >= w, v == w) }},
		{name: "eq-plain-spelling", tpl: "{{ P == V }} {{ V == P }} {{ P != V }} {{ P <= V }} {{ P < V }}", want: func(v, w int64) string { return "true true false true false" }},
		{name: "eq-variable", tpl: "{{ pv == P }} {{ P == pv }} {{ pv != P }} {{ pv < P }} {{ pv >= P }}", want: func(v, w int64) string { return "true true false false true" }},
		{name: "neighbours", tpl: "{{ P == pv + 1 }} {{ P > pv - 1 }} {{ P < pv + 1 }}", want: func(v, w int64) string { return "false true true" }},
		// membership
		{name: "in-list", tpl: "{{ P in [Q, V] }} {{ P in [Q] }} {{ P not in [Q] }}", want: func(v, w int64) string { return fmt.Sprintf("true %v %v", v == w, v != w) }},
		{name: "variable-in-list-of-literals", tpl: "{{ pv in [P] }} {{ pv in [Q, P] }} {{ pv not in [P] }}", want: func(v, w int64) string { return "true true false" }},
		// logic and conditionals
		{name: "and-or-not", tpl: "{{ P and true }} {{ P or false }} {{ not P }}", want: func(v, w int64) string { return fmt.Sprintf("%v %v %v", c08Truthy(v), c08Truthy(v), !c08Truthy(v)) }},
		{name: "conditional-condition", tpl: "{{ P ? 'y' : 'n' }}", want: yn(func(v, w int64) bool { return c08Truthy(v) }, "y", "n")},
		{name: "conditional-arms", tpl: "{{ t ? P : Q }} {{ f ? P : Q }} {{ P > Q ? P : Q }}", want: func(v, w int64) string {
			mx := v
			if w > v {
				mx = w
			}
			return fmt.Sprintf("%d %d %d", v, w, mx)
		}},
		// tests
		{name: "even-odd", tpl: "{{ P is even }} {{ P is odd }} {{ P is not even }}", want: func(v, w int64) string { return fmt.Sprintf("%v %v %v", v%2 == 0, v%2 != 0, v%2 != 0) }},
		// filters and functions
		{name: "abs", tpl: "{{ P|abs }} {{ -P|abs }} {{ (Q - P)|abs }}", want: func(v, w int64) string {
			d := w - v
			if d < 0 {
				d = -d
			}
			return fmt.Sprintf("%d %d %d", v, v, d)
		}},
		{name: "default-argument", tpl: "{{ nul|default(P) }}", want: i(func(v, w int64) int64 { return v }), skip: func(v, w int64) bool { return v == 0 }},
		{name: "list-elements", tpl: "{{ [P, Q]|join('-') }} {{ [P,Q]|length }} {{ [P, Q]|first }} {{ [P, Q]|last }} {{ [Q, P][01] }}", want: func(v, w int64) string { return fmt.Sprintf("%d-%d 2 %d %d %d", v, w, v, w, v) }},
		{name: "hash-value", tpl: "{% set h = {'k': P, 'l': Q} %}{{ h.k }} {{ h['l'] }} {{ h.k + h.l }}", want: func(v, w int64) string { return fmt.Sprintf("%d %d %d", v, w, v+w) }},
		{name: "hash-key", tpl: "{{ {P: 'x'}[V] }}{{ {V: 'y'}[P] }}", want: func(v, w int64) string { return "xy" }},
		{name: "subscript", tpl: "{{ ten[Q] }} {{ ten[Q] + P }} {{ [5, 6, 7, 8, 9, 10, 11, 12, 13, 14][Q] }}", want: func(v, w int64) string { return fmt.Sprintf("%d %d %d", 3*w, 3*w+v, 5+w) }, skip: func(v, w int64) bool { return w > 9 }},
		{name: "slice-arguments", tpl: "{{ 'abcdefghijklmnop'|slice(01, Q) }}", want: func(v, w int64) string { return "abcdefghijklmnop"[1 : 1+w] }, skip: func(v, w int64) bool { return w > 9 }},
		{name: "range-arguments", tpl: "{{ range(Q, P)|join(',') }}", want: rangeWant(","), skip: rangeSkip},
		{name: "max-min", tpl: "{{ max(P, Q) }} {{ min(P, Q) }}", want: func(v, w int64) string {
			mx, mn := v, w
			if w > v {
				mx, mn = w, v
			}
			return fmt.Sprintf("%d %d", mx, mn)
		}},
		{name: "macro-argument", tpl: "{% macro lit_id(q) %}{{ q }}{% endmacro %}{{ lit_id(P) }} {{ lit_id(P + Q) }}", want: func(v, w int64) string { return fmt.Sprintf("%d %d", v, v+w) }},
		{name: "macro-default", tpl: "{% macro lit_d(q = P) %}{{ q + Q }}{% endmacro %}{{ lit_d() }}", want: i(func(v, w int64) int64 { return v + w })},
		// tags
		{name: "if-eq", tpl: "{% if P == V %}T{% else %}F{% endif %}{% if pv == P %}T{% else %}F{% endif %}{% if P != V %}T{% else %}F{% endif %}", want: func(v, w int64) string { return "TTF" }},
		{name: "if-order", tpl: "{% if P < Q %}lt{% elseif P > Q %}gt{% else %}eq{% endif %}", want: func(v, w int64) string {
			switch {
			case v < w:
				return "lt"
			case v > w:
				return "gt"
			}
			return "eq"
		}},
		{name: "if-truth", tpl: "{% if P %}T{% else %}F{% endif %}{% if not P %}T{% else %}F{% endif %}", want: yn(func(v, w int64) bool { return c08Truthy(v) }, "TF", "FT")},
		{name: "elseif", tpl: "{% if f %}A{% elseif P + Q == pv + Q %}B{% else %}C{% endif %}", want: func(v, w int64) string { return "B" }},
		{name: "set", tpl: "{% set x = P %}{{ x }} {{ x + Q }}", want: func(v, w int64) string { return fmt.Sprintf("%d %d", v, v+w) }},
		{name: "set-expression", tpl: "{% set x = P - Q %}{{ x ~ '!' }}", want: func(v, w int64) string { return fmt.Sprintf("%d!", v-w) }},
		{name: "for-list", tpl: "{% for x in [P, Q, t ? P : 0] %}{{ x }},{% endfor %}", want: func(v, w int64) string { return fmt.Sprintf("%d,%d,%d,", v, w, v) }},
		{name: "for-range", tpl: "{% for x in range(Q, P) %}{{ x }};{% endfor %}", want: func(v, w int64) string { return rangeWant(";")(v, w) + ";" }, skip: rangeSkip},
		{name: "include-with", tpl: "{% include 'show' with {'v': P} %}|{% include 'show' with {'v': P + Q} only %}", want: func(v, w int64) string { return fmt.Sprintf("%d|%d", v, v+w) }},
		{name: "large-print", tpl: largeFiller + "{{ P + Q }}|{{ P }}|{{ P == V }}", want: func(v, w int64) string { return largeFiller + fmt.Sprintf("%d|%d|true", v+w, v) }},
		{name: "large-tags", tpl: largeFiller + "{% if P == V %}T{% else %}F{% endif %}{% set x = P %}{{ x }}{% for y in [P] %}{{ y }}{% endfor %}", want: func(v, w int64) string { return largeFiller + fmt.Sprintf("T%d%d", v, v) }},
	}
	for k := range lines {
		lines[k].model = lines[k].name != "max-min"
	}
	return lines
}

// c08PadTree: the tree with every integer literal written with leading zeros (an EVar prints its name verbatim, so
// it stands for "these exact characters"); zeros(n) chooses how many for that literal.
func c08PadTree(t GExpr, zeros func() int, changed *int) GExpr {
	rec := func(x GExpr) GExpr { return c08PadTree(x, zeros, changed) }
	recs := func(xs []GExpr) []GExpr {
		if xs == nil {
			return nil
		}
		out := make([]GExpr, len(xs))
		for i, x := range xs {
			out[i] = rec(x)
		}
		return out
	}
	switch x := t.(type) {
	case ELit:
		n, ok := x.V.(int)
		if !ok {
			return x
		}
		z := zeros()
		if z == 0 {
			return x
		}
		*changed++
		if n < 0 {
			return EUn{"-", EVar{strings.Repeat("0", z) + strconv.Itoa(-n)}}
		}
		return EVar{strings.Repeat("0", z) + strconv.Itoa(n)}
	case EUn:
		return EUn{x.Op, rec(x.E)}
	case EBin:
		return EBin{x.Op, rec(x.L), rec(x.R)}
	case ECond:
		return ECond{rec(x.C), rec(x.T), rec(x.F)}
	case EAttr:
		return EAttr{rec(x.E), x.N}
	case EItem:
		return EItem{rec(x.E), rec(x.I)}
	case EFilter:
		return EFilter{rec(x.E), x.N, recs(x.Args)}
	case ECall:
		return ECall{x.N, recs(x.Args)}
	case EMCall:
		return EMCall{rec(x.Obj), x.N, recs(x.Args)}
	case ETest:
		return ETest{rec(x.E), x.N, x.Neg, recs(x.Args)}
	case EArr:
		return EArr{recs(x.Items)}
	case EHash:
		return EHash{x.Keys, recs(x.Vals)}
	}
	return t
}

func c08LitCase(tpl string, ctx map[string]any) *Case {
	return &Case{Templates: map[string]string{"main": tpl, "show": "{{ v }}"}, Main: "main", Ctx: ctx, FailAt: -1}
}

// c08Replay: a replay object `check --replay` can re-run (kind render: templates, main, ctx, want) plus what was seen.
func c08Replay(c *Case, im Outcome, want string, extra map[string]any) map[string]any {
	tpls := map[string]any{}
	for k, v := range c.Templates {
		tpls[k] = v
	}
	rp := map[string]any{"kind": "render", "templates": tpls, "main": c.Main, "ctx": c.Ctx, "want": want, "got": im.Out, "class": im.Class, "msg": im.Msg}
	if len(c.SpyFunctions) > 0 {
		rp["spy_functions"] = c.SpyFunctions
		rp["spies"] = fmt.Sprint(im.Spies)
	}
	for k, v := range extra {
		rp[k] = v
	}
	return rp
}

func c08LiteralSpellings(e *Env) error {
	r := e.Rep
	rg := e.Rng
	const brokenLit = "theorem C08_lex_number / evalX .lit: a number literal denotes the decimal number its digits spell (expected value computed from the digits in base ten)"
	const corr = "correspondence (Lean lexer+parser+evaluator vs real engine) on number literals written with leading zeros"
	// (j1) a literal alone
	var lone []c08Lit
	for n := int64(0); n <= 99; n++ {
		for z := 0; z <= 3; z++ {
			lone = append(lone, c08Pad(n, z))
		}
	}
	for _, n := range c08LitLadder() {
		for z := 0; z <= 2; z++ {
			lone = append(lone, c08Pad(n, z))
		}
	}
	lone = append(lone, c08Lit{strings.Repeat("0", 20), 0}, c08Lit{strings.Repeat("0", 20) + "8", 8}, c08Lit{strings.Repeat("0", 40) + "123", 123})
	for k, l := range lone {
		if r.Full() {
			return nil
		}
		want, _ := new(big.Int).SetString(l.spell, 10)
		c := c08LitCase("{{ "+l.spell+" }}", map[string]any{})
		var im Outcome
		if k%3 == 0 || len(l.spell) > 3 {
			var err error
			if im, _, _, err = compareCase(e, c, "render-model-c08", corr); err != nil {
				return err
			}
		} else {
			im = runImpl(c)
		}
		r.Seen("lit:"+l.spell, true)
		r.Hit("literal-alone")
		if im.Class != "" || im.Out != want.String() {
			if r.Violate(Violation{Key: "literal-not-decimal", What: fmt.Sprintf("{{ %s }} prints %q (%s %s); the digits spell %s", l.spell, im.Out, im.Class, truncate(im.Msg, 80), want.String()),
				Broken: brokenLit,
				Replay: c08Replay(c, im, want.String(), map[string]any{"literal": l.spell})}) {
				return nil
			}
		}
	}
	// (j2) padded literals in every operator and position
	ps := []c08Lit{c08Pad(10, 1), c08Pad(8, 1), c08Pad(7, 2), c08Pad(100, 1), c08Pad(12, 1), c08Pad(0, 1), c08Pad(19, 2), c08Pad(9, 1), c08Pad(777, 1), c08Pad(1, 1), c08Pad(10, 2), c08Pad(64, 3), c08Pad(10, 0)}
	qs := []c08Lit{c08Pad(3, 1), c08Pad(9, 1), c08Pad(10, 1)}
	ten := make([]interface{}, 10)
	for k := range ten {
		ten[k] = 3 * k
	}
	for _, ln := range c08LitLines() {
		for pi, p := range ps {
			for qi, q := range qs {
				if r.Full() {
					return nil
				}
				if !e.Thorough() && (pi+qi)%2 == 1 && pi > 3 {
					continue // quick tier: the first four literals with every partner, the others with every second one
				}
				if ln.skip != nil && ln.skip(p.val, q.val) {
					continue
				}
				plain := strconv.FormatInt(p.val, 10)
				tpl := strings.NewReplacer("P", p.spell, "Q", q.spell, "V", plain).Replace(ln.tpl)
				ctx := map[string]any{"a": 7, "t": true, "f": false, "nul": nil, "pv": int(p.val), "ten": ten}
				c := c08LitCase(tpl, ctx)
				var im Outcome
				if ln.model {
					var err error
					if im, _, _, err = compareCase(e, c, "render-model-c08", corr); err != nil {
						return err
					}
				} else {
					im = runImpl(c)
				}
				want := ln.want(p.val, q.val)
				r.Seen("litop:"+ln.name+":"+p.spell+":"+q.spell, true)
				r.Hit("literal-line:" + ln.name)
				if im.Class != "" || im.Out != want {
					if r.Violate(Violation{Key: "padded-literal-value", What: fmt.Sprintf("%s with %s (= %d) and %s (= %d): %s renders %q (%s %s), expected %q", ln.name, p.spell, p.val, q.spell, q.val,
						truncate(strings.TrimPrefix(tpl, largeFiller), 160), truncate(strings.TrimPrefix(im.Out, largeFiller), 80), im.Class, truncate(im.Msg, 80), truncate(strings.TrimPrefix(want, largeFiller), 80)),
						Broken: brokenLit,
						Replay: c08Replay(c, im, want, map[string]any{"line": ln.name, "p": p.spell, "q": q.spell})}) {
						return nil
					}
				}
			}
		}
	}
	// the same literals through the shared ten-position sweep
	for _, pe := range []struct {
		src  string
		want string
	}{{"010", "10"}, {"08 + 09", "17"}, {"0100 - 01", "99"}, {"1 + 012 * 2", "25"}, {"007 ~ 008", "78"}, {"010 > 9", "true"}, {"[010, 011][01]", "11"}} {
		if err := positions(e, pe.src, map[string]any{"t": true, "nul": nil}, pe.want); err != nil {
			return err
		}
	}
	// (j3) decimal fractions: zeros in front of the integer part and behind the fraction
	for _, fs := range []string{"01.5", "1.50", "0.50", "00.25", "010.0", "1.0", "08.0", "08.5", "010.75", "0.125", "100.00", "07.70", "0.1", "00.10", "09.09", "0012.5000", "2.5", "10.0", "0.0", "00.0"} {
		if r.Full() {
			return nil
		}
		f, err := strconv.ParseFloat(fs, 64)
		if err != nil {
			continue
		}
		tpl := "{{ " + fs + " }}|{{ " + fs + " + 1 }}|{{ " + fs + " * 2 }}|{{ " + fs + " ~ '' }}|{{ " + fs + " == " + dtFmt(f) + " }}|{% if " + fs + " < " + dtFmt(f) + " + 1 %}T{% else %}F{% endif %}|{% set x = " + fs + " %}{{ x }}"
		want := dtFmt(f) + "|" + dtFmt(f+1) + "|" + dtFmt(f*2) + "|" + dtFmt(f) + "|true|T|" + dtFmt(f)
		c := c08LitCase(tpl, map[string]any{})
		im, _, _, err := compareCase(e, c, "render-model-c08", corr)
		if err != nil {
			return err
		}
		r.Seen("litf:"+fs, true)
		r.Hit("literal-fraction")
		if im.Class != "" || im.Out != want {
			if r.Violate(Violation{Key: "padded-literal-value", What: fmt.Sprintf("the literal %s (= %s): %s renders %q (%s %s), expected %q", fs, dtFmt(f), tpl, im.Out, im.Class, truncate(im.Msg, 80), want),
				Broken: brokenLit,
				Replay: c08Replay(c, im, want, map[string]any{"line": "fraction", "p": fs})}) {
				return nil
			}
		}
	}
	// (j4) random trees, every integer literal padded
	n := e.N(300, 20000)
	depth := e.N(4, 6)
	for i := 0; i < n && !r.Full(); i++ {
		g := NewGen(rg)
		gctx := g.BaseCtx()
		var tree GExpr
		switch rg.Intn(3) {
		case 0:
			tree = g.IntE(depth)
		case 1:
			tree = g.BoolE(depth)
		default:
			tree = g.AnyScalarE(depth)
		}
		changed := 0
		padded := c08PadTree(tree, func() int { return 1 + rg.Intn(3) }, &changed)
		if changed == 0 {
			continue
		}
		plain, pad := canon.expr(tree), canon.expr(padded)
		rnd := Style{Rng: rg, Extra: 0.2}.expr(padded)
		iPad, _, _, err := compareCase(e, exprCase(pad, gctx), "render-model-c08", corr+" (random trees)")
		if err != nil {
			return err
		}
		iPlain, iRnd := runImpl(exprCase(plain, gctx)), runImpl(exprCase(rnd, gctx))
		r.Seen("litt:"+pad, true)
		r.Hit("literal-random-tree")
		if iPad.Class != iPlain.Class || iPad.Out != iPlain.Out || iRnd.Class != iPlain.Class || iRnd.Out != iPlain.Out {
			if r.Violate(Violation{Key: "padded-literal-value", What: fmt.Sprintf("leading zeros change the value: %s → %q (%s); %s → %q (%s); %s → %q (%s)", plain, iPlain.Out, iPlain.Class, pad, iPad.Out, iPad.Class, truncate(rnd, 120), iRnd.Out, iRnd.Class),
				Broken: brokenLit + " (implementation-only oracle: the same tree with its literals written plainly)",
				Replay: map[string]any{"kind": "expr-spellings", "min": plain, "full": pad, "random": rnd, "outs": []string{iPlain.Out, iPad.Out, iRnd.Out}, "classes": []string{iPlain.Class, iPad.Class, iRnd.Class}, "ctx": fmt.Sprint(gctx)}}) {
				return nil
			}
		}
	}
	return nil
}
