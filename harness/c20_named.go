package main

import (
	"encoding/json"
	"errors"
	"fmt"
	"io/fs"
	"math/big"
	"math/rand"
	"net"
	"reflect"
	"strings"
	"time"
)

// C20, two more dimensions of "every Go value shape … every attribute name … every history of earlier lookups":
//
//   (I) FIELD TYPES. The fields of the zoo and of the generated types are int, string, bool, interface{} and structs, for
//       which "the value of that exported field" and "a value that prints like it" cannot be told apart. Here the field
//       type ranges over a pool of ~50 Go types: every scalar kind as a builtin, as a NAMED type without methods and as a
//       named type with String() / Error() / Format() (time.Duration, time.Month, fs.FileMode, json.Number, enums …),
//       named slices, maps and structs, pointers to named scalars, types whose POINTER alone is a Stringer, interface
//       fields holding named values. Exhaustively: every type of the pool as a direct field, promoted through an embedded
//       struct, through an embedded pointer, through two levels — each on the value and on the pointer, each looked up
//       several times in a row (first lookup, later lookups), again after the cache was flooded with more pairs than it
//       holds, and on a SECOND value of the type. Then random layouts mixing the pool under a small set of names
//       (shadowing, ambiguity) with a random history over a sliding window of objects.
//       Oracles: (1)+(2) of c.check (direct reflection; same answer as the first time); (3) x.F IS the value: a set of
//       expressions that depend on the dynamic type of their operand (concatenation, arithmetic, comparison, truth,
//       length, json_encode, tests, a round trip through set / a literal array / a literal map) gives the same output on
//       `x.F` as on a context variable bound to the field's value read by package reflect.
//   (J) NAMES THAT ARE A FIELD AT ONE DEPTH AND A METHOD AT ANOTHER. Go allows a method declared on (or promoted to) a
//       shallower level to carry the name of a field promoted from a deeper one (the nil-guard wrapper). The field is
//       found by FieldByName, the method by MethodByName; when the field cannot be reached (nil embedded pointer on its
//       path) the method of the dynamic type answers. Hand-written family: method on the outer type with value / pointer
//       receiver, promoted from a sibling embedded by value / by pointer, with arguments, without result; field one, two
//       and three levels down through pointers and values; every combination of nil / non-nil pointers; value and
//       pointer of the outer type; before, during and after a flood; replayed on the Lean model (constant bodies).
//       Generated family: reflect.StructOf types whose first field embeds a hand-written method carrier and whose other
//       fields embed generated structs holding the same names at random depths behind nil / non-nil pointers.
//
// Expected values: direct reflection (c20Expect), the Lean model (J), the field value itself bound to a variable (I.3).

// ---- (I) the pool of field types ---------------------------------------------------------------------

type c20NStr string
type c20NInt int
type c20NI64 int64
type c20NF64 float64
type c20NBool bool
type c20NU64 uint64
type c20NI16 int16
type c20NList []string
type c20NDict map[string]int

type c20NLabel string

func (l c20NLabel) String() string { return "label<" + string(l) + ">" }

type c20NLevel int

func (l c20NLevel) String() string {
	switch l % 3 {
	case 0:
		return "low"
	case 1:
		return "mid"
	}
	return "high"
}

type c20NTicks int64

func (t c20NTicks) String() string { return fmt.Sprintf("%d ticks", int64(t)) }

type c20NTemp float64

func (t c20NTemp) String() string { return fmt.Sprintf("%.1f degrees", float64(t)) }

type c20NSwitch bool

func (s c20NSwitch) String() string {
	if s {
		return "on"
	}
	return "off"
}

type c20NU8 uint8

func (u c20NU8) String() string { return fmt.Sprintf("u8#%d", uint8(u)) }

type c20NI32 int32

func (u c20NI32) String() string { return fmt.Sprintf("i32#%d", int32(u)) }

type c20NF32 float32

func (u c20NF32) String() string { return fmt.Sprintf("f32#%g", float32(u)) }

type c20NUint uint

func (u c20NUint) String() string { return fmt.Sprintf("uint#%d", uint(u)) }

type c20NBytes []byte

func (b c20NBytes) String() string { return fmt.Sprintf("bytes[%d]", len(b)) }

type c20NPoint struct{ X, Y int }

func (p c20NPoint) String() string { return fmt.Sprintf("(%d;%d)", p.X, p.Y) }

type c20NCode int // an error, not a Stringer

func (c c20NCode) Error() string { return fmt.Sprintf("code %d", int(c)) }

type c20NFmt int // a Formatter

func (c c20NFmt) Format(f fmt.State, verb rune) { fmt.Fprintf(f, "fmt<%d>", int(c)) }

type c20NPtrStr int // only *c20NPtrStr is a Stringer

func (p *c20NPtrStr) String() string { return fmt.Sprintf("ptrstr(%d)", int(*p)) }

type c20FT struct {
	name string
	t    reflect.Type
	mk   func(i int) any // the i-th sample (nil = leave the zero value)
}

func c20FieldTypes() []c20FT {
	of := func(sample any, mk func(i int) any) c20FT {
		t := reflect.TypeOf(sample)
		return c20FT{t.String(), t, mk}
	}
	iface := func(name string, ptrToIface any, mk func(i int) any) c20FT {
		return c20FT{name, reflect.TypeOf(ptrToIface).Elem(), mk}
	}
	base := time.Date(2024, 2, 29, 13, 4, 5, 0, time.UTC)
	return []c20FT{
		// builtin
		of("", func(i int) any { return fmt.Sprintf("s%d", i) }),
		of(0, func(i int) any { return 100 + i }),
		of(int64(0), func(i int) any { return int64(1)<<40 + int64(i) }),
		of(0.0, func(i int) any { return float64(i) + 0.5 }),
		of(false, func(i int) any { return i%2 == 0 }),
		of(uint(0), func(i int) any { return uint(7 + i) }),
		of(int8(0), func(i int) any { return int8(-3 - i%100) }),
		of(uint16(0), func(i int) any { return uint16(40000 + i) }),
		of(float32(0), func(i int) any { return float32(i) + 0.25 }),
		of([]int{}, func(i int) any { return []int{i, i + 1} }),
		of([]byte{}, func(i int) any { return []byte(fmt.Sprintf("b%d", i)) }),
		of(map[string]int{}, func(i int) any { return map[string]int{"k": i} }),
		// named, no methods
		of(c20NStr(""), func(i int) any { return c20NStr(fmt.Sprintf("ns%d", i)) }),
		of(c20NInt(0), func(i int) any { return c20NInt(200 + i) }),
		of(c20NI64(0), func(i int) any { return c20NI64(300 + i) }),
		of(c20NF64(0), func(i int) any { return c20NF64(float64(i) + 0.75) }),
		of(c20NBool(false), func(i int) any { return c20NBool(i%2 == 0) }),
		of(c20NU64(0), func(i int) any { return c20NU64(1<<50 + i) }),
		of(c20NI16(0), func(i int) any { return c20NI16(-400 - i%1000) }),
		of(c20NList{}, func(i int) any { return c20NList{fmt.Sprintf("l%d", i), "m"} }),
		of(c20NDict{}, func(i int) any { return c20NDict{"a": i, "b": i + 1} }),
		// named, print through a method
		of(c20NLabel(""), func(i int) any { return c20NLabel(fmt.Sprintf("L%d", i)) }),
		of(c20NLevel(0), func(i int) any { return c20NLevel(1 + i) }),
		of(c20NTicks(0), func(i int) any { return c20NTicks(500 + i) }),
		of(c20NTemp(0), func(i int) any { return c20NTemp(float64(i) + 20.25) }),
		of(c20NSwitch(false), func(i int) any { return c20NSwitch(i%2 == 0) }),
		of(c20NU8(0), func(i int) any { return c20NU8(9 + i%200) }),
		of(c20NI32(0), func(i int) any { return c20NI32(-70 - i) }),
		of(c20NF32(0), func(i int) any { return c20NF32(float32(i) + 1.5) }),
		of(c20NUint(0), func(i int) any { return c20NUint(60 + i) }),
		of(c20NBytes{}, func(i int) any { return c20NBytes(fmt.Sprintf("nb%d", i)) }),
		of(c20NPoint{}, func(i int) any { return c20NPoint{i, -i - 1} }),
		of(c20NCode(0), func(i int) any { return c20NCode(404 + i) }),
		of(c20NFmt(0), func(i int) any { return c20NFmt(11 + i) }),
		of(c20NPtrStr(0), func(i int) any { return c20NPtrStr(21 + i) }),
		// pointers to named scalars
		of((*c20NPtrStr)(nil), func(i int) any { v := c20NPtrStr(31 + i); return &v }),
		of((*c20NLevel)(nil), func(i int) any { v := c20NLevel(2 + i); return &v }),
		of((*int)(nil), func(i int) any { v := 41 + i; return &v }),
		// standard library
		of(time.Duration(0), func(i int) any { return 90*time.Second + time.Duration(i)*time.Millisecond }),
		of(time.Month(0), func(i int) any { return time.Month(1 + i%12) }),
		of(time.Weekday(0), func(i int) any { return time.Weekday(i % 7) }),
		of(time.Time{}, func(i int) any { return base.Add(time.Duration(i) * time.Hour) }),
		of(fs.FileMode(0), func(i int) any { return fs.FileMode(0o640 + i%8) }),
		of(reflect.Kind(0), func(i int) any { return reflect.Kind(1 + i%20) }),
		of(json.Number(""), func(i int) any { return json.Number(fmt.Sprintf("%d.50", 12+i)) }),
		of(net.IP{}, func(i int) any { return net.IPv4(10, 0, byte(i>>8), byte(i)) }),
		of((*big.Int)(nil), func(i int) any { return new(big.Int).Lsh(big.NewInt(int64(3+i)), 70) }),
		// interface fields holding named values
		iface("interface{}", (*interface{})(nil), func(i int) any {
			switch i % 6 {
			case 0:
				return 90*time.Second + time.Duration(i)
			case 1:
				return c20NLevel(i)
			case 2:
				return c20NInt(i)
			case 3:
				return c20NStr(fmt.Sprintf("is%d", i))
			case 4:
				return fmt.Sprintf("plain%d", i)
			}
			return nil
		}),
		iface("error", (*error)(nil), func(i int) any {
			if i%3 == 2 {
				return errors.New(fmt.Sprintf("plain error %d", i))
			}
			return c20NCode(500 + i)
		}),
		iface("fmt.Stringer", (*fmt.Stringer)(nil), func(i int) any {
			if i%2 == 0 {
				return c20NTicks(i)
			}
			return time.Month(1 + i%12)
		}),
	}
}

// set stores the i-th sample of the type in a settable field
func (ft c20FT) set(f reflect.Value, i int) {
	v := ft.mk(i)
	if v == nil {
		return
	}
	f.Set(reflect.ValueOf(v))
}

// c20NLayer is one level of a generated layout: plain fields (name → type) and at most one embedded next level.
type c20NField struct {
	name string
	ft   c20FT
}
type c20NLayer struct {
	fields []c20NField
	emb    *c20NLayer
	embPtr bool
	embNm  string
}

func (l *c20NLayer) build() (t reflect.Type, refused string) {
	defer func() {
		if p := recover(); p != nil {
			t, refused = nil, fmt.Sprint(p)
		}
	}()
	var fs []reflect.StructField
	for _, f := range l.fields {
		sf := reflect.StructField{Name: f.name, Type: f.ft.t}
		if f.name[0] >= 'a' && f.name[0] <= 'z' {
			sf.PkgPath = "verif/harness"
		}
		fs = append(fs, sf)
	}
	if l.emb != nil {
		sub, why := l.emb.build()
		if sub == nil {
			return nil, why
		}
		if l.embPtr {
			sub = reflect.PtrTo(sub)
		}
		fs = append(fs, reflect.StructField{Name: l.embNm, Type: sub, Anonymous: true})
	}
	return reflect.StructOf(fs), ""
}

// fill sets the fields of v (a settable struct of the layer's type); nilAt = level whose embedded pointer stays nil
// (-1: none); salt varies the samples between two values of one type
func (l *c20NLayer) fill(v reflect.Value, level, nilAt, salt int) {
	for i, f := range l.fields {
		fv := v.Field(i)
		if fv.CanSet() {
			f.ft.set(fv, salt+3*i+level)
		}
	}
	if l.emb == nil {
		return
	}
	ev := v.Field(len(l.fields))
	if l.embPtr {
		if level == nilAt {
			return
		}
		p := reflect.New(ev.Type().Elem())
		l.emb.fill(p.Elem(), level+1, nilAt, salt)
		ev.Set(p)
		return
	}
	l.emb.fill(ev, level+1, nilAt, salt)
}

func (l *c20NLayer) ptrLevels(level int) []int {
	if l.emb == nil {
		return nil
	}
	rest := l.emb.ptrLevels(level + 1)
	if l.embPtr {
		return append([]int{level}, rest...)
	}
	return rest
}

// c20Probes: expressions whose result depends on the dynamic type of E, not only on how E prints. `%s` is E.
var c20Probes = []string{
	"{{ %s ~ '|' }}",
	"{{ %s + 1 }}",
	"{{ %s * 2 }}",
	"{{ -%s }}",
	"{{ %s == w }}",
	"{{ %s == 1 }}",
	"{{ %s < 1000 }}",
	"{% if %s %}T{% else %}F{% endif %}",
	"{{ %s ? 'y' : 'n' }}",
	"{{ %s|length }}",
	"{{ %s|json_encode }}",
	"{{ %s|default('D') }}",
	"{{ %s is iterable }}",
	"{{ %s is empty }}",
	"{{ %s|upper }}",
	"{{ %s|abs }}",
	"{{ [%s]|join(',') }}",
	"{{ {'k': %s}.k }}",
	"{% set s = %s %}{{ s }}/{{ s + 1 }}/{{ s|json_encode }}",
	"{% for q in [%s] %}{{ q }}/{{ q + 1 }}{% endfor %}",
	"{{ %s in [w] }}",
	"{{ max(%s, 0) }}",
}

// c20ProbeOut renders one probe; errors and panics become part of the answer
func (g *c20Eng) probe(pi int, expr string, ctx map[string]interface{}) (out string) {
	defer func() {
		if p := recover(); p != nil {
			out = "<panic>"
		}
	}()
	tn := fmt.Sprintf("probe:%d:%s", pi, expr)
	if !g.have[tn] {
		if err := g.e.RegisterString(tn, strings.ReplaceAll(c20Probes[pi], "%s", expr)); err != nil {
			return "<err:register:" + err.Error() + ">"
		}
		g.have[tn] = true
	}
	s, err := g.e.Render(tn, ctx)
	if err != nil {
		return "<err:" + strings.ReplaceAll(err.Error(), expr, "E") + ">"
	}
	return s
}

// c20ProbeField: oracle (3). x.NAME must behave like the field's value in every expression.
func (c *c20Run) probeField(o *c20Obj, name string, phase string) bool {
	r := c.e.Rep
	want, class, _ := c20Expect(o.val, name, false)
	if class != "" {
		return true
	}
	for pi := range c20Probes {
		ref := c.g.probe(pi, "c20refv", map[string]interface{}{"c20refv": want, "w": want})
		got := c.g.probe(pi, "x."+name, map[string]interface{}{"x": o.val, "w": want})
		r.Seen(fmt.Sprintf("probe\x00%s\x00%s\x00%d", o.label, name, pi), ref != "")
		r.Hit("probe:" + phase)
		if got != ref {
			src := strings.ReplaceAll(c20Probes[pi], "%s", "x."+name)
			if r.Violate(Violation{Key: "attr-not-the-value",
				What: fmt.Sprintf("%s on %s renders %q, the same expression on a variable bound to the field's value (%T) renders %q (phase %s)",
					src, o.label, truncate(got, 60), want, truncate(ref, 60), phase),
				Broken: "theorem C20_attribute_right no longer describes the code (implementation-only oracle 3: x.name yields the value of the field, with its dynamic type)",
				Replay: map[string]any{"kind": "probe", "object": o.label, "go_type": fmt.Sprintf("%T", o.val), "layout": o.spec,
					"value": truncate(fmt.Sprintf("%+v", o.val), 300), "src": src, "field_type": fmt.Sprintf("%T", want),
					"got": got, "want": ref, "phase": phase, "lookups_before": c.lookup}}) {
				return false
			}
			return true
		}
	}
	return true
}

// c20Flood looks up n fresh (type, name) pairs that no other lookup uses (a struct of its own, names never seen)
func (c *c20Run) floodCache(tag string, n int) {
	t := reflect.StructOf([]reflect.StructField{{Name: "FloodMark" + tag, Type: reflect.TypeOf(0)}})
	x := reflect.New(t).Elem().Interface()
	var sb strings.Builder
	for i := 0; i < n; i++ {
		fmt.Fprintf(&sb, "{{ x.Fl%sx%d }}", tag, i)
		if i%50 == 49 || i == n-1 {
			src := sb.String()
			sb.Reset()
			guarded(func() (string, error) {
				eng := c.g.e
				name := fmt.Sprintf("flood:%s:%d", tag, i)
				if err := eng.RegisterString(name, src); err != nil {
					return "", err
				}
				return eng.Render(name, map[string]interface{}{"x": x})
			})
		}
	}
	c.e.Rep.Hit("named:flood")
}

func c20NamedFields(c *c20Run) {
	e := c.e
	r := e.Rep
	pool := c20FieldTypes()
	start := time.Now()
	serial := 0
	type probe struct {
		o     *c20Obj
		names []string
	}
	mk := func(l *c20NLayer, label string, nilAt, salt int) (val, ptr *c20Obj) {
		t, refused := l.build()
		if t == nil {
			r.Skip("structof-refused:" + truncate(refused, 60))
			return nil, nil
		}
		p := reflect.New(t)
		l.fill(p.Elem(), 0, nilAt, salt)
		spec := truncate(t.String(), 1200)
		return &c20Obj{label: label, val: p.Elem().Interface(), rt: t, spec: spec, vi: -1},
			&c20Obj{label: label + ":ptr", val: p.Interface(), rt: t, spec: spec, vi: -1}
	}
	mark := func() c20NField {
		serial++
		return c20NField{fmt.Sprintf("NamedMark%d", serial), pool[1]}
	}

	// ---- exhaustive: every type of the pool × four positions × nil / non-nil × value / pointer × repeated lookups ----
	var objs []probe
	names := []string{"F", "G", "NamedNope"}
	for ti, ft := range pool {
		fg := []c20NField{{"F", ft}, {"G", ft}}
		layouts := []struct {
			pos string
			l   func() *c20NLayer
		}{
			{"direct", func() *c20NLayer { return &c20NLayer{fields: append([]c20NField{mark()}, fg...)} }},
			{"promoted-by-value", func() *c20NLayer {
				return &c20NLayer{fields: []c20NField{mark()}, embNm: "E1", emb: &c20NLayer{fields: fg}}
			}},
			{"promoted-by-pointer", func() *c20NLayer {
				return &c20NLayer{fields: []c20NField{mark()}, embNm: "E1", embPtr: true, emb: &c20NLayer{fields: fg}}
			}},
			{"promoted-two-levels", func() *c20NLayer {
				return &c20NLayer{fields: []c20NField{mark(), {"G", pool[(ti+7)%len(pool)]}}, embNm: "E1", embPtr: ti%2 == 0,
					emb: &c20NLayer{fields: []c20NField{{"K", pool[0]}}, embNm: "E2", embPtr: ti%2 == 1, emb: &c20NLayer{fields: fg}}}
			}},
		}
		for _, lay := range layouts {
			l := lay.l()
			nils := append([]int{-1}, l.ptrLevels(0)...)
			for vi, nilAt := range nils {
				label := fmt.Sprintf("named:%s:%s", ft.name, lay.pos)
				if nilAt >= 0 {
					label += fmt.Sprintf(":nil@%d", nilAt)
				}
				v, p := mk(l, label, nilAt, 10*vi)
				if v == nil {
					continue
				}
				objs = append(objs, probe{v, names}, probe{p, names})
				// a second value of the same type, looked up after the first one
				v2, p2 := mk(l, label+":second", nilAt, 10*vi+5)
				objs = append(objs, probe{p2, names}, probe{v2, names})
			}
			r.Hit("named:position=" + lay.pos)
		}
	}
	sweep := func(phase string, withProbes bool) bool {
		for _, pr := range objs {
			for _, n := range pr.names {
				for rep := 0; rep < 3; rep++ {
					if !c.check(pr.o, n, false, fmt.Sprintf("%s-lookup%d", phase, rep+1)) {
						return false
					}
				}
				if withProbes && n != "NamedNope" && !c.probeField(pr.o, n, phase) {
					return false
				}
			}
			if !c.check(pr.o, "F", true, phase) {
				return false
			}
		}
		return true
	}
	if !sweep("named-first", true) || r.Full() {
		return
	}
	c.floodCache(fmt.Sprintf("a%d", e.Seed), 2300)
	if !sweep("named-after-flood", e.Thorough()) || r.Full() {
		return
	}
	nExh := len(objs)

	// ---- random layouts over a small set of names, random history over a sliding window -----------------------------
	rng := e.Rng
	nameSet := []string{"F", "G", "H", "K", "f"}
	genLayer := func(depth int) *c20NLayer {
		var gen func(d int) *c20NLayer
		gen = func(d int) *c20NLayer {
			l := &c20NLayer{}
			used := map[string]bool{}
			if d == 0 {
				l.fields = append(l.fields, mark())
			}
			for k := rng.Intn(4); k >= 0; k-- {
				n := nameSet[rng.Intn(len(nameSet))]
				if used[n] {
					continue
				}
				used[n] = true
				l.fields = append(l.fields, c20NField{n, pool[rng.Intn(len(pool))]})
			}
			if d < depth {
				l.emb, l.embPtr, l.embNm = gen(d+1), rng.Intn(2) == 0, fmt.Sprintf("E%d", d+1)
			}
			return l
		}
		return gen(0)
	}
	var window []probe
	rnames := append(append([]string{}, nameSet...), "E1", "E2", "NamedNope")
	nRand := e.N(120, 1500)
	for i := 0; i < nRand && !r.Full(); i++ {
		l := genLayer(rng.Intn(4))
		nilAt := -1
		if pl := l.ptrLevels(0); len(pl) > 0 && rng.Intn(3) == 0 {
			nilAt = pl[rng.Intn(len(pl))]
		}
		v, p := mk(l, fmt.Sprintf("named-rand%d", i), nilAt, rng.Intn(50))
		if v == nil {
			continue
		}
		window = append(window, probe{v, rnames}, probe{p, rnames})
		for k := 0; k < 24; k++ {
			pr := window[len(window)-1-rng.Intn(min(len(window), 30))]
			n := pr.names[rng.Intn(len(pr.names))]
			if !c.check(pr.o, n, false, "named-random") {
				return
			}
			if k%6 == 5 && !c.probeField(pr.o, n, "named-random") {
				return
			}
		}
		if i%40 == 39 {
			c.floodCache(fmt.Sprintf("r%dx%d", e.Seed, i), 1200)
		}
	}
	r.Note(fmt.Sprintf("field types (part I): %d types in the pool, %d objects in the exhaustive sweep, %d random layouts, %.1fs",
		len(pool), nExh, len(window)/2, time.Since(start).Seconds()))
}

// ---- (J) a field at one depth, a method of the same name at another ------------------------------------

type c20FMBase struct {
	Title string
	Words int
}

func (b c20FMBase) Summary() string { return b.Title }

// the nil-guard wrapper: real bodies (not modelled)
type c20FMGuardV struct {
	*c20FMBase
	ID int
}

func (p c20FMGuardV) Title() string {
	if p.c20FMBase == nil {
		return "Untitled"
	}
	return "guarded " + p.c20FMBase.Title
}
func (p *c20FMGuardV) Words() int {
	if p.c20FMBase == nil {
		return -1
	}
	return p.c20FMBase.Words
}

// constant bodies: the model knows these
type c20FMConstV struct {
	*c20FMBase
	ID int
}

func (c20FMConstV) Title() string   { return "c20FMConstV.Title()" }
func (p c20FMConstV) Words() int    { return p.ID }
func (c20FMConstV) Summary() string { return "c20FMConstV.Summary()" }

type c20FMConstP struct {
	*c20FMBase
	ID int
}

func (*c20FMConstP) Title() string { return "c20FMConstP.Title()" }
func (p *c20FMConstP) Words() int  { return p.ID }

type c20FMByValue struct {
	c20FMBase
	ID int
}

func (c20FMByValue) Title() string { return "c20FMByValue.Title()" }

type c20FMMid struct {
	*c20FMBase
	Note string
}

type c20FMDeepV struct {
	*c20FMMid
	ID int
}

func (c20FMDeepV) Title() string  { return "c20FMDeepV.Title()" }
func (*c20FMDeepV) Words() string { return "c20FMDeepV.Words()" }
func (c20FMDeepV) Note() string   { return "c20FMDeepV.Note()" }

type c20FMMidVal struct {
	c20FMMid
	ID int
}

func (c20FMMidVal) Title() string { return "c20FMMidVal.Title()" }
func (c20FMMidVal) Note() string  { return "c20FMMidVal.Note()" }

type c20FMSib struct{ N int }

func (c20FMSib) Title() string  { return "c20FMSib.Title()" }
func (*c20FMSib) Words() string { return "c20FMSib.Words()" }

type c20FMSibling struct { // method one level down (sibling by value), field two levels down
	*c20FMMid
	c20FMSib
}
type c20FMSibPtr struct { // sibling by pointer: calling its method through a nil pointer panics in Go itself
	*c20FMMid
	*c20FMSib
}
type c20FMTop struct { // field three levels down, method two levels down
	*c20FMSibling
	ID int
}

type c20FMArgs struct {
	*c20FMBase
	ID int
}

func (c20FMArgs) Title(prefix string) string { return prefix + "never" }
func (c20FMArgs) Words()                     {}

// method carriers for generated types (reflect.StructOf embeds exported names only)
type C20FMCarS struct{ CarN int }

func (C20FMCarS) Title() string     { return "C20FMCarS.Title()" }
func (C20FMCarS) Words() int        { return -5 }
func (c C20FMCarS) Summary() string { return fmt.Sprintf("C20FMCarS.Summary(%d)", c.CarN) }

type C20FMCarV struct {
	*c20FMBase
	CarN int
}

func (C20FMCarV) Title() string { return "C20FMCarV.Title()" }
func (C20FMCarV) Note() string  { return "C20FMCarV.Note()" }
func (C20FMCarV) N() string     { return "C20FMCarV.N()" }

type C20FMCarP struct {
	CarN int
	CarS string
}

func (*C20FMCarP) Title() string { return "C20FMCarP.Title()" }
func (*C20FMCarP) ID() string    { return "C20FMCarP.ID()" }
func (C20FMCarP) Words() string  { return "C20FMCarP.Words()" }

func init() {
	c20Decls[reflect.TypeOf(c20FMBase{})] = []c20Decl{{"Summary", false, 0, c20Field(0)}}
	c20Decls[reflect.TypeOf(c20FMConstV{})] = []c20Decl{{"Title", false, 0, c20Const("c20FMConstV.Title()")}, {"Words", false, 0, c20Field(1)},
		{"Summary", false, 0, c20Const("c20FMConstV.Summary()")}}
	c20Decls[reflect.TypeOf(c20FMConstP{})] = []c20Decl{{"Title", true, 0, c20Const("c20FMConstP.Title()")}, {"Words", true, 0, c20Field(1)}}
	c20Decls[reflect.TypeOf(c20FMByValue{})] = []c20Decl{{"Title", false, 0, c20Const("c20FMByValue.Title()")}}
	c20Decls[reflect.TypeOf(c20FMDeepV{})] = []c20Decl{{"Title", false, 0, c20Const("c20FMDeepV.Title()")}, {"Words", true, 0, c20Const("c20FMDeepV.Words()")},
		{"Note", false, 0, c20Const("c20FMDeepV.Note()")}}
	c20Decls[reflect.TypeOf(c20FMMidVal{})] = []c20Decl{{"Title", false, 0, c20Const("c20FMMidVal.Title()")}, {"Note", false, 0, c20Const("c20FMMidVal.Note()")}}
	c20Decls[reflect.TypeOf(c20FMSib{})] = []c20Decl{{"Title", false, 0, c20Const("c20FMSib.Title()")}, {"Words", true, 0, c20Const("c20FMSib.Words()")}}
	c20Decls[reflect.TypeOf(c20FMArgs{})] = []c20Decl{{"Title", false, 1, c20Const("never")}, {"Words", false, 0, nil}}
	c20Unmodelled[reflect.TypeOf(c20FMGuardV{})] = true // bodies with a condition
}

func c20FieldMethodValues() []any {
	base := func(i int) *c20FMBase { return &c20FMBase{Title: fmt.Sprintf("title%d", i), Words: 10 + i} }
	mid := func(i int, b *c20FMBase) *c20FMMid { return &c20FMMid{b, fmt.Sprintf("note%d", i)} }
	return []any{
		c20FMGuardV{base(1), 1}, c20FMGuardV{nil, 2},
		c20FMConstV{nil, 3}, c20FMConstV{base(4), 4},
		c20FMConstP{base(5), 5}, c20FMConstP{nil, 6},
		c20FMByValue{*base(7), 7},
		c20FMDeepV{mid(8, base(8)), 8}, c20FMDeepV{mid(9, nil), 9}, c20FMDeepV{nil, 10},
		c20FMMidVal{*mid(11, base(11)), 11}, c20FMMidVal{*mid(12, nil), 12},
		c20FMSibling{mid(13, base(13)), c20FMSib{13}}, c20FMSibling{mid(14, nil), c20FMSib{14}}, c20FMSibling{nil, c20FMSib{15}},
		c20FMSibPtr{mid(16, base(16)), &c20FMSib{16}}, c20FMSibPtr{nil, &c20FMSib{17}}, c20FMSibPtr{mid(18, nil), nil}, c20FMSibPtr{nil, nil},
		c20FMTop{&c20FMSibling{mid(19, base(19)), c20FMSib{19}}, 19}, c20FMTop{&c20FMSibling{nil, c20FMSib{20}}, 20}, c20FMTop{nil, 21},
		c20FMArgs{base(22), 22}, c20FMArgs{nil, 23},
	}
}

var c20FMNames = []string{"Title", "Words", "Note", "Summary", "ID", "N", "c20FMBase", "c20FMMid", "c20FMSib", "c20FMSibling", "FMNope"}

func c20FieldMethodNames(c *c20Run) error {
	e := c.e
	r := e.Rep
	env := c20NewModelEnv()
	var objs []*c20Obj
	for i, v := range c20FieldMethodValues() {
		rt := reflect.TypeOf(v)
		p := reflect.New(rt)
		p.Elem().Set(reflect.ValueOf(v))
		objs = append(objs, &c20Obj{label: fmt.Sprintf("fm%d:%T", i, v), val: v, rt: rt, spec: rt.String(), vi: -1},
			&c20Obj{label: fmt.Sprintf("fm%d:*%T", i, v), val: p.Interface(), rt: rt, spec: rt.String(), vi: -1})
		env.add(rt)
	}
	// generated: the first field embeds a method carrier, the others embed generated structs with the same names deeper
	carriers := []any{C20FMCarS{}, C20FMCarV{}, C20FMCarP{}}
	gen := 0
	for i := 0; i < e.N(24, 200); i++ {
		car := carriers[i%len(carriers)]
		o := c20GenFieldMethod(e.Rng, car, fmt.Sprintf("FMGen%dx%d", e.Seed, i))
		if o == nil {
			r.Skip("structof-refused:field-method")
			continue
		}
		gen++
		o.label = fmt.Sprintf("fmgen%d", i)
		pv := reflect.New(o.rt)
		pv.Elem().Set(reflect.ValueOf(o.val))
		objs = append(objs, o, &c20Obj{label: o.label + ":ptr", val: pv.Interface(), rt: o.rt, spec: o.spec, vi: -1})
	}
	nv := 0
	for _, o := range objs {
		if strings.HasPrefix(o.label, "fmgen") {
			continue // reflect.StructOf types with promoted methods: implementation-only oracle
		}
		o.modelled = env.covered(o.rt)
		if o.modelled {
			o.vi = nv
			nv++
		} else {
			r.Skip("unmodelled-type:" + fmt.Sprintf("%T", o.val))
		}
	}
	sweep := func(phase string, order []int) bool {
		for _, k := range order {
			o := objs[k]
			for _, n := range c20FMNames {
				if !c.check(o, n, false, phase) {
					return false
				}
				if n == "Title" || n == "Words" {
					if !c.check(o, n, true, phase) || !c.check(o, n, false, phase+"-again") {
						return false
					}
				}
			}
		}
		return true
	}
	ident := make([]int, len(objs))
	for i := range ident {
		ident[i] = i
	}
	if !sweep("field-method-first", e.Rng.Perm(len(objs))) {
		return nil
	}
	// a flood interleaved with lookups of the family
	for i := 0; i < 1300 && !r.Full(); i++ {
		c.g.render('d', fmt.Sprintf("FMFlood%d", i), objs[i%len(objs)].val)
		if i%9 == 0 {
			o := objs[e.Rng.Intn(len(objs))]
			if !c.check(o, c20FMNames[e.Rng.Intn(len(c20FMNames))], false, "field-method-flood") {
				return nil
			}
		}
	}
	if !r.Full() && !sweep("field-method-after", ident) {
		return nil
	}
	r.Note(fmt.Sprintf("field/method names (part J): %d hand-written objects, %d generated types with a method carrier", len(objs)-2*gen, gen))
	c.extra = c20FMNames
	defer func() { c.extra = nil }()
	return c.modelBatch(env, objs, map[string]any{"kind": "oldest", "k": 100})
}

// c20GenFieldMethod: struct { carrier (embedded, first); E1 …; E2 … } where every E embeds generated structs (by value or
// by pointer, nil or not) that hold fields named like the carrier's methods one to three levels down.
func c20GenFieldMethod(rng *rand.Rand, carrier any, mark string) (o *c20Obj) {
	defer func() {
		if p := recover(); p != nil {
			o = nil
		}
	}()
	str, num := reflect.TypeOf(""), reflect.TypeOf(0)
	fieldNames := []string{"Title", "Words", "Note", "Summary", "N", "ID"}
	var branch func(depth int, tag string) reflect.Type
	branch = func(depth int, tag string) reflect.Type {
		var fs []reflect.StructField
		used := map[string]bool{}
		for k := rng.Intn(3); k >= 0; k-- {
			n := fieldNames[rng.Intn(len(fieldNames))]
			if used[n] {
				continue
			}
			used[n] = true
			t := str
			if rng.Intn(3) == 0 {
				t = num
			}
			fs = append(fs, reflect.StructField{Name: n, Type: t})
		}
		if depth > 0 {
			sub := branch(depth-1, tag+"x")
			if rng.Intn(2) == 0 {
				sub = reflect.PtrTo(sub)
			}
			fs = append(fs, reflect.StructField{Name: "B" + tag, Type: sub, Anonymous: true})
		}
		return reflect.StructOf(fs)
	}
	ct := reflect.TypeOf(carrier)
	fs := []reflect.StructField{{Name: ct.Name(), Type: ct, Anonymous: true}, {Name: mark, Type: num}}
	for b := 0; b < 1+rng.Intn(2); b++ {
		sub := branch(rng.Intn(3), fmt.Sprintf("r%d", b))
		if rng.Intn(3) != 0 {
			sub = reflect.PtrTo(sub)
		}
		fs = append(fs, reflect.StructField{Name: fmt.Sprintf("Br%d", b), Type: sub, Anonymous: true})
	}
	t := reflect.StructOf(fs)
	v := reflect.New(t).Elem()
	var fill func(v reflect.Value, d int)
	fill = func(v reflect.Value, d int) {
		for i := 0; i < v.NumField(); i++ {
			f := v.Field(i)
			if !f.CanSet() {
				continue
			}
			switch f.Kind() {
			case reflect.String:
				f.SetString(fmt.Sprintf("%s@%d#%d", v.Type().Field(i).Name, d, rng.Intn(1000)))
			case reflect.Int:
				f.SetInt(int64(1 + rng.Intn(1000)))
			case reflect.Struct:
				fill(f, d+1)
			case reflect.Ptr:
				if f.Type().Elem().Kind() == reflect.Struct && rng.Intn(2) == 0 {
					p := reflect.New(f.Type().Elem())
					fill(p.Elem(), d+1)
					f.Set(p)
				}
			}
		}
	}
	fill(v, 0)
	return &c20Obj{val: v.Interface(), rt: t, spec: truncate(t.String(), 1200), vi: -1}
}
