//go:build race

package main

// c02RaceBuild: the stress child built with -race runs a thinner slice of the forced-overlap sweep (it is ~10× slower).
const c02RaceBuild = true
