package main

import (
	"fmt"
	"runtime"
	"runtime/debug"
	"strings"
	"sync"
	"sync/atomic"
	"time"

	"github.com/semihalev/twig"
)

// C04 (h) — the literal text of a template is its own, also when other templates are being parsed at the same time.
//
// Engines are used from many goroutines (one per request) and a busy server has more goroutines than processors, so a
// goroutine is descheduled in the middle of a parse and another one starts parsing on the same processor. Everything
// the parse path takes from a pool (tokenizers and their token buffers, parsers, node and buffer pools) is per-parse
// state: whatever another parse does meanwhile, the node tree of a template is built from its own source — its output
// is its own chunks, exactly once and in order, and nothing of any other template; and a source that parses alone
// parses under load.
//
// Schedule: W goroutines on GOMAXPROCS 1 and 2 (with one processor a sync.Pool hands the object just Put to the next
// Get, and every overlap of two parses is a preemption in the middle of one of them). Every goroutine parses and
// renders its own template again and again, by three routes (Engine.ParseTemplate on a shared engine, RegisterString +
// Render under its own name on the shared engine, an engine of its own). The templates are large enough (about a
// megabyte, several scheduler time slices per parse) for parses to overlap; the run counts the parses that began while
// another was in flight and is repeated until enough of them have been seen, so the schedule the check is about has
// demonstrably happened (reported as distribution "concurrent-parse-overlaps"). Small templates (the other tokenizer
// path) run many more rounds in the same way.
//
// Expected outputs are computed here from the generated lines (no engine involved).

type concTpl struct {
	word, src, want  string
	lineSrc, lineOut string
}

// concTemplate: `lines` lines of the worker's own literal text around a construct whose value is known.
// Workers come in groups of the same shape (foreign tokens then give foreign TEXT) next to other shapes (foreign
// tokens then give a spurious syntax error or a foreign value).
func concTemplate(w, lines int) concTpl {
	word := fmt.Sprintf("<p>worker-%c é\x80 says %s</p> ", 'A'+w, strings.Repeat(string(rune('a'+w)), 8))
	val := fmt.Sprintf("⟦%d⟧", w) // what the worker's context holds under n
	t := concTpl{word: word, lineSrc: word + "{{ n }}\n", lineOut: word + val + "\n"}
	switch w % 8 {
	case 4, 5:
		t.lineSrc, t.lineOut = word+"{# note of "+string(rune('A'+w))+" {{ n }} #}\n", word+"\n"
	case 6:
		t.lineSrc, t.lineOut = word+"{% if n %}y{% endif %}\n", word+"y\n"
	case 7:
		// the dashes eat the blank in front of the tag and the one behind it, nothing else
		t.lineSrc, t.lineOut = word+"{{- n -}} |\n", strings.TrimRight(word, " ")+val+"|\n"
	}
	t.src = strings.Repeat(t.lineSrc, lines)
	t.want = strings.Repeat(t.lineOut, lines)
	return t
}

func concurrentParseCases(e *Env) {
	r := e.Rep
	type size struct{ lines, rounds int }
	sizes := []size{{20000, 3}, {60, 100}}
	if e.Thorough() {
		sizes = []size{{20000, 12}, {60, 2000}, {3000, 60}}
	}
	const workers = 8
	const wantOverlaps = 24
	prev := runtime.GOMAXPROCS(0)
	defer runtime.GOMAXPROCS(prev)
	for _, procs := range []int{1, 2} {
		for _, sz := range sizes {
			tpls := make([]concTpl, workers)
			for w := range tpls {
				tpls[w] = concTemplate(w, sz.lines)
			}
			var overlaps, parses int64
			deadline := time.Now().Add(time.Duration(e.N(4, 30)) * time.Second)
			for batch := 0; batch < 4 && !r.Full(); batch++ {
				runtime.GOMAXPROCS(procs)
				bad := concurrentParseBatch(tpls, sz.rounds, procs, &overlaps, &parses)
				runtime.GOMAXPROCS(prev)
				r.Seen(fmt.Sprintf("conc:%d:%d:%d", procs, sz.lines, batch), true)
				if bad != nil {
					r.Violate(*bad)
					break
				}
				if sz.lines < 1000 || atomic.LoadInt64(&overlaps) >= wantOverlaps || time.Now().After(deadline) {
					break
				}
			}
			r.Dist[fmt.Sprintf("concurrent-parses:procs=%d,lines=%d", procs, sz.lines)] += int(parses)
			if sz.lines >= 1000 {
				r.Dist["concurrent-parse-overlaps"] += int(overlaps)
				if overlaps == 0 {
					r.Skip("concurrent parse: no two parses overlapped")
				}
			}
		}
	}
}

// concurrentParseBatch: every worker parses and renders its template `rounds` times; returns the first violation.
func concurrentParseBatch(tpls []concTpl, rounds, procs int, overlaps, parses *int64) *Violation {
	shared := twig.New()
	var inflight int64
	var mu sync.Mutex
	var bad *Violation
	fail := func(w, round int, route, what string, extra map[string]any) {
		mu.Lock()
		defer mu.Unlock()
		if bad != nil {
			return
		}
		t := tpls[w]
		rp := map[string]any{"kind": "concurrent-parse", "gomaxprocs": procs, "workers": len(tpls), "rounds": rounds, "worker": w, "round": round, "route": route,
			"template_line": t.lineSrc, "template_line_hex": hx(t.lineSrc), "lines": strings.Count(t.src, "\n"), "expected_line": t.lineOut,
			"all_template_lines": func() []string {
				var l []string
				for _, o := range tpls {
					l = append(l, o.lineSrc)
				}
				return l
			}()}
		for k, v := range extra {
			rp[k] = v
		}
		bad = &Violation{Key: "text-of-concurrently-parsed-template", What: what,
			Broken: "theorem C04_chunks: the output of a template is its own literal chunks, exactly once and in order — also when other goroutines parse other templates at the same time (implementation-only oracle; expected output computed from the generated lines)",
			Replay: rp}
	}
	failed := func() bool { mu.Lock(); defer mu.Unlock(); return bad != nil }
	var wg sync.WaitGroup
	start := make(chan struct{})
	for w := range tpls {
		wg.Add(1)
		go func(w int) {
			defer wg.Done()
			t := tpls[w]
			route := []string{"Engine.ParseTemplate on a shared engine", "RegisterString + Render on a shared engine", "RegisterString + Render on an engine of its own"}[w%3]
			<-start
			for round := 0; round < rounds && !failed(); round++ {
				func() {
					defer func() {
						if p := recover(); p != nil {
							fail(w, round, route, fmt.Sprintf("panic while goroutine %d of %d parsed and rendered its template (%d lines of %q) by %s: %v", w, len(tpls), strings.Count(t.src, "\n"), t.lineSrc, route, p),
								map[string]any{"panic": fmt.Sprint(p), "stack": truncate(string(debug.Stack()), 1500)})
						}
					}()
					ctx := map[string]interface{}{"n": fmt.Sprintf("⟦%d⟧", w)}
					var got string
					var err error
					parse := func(f func() error) error {
						if atomic.AddInt64(&inflight, 1) > 1 {
							atomic.AddInt64(overlaps, 1)
						}
						atomic.AddInt64(parses, 1)
						defer atomic.AddInt64(&inflight, -1)
						return f()
					}
					switch w % 3 {
					case 0:
						var tpl *twig.Template
						err = parse(func() (e error) { tpl, e = shared.ParseTemplate(t.src); return })
						if err == nil {
							got, err = tpl.Render(ctx)
						}
					case 1:
						name := fmt.Sprintf("page%d", w)
						err = parse(func() error { return shared.RegisterString(name, t.src) })
						if err == nil {
							got, err = shared.Render(name, ctx)
						}
					default:
						own := twig.New()
						err = parse(func() error { return own.RegisterString("page", t.src) })
						if err == nil {
							got, err = own.Render("page", ctx)
						}
					}
					if err != nil {
						fail(w, round, route, fmt.Sprintf("goroutine %d of %d (GOMAXPROCS %d), round %d: its template (%d lines of %q), which parses and renders alone, fails by %s while the other goroutines parse theirs: %v",
							w, len(tpls), procs, round, strings.Count(t.src, "\n"), t.lineSrc, route, truncate(err.Error(), 200)), map[string]any{"err": err.Error()})
						return
					}
					if got == t.want {
						return
					}
					lineNo, gotLine := 0, ""
					for i, l := range strings.SplitAfter(got, "\n") {
						if l != t.lineOut {
							lineNo, gotLine = i+1, l
							break
						}
					}
					foreign := ""
					for o, other := range tpls {
						if o != w && strings.Contains(got, strings.TrimSpace(other.word)) {
							foreign = fmt.Sprintf(" — the literal text of goroutine %d's template", o)
							break
						}
					}
					fail(w, round, route, fmt.Sprintf("goroutine %d of %d (GOMAXPROCS %d), round %d, %s: line %d of the output of its template (%d lines of %q) is %q%s, expected %q; output has %d bytes, expected %d",
						w, len(tpls), procs, round, route, lineNo, strings.Count(t.src, "\n"), t.lineSrc, truncate(gotLine, 120), foreign, t.lineOut, len(got), len(t.want)),
						map[string]any{"bad_line": lineNo, "got_line": gotLine, "got_line_hex": hx(truncate(gotLine, 400)), "got_bytes": len(got), "want_bytes": len(t.want)})
				}()
			}
		}(w)
	}
	close(start)
	wg.Wait()
	return bad
}
