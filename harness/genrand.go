package main

import (
	"fmt"
	"math/rand"
	"strings"
)

// Gen generates mostly-valid programs from the constructs the properties quantify over.
type Gen struct {
	R *rand.Rand
	// variables known to be defined, by rough type
	Ints, Strs, Bools, Lists, Maps []string
	Depth                          int
	Macros                         []macroSig // macros callable by bare name in the current template
	Modules                        map[string][]macroSig
	Filters                        []string // extra (spy) filters usable in chains
	Functions                      []string // extra (spy) functions
	Tests                          []string
	NoFilters                      bool
	names                          int
}

type macroSig struct {
	Name  string
	Arity int
}

func NewGen(r *rand.Rand) *Gen {
	return &Gen{R: r, Modules: map[string][]macroSig{}}
}

// BaseCtx returns a context covering every value kind and registers the names in the generator.
func (g *Gen) BaseCtx() map[string]any {
	r := g.R
	ctx := map[string]any{
		"n":     r.Intn(9) + 1,
		"m":     r.Intn(40) - 20,
		"zero":  0,
		"s":     pick(r, []string{"abc", "Hello World", "x", "a b", "q'q", "12", "007", "tail "}),
		"name":  pick(r, []string{"bob", "<b>&", "ZED", "o\"o"}),
		"empty": "",
		"t":     true,
		"f":     false,
		"nul":   nil,
		"xs":    g.randList(1 + r.Intn(4)),
		"ys":    []interface{}{},
		"zs":    []interface{}{r.Intn(5), "k", true, nil},
		"user":  map[string]interface{}{"name": "ann", "age": 30 + r.Intn(10), "tags": []interface{}{"a", "b"}, "admin": r.Intn(2) == 0},
		"em":    map[string]interface{}{},
		"mm":    map[string]interface{}{"b": 2, "a": 1, "c": "three"},
	}
	g.Ints = []string{"n", "m", "zero"}
	g.Strs = []string{"s", "name", "empty"}
	g.Bools = []string{"t", "f"}
	g.Lists = []string{"xs", "ys", "zs"}
	g.Maps = []string{"user", "em", "mm"}
	return ctx
}

func (g *Gen) randList(n int) []interface{} {
	out := make([]interface{}, n)
	for i := range out {
		switch g.R.Intn(3) {
		case 0:
			out[i] = g.R.Intn(20)
		case 1:
			out[i] = pick(g.R, []string{"a", "bb", "C", "d e"})
		default:
			out[i] = g.R.Intn(7) - 3
		}
	}
	return out
}

func (g *Gen) fresh(prefix string) string {
	g.names++
	return fmt.Sprintf("%s%d", prefix, g.names)
}

var strPool = []string{"", "a", "ab", "x y", "it's", "say \"hi\"", "A-Z", "0", "7", "12", " in ", " with ", "=", "a=b", "is", "not", "né", "{", "|", "?:", "#"}

func (g *Gen) IntE(d int) GExpr {
	r := g.R
	if d <= 0 || r.Intn(3) == 0 {
		switch r.Intn(4) {
		case 0:
			return EVar{pick(r, g.Ints)}
		case 1:
			return ELit{r.Intn(13)}
		case 2:
			return ELit{r.Intn(7) - 3}
		default:
			return EAttr{EVar{"user"}, "age"}
		}
	}
	switch r.Intn(12) {
	case 0, 1, 2:
		return EBin{pick(r, []string{"+", "-", "*"}), g.IntE(d - 1), g.IntE(d - 1)}
	case 3:
		return EBin{"%", g.IntE(d - 1), ELit{1 + r.Intn(5)}}
	case 4:
		return EBin{"^", ELit{r.Intn(4)}, ELit{r.Intn(4)}}
	case 5:
		return EUn{"-", g.IntE(d - 1)}
	case 6:
		return ECond{g.BoolE(d - 1), g.IntE(d - 1), g.IntE(d - 1)}
	case 7:
		return EFilter{g.ListE(d - 1), "length", nil}
	case 8:
		return EFilter{g.IntE(d - 1), "abs", nil}
	case 9:
		return EItem{EArr{[]GExpr{g.IntE(d - 1), g.IntE(d - 1)}}, ELit{r.Intn(2)}}
	case 10:
		return EBin{"/", EBin{"*", g.IntE(d - 1), ELit{1 + r.Intn(4)}}, ELit{1 + r.Intn(4)}}
	default:
		return EFilter{EVar{"nul"}, "default", []GExpr{g.IntE(d - 1)}}
	}
}

func (g *Gen) BoolE(d int) GExpr {
	r := g.R
	if d <= 0 || r.Intn(4) == 0 {
		switch r.Intn(3) {
		case 0:
			return EVar{pick(r, g.Bools)}
		case 1:
			return ELit{r.Intn(2) == 0}
		default:
			return EAttr{EVar{"user"}, "admin"}
		}
	}
	switch r.Intn(12) {
	case 0, 1:
		return EBin{pick(r, []string{"and", "or"}), g.BoolE(d - 1), g.BoolE(d - 1)}
	case 2:
		return EUn{"not", g.BoolE(d - 1)}
	case 3, 4:
		return EBin{pick(r, []string{"==", "!=", "<", ">", "<=", ">="}), g.IntE(d - 1), g.IntE(d - 1)}
	case 5:
		return EBin{pick(r, []string{"==", "!="}), g.StrE(d - 1), g.StrE(d - 1)}
	case 6:
		return EBin{pick(r, []string{"in", "not in"}), g.AtomE(), g.ListE(d - 1)}
	case 7:
		return EBin{pick(r, []string{"starts with", "ends with"}), g.StrE(d - 1), g.StrE(0)}
	case 8:
		return ETest{g.AnyVarE(), pick(r, []string{"defined", "empty", "null", "iterable"}), r.Intn(3) == 0, nil}
	case 9:
		return ETest{g.IntE(d - 1), pick(r, []string{"even", "odd"}), r.Intn(3) == 0, nil}
	case 10:
		return EBin{"in", g.StrE(0), g.StrE(d - 1)}
	default:
		// truthiness of arbitrary values
		return EBin{pick(r, []string{"and", "or"}), g.AnyE(d - 1), g.BoolE(d - 1)}
	}
}

func (g *Gen) StrE(d int) GExpr {
	r := g.R
	if d <= 0 || r.Intn(3) == 0 {
		switch r.Intn(3) {
		case 0:
			return EVar{pick(r, g.Strs)}
		case 1:
			return ELit{pick(r, strPool)}
		default:
			return EAttr{EVar{"user"}, "name"}
		}
	}
	switch r.Intn(9) {
	case 0, 1:
		return EBin{"~", g.AnyScalarE(d - 1), g.AnyScalarE(d - 1)}
	case 2:
		if g.NoFilters {
			return g.StrE(0)
		}
		switch r.Intn(4) {
		case 0:
			// filters the pipeline model takes over from the filter model (TwigModel.Filters): rune-wise on every byte string
			return EFilter{g.StrE(d - 1), pick(r, []string{"capitalize", "title", "reverse", "first", "last"}), nil}
		case 1:
			return EFilter{g.StrE(d - 1), "slice", []GExpr{ELit{r.Intn(5) - 2}, ELit{r.Intn(4)}}}
		}
		return EFilter{g.StrE(d - 1), pick(r, []string{"upper", "lower", "trim", "escape", "e", "raw"}), nil}
	case 3:
		return EFilter{g.ListE(d - 1), "join", []GExpr{ELit{pick(r, []string{",", "-", ""})}}}
	case 4:
		return ECond{g.BoolE(d - 1), g.StrE(d - 1), g.StrE(d - 1)}
	case 5:
		return EFilter{g.StrE(d - 1), "default", []GExpr{g.StrE(0)}}
	case 6:
		return EItem{EVar{"mm"}, ELit{"c"}}
	case 7:
		if len(g.Filters) > 0 {
			return EFilter{g.StrE(d - 1), pick(r, g.Filters), nil}
		}
		return g.StrE(d - 1)
	default:
		if len(g.Functions) > 0 {
			return ECall{pick(r, g.Functions), []GExpr{g.AnyScalarE(d - 1)}}
		}
		return EBin{"~", g.StrE(d - 1), ELit{"!"}}
	}
}

func (g *Gen) ListE(d int) GExpr {
	r := g.R
	if d <= 0 || r.Intn(3) == 0 {
		switch r.Intn(3) {
		case 0:
			return EVar{pick(r, g.Lists)}
		case 1:
			n := r.Intn(4)
			items := make([]GExpr, n)
			for i := range items {
				items[i] = g.AtomE()
			}
			return EArr{items}
		default:
			return EAttr{EVar{"user"}, "tags"}
		}
	}
	switch r.Intn(10) {
	case 7:
		return EFilter{g.ListE(d - 1), "slice", []GExpr{ELit{r.Intn(7) - 3}, pick(r, []GExpr{ELit{r.Intn(4)}, ELit{-1}, ELit{nil}})}}
	case 8:
		return EFilter{g.ListE(d - 1), "sort", nil}
	case 9:
		return EFilter{g.StrE(d - 1), "split", []GExpr{ELit{pick(r, []string{",", " ", "", "a", ", ", ";,", "é"})}}}
	case 0:
		return ECall{"range", []GExpr{ELit{r.Intn(4)}, ELit{r.Intn(6)}}}
	case 1:
		return ECall{"range", []GExpr{ELit{r.Intn(9) - 3}, ELit{r.Intn(9) - 3}, ELit{pick(r, []int{1, 2, 3, -1, -2})}}}
	case 2:
		return EFilter{g.ListE(d - 1), "reverse", nil}
	case 3:
		return EFilter{g.ListE(d - 1), "merge", []GExpr{g.ListE(d - 1)}}
	case 4:
		return EFilter{EVar{pick(r, g.Maps)}, "keys", nil}
	case 5:
		return ECond{g.BoolE(d - 1), g.ListE(d - 1), g.ListE(d - 1)}
	default:
		return EFilter{EVar{"nul"}, "default", []GExpr{g.ListE(d - 1)}}
	}
}

func (g *Gen) AtomE() GExpr {
	r := g.R
	switch r.Intn(5) {
	case 0:
		return ELit{r.Intn(20)}
	case 1:
		return ELit{pick(r, strPool)}
	case 2:
		return ELit{r.Intn(2) == 0}
	case 3:
		return ELit{nil}
	default:
		return g.AnyVarE()
	}
}

func (g *Gen) AnyVarE() GExpr {
	r := g.R
	all := append(append(append(append([]string{}, g.Ints...), g.Strs...), g.Bools...), g.Lists...)
	all = append(all, g.Maps...)
	all = append(all, "nul", "undefinedvar")
	switch r.Intn(6) {
	case 0:
		return EAttr{EVar{"user"}, pick(r, []string{"name", "age", "nope", "tags"})}
	case 1:
		return EItem{EVar{"mm"}, ELit{pick(r, []string{"a", "b", "zz"})}}
	}
	return EVar{pick(r, all)}
}

func (g *Gen) AnyScalarE(d int) GExpr {
	switch g.R.Intn(4) {
	case 0:
		return g.IntE(d)
	case 1:
		return g.BoolE(d)
	default:
		return g.StrE(d)
	}
}

func (g *Gen) AnyE(d int) GExpr {
	switch g.R.Intn(6) {
	case 0:
		return g.IntE(d)
	case 1:
		return g.BoolE(d)
	case 2:
		return g.ListE(d)
	case 3:
		return g.AnyVarE()
	case 4:
		return EVar{pick(g.R, g.Maps)}
	default:
		return g.StrE(d)
	}
}

// ---- statements -------------------------------------------------------------------------------------

type BodyOpts struct {
	Includes []string // templates that may be included
	InLoop   bool
	NoSet    bool
}

func (g *Gen) lit() string { return genLit(g.R, 8) }

// Body generates a list of nodes at nesting depth d.
func (g *Gen) Body(d int, o BodyOpts) []GNode {
	r := g.R
	n := 1 + r.Intn(4)
	var out []GNode
	for i := 0; i < n; i++ {
		if r.Intn(3) == 0 {
			out = append(out, NText{g.lit()})
		}
		out = append(out, g.Stmt(d, o))
	}
	if r.Intn(2) == 0 {
		out = append(out, NText{g.lit()})
	}
	return out
}

func (g *Gen) printable(d int) GExpr {
	switch g.R.Intn(8) {
	case 0:
		return g.IntE(d)
	case 1:
		return g.BoolE(d)
	case 2:
		return g.AnyVarE()
	case 3:
		return g.ListE(d) // prints with Go's %v
	default:
		return g.StrE(d)
	}
}

func (g *Gen) Stmt(d int, o BodyOpts) GNode {
	r := g.R
	k := r.Intn(20)
	if d <= 0 && k >= 8 && k < 16 {
		k = r.Intn(8)
	}
	switch {
	case k < 6:
		if o.InLoop && r.Intn(3) == 0 {
			return NPrint{EAttr{EVar{"loop"}, pick(r, []string{"index", "index0", "revindex", "revindex0", "first", "last", "length"})}}
		}
		return NPrint{g.printable(2)}
	case k < 8:
		return NComment{strings.ReplaceAll(genRaw(r, 10), "#}", "# }")}
	case k < 11: // if / elseif / else
		nb := 1 + r.Intn(3)
		x := NIf{}
		for i := 0; i < nb; i++ {
			c := g.BoolE(2)
			if r.Intn(3) == 0 {
				c = g.AnyE(1) // truthiness of every value kind
			}
			x.Conds = append(x.Conds, c)
			x.Bodies = append(x.Bodies, g.Body(d-1, o))
		}
		if r.Intn(2) == 0 {
			x.HasElse = true
			x.Else = g.Body(d-1, o)
		}
		return x
	case k < 14: // for
		x := NFor{Val: pick(r, []string{"v", "item", "x1"}), Seq: g.ListE(1)}
		switch r.Intn(6) {
		case 0:
			x.Seq = EVar{pick(r, g.Maps)}
			x.Key = "k"
		case 1:
			x.Seq = g.StrE(0)
		case 2:
			x.Seq = g.AnyVarE()
		case 3:
			x.Key = "idx"
		}
		saved := *g
		g.Strs = append([]string{}, g.Strs...)
		o2 := o
		o2.InLoop = true
		body := []GNode{NText{"["}, NPrint{EVar{x.Val}}}
		if x.Key != "" {
			body = append(body, NText{":"}, NPrint{EVar{x.Key}})
		}
		body = append(body, g.Body(d-1, o2)...)
		body = append(body, NText{"]"})
		x.Body = body
		*g = saved
		if r.Intn(2) == 0 {
			x.HasElse = true
			x.Else = g.Body(d-1, o)
		}
		return x
	case k < 16:
		if o.NoSet {
			return NPrint{g.printable(1)}
		}
		switch r.Intn(4) {
		case 0:
			name := g.fresh("i")
			e := g.IntE(2)
			g.Ints = append(append([]string{}, g.Ints...), name)
			return NSet{name, e}
		case 1:
			name := g.fresh("w")
			e := g.StrE(2)
			g.Strs = append(append([]string{}, g.Strs...), name)
			return NSet{name, e}
		case 2:
			// overwrite an existing variable: later statements and iterations must see it
			name := pick(r, g.Ints)
			return NSet{name, EBin{"+", EVar{name}, ELit{1 + r.Intn(3)}}}
		default:
			name := g.fresh("l")
			e := g.ListE(1)
			g.Lists = append(append([]string{}, g.Lists...), name)
			return NSet{name, e}
		}
	case k < 17:
		if len(o.Includes) > 0 {
			return g.Include(o.Includes)
		}
		return NPrint{g.printable(1)}
	case k < 18:
		if len(g.Macros) > 0 {
			m := pick(r, g.Macros)
			return NPrint{g.MacroCall(m, "")}
		}
		return NText{g.lit()}
	case k < 19:
		return NVerbatim{"{{ " + pick(r, ident) + " }}" + genLit(r, 4)}
	default:
		if g.NoFilters {
			return NText{g.lit()}
		}
		f := pick(r, []string{"upper", "lower", "escape", "trim"})
		if len(g.Filters) > 0 && r.Intn(2) == 0 {
			f = pick(r, g.Filters)
		}
		return NApply{f, g.Body(d-1, BodyOpts{NoSet: true, Includes: o.Includes, InLoop: o.InLoop})}
	}
}

func (g *Gen) MacroCall(m macroSig, via string) GExpr {
	r := g.R
	argc := m.Arity + r.Intn(3) - 1
	if argc < 0 {
		argc = 0
	}
	args := make([]GExpr, argc)
	for i := range args {
		args[i] = g.AnyScalarE(1)
	}
	if via != "" {
		return EMCall{EVar{via}, m.Name, args}
	}
	return ECall{m.Name, args}
}

func (g *Gen) Include(names []string) GNode {
	r := g.R
	x := NInclude{E: ELit{pick(r, names)}}
	if r.Intn(6) == 0 {
		x.E = EBin{"~", ELit{x.E.(ELit).V.(string)}, ELit{""}} // computed name
	}
	if r.Intn(2) == 0 {
		nk := 1 + r.Intn(2)
		for i := 0; i < nk; i++ {
			x.WithKeys = append(x.WithKeys, pick(r, []string{"p", "q", "n", "s"}))
			x.WithVals = append(x.WithVals, g.AnyScalarE(1))
		}
		// duplicate keys: only the last survives in Go's map; keep them distinct
		seen := map[string]bool{}
		var ks []string
		var vs []GExpr
		for i, k := range x.WithKeys {
			if !seen[k] {
				seen[k] = true
				ks = append(ks, k)
				vs = append(vs, x.WithVals[i])
			}
		}
		x.WithKeys, x.WithVals = ks, vs
	}
	x.Only = r.Intn(4) == 0
	x.IgnoreMissing = r.Intn(5) == 0
	if x.IgnoreMissing && r.Intn(2) == 0 {
		x.E = ELit{"no-such-template"}
	}
	return x
}
