package main

import (
	"fmt"
	"math/big"
	"regexp"
	"strings"
)

// C08 — expressions follow the operator table and mean the same in every position.

func init() { register("C08", runC08) }

var allBinOps = []string{"or", "and", "==", "!=", "<", ">", "<=", ">=", "in", "not in", "starts with", "ends with", "+", "-", "~", "*", "/", "%", "^"}

// show wraps an expression so that its value is printed in a canonical, type-revealing way
func showTpl(src string) string { return "{{ " + src + " }}" }

func exprCase(src string, ctx map[string]any) *Case {
	return &Case{Templates: map[string]string{"main": showTpl(src), "show": "{{ v }}"}, Main: "main", Ctx: ctx, FailAt: -1}
}

func runC08(e *Env) error {
	r := e.Rep
	rg := e.Rng
	r.Rule = "(a) every ordered pair of binary operators × both groupings × several atom assignments: minimal vs full parenthesisation on the real engine, minimal spelling also through the Lean model; " +
		"(b) random expression trees (depth ≤ 4, thorough 6) over literals, variables, attribute/index access, unary, binary, conditional, tests, filters, printed minimal / full / with redundant parentheses and random spacing; " +
		"(a') every symbolic operator between 13 left and 10 right operand shapes written with no spaces vs with spaces; (c) one expression in ten syntactic positions; (d'') `matches` with and without the i flag asked in three orders against package regexp; (d) short-circuit and conditional evaluation observed through spy functions; (e) exact integer arithmetic against math/big; " +
		"(f) integers of every decimal length up to 2^53 computed by + - * / % ^ and unary minus, written in every text-taking position (~, starts/ends with, in, matches, hash keys, subscripts, string filters, join, comparison with text, set, for, if, include, macro) against math/big's decimal spelling; " +
		"(g) every position of eleven kinds of sequence addressed by a subscript computed in 32 ways (operators, Go int / int64 / float64 variables, set variables, filters, functions, conditionals, text, loop variables, random p + T - T), the access written in every syntactic position, against the element put there; " +
		"(h) decimals held as text (every 0.00 .. 0.99, grids, signs, exponents, other spellings, 17 digits, random) from eleven sources in every comparison and arithmetic operator and position against strconv.ParseFloat and IEEE arithmetic, validated on number literals and float64 values first; " +
		"(i) prefix operators (-, +, not, doubled, mixed) in front of subscripted operands (context list, list literal, map, nested list, range(), call results, attribute paths, parenthesised) with literal / computed / string / nested / chained subscripts, followed by nothing, a filter, a binary operator on either side, a comparison, a test or a conditional, in every syntactic position, through the model and against the element put there; " +
		"(j) integer literals 0..99 and a ladder up to 2^53 written with 0..3 leading zeros, alone, as either operand of every operator, without spaces, as arguments / defaults / subscripts / hash keys / list elements and in every tag, decimal fractions with padded integer part and trailing zeros, random trees with every literal padded, against the base-ten value of the digits; " +
		"(k) results kept (set variable, list / hash element, conditional arm, macro call defined locally / imported by name / renamed / through a module alias / _self / nested / collected by merge in a loop), every operand then reassigned / shadowed / advanced, finally printed in ten ways, against the value the expression prints on the spot, and arguments of kept calls evaluated exactly once; " +
		"(l) string literals written from values (every string of length ≤ 3 over \\ ' \" a { } and longer ones) with single and double quotes, backslashes and the delimiter escaped, the other quote and braces escaped or not, in 25 positions (print, ~, comparison, hash key / value, list element, subscript, filter / function / macro argument, macro default, set, if, include-with, for, large template), against the value; " +
		"non-trivial = at least two operators; distinct by source"
	ctx := map[string]any{"a": 7, "b": 2, "c": 3, "s": "ab", "u": "b", "t": true, "f": false, "l": []interface{}{1, 2, "b"}, "z": 0}
	atomSets := [][3]GExpr{
		{EVar{"a"}, EVar{"b"}, EVar{"c"}},
		{ELit{1}, ELit{0}, ELit{2}},
		{EVar{"s"}, EVar{"u"}, EVar{"l"}},
		{EVar{"t"}, EVar{"f"}, EVar{"z"}},
		{ELit{"12"}, ELit{3}, ELit{"3"}},
	}
	// (a) operator pairs
	pairEvals := 0
	for _, o1 := range allBinOps {
		for _, o2 := range allBinOps {
			for ai, at := range atomSets {
				if !e.Thorough() && ai > 2 && (o1 > "m" || o2 > "m") {
					continue // quick tier: all pairs on three atom sets, a sample on the other two
				}
				for _, tree := range []GExpr{EBin{o2, EBin{o1, at[0], at[1]}, at[2]}, EBin{o1, at[0], EBin{o2, at[1], at[2]}}} {
					min, full := canon.expr(tree), fullParens.expr(tree)
					cMin, cFull := exprCase(min, ctx), exprCase(full, ctx)
					iMin, _, _, err := compareCase(e, cMin, "render-model-c08", "correspondence (Lean lexer+parser+evaluator vs real engine) on operator pairs")
					if err != nil {
						return err
					}
					iFull := runImpl(cFull)
					pairEvals++
					r.Seen("p:"+min, true)
					if iMin.Class != iFull.Class || iMin.Out != iFull.Out {
						if r.Violate(Violation{Key: "min-vs-full-parens", What: fmt.Sprintf("%s = %q (%s) but %s = %q (%s)", min, iMin.Out, iMin.Class, full, iFull.Out, iFull.Class),
							Broken: "theorem C08_parse_printMin / C08_table_order no longer describes the code (implementation-only oracle: minimal vs full parenthesisation)",
							Replay: map[string]any{"kind": "expr-pair", "min": min, "full": full, "out_min": iMin.Out, "out_full": iFull.Out, "class_min": iMin.Class, "class_full": iFull.Class, "ctx": fmt.Sprint(ctx)}}) {
							return nil
						}
					}
				}
			}
		}
	}
	r.Note(fmt.Sprintf("operator-pair evaluations: %d", pairEvals))
	c08Names(e)
	// (a') tight spellings: every symbolic operator between every kind of left and right operand with no space at all
	// (a sign, a bracket or a quote next to the operator must not change how it is read)
	{
		tctx := map[string]any{"a": 7, "b": 2, "l": []interface{}{5, 3, 1}, "m": map[string]interface{}{"k": 9}, "s": "ab"}
		lefts := []string{"a", "7", "l[1]", "m['k']", "m.k", "(4)", "l|length", "length(l)", "'12'", "\"3\"", "[8][0]", "{'q': 8}['q']", "{'q': 8}.q"}
		rights := []string{"b", "1", "l[2]", "(2)", "m['k']", "'2'", "-1", "- 1", "+1", "[2][0]"}
		for _, op := range []string{"==", "!=", "<", ">", "<=", ">=", "+", "-", "~", "*", "/", "%", "^"} {
			for _, lft := range lefts {
				for _, rgt := range rights {
					tight, spaced := lft+op+rgt, lft+" "+op+" "+rgt
					iT, _, _, err := compareCase(e, exprCase(tight, tctx), "render-model-c08", "correspondence (Lean lexer+parser+evaluator vs real engine) on operators written without spaces")
					if err != nil {
						return err
					}
					iS := runImpl(exprCase(spaced, tctx))
					r.Seen("tight:"+tight, true)
					r.Hit("tight-spelling")
					if iT.Class != iS.Class || iT.Out != iS.Out {
						if r.Violate(Violation{Key: "spacing-changes-value", What: fmt.Sprintf("%s = %q (%s %s) but %s = %q (%s)", tight, iT.Out, iT.Class, truncate(iT.Msg, 80), spaced, iS.Out, iS.Class),
							Broken: "theorem C08_lex_spacing no longer describes the code (implementation-only oracle: spaces around an operator do not matter)",
							Replay: map[string]any{"kind": "expr-pair", "min": tight, "full": spaced, "out_min": iT.Out, "out_full": iS.Out, "class_min": iT.Class, "class_full": iS.Class, "ctx": fmt.Sprint(tctx)}}) {
							return nil
						}
					}
				}
			}
		}
	}
	// (b) random trees
	n := e.N(2500, 120000)
	depth := e.N(4, 6)
	for i := 0; i < n && !r.Full(); i++ {
		g := NewGen(rg)
		gctx := g.BaseCtx()
		var tree GExpr
		switch rg.Intn(4) {
		case 0:
			tree = g.IntE(depth)
		case 1:
			tree = g.BoolE(depth)
		case 2:
			tree = g.StrE(depth)
		default:
			tree = g.AnyScalarE(depth)
		}
		min := canon.expr(tree)
		full := fullParens.expr(tree)
		rnd := Style{Rng: rg, Extra: 0.3}.expr(tree)
		cMin := exprCase(min, gctx)
		iMin, _, _, err := compareCase(e, cMin, "render-model-c08", "correspondence (Lean lexer+parser+evaluator vs real engine) on random expression trees")
		if err != nil {
			return err
		}
		iFull, iRnd := runImpl(exprCase(full, gctx)), runImpl(exprCase(rnd, gctx))
		ops := strings.Count(min, " ")
		r.Seen("t:"+min, ops >= 4)
		r.Hit("class:" + iMin.Class)
		if i < 2 {
			r.Sample(map[string]any{"minimal": min, "full": full, "random_spelling": rnd, "value": iMin.Out})
		}
		if iMin.Class != iFull.Class || iMin.Out != iFull.Out || iMin.Class != iRnd.Class || iMin.Out != iRnd.Out {
			if r.Violate(Violation{Key: "spelling-changes-value", What: fmt.Sprintf("spellings of one tree differ: %s → %q (%s); %s → %q (%s); %s → %q (%s)", min, iMin.Out, iMin.Class, full, iFull.Out, iFull.Class, truncate(rnd, 120), iRnd.Out, iRnd.Class),
				Broken: "theorem C08_parse_printMin / C08_lex_spacing no longer describes the code (implementation-only oracle)",
				Replay: map[string]any{"kind": "expr-spellings", "min": min, "full": full, "random": rnd, "outs": []string{iMin.Out, iFull.Out, iRnd.Out}, "classes": []string{iMin.Class, iFull.Class, iRnd.Class}, "ctx": fmt.Sprint(gctx)}}) {
				return nil
			}
		}
		// (c) positions, for a sample
		if i%5 == 0 && iMin.Class == "" {
			if err := positions(e, min, gctx, iMin.Out); err != nil {
				return err
			}
		}
	}
	// (c') string literals holding runs of blanks, tabs and line breaks keep every byte in every position
	for _, lit := range []string{"'a  b'", "\"x\ty\"", "'p\nq'", "'  lead'", "'trail  '", "'a   in   b'", "'x  ~  y'", "\"q \t \n r\"", "'one  two' ~ \"  three\"", "['a  b', 'c\td']|join('  ')"} {
		ref := runImpl(exprCase(lit, ctx))
		if ref.Class != "" {
			continue
		}
		if err := positions(e, lit, ctx, ref.Out); err != nil {
			return err
		}
		r.Hit("whitespace-in-literal")
	}
	// (d) short-circuit / conditional
	for _, sc := range []struct {
		src   string
		calls int
		out   string
	}{
		{"f and spy()", 0, "false"}, {"t and spy()", 1, "true"}, {"t or spy()", 0, "true"}, {"f or spy()", 1, "true"},
		{"t ? 'x' : spy()", 0, "x"}, {"f ? spy() : 'y'", 0, "y"}, {"t ? spy() : spy2()", 1, "spy"}, {"f and spy() or t", 0, "true"},
		{"(z and spy()) ~ (a or spy2())", 0, "falsetrue"}, {"f and (t or spy())", 0, "false"},
	} {
		c := exprCase(sc.src, ctx)
		c.SpyFunctions = []string{"spy", "spy2"}
		im, _, _, err := compareCase(e, c, "render-model-c08", "correspondence on short-circuit programs")
		if err != nil {
			return err
		}
		r.Seen("s:"+sc.src, true)
		if im.Class != "" || len(im.Spies) != sc.calls || im.Out != sc.out {
			r.Violate(Violation{Key: "short-circuit", What: fmt.Sprintf("%s: %d callback invocations (want %d), output %q (want %q)", sc.src, len(im.Spies), sc.calls, im.Out, sc.out),
				Broken: "theorem C08_short_circuit no longer describes the code (implementation-only oracle)",
				Replay: map[string]any{"kind": "expr", "src": sc.src, "spies": fmt.Sprint(im.Spies), "out": im.Out, "class": im.Class}})
		}
	}
	// (d') membership in long sequences (the engine switches to a lookup table above 50 elements): same answers as in short ones
	for _, lst := range []string{"range(1, 60)", "range(1, 50)", "range(1, 51)", "range(0, 200, 2)", "long", "longs"} {
		for _, needle := range []string{"3", "1 + 2", "6 / 2", "'3'", "'1' ~ '2'", "n", "n + 0", "61", "-1", "'x'", "nul", "t"} {
			for _, op := range []string{"in", "not in"} {
				src := needle + " " + op + " " + lst
				c := exprCase(src, map[string]any{"n": 12, "nul": nil, "t": true,
					"long": func() []interface{} {
						o := make([]interface{}, 70)
						for i := range o {
							o[i] = i
						}
						return o
					}(),
					"longs": func() []interface{} {
						o := make([]interface{}, 70)
						for i := range o {
							o[i] = fmt.Sprint(i)
						}
						return o
					}()})
				if _, _, _, err := compareCase(e, c, "render-model-c08", "correspondence on membership in long sequences"); err != nil {
					return err
				}
				r.Seen("in:"+src, true)
			}
		}
	}
	if matchesOracle(e, "C08 operator semantics (implementation-only oracle against package regexp; regular expressions are not modelled)") {
		return nil
	}
	// (f) computed integers of every decimal length written as text in every text-taking position (c08_numstr.go)
	if err := c08NumbersAsText(e); err != nil {
		return err
	}
	if err := c08WordStrings(e); err != nil {
		return err
	}
	// (h) numbers held as text in every operator (c08_dectext.go)
	if err := c08DecimalText(e); err != nil {
		return err
	}
	// (g) index accesses whose subscript is computed (c08_subscript.go)
	if err := c08ComputedSubscripts(e); err != nil {
		return err
	}
	// (i) prefix operators in front of subscripted operands (c08_prefix.go)
	if err := c08PrefixSubscripts(e); err != nil {
		return err
	}
	// (j) number literals written with leading / trailing zeros (c08_literals.go)
	if err := c08LiteralSpellings(e); err != nil {
		return err
	}
	// (l) string literals written from values: escaped backslashes and quotes (c08_quotes.go)
	if err := c08QuoteEscapes(e); err != nil {
		return err
	}
	// (k) results kept and used after their operands were reassigned (c08_kept.go)
	if err := c08KeptValues(e); err != nil {
		return err
	}
	if r.Full() {
		return nil
	}
	// (e) exact integer arithmetic
	n = e.N(600, 30000)
	for i := 0; i < n && !r.Full(); i++ {
		bits := []int{4, 12, 26, 40, 52}[rg.Intn(5)]
		a := rg.Int63n(1<<uint(bits)) - (1 << uint(bits-1))
		b := rg.Int63n(1<<uint(bits)) - (1 << uint(bits-1))
		if i%3 == 0 {
			// neighbours at large magnitude: comparisons are exact up to 2^53, not "to 14 digits"
			a = int64(1)<<uint(44+rg.Intn(9)) + rg.Int63n(1000) - 500
			if rg.Intn(2) == 0 {
				a = -a
			}
			b = a + int64(rg.Intn(3)-1)
		}
		op := pick(rg, []string{"+", "-", "*", "%", "==", "<", ">=", "!=", "==", "!=", "in", "not in"})
		A, B := big.NewInt(a), big.NewInt(b)
		var want string
		lim := new(big.Int).Lsh(big.NewInt(1), 53)
		res := new(big.Int)
		switch op {
		case "+":
			res.Add(A, B)
		case "-":
			res.Sub(A, B)
		case "*":
			res.Mul(A, B)
		case "%":
			if b == 0 {
				continue
			}
			res.Rem(A, B) // truncated, sign of the dividend: math.Mod
		case "==":
			want = fmt.Sprint(a == b)
		case "<":
			want = fmt.Sprint(a < b)
		case ">=":
			want = fmt.Sprint(a >= b)
		case "!=":
			want = fmt.Sprint(a != b)
		case "in":
			want = fmt.Sprint(a == b)
		case "not in":
			want = fmt.Sprint(a != b)
		}
		if want == "" {
			if new(big.Int).Abs(res).Cmp(lim) > 0 {
				continue
			}
			want = res.String()
		}
		src := fmt.Sprintf("x %s y", op)
		if op == "in" || op == "not in" {
			src = fmt.Sprintf("x %s [y, 'q']", op)
		}
		im := runImpl(exprCase(src, map[string]any{"x": int(a), "y": int(b)}))
		r.Seen(fmt.Sprintf("e:%d%s%d", a, op, b), true)
		if im.Class != "" || im.Out != want {
			if r.Violate(Violation{Key: "inexact-arithmetic", What: fmt.Sprintf("%d %s %d renders %q (%s), exact result %s", a, op, b, im.Out, im.Class, want),
				Broken: "theorem C08_arith_exact no longer describes the code (implementation-only oracle against math/big)",
				Replay: map[string]any{"kind": "arith", "a": a, "b": b, "op": op, "got": im.Out, "want": want}}) {
				break
			}
		}
	}
	return nil
}

// positions renders one expression in ten syntactic positions; each must show the same value.
func positions(e *Env, src string, ctx map[string]any, want string) error {
	r := e.Rep
	forms := map[string]string{
		"set":            "{% set x = " + src + " %}{{ x }}",
		"array-elem":     "{{ [" + src + "][0] }}",
		"for-seq":        "{% for v in [" + src + "] %}{{ v }}{% endfor %}",
		"hash-value":     "{% set h = {'k': " + src + "} %}{{ h.k }}",
		"filter-arg":     "{{ nul|default(" + src + ") }}",
		"include":        "{% include 'show' with {'v': " + src + "} only %}",
		"include-rebind": "{% include 'show' with {" + rebindAll(ctx) + "'v': " + src + "} %}",
		"macro-arg":      "{% macro id(q) %}{{ q }}{% endmacro %}{{ id(" + src + ") }}",
		"cond-arm":       "{{ t ? " + src + " : 0 }}",
		"parens":         "{{ ((" + src + ")) }}",
		"print-large":    largeFiller + "{{ " + src + " }}",
		"if-large":       largeFiller + "{% if true %}{{ " + src + " }}{% endif %}",
	}
	// default() replaces empty values, so that position is only comparable for non-empty results
	for name, tpl := range forms {
		if name == "filter-arg" && (want == "" || want == "false" || want == "0") {
			continue
		}
		c := &Case{Templates: map[string]string{"main": tpl, "show": "{{ v }}"}, Main: "main", Ctx: ctx, FailAt: -1}
		im, _, _, err := compareCase(e, c, "render-model-c08", "correspondence on expression positions")
		if err != nil {
			return err
		}
		r.Seen("pos:"+name+":"+src, true)
		r.Hit("position:" + name)
		if strings.HasSuffix(name, "-large") {
			im.Out = strings.TrimPrefix(im.Out, largeFiller)
		}
		if im.Class != "" || im.Out != want {
			if r.Violate(Violation{Key: "position-changes-value", What: fmt.Sprintf("%s prints %q in a print tag but %q (%s) as %s", src, want, im.Out, im.Class, name),
				Broken: "theorem C08_position no longer describes the code (implementation-only oracle)",
				Replay: map[string]any{"kind": "position", "expr": src, "position": name, "template": tpl, "want": want, "got": im.Out, "class": im.Class, "ctx": fmt.Sprint(ctx)}}) {
				return nil
			}
		}
	}
	// if-condition position: truthiness of the printed value's source
	return nil
}

// rebindAll: `'k': 'REBOUND', ` for every context key — entries written BEFORE the entry under test; every
// include variable is evaluated in the including template's scope, so they must not influence it
// largeFiller lifts a template over the size at which the other tokenizer takes over
var largeFiller = strings.Repeat("<li>filler</li>\n", 260)

func rebindAll(ctx map[string]any) string {
	var sb strings.Builder
	for _, k := range sortedKeys(ctx) {
		if k != "v" {
			sb.WriteString("'" + k + "': 'REBOUND', ")
		}
	}
	return sb.String()
}

// c08Names: a variable is found by its exact name. All two-letter names over [A-Za-z0-9] (the second from a smaller
// set) and names built from the blocks Aa / BB (equal under every polynomial string hash with a small multiplier),
// each bound to its own value, printed in chunks.
func c08Names(e *Env) {
	r := e.Rep
	var names []string
	first := "ABCDEFGHIJKLMNOPQRSTUVWXYZabcdefghijklmnopqrstuvwxyz"
	second := "ABCDEFGHIJKLMNOPQRSTUVWXYZabcdefghijklmnopqrstuvwxyz0123456789"
	reserved := map[string]bool{"in": true, "is": true, "or": true, "as": true, "if": true, "do": true, "b": true}
	for _, a := range first {
		for _, c := range second {
			n := string(a) + string(c)
			if !reserved[n] {
				names = append(names, n)
			}
		}
	}
	for _, pre := range []string{"", "row", "v_"} {
		for _, blocks := range [][]string{{"Aa"}, {"BB"}, {"Aa", "Aa"}, {"Aa", "BB"}, {"BB", "Aa"}, {"BB", "BB"}, {"Aa", "Aa", "Aa"}, {"BB", "BB", "BB"}, {"Aa", "BB", "Aa"}, {"BB", "Aa", "BB"}, {"Ab"}, {"BC"}} {
			n := pre + strings.Join(blocks, "")
			if len(n) > 2 || pre != "" {
				names = append(names, n)
			}
		}
	}
	// names that are equal under common 32-bit string hashes (searched once per run, see c20.go)
	cp := collisionPairs(3)
	for _, hname := range sortedKeys(cp) {
		for _, pr := range cp[hname] {
			names = append(names, pr[0], pr[1])
		}
	}
	ctx := map[string]any{}
	for i, n := range names {
		ctx[n] = i + 1
	}
	const chunk = 150
	for off := 0; off < len(names) && !r.Full(); off += chunk {
		end := off + chunk
		if end > len(names) {
			end = len(names)
		}
		var src, want strings.Builder
		for i := off; i < end; i++ {
			src.WriteString("{{ " + names[i] + " }},")
			want.WriteString(fmt.Sprint(i+1) + ",")
		}
		// one engine for all chunks would be another history; a fresh one per chunk is what users' first parse sees.
		// The tokenizer's identifier table is pooled, so later chunks meet the names interned by earlier ones.
		im := runImpl(&Case{Templates: map[string]string{"main": src.String()}, Main: "main", Ctx: ctx, FailAt: -1})
		r.Seen(fmt.Sprintf("names:%d", off), true)
		r.Hit("identifier-names")
		if im.Class != "" || im.Out != want.String() {
			bad := ""
			got := strings.Split(im.Out, ",")
			for i := off; i < end && i-off < len(got); i++ {
				if got[i-off] != fmt.Sprint(i+1) {
					bad = fmt.Sprintf("{{ %s }} printed %s, its value is %d (the value of %q)", names[i], got[i-off], i+1, func() string {
						for j, n := range names {
							if fmt.Sprint(j+1) == got[i-off] {
								return n
							}
						}
						return "?"
					}())
					break
				}
			}
			if r.Violate(Violation{Key: "variable-name-confused", What: fmt.Sprintf("%d variables with distinct names and values printed in one template: %s %s (%s)", end-off, bad, im.Class, truncate(im.Msg, 100)),
				Broken: "theorem C08_lex_identifier / evalX .var reads the variable of exactly that name (implementation-only oracle)",
				Replay: map[string]any{"kind": "names", "names": names[off:end], "first_value": off + 1, "got": truncate(im.Out, 600), "class": im.Class}}) {
				return
			}
		}
	}
}

// matchesOracle: see its first comment; shared by C08 and C01 (the pattern cache, if any, is process-wide state).
func matchesOracle(e *Env, broken string) bool {
	r := e.Rep
	rg := e.Rng
	// (d'') `matches`: the answer is that of the regular expression with its own flags, whatever was matched before
	// (regular expressions are outside the Lean model; the oracle is Go's regexp package)
	subjects := []string{"abc", "ABC", "xabcx", "", "a1", "A-1"}
	pats := []string{"/abc/", "/abc/i", "/^abc$/", "/^abc$/i", "/a.c/", "/[a-z]+/", "/[a-z]+/i", "/^$/", "/B/", "/B/i", "/b/", "/b/i"}
	type mc struct{ subj, pat string }
	var order []mc
	for _, p := range pats {
		for _, sj := range subjects {
			order = append(order, mc{sj, p})
		}
	}
	rev := make([]mc, len(order))
	for i, x := range order {
		rev[len(order)-1-i] = x
	}
	shuf := append([]mc{}, order...)
	rg.Shuffle(len(shuf), func(i, j int) { shuf[i], shuf[j] = shuf[j], shuf[i] })
	for pass, seq := range [][]mc{order, rev, shuf} {
		for _, x := range seq {
			body := x.pat[1:strings.LastIndex(x.pat, "/")]
			flags := x.pat[strings.LastIndex(x.pat, "/")+1:]
			goPat := strings.ReplaceAll(strings.ReplaceAll(body, "\\\\", "\\"), "\\d", "[0-9]")
			if flags == "i" {
				goPat = "(?i)" + goPat
			}
			want := fmt.Sprint(regexp.MustCompile(goPat).MatchString(x.subj))
			src := "subj matches '" + x.pat + "'"
			im := runImpl(exprCase(src, map[string]any{"subj": x.subj}))
			r.Seen(fmt.Sprintf("matches:%d:%s:%s", pass, x.subj, x.pat), true)
			r.Hit("matches")
			if im.Class != "" || im.Out != want {
				if r.Violate(Violation{Key: "matches-depends-on-history", What: fmt.Sprintf("%q matches '%s' gives %q (%s), Go's regexp says %s (pass %d: the same questions asked in another order)", x.subj, x.pat, im.Out, im.Class, want, pass),
					Broken: broken,
					Replay: map[string]any{"kind": "expr", "src": src, "subj": x.subj, "got": im.Out, "want": want, "pass": pass}}) {
					return true
				}
			}
		}
	}
	return false
}
