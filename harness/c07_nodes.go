package main

import (
	"fmt"
	"html"
	"strings"

	"github.com/semihalev/twig"
)

// C07, macro-body position — text interpolated by the macro call itself.
//
// MacroNode.CallMacro does not render a text node of the macro body that carries `{{ name|filter }}` placeholders as
// text: it interpolates them with a routine of its own (node.go renderVariableString), the third place where the
// names e / escape are resolved. The tokenizer never produces such a text node (it turns `{{ … }}` into print tags),
// so this file assembles the templates from nodes through the public constructors (NewMacroNode, NewTextNode,
// NewPrintNode, NewFunctionNode, Engine.NewTemplate, Engine.RegisterTemplate) — what a custom tag parser or a code
// generator hands to the engine — and calls the macro three ways: by name in its own template, through
// {% import %} and through {% from … import %} of a parsed template.
//
// Dimension: every spelling of the placeholder. Blank, space, two spaces, tab, newline, CR LF in each of the four
// places where Twig allows whitespace ({{·name·|·filter·}}), both filter names, with and without the `:argument`
// form of this routine — all spellings in one macro body, separated by a literal that holds the five special
// characters raw. Expected output: the literals unchanged and, for every placeholder, Escape.escReg(value) from the
// model (html.EscapeString(toString(value)) without a model). Not demanded (see the report of round 7): filter
// chains, parenthesised arguments and a blank before the colon, which this routine does not parse on the unchanged
// tree either.

const c07Sep = `|<"'&>|`

var c07Blanks = []string{"", " ", "  ", "\t", "\n", "\r\n"}

// c07Spellings: the full grid of placeholder spellings for a macro parameter called name.
func c07Spellings(name string) []string {
	var out []string
	for _, f := range []string{"e", "escape"} {
		for _, a := range c07Blanks {
			for _, b := range c07Blanks {
				for _, c := range c07Blanks {
					for _, d := range c07Blanks {
						out = append(out, "{{"+a+name+b+"|"+c+f+d+"}}")
					}
				}
			}
		}
		// the argument form of this routine (name|filter:arg[,arg]); the strategy names are the ones the arg-* routes use
		for _, arg := range []string{":html", ": html", ":html_attr", ":\thtml "} {
			for _, a := range []string{"", " "} {
				for _, b := range []string{"", " ", "\n"} {
					for _, c := range []string{"", " ", "\t"} {
						out = append(out, "{{"+a+name+b+"|"+c+f+arg+a+"}}")
					}
				}
			}
		}
	}
	return out
}

type c07NodeTpl struct {
	name   string   // template to render
	phs    []string // the placeholders of the macro body, in order
	text   string   // the text node of the macro body
	pre    string   // what the route writes before / after the macro's text
	post   string
	how    string // description of the call route for the replay
	always bool   // rendered for every input (the chunks of the grid rotate)
}

type c07NodeSet struct {
	eng    *twig.Engine
	chunks []c07NodeTpl
	routes []c07NodeTpl
	next   int
}

func c07TextOf(phs []string) string {
	var sb strings.Builder
	sb.WriteString(c07Sep)
	for _, p := range phs {
		sb.WriteString(p)
		sb.WriteString(c07Sep)
	}
	return sb.String()
}

// c07MacroTemplate: {% macro field(value) %}<text node>{% endmacro %} [ {{ field(v) }} ]
func c07MacroTemplate(eng *twig.Engine, name, param, text string, withCall bool) {
	body := []twig.Node{twig.NewTextNode(text, 1)}
	children := []twig.Node{twig.NewMacroNode("field", []string{param}, map[string]twig.Node{}, body, 1)}
	if withCall {
		children = append(children, twig.NewPrintNode(twig.NewFunctionNode("field", []twig.Node{twig.NewVariableNode("v", 1)}, 1), 1))
	}
	eng.RegisterTemplate(name, eng.NewTemplate(name, "", twig.NewRootNode(children, 1)))
}

func c07BuildNodes() (ns *c07NodeSet, err error) {
	defer func() {
		if p := recover(); p != nil {
			ns, err = nil, fmt.Errorf("panic: %v", p)
		}
	}()
	eng := twig.New()
	ns = &c07NodeSet{eng: eng}
	grid := c07Spellings("value")
	const per = 160
	for i := 0; i < len(grid); i += per {
		phs := grid[i:min(i+per, len(grid))]
		t := c07NodeTpl{name: fmt.Sprintf("grid%d", len(ns.chunks)), phs: phs, text: c07TextOf(phs), how: "{{ field(v) }} in the macro's own template"}
		c07MacroTemplate(eng, t.name, "value", t.text, true)
		ns.chunks = append(ns.chunks, t)
	}
	// a handful of spellings rendered for every input, through the three call routes
	few := []string{"{{value|e}}", "{{ value|escape }}", "{{ value | e }}", "{{ value| escape }}", "{{ value |e }}", "{{\tvalue\t|\tescape\t}}", "{{\nvalue\n|\ne\n}}", "{{ value | escape:html }}"}
	fewText := c07TextOf(few)
	c07MacroTemplate(eng, "few", "value", fewText, true)
	c07MacroTemplate(eng, "lib", "value", fewText, false)
	parsed := map[string]string{
		"imp":  "a{% import 'lib' as mm %}{{ mm.field(v) }}b",
		"from": "{% from 'lib' import field as g %}<{{ g(v) }}>",
	}
	for _, n := range sortedKeys(parsed) {
		if err := eng.RegisterString(n, parsed[n]); err != nil {
			return nil, fmt.Errorf("register %s: %w", n, err)
		}
	}
	ns.routes = []c07NodeTpl{
		{name: "few", phs: few, text: fewText, how: "{{ field(v) }} in the macro's own template", always: true},
		{name: "imp", phs: few, text: fewText, pre: "a", post: "b", how: parsed["imp"], always: true},
		{name: "from", phs: few, text: fewText, pre: "<", post: ">", how: parsed["from"], always: true},
	}
	return ns, nil
}

func (ns *c07NodeSet) render(name string, v any) (out string, errs string) {
	defer func() {
		if p := recover(); p != nil {
			errs = fmt.Sprintf("panic: %v", p)
		}
	}()
	s, err := ns.eng.Render(name, map[string]any{"v": v})
	if err != nil {
		return "", err.Error()
	}
	return s, ""
}

func (t c07NodeTpl) want(escaped string) string {
	var sb strings.Builder
	sb.WriteString(t.pre)
	sb.WriteString(c07Sep)
	for range t.phs {
		sb.WriteString(escaped)
		sb.WriteString(c07Sep)
	}
	sb.WriteString(t.post)
	return sb.String()
}

// c07Single renders one placeholder alone (fresh engine, macro body `[`+placeholder+`]`).
func c07Single(ph string, v any) (out string, errs string) {
	defer func() {
		if p := recover(); p != nil {
			errs = fmt.Sprintf("panic: %v", p)
		}
	}()
	eng := twig.New()
	c07MacroTemplate(eng, "single", "value", "["+ph+"]", true)
	s, err := eng.Render("single", map[string]any{"v": v})
	if err != nil {
		return "", err.Error()
	}
	return s, ""
}

// check renders every input through the macro-text templates. exps[i] is the model's escape of strs[i] (nil: no model).
func (ns *c07NodeSet) check(e *Env, strs []string, exps []string, kind string) {
	vals := make([]any, len(strs))
	for i, s := range strs {
		vals[i] = s
	}
	ns.checkValues(e, vals, strs, exps, kind)
}

func (ns *c07NodeSet) checkValues(e *Env, vals []any, strs []string, exps []string, kind string) {
	r := e.Rep
	for i, v := range vals {
		exp := html.EscapeString(strs[i])
		if exps != nil {
			exp = exps[i]
		}
		// the grid: all chunks for the regression strings, the single bytes and the non-string values; one chunk (rotating)
		// for the other inputs up to 256 bytes — quick: one input in four, thorough: one in two
		var tpls []c07NodeTpl
		bulk := kind == "byte-pair" || kind == "byte-triple"
		switch {
		case !bulk && (len(strs[i]) <= 4 || kind == "value" || kind == "regression" && len(strs[i]) <= 64):
			tpls = append(tpls, ns.chunks...)
		case len(strs[i]) <= 256:
			every := 4
			if e.Thorough() {
				every = 2
			}
			if ns.next++; ns.next%every == 0 {
				tpls = append(tpls, ns.chunks[(ns.next/every)%len(ns.chunks)])
			}
		}
		if len(strs[i]) <= 1<<16 {
			tpls = append(tpls, ns.routes...)
		} else {
			// very long inputs: one call route each
			ns.next++
			tpls = append(tpls, ns.routes[ns.next%len(ns.routes)])
		}
		for _, t := range tpls {
			out, errs := ns.render(t.name, v)
			if exps != nil {
				r.Compared++
			}
			if errs == "" && out == t.want(exp) {
				continue
			}
			// which spelling? each placeholder alone on a fresh engine
			ph, text, single, serr := "", t.text, out, errs
			for _, p := range t.phs {
				if o, er := c07Single(p, v); er != "" || o != "["+exp+"]" {
					ph, text, single, serr = p, "["+p+"]", o, er
					break
				}
			}
			small := strs[i]
			if s, isStr := v.(string); isStr && ph != "" && html.EscapeString(s) == exp {
				small = c07Shrink(s, func(x string) bool {
					o, er := c07Single(ph, x)
					return er != "" || o != "["+html.EscapeString(x)+"]"
				})
				single, serr = c07Single(ph, small)
				exp = html.EscapeString(small)
			}
			wantOut := "[" + exp + "]"
			if ph == "" {
				wantOut = t.want(exp)
			}
			r.Violate(Violation{Key: "macro-text-escape", What: fmt.Sprintf("macro body text %q (text node interpolated by the macro call, route %s): the placeholder is not replaced by the escaped value on %s input", truncate(text, 120), t.how, kind),
				Broken: "correspondence escape_reg (TwigModel.Escape.escReg vs the e/escape placeholder of node.go renderVariableString); C07: both names behave identically wherever a filter can be applied (macro body)",
				Replay: map[string]any{"kind": "macro-text", "placeholder": ph, "macro_body_text": truncate(text, 2000), "template": t.name, "call": t.how,
					"built_with": "NewRootNode([NewMacroNode(\"field\", [\"value\"], {}, [NewTextNode(macro_body_text)]), NewPrintNode(NewFunctionNode(\"field\", [NewVariableNode(\"v\")]))]) registered with Engine.RegisterTemplate",
					"value_type": fmt.Sprintf("%T", v), "input_hex": c07Short(small), "full_input_len": len(strs[i]), "impl_hex": c07Short(single), "impl_err": serr, "want_hex": c07Short(wantOut)}})
			if r.Full() {
				return
			}
			break
		}
		r.Hit("macro-text:" + kind)
	}
}

// c07NodeFailClosed: spellings the simple reader of macro body text does not parse (a blank before the colon used to
// be one of them, chains, calls with parentheses, unknown names). Whatever it does with them, a placeholder that names
// the escape filter never yields the value with a special character raw: the render fails, or the output holds no raw
// special character taken from the value (defect of the unchanged tree, repaired in /repo 9bc43de: the filter
// failure fell back to the unfiltered value).
func c07NodeFailClosed(e *Env) {
	r := e.Rep
	// text around placeholders passes through unchanged, also in front of a placeholder that is never closed
	// (defect of the unchanged tree, repaired in /repo b52bed8: that text was written twice)
	for _, tc := range []struct{ text, want string }{
		{"[{{ value|e }} mid {{ value|e ]", "[&lt;v&gt; mid {{ value|e ]"},
		{"a {{ b", "a {{ b"},
		{"x{{ value }}y{{", "x<v>y{{"},
		{"{{ value|e }}{{ value|e }} tail {{ value", "&lt;v&gt;&lt;v&gt; tail {{ value"},
	} {
		eng := twig.New()
		c07MacroTemplate(eng, "lit", "value", tc.text, true)
		res := guarded(func() (string, error) { return eng.Render("lit", map[string]any{"v": "<v>"}) })
		r.Seen("macro-text-literal:"+tc.text, true)
		if res.Class != "" || res.Out != tc.want {
			r.Violate(Violation{Key: "macro-text-literal", What: fmt.Sprintf("macro body text %q with value \"<v>\" renders %q (%s), expected %q", tc.text, res.Out, res.Class, tc.want),
				Broken: "C07 (all other bytes pass through unchanged; macro body route, node.go renderVariableString)",
				Replay: map[string]any{"kind": "macro-text", "text": tc.text, "got": res.Out, "want": tc.want}})
		}
	}
	vals := []string{"a<&'\">", "<script>alert('x')</script>", "&amp;", "\"", "plain"}
	for _, ph := range []string{"{{ value|e :html }}", "{{ value | escape : html , x }}", "{{ value|e|e }}", "{{ value|raw|e }}", "{{ value|e('html') }}", "{{ value|escape(\"html\") }}",
		"{{ value|e|upper }}", "{{ value|upper|escape }}", "{{ value|e | raw }}", "{{ value|e:html:x }}", "{{ value|e() }}", "{{ value| e\t: js }}", "{{ value|E }}", "{{ value|escape|nosuch }}"} {
		for _, v := range vals {
			out, errs := c07Single(ph, v)
			r.Seen("macro-text-unparsed:"+ph+v, true)
			if errs != "" {
				r.Hit("macro-text-unparsed-placeholder-is-an-error")
				continue
			}
			body := strings.TrimSuffix(strings.TrimPrefix(out, "["), "]")
			if strings.ContainsAny(body, "<>\"'") || strings.Contains(strings.NewReplacer("&amp;", "", "&lt;", "", "&gt;", "", "&#34;", "", "&#39;", "", "&quot;", "", "&apos;", "").Replace(body), "&") {
				if strings.ContainsAny(v, "<>\"'&") {
					r.Violate(Violation{Key: "macro-text-escape", What: fmt.Sprintf("macro body text %q with value %q renders %q without an error: the placeholder names the escape filter and the value's special characters come out raw", "["+ph+"]", v, out),
						Broken: "C07 (macro body route, node.go renderVariableString: a filter that cannot be applied must not be replaced by the unfiltered value)",
						Replay: map[string]any{"kind": "macro-text", "placeholder": ph, "input_hex": hx(v), "got_hex": hx(out)}})
				}
			}
		}
	}
}
