package main

import (
	"errors"
	"fmt"
	"strings"

	"github.com/semihalev/twig"
)

// C17, loaders — "a loader invoked during a render fails" for every arrangement of loaders around the failing one.
//
// One loader HAS the nested template (Exists is true) but cannot deliver it: its Load returns a fault that is not a
// "not found". The other registered loaders (before it, after it, both; hand-written ones, the library's ArrayLoader,
// a ChainLoader around all of them) simply do not know the name. What the other loaders say must not change what the
// failure is: the render fails, the fault is found with errors.Is / errors.As, the output is "". The nested template is
// reached through every statement that loads one (include in its spellings, extends, import, from), at every place in
// a template structure (top level, loop, else branch, block of a child, included template, macro body, filtered and
// spaceless sections, captured set), under a plain name and under relative names whose as-written spelling names
// ANOTHER, healthy template (the fallback of relative names is for templates that are missing, not for ones that fail).
//
// Independent expectation: the statement of C17 itself. Each combination is first rendered with the fault switched off
// (it must render: the program is valid and reaches the nested template) and the failing loader records its calls: the
// oracle only speaks when the failing Load was really invoked during the render under test.

type loaderFault struct{ name string }

func (f *loaderFault) Error() string { return "disk on fire while reading " + f.name }

// faultyLoader has `src`; the names in `faulty` are there (Exists) but fail to load while `on` is set.
type faultyLoader struct {
	src      map[string]string
	faulty   map[string]bool
	on       bool
	wrap     bool
	fault    *loaderFault
	invoked  int
	notFound func(name string) error
}

func (l *faultyLoader) Load(name string) (string, error) {
	if l.faulty[name] && l.on {
		l.invoked++
		if l.wrap {
			return "", fmt.Errorf("reading %s: %w", name, l.fault)
		}
		return "", l.fault
	}
	if s, ok := l.src[name]; ok {
		return s, nil
	}
	if l.notFound != nil {
		return "", l.notFound(name)
	}
	return "", fmt.Errorf("%w: %s", twig.ErrTemplateNotFound, name)
}
func (l *faultyLoader) Exists(name string) bool { _, ok := l.src[name]; return ok }

type loaderForm struct {
	name, stmt string // %s = the name expression
	top        bool   // only at the top of a template (extends)
}

var loaderForms = []loaderForm{
	{"include", "{% include NAME %}", false},
	{"include-ignore-missing", "{% include NAME ignore missing %}", false},
	{"include-with-only", "{% include NAME with {'p': 1} only %}", false},
	{"include-ignore-missing-with", "{% include NAME ignore missing with {'p': 1} %}", false},
	{"include-computed", "{% include COMPUTED %}", false},
	{"include-computed-ignore-missing", "{% include COMPUTED ignore missing %}", false},
	{"import", "{% import NAME as q %}i", false},
	{"import-call", "{% import NAME as q %}{{ q.m() }}", false},
	{"from", "{% from NAME import m %}f", false},
	{"from-call", "{% from NAME import m as mm %}{{ mm() }}", false},
	{"extends", "{% extends NAME %}{% block c %}child{% endblock %}", true},
	{"extends-computed", "{% extends COMPUTED %}{% block c %}child{% endblock %}", true},
}

// positions: where the statement stands. Every template of the program lives in the directory pages/.
var loaderPositions = []struct {
	name string
	top  bool // keeps the statement at the top of some template
	tpls func(stmt string) map[string]string
}{
	{"top", true, func(s string) map[string]string { return map[string]string{"pages/main": s} }},
	{"after-text", false, func(s string) map[string]string { return map[string]string{"pages/main": "A" + s + "B"} }},
	{"for", false, func(s string) map[string]string {
		return map[string]string{"pages/main": "A{% for i in [1, 2] %}" + s + "{% endfor %}B"}
	}},
	{"else-branch", false, func(s string) map[string]string {
		return map[string]string{"pages/main": "A{% if false %}n{% else %}" + s + "{% endif %}B"}
	}},
	{"child-block", false, func(s string) map[string]string {
		return map[string]string{"pages/main": "{% extends 'pages/okbase' %}{% block c %}" + s + "{% endblock %}", "pages/okbase": "[{% block c %}{% endblock %}]"}
	}},
	{"included", true, func(s string) map[string]string {
		return map[string]string{"pages/main": "A{% include 'pages/mid' %}B", "pages/mid": s}
	}},
	{"included-ignore-missing", true, func(s string) map[string]string {
		return map[string]string{"pages/main": "A{% include 'pages/mid' ignore missing %}B", "pages/mid": s}
	}},
	{"parent-of-child", false, func(s string) map[string]string {
		return map[string]string{"pages/main": "{% extends 'pages/okbase' %}{% block d %}x{% endblock %}", "pages/okbase": "[{% block d %}{% endblock %}" + s + "]"}
	}},
	{"macro-body", false, func(s string) map[string]string {
		return map[string]string{"pages/main": "{% import 'pages/mlib' as ML %}A{{ ML.run() }}B", "pages/mlib": "{% macro run() %}" + s + "{% endmacro %}"}
	}},
	{"apply", false, func(s string) map[string]string {
		return map[string]string{"pages/main": "A{% apply upper %}" + s + "{% endapply %}B"}
	}},
	{"spaceless", false, func(s string) map[string]string {
		return map[string]string{"pages/main": "A{% spaceless %}<a> " + s + " </a>{% endspaceless %}B"}
	}},
}

// names: how the nested template is written, which name the failing loader has, and healthy decoys under other names.
var loaderNames = []struct {
	name, written, computed, failing string
	decoys                           []string
}{
	{"plain", "'pages/part'", "'pages/' ~ 'part'", "pages/part", nil},
	{"relative", "'./part'", "'./' ~ 'part'", "pages/part", []string{"./part", "part"}},
	{"relative-up", "'../pages/part'", "'../pages/' ~ 'part'", "pages/part", []string{"../pages/part", "part"}},
	// the resolved name is nowhere; the name as written is the one that fails
	{"relative-fallback", "'./part'", "'./' ~ 'part'", "./part", []string{"part"}},
}

const loaderPartSrc = "{% macro m() %}pm{% endmacro %}[{% block c %}P{% endblock %}]"

// arrangements: F = the failing loader, H = the healthy one with the rest of the program, E = a loader that knows
// nothing, O = a loader with unrelated templates. "A:" = the library's ArrayLoader where possible, "C:" = one ChainLoader.
var loaderArrangements = []string{"FH-merged", "F H", "H F", "E F H", "F E H", "H E F", "H F E", "O F H", "F O H E", "A: F H", "A: H F", "A: E F H", "C: F H", "C: H F E"}

func loaderArrangementOracle(e *Env) {
	r := e.Rep
	bareNotFound := func(string) error { return twig.ErrTemplateNotFound }
	tick := 0
	for _, form := range loaderForms {
		for _, pos := range loaderPositions {
			if form.top && !pos.top {
				continue
			}
			for _, nm := range loaderNames {
				stmt := strings.ReplaceAll(strings.ReplaceAll(form.stmt, "NAME", nm.written), "COMPUTED", nm.computed)
				for _, arr := range loaderArrangements {
					tick++
					// the quick tier walks a third of the product (a different third per seed), thorough all of it
					if !e.Thorough() && (int64(tick)+e.Seed)%3 != 0 {
						continue
					}
					for _, mode := range []string{"cold", "cache-off-warm"} {
						if mode != "cold" && tick%4 != 0 {
							continue
						}
						if r.Full() {
							return
						}
						fault := &loaderFault{nm.failing}
						healthy := pos.tpls(stmt)
						for _, d := range nm.decoys {
							healthy[d] = "DECOY{% macro m() %}dm{% endmacro %}{% block c %}D{% endblock %}"
						}
						fl := &faultyLoader{src: map[string]string{nm.failing: loaderPartSrc}, faulty: map[string]bool{nm.failing: true}, fault: fault, wrap: tick%2 == 0}
						spec := arr
						array, chain := strings.HasPrefix(spec, "A: "), strings.HasPrefix(spec, "C: ")
						spec = strings.TrimPrefix(strings.TrimPrefix(spec, "A: "), "C: ")
						var loaders []twig.Loader
						if spec == "FH-merged" {
							for k, v := range healthy {
								fl.src[k] = v
							}
							loaders = []twig.Loader{fl}
						} else {
							for _, role := range strings.Fields(spec) {
								var src map[string]string
								switch role {
								case "F":
									loaders = append(loaders, fl)
									continue
								case "H":
									src = healthy
								case "E":
									src = map[string]string{}
								case "O":
									src = map[string]string{"other": "o", "pages/other": "po"}
								}
								if array {
									loaders = append(loaders, twig.NewArrayLoader(src))
								} else if role == "E" && tick%3 == 0 {
									loaders = append(loaders, &faultyLoader{src: src, notFound: bareNotFound})
								} else {
									loaders = append(loaders, &faultyLoader{src: src})
								}
							}
						}
						if chain {
							loaders = []twig.Loader{twig.NewChainLoader(loaders)}
						}
						mk := func() *twig.Engine {
							eng := twig.New()
							for _, l := range loaders {
								eng.RegisterLoader(l)
							}
							if mode == "cache-off-warm" {
								eng.SetCache(false)
							}
							return eng
						}
						id := fmt.Sprintf("%s/%s/%s/%s/%s", form.name, pos.name, nm.name, arr, mode)
						// the program with the fault switched off renders (and so reaches the nested template)
						dry := guarded(func() (string, error) { return mk().Render("pages/main", nil) })
						if dry.Err != nil || strings.Contains(dry.Out, "DECOY") {
							r.Seen("loaders-dry:"+id, false)
							r.Hit("loaders-dry-run-unusable:" + form.name + "/" + pos.name + "/" + nm.name)
							continue
						}
						var second RenderResult
						// every other combination renders through another top-level entry point / writer kind (c17_routes.go)
						route := renderRoutes[0]
						if tick%2 == 1 {
							route = nextRoute()
						}
						res := guarded(func() (string, error) {
							eng := mk()
							if mode == "cache-off-warm" {
								if _, err := eng.Render("pages/main", nil); err != nil {
									return "", fmt.Errorf("warm-up render: %v", err)
								}
							}
							fl.on = true
							out, err := route.render(eng, "pages/main", nil)
							// and once more on the same engine: the failure is not remembered as an absence
							o2, e2 := eng.Render("pages/main", nil)
							second = RenderResult{Out: o2, Err: e2}
							return out, err
						})
						fl.on = false
						r.Seen("loaders:"+id, fl.invoked > 0)
						if fl.invoked == 0 && res.Err == nil {
							r.Hit("loaders-fault-not-reached")
							continue
						}
						r.Hit("loaders:" + form.name)
						for i, rr := range []RenderResult{res, second} {
							var lf *loaderFault
							if rr.Err != nil && errors.Is(rr.Err, fault) && errors.As(rr.Err, &lf) && lf == fault && rr.Out == "" && res.Panic == "" {
								continue
							}
							r.Violate(Violation{Key: "loader-cause-lost", What: fmt.Sprintf("%s (render %d, first render through %s): a loader that has %s fails to deliver it (%d failing Load calls), beside loaders that do not know the name: %s → output %q, error %v — the loader's fault must be the error of the render, found with errors.Is/As, and the output empty",
								id, i+1, route.name, nm.failing, fl.invoked, stmt, truncate(rr.Out, 80), truncateErr(rr.Err, 200)),
								Broken: "theorem C17_propagates (loader causes, several loaders; implementation-only oracle)",
								Replay: map[string]any{"kind": "loader-arrangement", "id": id, "templates": healthy, "failing": nm.failing, "loaders": arr, "mode": mode, "route": route.name, "wrapped": fl.wrap, "main": "pages/main", "out": rr.Out, "err": fmt.Sprint(rr.Err), "panic": res.Panic}})
							break
						}
					}
				}
			}
		}
	}
}

func truncateErr(err error, n int) string {
	if err == nil {
		return "<nil>"
	}
	return truncate(err.Error(), n)
}
