package main

import (
	"encoding/json"
	"fmt"
	"hash/maphash"
	"math"
	"math/rand"
	"os"
	"reflect"
	"strings"
	"sync"
	"time"
)

// C18, the size / placement / operator dimensions.
//
// The standard context of c18.go holds sequences of 2–6 elements at fixed places and is read through filters.
// Code that treats data differently by SIZE (a fast path for long lists, a cache for lists worth caching),
// by GO TYPE ([]string vs []interface{} vs a named slice type vs a slice of structs) or by the PLACE where the
// value was found (a top-level variable lives in the render's copy of the context; a value reached by a path
// a.b.c lives in the caller's own nested map / struct / list element) is not exercised by it.  Here:
//
//   - c18SizedContext(n): 13 data shapes (typed, untyped and named slices, slices of maps / lists / structs /
//     pointers, pointer to array, untyped and typed maps), all of length n, unsorted, with a duplicate and with
//     spare capacity holding sentinels, each in 8 places (top level; map in the context; map in a map; field of
//     a struct behind a pointer; map in such a field; element of an untyped list; element of a typed list of
//     maps; map[interface{}]interface{});  n crosses the usual thresholds (quick 20, 70, 300).
//   - every operator and construct that can take a container operand, over a plain path: in / not in with
//     present, absent, numeric, null and compound needles; == != < >=; subscripts and slices; ?? ?: and or not;
//     the is-tests; starts with / ends with / matches; ~; for (values, key+value, else, nested over the same
//     path, twice, through set, through include-with, through a macro parameter, inside an included template);
//     the functions max min cycle random merge dump length json_encode; literals containing the value;
//     every filter of c18Filters (and for … in path|filter).
//   - oracle: the caller's data is unchanged.  One context is REUSED for all renders of a size (so the check is
//     also "many renders share the data"), compared through a 64-bit hash of the deep walk (values, Go types of
//     interface elements, len/cap, spare cells, identity of backing arrays / maps / pointers).  A changed hash
//     is reproduced on a fresh context with the line snapshots of c18.go to name the difference.
//   - operators and loops must not change a value obtained from a filter either ("sized-indep").
//   - concurrent renders over one sized context render what they render alone and leave it unchanged.

func init() {
	c18Extra = append(c18Extra, c18Sized)
	c18ReplayExtra["sized"] = c18SizedReplay
	c18ReplayExtra["sized-shared"] = c18SizedSharedReplay
}

type C18Item struct {
	ID   int
	Name string
	Tags []string
}

type C18Tags []string

type c18Big struct {
	LS  []string
	LI  []int
	LF  []float64
	LX  []interface{}
	LM  []map[string]interface{}
	LL  [][]int
	LT  []C18Item
	LP  []*C18Item
	NT  C18Tags
	PA  interface{}
	MP  map[string]interface{}
	TMI map[string]int
	TMM map[string]string
	Box map[string]interface{}
}

// shape name -> "list" | "map"
var c18ShapeNames = []string{"ls", "li", "lf", "lx", "lm", "ll", "lt", "lp", "nt", "pa", "mp", "tmi", "tmm"}

func c18ShapeIsMap(s string) bool { return s == "mp" || s == "tmi" || s == "tmm" }

// c18Perm: i -> a permutation of 0..n-1 that is neither ascending nor descending
func c18Perm(n int) []int {
	step := int(float64(n)*0.618) | 1
	for c18Gcd(step, n) != 1 {
		step += 2
	}
	p := make([]int, n)
	for i := range p {
		p[i] = (i*step + 3) % n
	}
	if n > 2 {
		p[n-1] = p[0] // one duplicate
	}
	return p
}

func c18Gcd(a, b int) int {
	for b != 0 {
		a, b = b, a%b
	}
	return a
}

// c18Shapes builds one private instance of every shape, of length n.
func c18Shapes(n int) map[string]interface{} {
	p := c18Perm(n)
	name := func(k int) string { return fmt.Sprintf("s%03d", k) }
	const spare = 3
	ls := make([]string, n, n+spare)
	nt := make(C18Tags, n, n+spare)
	li := make([]int, n, n+spare)
	lf := make([]float64, n, n+spare)
	lx := make([]interface{}, n, n+spare)
	lm := make([]map[string]interface{}, n, n+spare)
	ll := make([][]int, n, n+spare)
	lt := make([]C18Item, n, n+spare)
	lp := make([]*C18Item, n, n+spare)
	pa := reflect.New(reflect.ArrayOf(n, reflect.TypeOf(0)))
	mp := make(map[string]interface{}, n)
	tmi := make(map[string]int, n)
	tmm := make(map[string]string, n)
	for i, k := range p {
		ls[i], nt[i], li[i], lf[i] = name(k), name(k), k, float64(k)+0.5
		if i%2 == 0 {
			lx[i] = k
		} else {
			lx[i] = name(k)
		}
		lm[i] = map[string]interface{}{"n": k, "t": name(k)}
		ll[i] = append(make([]int, 0, 4), k, k+1)
		lt[i] = C18Item{ID: k, Name: name(k), Tags: []string{"b", "a"}}
		lp[i] = &C18Item{ID: k, Name: name(k)}
		pa.Elem().Index(i).SetInt(int64(k))
		key := fmt.Sprintf("k%03d", k)
		mp[key], tmi[key], tmm[key] = k, k, name(k)
	}
	// sentinels in the spare capacity
	for i := n; i < n+spare; i++ {
		ls[:n+spare][i], nt[:n+spare][i], li[:n+spare][i], lf[:n+spare][i] = "tail", "tail", -1000-i, -0.25
		lx[:n+spare][i] = "tail"
		lm[:n+spare][i] = map[string]interface{}{"tail": i}
		ll[:n+spare][i] = []int{-i}
		lt[:n+spare][i] = C18Item{ID: -i, Name: "tail"}
		lp[:n+spare][i] = &C18Item{ID: -i}
	}
	return map[string]interface{}{"ls": ls, "li": li, "lf": lf, "lx": lx, "lm": lm, "ll": ll, "lt": lt, "lp": lp, "nt": nt,
		"pa": pa.Interface(), "mp": mp, "tmi": tmi, "tmm": tmm}
}

type c18Place struct {
	Name string
	Pre  string // statements that bring the owner into a variable (the engine has no x[0].y)
	Path func(shape string) string
}

var c18Places = []c18Place{
	{"top", "", func(s string) string { return s }},
	{"map", "", func(s string) string { return "box." + s }},
	{"map-in-map", "", func(s string) string { return "box.inner." + s }},
	{"struct-field", "", func(s string) string { return "bst." + strings.ToUpper(s) }},
	{"map-in-struct", "", func(s string) string { return "bst.Box." + s }},
	{"list-element", "", func(s string) string { return "rows[0]['" + s + "']" }},
	{"typed-list-element", "{% set r = trow[1] %}", func(s string) string { return "r." + s }},
	{"iface-map", "", func(s string) string { return "ibox['" + s + "']" }},
}

// c18SizedContext: every shape of length n in every place; no value is shared between two places. Deterministic.
func c18SizedContext(n int) map[string]interface{} {
	ctx := c18Shapes(n)
	box := c18Shapes(n)
	box["inner"] = c18Shapes(n)
	ctx["box"] = box
	sh := c18Shapes(n)
	ctx["bst"] = &c18Big{LS: sh["ls"].([]string), LI: sh["li"].([]int), LF: sh["lf"].([]float64), LX: sh["lx"].([]interface{}),
		LM: sh["lm"].([]map[string]interface{}), LL: sh["ll"].([][]int), LT: sh["lt"].([]C18Item), LP: sh["lp"].([]*C18Item),
		NT: sh["nt"].(C18Tags), PA: sh["pa"], MP: sh["mp"].(map[string]interface{}), TMI: sh["tmi"].(map[string]int),
		TMM: sh["tmm"].(map[string]string), Box: c18Shapes(n)}
	ctx["rows"] = []interface{}{c18Shapes(n), "x"}
	ctx["trow"] = []map[string]interface{}{{"x": 1}, c18Shapes(n)}
	ibox := map[interface{}]interface{}{}
	for k, v := range c18Shapes(n) {
		ibox[k] = v
	}
	ctx["ibox"] = ibox
	// scalars and small values the templates use
	ctx["needle"], ctx["needle_i"], ctx["a"], ctx["n"] = "s005", 5, "str", 5
	ctx["xs"] = c18SpareIface([]interface{}{3, 1, 2}, 3)
	ctx["m"] = map[string]interface{}{"b": 2, "a": 1}
	return ctx
}

// ---- hash of the deep walk ------------------------------------------------------------------------------

var c18HashSeed = maphash.MakeSeed()

type c18Hasher struct{ types map[reflect.Type]uint64 }

func c18Mix(a, b uint64) uint64 {
	a ^= b
	a *= 0x9E3779B97F4A7C15
	a ^= a >> 29
	return a
}

// c18Hash: the same walk as c18Snap(v, true), folded into 64 bits (maps are combined commutatively, so that
// the iteration order does not matter; pointers are followed every time they are met).
func c18Hash(v interface{}) uint64 {
	h := &c18Hasher{types: map[reflect.Type]uint64{}}
	return h.walk(reflect.ValueOf(v), 0)
}

func (h *c18Hasher) typ(t reflect.Type) uint64 {
	if x, ok := h.types[t]; ok {
		return x
	}
	x := maphash.String(c18HashSeed, t.String())
	h.types[t] = x
	return x
}

func (h *c18Hasher) walk(v reflect.Value, depth int) uint64 {
	if depth > 14 {
		return 11
	}
	if !v.IsValid() {
		return 1
	}
	switch v.Kind() {
	case reflect.Interface:
		if v.IsNil() {
			return 2
		}
		return c18Mix(h.typ(v.Elem().Type()), h.walk(v.Elem(), depth+1))
	case reflect.Ptr:
		if v.IsNil() {
			return 3
		}
		return c18Mix(c18Mix(4, uint64(v.Pointer())), h.walk(v.Elem(), depth+1))
	case reflect.Slice:
		if v.IsNil() {
			return 6
		}
		x := c18Mix(c18Mix(c18Mix(7, uint64(v.Len())), uint64(v.Cap())), uint64(v.Pointer()))
		full := v
		if v.Cap() > v.Len() {
			full = v.Slice(0, v.Cap())
		}
		for i := 0; i < full.Len(); i++ {
			x = c18Mix(x, h.walk(full.Index(i), depth+1))
		}
		return x
	case reflect.Array:
		x := uint64(8)
		for i := 0; i < v.Len(); i++ {
			x = c18Mix(x, h.walk(v.Index(i), depth+1))
		}
		return x
	case reflect.Map:
		if v.IsNil() {
			return 9
		}
		var sum uint64
		it := v.MapRange()
		for it.Next() {
			sum += c18Mix(c18Mix(10, h.walk(it.Key(), depth+1)), h.walk(it.Value(), depth+1))
		}
		return c18Mix(c18Mix(c18Mix(12, uint64(v.Len())), uint64(v.Pointer())), sum)
	case reflect.Struct:
		if v.Type().PkgPath() == "time" && v.Type().Name() == "Time" && v.CanInterface() {
			t := v.Interface().(time.Time)
			return c18Mix(13, maphash.String(c18HashSeed, t.Format(time.RFC3339Nano)))
		}
		x := uint64(14)
		for i := 0; i < v.NumField(); i++ {
			x = c18Mix(x, h.walk(v.Field(i), depth+1))
		}
		return x
	case reflect.Func, reflect.Chan, reflect.UnsafePointer:
		return c18Mix(15, uint64(v.Pointer()))
	case reflect.String:
		return c18Mix(16, maphash.String(c18HashSeed, v.String()))
	case reflect.Bool:
		if v.Bool() {
			return 17
		}
		return 18
	case reflect.Int, reflect.Int8, reflect.Int16, reflect.Int32, reflect.Int64:
		return c18Mix(19, uint64(v.Int()))
	case reflect.Uint, reflect.Uint8, reflect.Uint16, reflect.Uint32, reflect.Uint64, reflect.Uintptr:
		return c18Mix(20, v.Uint())
	case reflect.Float32, reflect.Float64:
		return c18Mix(21, math.Float64bits(v.Float()))
	case reflect.Complex64, reflect.Complex128:
		c := v.Complex()
		return c18Mix(c18Mix(22, math.Float64bits(real(c))), math.Float64bits(imag(c)))
	}
	return 23
}

// ---- templates ------------------------------------------------------------------------------------------

var c18SizedAux = map[string]string{
	"inc":  c18Aux["inc"],
	"lib":  c18Aux["lib"],
	"loop": "{% for v in seq %}{{ loop.index }}{% endfor %}|{% for k, v in seq %}{% set v = k %}{% endfor %}{{ needle in seq ? 'y' : 'n' }}{{ seq|length }}",
}

var c18Needles = []string{"'s003'", "'zzz'", "needle", "needle_i", "3", "3.5", "'3'", "null", "'k003'", "%P[2]", "%P|first", "%P|last", "[3, 4]", "{'n': 3}", "''"}

// c18SizedCoreOps: operators, tests, subscripts, loops and functions over the path %P (%Q: the same shape in
// another place, %L: index of the last element, %H: half the length).
var c18SizedCoreOps = []string{
	"{% if needle in %P %}y{% else %}n{% endif %}|{{ %P|first|json_encode|raw }}|{{ %P|last|json_encode|raw }}",
	"{{ %P == %Q ? 1 : 0 }}{{ %P != %Q ? 1 : 0 }}{{ %P == %P ? 1 : 0 }}{{ %P == [] ? 1 : 0 }}",
	"{{ %P[0]|json_encode|raw }}|{{ %P[%L]|json_encode|raw }}|{{ %P[%H]|json_encode|raw }}",
	"{{ %P['k003']|json_encode|raw }}|{{ %P['zzz']|json_encode|raw }}|{{ %P[needle_i]|json_encode|raw }}",
	"{{ %P ? 1 : 0 }}{{ not %P ? 1 : 0 }}{{ (%P and %Q) ? 1 : 0 }}{{ (%P or 0) ? 1 : 0 }}{{ (%P ? %P : %Q)|length }}",
	"{{ %P is iterable ? 1 : 0 }}{{ %P is empty ? 1 : 0 }}{{ %P is defined ? 1 : 0 }}{{ %P is null ? 1 : 0 }}{{ %P is not empty ? 1 : 0 }}",
	"{{ %P is same_as(%Q) ? 1 : 0 }}{{ %P is sameas(%P) ? 1 : 0 }}{{ %P is equalto(%Q) ? 1 : 0 }}{{ %P[2] is divisible_by(2) ? 1 : 0 }}",
	"{{ %P starts with 's' ? 1 : 0 }}{{ %P ends with 's' ? 1 : 0 }}{{ %P matches '/s/' ? 1 : 0 }}{{ 's' starts with %P ? 1 : 0 }}",
	"{{ %P ~ '' }}|{{ '' ~ %P|length }}|{{ %P }}",
	"{{ %P|length + 1 }}{{ [%P, %P]|length }}{{ {'k': %P}|keys|join }}{{ [1]|merge(%P)|length }}{{ %P|merge(%Q)|length }}",
	"{% for v in %P %}{{ loop.index }}{% endfor %}",
	"{% for v in %P %}{{ v|json_encode|raw }}{% endfor %}|{% for v in %P %}{{ loop.last ? loop.length : '' }}{% endfor %}",
	"{% for k, v in %P %}{{ k }}{% endfor %}",
	"{% for v in %P %}{% set v = 0 %}{% set w = loop.index %}{% endfor %}{{ %P|length }}",
	"{% for v in %P %}{% if loop.first %}{% for w in %P %}{{ loop.index0 }}{% endfor %}{% endif %}{% endfor %}",
	"{% for v in %P %}x{% else %}empty{% endfor %}{{ %P|first|json_encode|raw }}",
	"{% for v in %P %}{% if v in %Q %}y{% endif %}{% if loop.index > 2 %}{% set v = null %}{% endif %}{% endfor %}",
	"{% set q = %P %}{% for v in q %}{{ loop.index }}{% endfor %}{{ q|length }}{% for v in q %}{% endfor %}{{ needle in q ? 'y' : 'n' }}",
	"{% set %T = %P %}{% for v in %T %}{{ loop.index }}{% endfor %}{% set %T = %T|merge([1]) %}{{ %T|length }}",
	"{% include 'inc' with {'xs': %P, 'a': 1, 'n': 2} %}",
	"{% include 'loop' with {'seq': %P} %}|{% include 'loop' with {'seq': %P} only %}",
	"{% include 'sub' %}|{% include 'sub' with {'z': 1} %}",
	"{% import 'lib' as lib %}{{ lib.f(%P, a, m) }}",
	"{% macro each(seq) %}{% for v in seq %}{{ loop.index }}{% endfor %}{{ 's003' in seq ? 1 : 0 }}{% endmacro %}{{ _self.each(%P) }}",
	"{{ max(%P)|json_encode|raw }}|{{ min(%P)|json_encode|raw }}",
	"{{ cycle(%P, 3)|json_encode|raw }}|{{ merge(%P, %Q)|length }}|{{ merge(%P, [1])|length }}",
	"{{ random(%P) ? '' : '' }}",
	"{{ dump(%P)|length }}|{{ length(%P) }}|{{ json_encode(%P)|length }}",
	"{% do %P %}{% do needle in %P %}{% apply upper %}{{ %P|join(',') }}{% endapply %}",
	"{% block b %}{% for v in %P %}{{ loop.index }}{% endfor %}{% endblock %}",
	"{% spaceless %}{% for v in %P %} {{ loop.index }} {% endfor %}{% endspaceless %}",
}

// filters besides those of c18Filters
var c18SizedFilters = []string{"slice(2, 5)", "slice(-3)", "first", "last", "lower", "round", "e", "count", "join", "default([])", "merge(%Q)", "sort|first", "keys|sort", "reverse|first"}

// filters whose result is a list: used as loop sequences, `in` operands and in the independence check
var c18SizedListy = []string{"slice(0, 60)", "slice(1)", "merge(y)", "merge([9])", "sort", "reverse", "keys", "default([1])", "join(',')|split(',')", "raw"}

func c18SizedSubst(t, p, q string, n int) string {
	tmp := "tmp"
	if i := strings.IndexAny(p, ".["); i < 0 {
		tmp = p // top level: the assignment shadows the context key itself
	}
	return strings.NewReplacer("%P", p, "%Q", q, "%L", fmt.Sprint(n-1), "%H", fmt.Sprint(n/2), "%T", tmp).Replace(t)
}

// c18SizedPre brings the owner of the "typed-list-element" place into a variable (the engine has no x[1].y)
const c18SizedPre = "{% set r = trow[1] %}"

func c18SizedWithPre(src string) string {
	if strings.Contains(src, "r.") {
		return c18SizedPre + src
	}
	return src
}

func c18SizedProg(kind, main, p, q string, n int) c18Prog {
	src := c18SizedWithPre(c18SizedSubst(main, p, q, n))
	t := map[string]string{"main": src}
	for k, v := range c18SizedAux {
		if strings.Contains(src, "'"+k+"'") {
			t[k] = v
		}
	}
	if strings.Contains(src, "'sub'") {
		t["sub"] = c18SizedWithPre(c18SizedSubst("{% for v in %P %}{{ loop.index }}{% endfor %}{{ needle in %P ? 'y' : 'n' }}{% for v in %P %}{% endfor %}", p, q, n))
	}
	return c18Prog{Kind: kind, Tpls: t}
}

func c18SizedIndep(f, op string) string {
	return "{% set p = %P|" + f + " %}{% set before = p|json_encode %}" + op +
		"{% if before == p|json_encode %}same{% else %}CHANGED {{ before|raw }} -> {{ p|json_encode|raw }}{% endif %}"
}

// operations applied to the value p obtained from a filter
var c18SizedIndepOps = []string{
	"{{ needle in p ? 'y' : 'n' }}{{ 'zzz' not in p ? 'y' : 'n' }}{{ 3 in p ? 'y' : 'n' }}",
	"{% for v in p %}{% set v = 0 %}{% endfor %}{% for k, v in p %}{% endfor %}",
	"{{ p == p ? 1 : 0 }}{{ p[0]|length }}{{ p ~ '' ? '' : '' }}{{ cycle(p, 2)|length }}{{ merge(p, [1])|length }}{{ max(p)|length }}",
	"{% include 'loop' with {'seq': p} %}{% import 'lib' as lib %}{{ lib.f(p, a, m) }}",
}

// ---- checked render over the reused context ---------------------------------------------------------------

// c18SizedState: the context all renders of one size share, with the hash of everything reachable from each
// top-level key.  After a render the keys its templates name are walked again; every c18SizedSweep renders
// (and at the end) all of them.
type c18SizedState struct {
	n      int
	ctx    map[string]interface{}
	hashes map[string]uint64
	recent []c18Prog // renders since the last full walk
}

const c18SizedSweep = 40

func c18NewSized(n int) *c18SizedState {
	s := &c18SizedState{n: n}
	s.fresh()
	return s
}

func (s *c18SizedState) fresh() {
	s.ctx = c18SizedContext(s.n)
	s.hashes = map[string]uint64{}
	for k, v := range s.ctx {
		s.hashes[k] = c18Hash(v)
	}
	s.recent = nil
}

// changed: the top-level keys (all of them, or those named by the templates) whose reachable data differ now
func (s *c18SizedState) changed(tpls map[string]string) []string {
	var out []string
	if len(s.ctx) != len(s.hashes) {
		out = append(out, "(number of top-level keys)")
	}
	for k, h := range s.hashes {
		if tpls != nil {
			named := false
			for _, src := range tpls {
				if strings.Contains(src, k) {
					named = true
					break
				}
			}
			if !named {
				continue
			}
		}
		v, ok := s.ctx[k]
		if !ok || c18Hash(v) != h {
			out = append(out, k)
		}
	}
	sortStrings(out)
	return out
}

func c18SizedChecked(e *Env, st *c18SizedState, p c18Prog) RenderResult {
	r := e.Rep
	res := renderFresh(p.Tpls, "main", st.ctx)
	nontrivial := res.Class == "" && res.Out != ""
	r.Seen(fmt.Sprintf("%s:%d:%s", p.Kind, st.n, p.Tpls["main"]), nontrivial)
	if res.Class != "" {
		r.Hit(p.Kind + ":" + res.Class)
	} else {
		r.Hit(p.Kind + ":ok")
	}
	if res.Class == "panic" {
		r.Hit("panic")
	}
	st.recent = append(st.recent, p)
	if ch := st.changed(p.Tpls); len(ch) > 0 {
		// name the difference: the same render over a fresh context, with the line snapshots
		ctx := c18SizedContext(st.n)
		before := c18Snap(ctx, true)
		res2 := renderFresh(p.Tpls, "main", ctx)
		d := c18Diff(before, c18Snap(ctx, true))
		if len(d) == 0 {
			d = []string{fmt.Sprintf("(data under the top-level keys %v of the context shared by all renders of this size changed during this render; the change did not repeat on a fresh context)", ch)}
		}
		r.Violate(Violation{Key: "caller-data-modified",
			What:   fmt.Sprintf("rendering %s over lists and maps of %d elements changes the caller's context: %s", truncate(p.Tpls["main"], 100), st.n, truncate(d[0], 120)),
			Broken: "C18_frame / C18_sites_ok no longer describe the code (implementation-only oracle: deep walk of the context before/after)",
			Replay: map[string]any{"kind": "sized", "n": st.n, "templates": p.Tpls, "context": fmt.Sprintf("c18SizedContext(%d) in harness/c18_sized.go", st.n), "changed_keys": ch, "diff": d,
				"output": truncate(res2.Out, 300), "class": res2.Class}})
		st.fresh()
	} else if len(st.recent) >= c18SizedSweep {
		c18SizedSweepAll(e, st)
	}
	return res
}

// c18SizedSweepAll walks the whole shared context: a render may have written into data it does not name.
func c18SizedSweepAll(e *Env, st *c18SizedState) {
	ch := st.changed(nil)
	if len(ch) == 0 {
		st.recent = st.recent[:0]
		return
	}
	// find the render: each recent one alone over a fresh context
	for _, p := range st.recent {
		ctx := c18SizedContext(st.n)
		before := c18Snap(ctx, true)
		res := renderFresh(p.Tpls, "main", ctx)
		if d := c18Diff(before, c18Snap(ctx, true)); len(d) > 0 {
			e.Rep.Violate(Violation{Key: "caller-data-modified",
				What:   fmt.Sprintf("rendering %s over lists and maps of %d elements changes data of the caller it does not name: %s", truncate(p.Tpls["main"], 100), st.n, truncate(d[0], 120)),
				Broken: "C18_frame / C18_sites_ok no longer describe the code (implementation-only oracle: deep walk of the context before/after)",
				Replay: map[string]any{"kind": "sized", "n": st.n, "templates": p.Tpls, "context": fmt.Sprintf("c18SizedContext(%d) in harness/c18_sized.go", st.n), "changed_keys": ch, "diff": d,
					"output": truncate(res.Out, 300), "class": res.Class}})
			st.fresh()
			return
		}
	}
	var seq []string
	for _, p := range st.recent {
		seq = append(seq, p.Tpls["main"])
	}
	e.Rep.Violate(Violation{Key: "caller-data-modified",
		What:   fmt.Sprintf("one of %d renders sharing a context of %d-element lists changed the data under %v (none of them does so alone on fresh data)", len(seq), st.n, ch),
		Broken: "C18_frame (implementation-only oracle: deep walk of the context shared by a series of renders)",
		Replay: map[string]any{"kind": "sized-series", "n": st.n, "templates": seq, "changed_keys": ch}})
	st.fresh()
}

func c18SizedCheckIndep(e *Env, st *c18SizedState, p c18Prog, what string) {
	res := c18SizedChecked(e, st, p)
	if res.Class == "" && strings.Contains(res.Out, "CHANGED ") {
		e.Rep.Violate(Violation{Key: "filter-result-changed-by-later-filter",
			What:   fmt.Sprintf("the value of %s (%d elements) changes when an operator, loop, include or macro uses it", what, st.n),
			Broken: "C18 results independent (implementation-only oracle)",
			Replay: map[string]any{"kind": "sized", "n": st.n, "templates": p.Tpls, "output": truncate(res.Out, 400), "context": fmt.Sprintf("c18SizedContext(%d)", st.n)}})
	}
}

// c18SizedRandom: a few random operations over random paths in one template
func c18SizedRandom(rng *rand.Rand, n int) c18Prog {
	var sb strings.Builder
	var p, q string
	for i := 1 + rng.Intn(3); i > 0; i-- {
		s := pick(rng, c18ShapeNames)
		pl := rng.Intn(len(c18Places))
		p, q = c18Places[pl].Path(s), c18Places[(pl+1+rng.Intn(len(c18Places)-1))%len(c18Places)].Path(s)
		var t string
		switch rng.Intn(6) {
		case 0:
			nd := pick(rng, c18Needles)
			t = "{{ " + nd + pick(rng, []string{" in ", " not in "}) + "%P" + pick(rng, []string{"", "", "|" + pick(rng, c18SizedListy)}) + " ? 'y' : 'n' }}"
		case 1:
			t = "{% for " + pick(rng, []string{"v", "k, v", "needle", s}) + " in %P" + pick(rng, []string{"", "", "|" + pick(rng, c18SizedListy)}) + " %}{{ loop.index }}{% endfor %}"
		case 2:
			t = "{{ %P|" + pick(rng, c18Filters) + "|" + pick(rng, c18Filters) + "|json_encode|raw }}"
		case 3:
			t = c18SizedIndep(pick(rng, c18SizedListy), pick(rng, c18SizedIndepOps))
		default:
			t = pick(rng, c18SizedCoreOps)
		}
		sb.WriteString(c18SizedSubst(t, p, q, n))
		sb.WriteString("|")
	}
	return c18SizedProg("sized-random", sb.String(), p, q, n)
}

func c18SizedConcurrent(e *Env, n int, progs []c18Prog) {
	r := e.Rep
	shared := c18SizedContext(n)
	h0 := c18Hash(shared)
	outs := make([]RenderResult, len(progs))
	var wg sync.WaitGroup
	for i := range progs {
		wg.Add(1)
		go func(i int) {
			defer wg.Done()
			outs[i] = renderFresh(progs[i].Tpls, "main", shared)
		}(i)
	}
	wg.Wait()
	r.Hit("sized-concurrent")
	var seq []string
	for _, p := range progs {
		seq = append(seq, p.Tpls["main"])
	}
	r.Seen(fmt.Sprintf("sized-shared:%d:%s", n, strings.Join(seq, "\x00")), true)
	unchanged := c18Hash(shared) == h0
	if !unchanged {
		r.Violate(Violation{Key: "caller-data-modified",
			What:   fmt.Sprintf("concurrent renders sharing one context of %d-element lists change it", n),
			Broken: "C18_frame (implementation-only oracle: deep walk around renders that share data)",
			Replay: map[string]any{"kind": "sized-shared", "n": n, "templates": seq, "aux": progs[0].Tpls}})
	}
	for i, p := range progs {
		if strings.Contains(p.Tpls["main"], "random(") {
			continue
		}
		// alone: over the same data when the walk shows them unchanged (printed addresses of pointers are then
		// the same ones, also where a filter reversed or cut them), else over fresh data
		alone := shared
		if !unchanged {
			alone = c18SizedContext(n)
		}
		w := renderFresh(p.Tpls, "main", alone)
		if c18MaskAddr(outs[i].Out) != c18MaskAddr(w.Out) || outs[i].Class != w.Class {
			r.Violate(Violation{Key: "shared-data-render-differs",
				What:   fmt.Sprintf("a render sharing its context of %d-element lists with concurrent renders differs from the same render alone", n),
				Broken: "C18: two renders that share context data cannot influence each other (implementation-only oracle)",
				Replay: map[string]any{"kind": "sized", "n": n, "templates": p.Tpls, "others": seq, "alone": truncate(w.Out, 300), "shared": truncate(outs[i].Out, 300),
					"class_alone": w.Class, "class_shared": outs[i].Class}})
		}
	}
}

// c18Sized: part (6) of runC18.
func c18Sized(e *Env) {
	r := e.Rep
	r.Rule += "; (6) sizes × shapes × places: 13 data shapes of 70 elements (sampled: 20 and 300; thorough: 20, 34, 70, 130, 300, 1100 in full) in 8 places of one context that all renders of a size share, " +
		"read by every operator / test / subscript / loop form / function (full product with shapes and places) and every filter (pairwise with shapes and with places), " +
		"independence of filter results under operators and loops, random combinations, concurrent renders"
	sizes := []int{70, 20, 300}
	if e.Thorough() {
		sizes = []int{20, 34, 70, 130, 300, 1100}
	}
	rot := e.Rng.Intn(1000)
	for si, n := range sizes {
		t0, ev0 := time.Now(), r.Evaluations
		st := c18NewSized(n)
		full := si == 0 || e.Thorough() // the other sizes of the quick tier: one combination in four
		var loops []c18Prog
		combo := 0
		// every operator over every shape in every place
		for pi, pl := range c18Places {
			for shi, sh := range c18ShapeNames {
				p, q := pl.Path(sh), c18Places[(pi+1)%len(c18Places)].Path(sh)
				for oi, op := range c18SizedCoreOps {
					if !full && (oi+pi+shi+rot)%4 != 0 {
						continue
					}
					prog := c18SizedProg("sized-op", op, p, q, n)
					c18SizedChecked(e, st, prog)
					if strings.HasPrefix(op, "{% for") && len(loops) < 64 && (combo+rot)%7 == 0 {
						loops = append(loops, prog)
					}
					combo++
					if r.Full() {
						return
					}
				}
				// needles of `in` / `not in`: all of them, two per template
				for ni := 0; ni < len(c18Needles); ni += 2 {
					if !full && (ni/2+pi+shi+rot)%4 != 0 {
						continue
					}
					a, b := c18Needles[ni], c18Needles[(ni+1)%len(c18Needles)]
					c18SizedChecked(e, st, c18SizedProg("sized-in", "{{ "+a+" in %P ? 'y' : 'n' }}|{{ "+b+" not in %P ? 'y' : 'n' }}|{{ "+b+" in %Q ? 'y' : 'n' }}", p, q, n))
					if r.Full() {
						return
					}
				}
			}
		}
		// filters, loops over filtered sequences, independence: pairwise with places and with shapes
		var fops []string
		for _, f := range c18Filters {
			fops = append(fops, "{{ %P|"+f+"|json_encode|raw }}")
		}
		for _, f := range c18SizedFilters {
			fops = append(fops, "{{ %P|"+f+"|json_encode|raw }}")
		}
		for _, f := range c18SizedListy {
			fops = append(fops, "{% for v in %P|"+f+" %}{{ loop.index }}{% endfor %}|{{ needle in %P|"+f+" ? 'y' : 'n' }}")
		}
		nf := len(fops)
		for _, f := range c18SizedListy {
			for _, op := range c18SizedIndepOps {
				fops = append(fops, c18SizedIndep(f, op))
			}
		}
		for j, op := range fops {
			kind := "sized-filter"
			if j >= nf {
				kind = "sized-indep"
			}
			type pair struct{ pl, sh int }
			var pairs []pair
			for pi := range c18Places {
				pairs = append(pairs, pair{pi, (j + pi + rot) % len(c18ShapeNames)})
			}
			for shi := range c18ShapeNames {
				pairs = append(pairs, pair{(j + shi + rot) % len(c18Places), shi})
			}
			for k, pr := range pairs {
				if !full && (j+k+rot)%3 != 0 {
					continue
				}
				sh := c18ShapeNames[pr.sh]
				p, q := c18Places[pr.pl].Path(sh), c18Places[(pr.pl+3)%len(c18Places)].Path(sh)
				prog := c18SizedProg(kind, op, p, q, n)
				if kind == "sized-indep" {
					c18SizedCheckIndep(e, st, prog, p+"|…")
				} else {
					c18SizedChecked(e, st, prog)
				}
				if r.Full() {
					return
				}
			}
		}
		// random combinations
		var rnd []c18Prog
		for i := e.N(150, 2000); i > 0 && !r.Full(); i-- {
			prog := c18SizedRandom(e.Rng, n)
			res := c18SizedChecked(e, st, prog)
			if res.Class == "" && strings.Contains(res.Out, "CHANGED ") {
				c18SizedCheckIndep(e, st, prog, "a filter result")
			}
			if res.Class == "" && len(rnd) < 100 {
				rnd = append(rnd, prog)
			}
		}
		c18SizedSweepAll(e, st)
		if si == 0 {
			r.Sample(map[string]any{"kind": "sized", "n": n, "template": c18SizedSubst(c18SizedCoreOps[0], "box.ls", "bst.LS", n)})
		}
		// concurrent renders over one context
		loops = append(loops, rnd...)
		for round := e.N(4, 60); round > 0 && len(loops) > 1 && !r.Full(); round-- {
			k := 2 + e.Rng.Intn(5)
			seq := make([]c18Prog, k)
			for i := range seq {
				seq[i] = pick(e.Rng, loops)
			}
			c18SizedConcurrent(e, n, seq)
		}
		r.Note(fmt.Sprintf("C18 sized n=%d: %d renders in %.1fs", n, r.Evaluations-ev0, time.Since(t0).Seconds()))
	}
}

func c18SizedSharedReplay(e *Env, n int, raw json.RawMessage) error {
	var f struct {
		Case struct {
			Aux map[string]string `json:"aux"`
		} `json:"case"`
	}
	b, err := os.ReadFile(e.Replay)
	if err != nil {
		return err
	}
	if err := json.Unmarshal(b, &f); err != nil {
		return err
	}
	var seq []string
	if err := json.Unmarshal(raw, &seq); err != nil {
		return err
	}
	progs := make([]c18Prog, len(seq))
	for i, src := range seq {
		t := map[string]string{}
		for k, v := range f.Case.Aux {
			t[k] = v
		}
		t["main"] = src
		progs[i] = c18Prog{Kind: "replay", Tpls: t}
	}
	for round := 0; round < 20 && len(e.Rep.Violations) == 0; round++ {
		c18SizedConcurrent(e, n, progs)
	}
	fmt.Printf("replay sized-shared (n=%d): reproduced: %v\n", n, len(e.Rep.Violations) > 0)
	return nil
}

func c18SizedReplay(e *Env, n int, raw json.RawMessage) error {
	var tpls map[string]string
	if err := json.Unmarshal(raw, &tpls); err != nil {
		return err
	}
	st := c18NewSized(n)
	p := c18Prog{Kind: "replay", Tpls: tpls}
	res := c18SizedChecked(e, st, p)
	if strings.Contains(res.Out, "CHANGED ") {
		c18SizedCheckIndep(e, st, p, "a filter result")
	}
	fmt.Printf("replay sized (n=%d): output %q (class %q); reproduced: %v\n", n, truncate(res.Out, 300), res.Class, len(e.Rep.Violations) > 0)
	return nil
}
