package main

import (
	"bytes"
	"encoding/json"
	"fmt"
	"math/rand"
	"os"
	"reflect"
	"regexp"
	"sort"
	"strings"
	"sync"
	"time"
)

// C18 — rendering never modifies the caller's data.
//
// Implementation-only oracle (decisive): a deep snapshot of the context (reflect walk over maps, slices
// *including their spare capacity* s[:cap(s)], arrays, structs incl. unexported fields, pointers, with the
// identity of every backing array / map / pointer) is taken before and after every render; any difference
// is a violation.  Templates: every ordered pair (thorough: triple) of list/map filters over every data
// shape, set / loop variables / include-with / macro parameters that shadow context keys, do, apply, for
// over typed sequences, merge with a left operand that has spare capacity.
// Further oracles: a value obtained from one filter is not changed by applying another one to it
// (checked inside the template with json_encode before/after), a second render sharing the data renders
// what it renders on pristine data, and concurrent renders sharing the data render what they render alone.
// The Lean side (C18_frame, …) has no executable correspondence: the tie is the extractor's Writes table.

func init() { register("C18", runC18) }

// further parts of the run and replay kinds, registered by the other c18_*.go files
var (
	c18Extra       []func(e *Env)
	c18ReplayExtra = map[string]func(e *Env, n int, templates json.RawMessage) error{}
)

type c18Inner struct {
	Name   string
	Tags   []string
	Meta   map[string]interface{}
	Nums   []int
	Arr    [3]int
	Child  *c18Inner
	hidden []int
}

type C18Addr struct {
	City string
	Zip  []int
}
type C18Deep struct{ *C18Addr }
type c18Emb struct {
	Name string
	*C18Addr
	Deep *C18Deep
}

func (s *c18Inner) Label() string     { return "L:" + s.Name }
func (s c18Inner) TagCount() int      { return len(s.Tags) }
func (s *c18Inner) AllTags() []string { return s.Tags } // returns the caller's slice itself

// c18Spare builds a slice with spare capacity whose tail cells hold sentinels.
func c18SpareIface(vals []interface{}, extra int) []interface{} {
	s := make([]interface{}, len(vals), len(vals)+extra)
	copy(s, vals)
	t := s[:cap(s)]
	for i := len(vals); i < len(t); i++ {
		t[i] = fmt.Sprintf("tail%d", i)
	}
	return s
}
func c18SpareStr(vals []string, extra int) []string {
	s := make([]string, len(vals), len(vals)+extra)
	copy(s, vals)
	t := s[:cap(s)]
	for i := len(vals); i < len(t); i++ {
		t[i] = fmt.Sprintf("tail%d", i)
	}
	return s
}
func c18SpareInt(vals []int, extra int) []int {
	s := make([]int, len(vals), len(vals)+extra)
	copy(s, vals)
	t := s[:cap(s)]
	for i := len(vals); i < len(t); i++ {
		t[i] = -1000 - i
	}
	return s
}

// c18Context: the standard context. Every reference value appears once (no sharing between keys) so that
// a diff names one culprit. Deterministic.
func c18Context() map[string]interface{} {
	child := &c18Inner{Name: "kid", Tags: c18SpareStr([]string{"k2", "k1"}, 3), Meta: map[string]interface{}{"q": 1}, Nums: c18SpareInt([]int{2, 1}, 2), hidden: []int{7, 6}}
	return map[string]interface{}{
		"xs":   c18SpareIface([]interface{}{3, 1, 2}, 7),
		"xs0":  c18SpareIface([]interface{}{}, 4),
		"full": []interface{}{"c", "a", "b"},
		"ss":   c18SpareStr([]string{"pear", "apple", "fig"}, 5),
		"is":   c18SpareInt([]int{30, 10, 20}, 5),
		"fs":   append(make([]float64, 0, 6), 2.5, 0.5, 1.5),
		"bs":   []bool{true, false},
		"y":    c18SpareIface([]interface{}{9, 8}, 2),
		"m": map[string]interface{}{"b": 2, "a": 1,
			"list": c18SpareIface([]interface{}{"z", "x", "y"}, 4),
			"sub":  map[string]interface{}{"k": "v", "deep": c18SpareIface([]interface{}{1, 2}, 2)}},
		"m2":     map[string]interface{}{"c": 3, "a": 100},
		"tm":     map[string]int{"two": 2, "one": 1, "three": 3},
		"mis":    map[int]string{2: "b", 1: "a"},
		"msl":    map[string][]string{"k": c18SpareStr([]string{"v2", "v1"}, 3), "j": {"w"}},
		"mii":    map[interface{}]interface{}{"p": 1, 2: "q"},
		"arr":    [4]int{4, 2, 3, 1},
		"parr":   &[3]string{"r", "p", "q"},
		"st":     c18Inner{Name: "val", Tags: c18SpareStr([]string{"t2", "t1", "t3"}, 4), Meta: map[string]interface{}{"k": "v", "l": c18SpareIface([]interface{}{2, 1}, 2)}, Nums: c18SpareInt([]int{5, 4}, 3), Arr: [3]int{3, 1, 2}, hidden: []int{1}},
		"pst":    &c18Inner{Name: "ptr", Tags: c18SpareStr([]string{"u2", "u1"}, 4), Meta: map[string]interface{}{"k": "v"}, Nums: c18SpareInt([]int{9, 8, 7}, 3), Arr: [3]int{9, 7, 8}, Child: child, hidden: []int{2, 3}},
		"nested": []interface{}{c18SpareIface([]interface{}{2, 1}, 3), map[string]interface{}{"in": c18SpareIface([]interface{}{"b", "a"}, 2)}},
		"lol":    [][]int{c18SpareInt([]int{3, 1}, 2), {2}},
		"lom":    []map[string]interface{}{{"n": 2, "l": c18SpareIface([]interface{}{1}, 3)}, {"n": 1}},
		"emb":    &c18Emb{Name: "e"},                              // embedded pointers are nil: promoted fields are unreachable
		"embv":   c18Emb{Name: "v", C18Addr: &C18Addr{City: "C"}}, // and here reachable
		// YAML-style maps nested in string-keyed maps and lists (what a config file decodes to)
		"cfg": map[string]interface{}{"ports": map[interface{}]interface{}{443: "https", 80: "http"}, "names": map[interface{}]interface{}{"a": 1, 2: "b"},
			"list": []interface{}{map[interface{}]interface{}{1: "one"}, map[interface{}]interface{}{"k": []interface{}{map[interface{}]interface{}{true: 1}}}}},
		"buf":     bytes.NewBufferString("stream-data"),
		"rdr":     strings.NewReader("reader-data"),
		"deflt":   map[string]interface{}{"theme": map[string]interface{}{"color": "blue", "sizes": c18SpareIface([]interface{}{1, 2}, 2)}, "title": "T"},
		"page":    map[string]interface{}{"theme": map[string]interface{}{"color": "red", "font": "mono"}, "extra": 1},
		"withnil": c18SpareIface([]interface{}{3, nil, 12, 7, nil, 1}, 3),
		"a":       "str",
		"csv":     "c,a,b",
		"n":       5,
		"f":       1.5,
		"t":       true,
		"nil":     nil,
		"when":    time.Date(2024, 3, 5, 14, 7, 9, 0, time.UTC),
	}
}

// ---- deep snapshot ------------------------------------------------------------------------------------

type c18Snapper struct {
	lines []string
	seen  map[uintptr]bool
	ident bool // include addresses (backing arrays, map headers, pointers)
}

func c18Snap(v interface{}, ident bool) []string {
	s := &c18Snapper{seen: map[uintptr]bool{}, ident: ident}
	s.walk(reflect.ValueOf(v), "ctx", 0)
	return s.lines
}

func (s *c18Snapper) add(path, val string) { s.lines = append(s.lines, path+" = "+val) }

func (s *c18Snapper) walk(v reflect.Value, path string, depth int) {
	if depth > 12 {
		s.add(path, "<too deep>")
		return
	}
	if !v.IsValid() {
		s.add(path, "<nil>")
		return
	}
	switch v.Kind() {
	case reflect.Interface:
		if v.IsNil() {
			s.add(path, "<nil interface>")
			return
		}
		s.add(path+".(type)", v.Elem().Type().String())
		s.walk(v.Elem(), path, depth+1)
	case reflect.Ptr:
		if v.IsNil() {
			s.add(path, "<nil pointer>")
			return
		}
		if s.ident {
			s.add(path+".(ptr)", fmt.Sprintf("%#x", v.Pointer()))
		}
		if s.seen[v.Pointer()] {
			s.add(path, "<seen>")
			return
		}
		s.seen[v.Pointer()] = true
		s.walk(v.Elem(), path+"*", depth+1)
	case reflect.Slice:
		if v.IsNil() {
			s.add(path, "<nil slice>")
			return
		}
		s.add(path+".len/cap", fmt.Sprintf("%d/%d", v.Len(), v.Cap()))
		if s.ident {
			s.add(path+".(array)", fmt.Sprintf("%#x", v.Pointer()))
		}
		full := v
		if v.Cap() > v.Len() {
			full = v.Slice(0, v.Cap())
		}
		for i := 0; i < full.Len(); i++ {
			p := fmt.Sprintf("%s[%d]", path, i)
			if i >= v.Len() {
				p = fmt.Sprintf("%s[%d:spare]", path, i)
			}
			s.walk(full.Index(i), p, depth+1)
		}
	case reflect.Array:
		for i := 0; i < v.Len(); i++ {
			s.walk(v.Index(i), fmt.Sprintf("%s[%d]", path, i), depth+1)
		}
	case reflect.Map:
		if v.IsNil() {
			s.add(path, "<nil map>")
			return
		}
		s.add(path+".len", fmt.Sprint(v.Len()))
		if s.ident {
			s.add(path+".(map)", fmt.Sprintf("%#x", v.Pointer()))
		}
		keys := v.MapKeys()
		ks := make([]string, len(keys))
		idx := map[string]reflect.Value{}
		for i, k := range keys {
			kk := k
			for kk.Kind() == reflect.Interface && !kk.IsNil() {
				kk = kk.Elem()
			}
			ks[i] = fmt.Sprintf("%s:%v", kk.Type(), c18Scalar(kk))
			idx[ks[i]] = k
		}
		sort.Strings(ks)
		for _, k := range ks {
			s.walk(v.MapIndex(idx[k]), fmt.Sprintf("%s[%s]", path, k), depth+1)
		}
	case reflect.Struct:
		if v.Type().PkgPath() == "time" && v.Type().Name() == "Time" && v.CanInterface() {
			s.add(path, v.Interface().(time.Time).Format(time.RFC3339Nano))
			return
		}
		for i := 0; i < v.NumField(); i++ {
			s.walk(v.Field(i), path+"."+v.Type().Field(i).Name, depth+1)
		}
	case reflect.Func, reflect.Chan, reflect.UnsafePointer:
		s.add(path, fmt.Sprintf("%s@%#x", v.Kind(), v.Pointer()))
	default:
		s.add(path, c18Scalar(v))
	}
}

func c18Scalar(v reflect.Value) string {
	switch v.Kind() {
	case reflect.String:
		return fmt.Sprintf("%q", v.String())
	case reflect.Bool:
		return fmt.Sprint(v.Bool())
	case reflect.Int, reflect.Int8, reflect.Int16, reflect.Int32, reflect.Int64:
		return fmt.Sprint(v.Int())
	case reflect.Uint, reflect.Uint8, reflect.Uint16, reflect.Uint32, reflect.Uint64, reflect.Uintptr:
		return fmt.Sprint(v.Uint())
	case reflect.Float32, reflect.Float64:
		return fmt.Sprint(v.Float())
	case reflect.Complex64, reflect.Complex128:
		return fmt.Sprint(v.Complex())
	}
	return "<" + v.Kind().String() + ">"
}

func c18Diff(a, b []string) []string {
	am := map[string]string{}
	var out []string
	for _, l := range a {
		if i := strings.Index(l, " = "); i >= 0 {
			am[l[:i]] = l[i+3:]
		}
	}
	bm := map[string]bool{}
	for _, l := range b {
		i := strings.Index(l, " = ")
		if i < 0 {
			continue
		}
		p, val := l[:i], l[i+3:]
		bm[p] = true
		if old, ok := am[p]; !ok {
			out = append(out, fmt.Sprintf("+ %s = %s", p, val))
		} else if old != val {
			out = append(out, fmt.Sprintf("~ %s: %s -> %s", p, old, val))
		}
	}
	for _, l := range a {
		if i := strings.Index(l, " = "); i >= 0 && !bm[l[:i]] {
			out = append(out, "- "+l)
		}
	}
	if len(out) > 20 {
		out = append(out[:20], fmt.Sprintf("… %d more", len(out)-20))
	}
	return out
}

// ---- templates ----------------------------------------------------------------------------------------

var c18Aux = map[string]string{
	"inc":  "{% set xs = xs|merge([5]) %}{% set n = 99 %}{% set a = a ~ '!' %}{{ xs|join(',') }}{{ n }}{{ a }}",
	"inc2": "{% for a in xs %}{% set xs = [a] %}{% endfor %}{{ xs|length }}{% set m = m|merge({'new': 1}) %}{{ m|keys|join(',') }}",
	"lib":  "{% macro f(xs, a, m) %}{% set xs = xs|merge([1]) %}{% set a = 'local' %}{% set m = m|default({})|merge({'mk': 1}) %}{{ xs|join(',') }}{{ a }}{{ m|keys|join(',') }}{% endmacro %}{% macro g(n) %}{% set n = n + 1 %}{{ n }}{{ xs is defined ? 'leak' : '' }}{% endmacro %}",
}

var c18Filters = []string{
	"slice(0, 2)", "slice(1)", "slice(1, 1)", "merge(y)", "merge([9])", "merge(xs)", "merge({'k': 1})", "sort", "reverse", "keys",
	"default(y)", "first", "last", "join(',')", "split(',')", "length", "json_encode", "raw", "escape", "upper", "trim",
	"replace({'a': 'b'})", "striptags", "title", "capitalize", "abs", "url_encode", "nl2br", "spaceless", "format(1)", "date('Y')", "number_format",
}

var c18Vars = []string{
	"xs", "xs0", "full", "ss", "is", "fs", "bs", "y", "m", "m.list", "m.sub", "m.sub.deep", "m2", "tm", "mis", "msl", "msl.k", "mii",
	"arr", "parr", "st", "st.Tags", "st.Meta", "st.Meta.l", "st.Nums", "st.Arr", "pst", "pst.Tags", "pst.Meta", "pst.Nums", "pst.Arr",
	"pst.Child.Tags", "pst.Child.Nums", "pst.AllTags", "nested", "nested[0]", "nested[1]", "lol", "lol[0]", "lom", "lom[0]", "csv", "a", "n", "nil", "when",
}

// the data shapes "x" ranges over in the pair sweep of the quick tier (thorough uses all of c18Vars)
var c18CoreVars = []string{"xs", "ss", "is", "m", "m.list", "tm", "msl.k", "arr", "st.Tags", "pst.Tags", "pst.Nums", "nested[0]", "lol[0]", "csv", "pst.AllTags", "fs", "mis", "lom[0]"}

// fixed programs: scoping constructs that must not write through to the caller's map
var c18Fixed = []string{
	"{% set xs = [1] %}{{ xs|join }}",
	"{% set m = {'z': 1} %}{{ m|keys|join }}",
	"{% set a = 'changed' %}{% set n = n + 1 %}{% set nil = 1 %}{{ a }}{{ n }}{{ nil }}",
	// the only assignment of the template hides inside another construct
	"{% spaceless %}<p> {% set a = 'changed' %}{% set zz1 = 1 %} </p>{% endspaceless %}{{ a }}",
	"{% spaceless %}{% for a in xs %}{{ a }}{% endfor %}{% endspaceless %}{{ a }}",
	"{% do a = 'changed' %}{% do zz2 = 5 %}{{ a }}{{ zz2 }}",
	"{% apply upper %}{% set a = 'changed' %}{% set zz3 = 1 %}{{ a }}{% endapply %}",
	"{% if t %}{% if n %}{% set a = 'changed' %}{% set zz4 = 1 %}{% endif %}{% else %}{% set n = 0 %}{% endif %}{{ a }}",
	"{% block b %}{% set a = 'changed' %}{% set zz5 = 1 %}{{ a }}{% endblock %}",
	"{% block b %}{% spaceless %}{% import 'lib' as zz6 %}{% endspaceless %}{% endblock %}",
	"{% verbatim %}{% set a = 1 %}{% endverbatim %}{% spaceless %}{% from 'lib' import f as zz7 %}{% endspaceless %}",
	"{% macro mm(q) %}{% set a = q %}{{ a }}{% endmacro %}{{ mm('inner') }}{{ _self.mm(n) }}{{ a }}",
	// values that can be consumed (streams) and nested hashes merged by the function and the filter
	"{{ buf }}|{{ rdr }}|{{ buf|length }}|{{ buf ~ '' }}|{{ buf|upper }}|{% if buf %}y{% endif %}|{{ rdr|default('d') }}|{{ [buf]|join }}",
	"{{ merge(deflt, page)|json_encode }}|{{ deflt|merge(page)|json_encode }}|{% set o = merge(deflt, page) %}{{ o.theme|keys|join(',') }}|{% set o2 = merge(deflt, {'theme': {'color': 'x', 'sizes': [9]}}) %}{{ o2.theme.color }}|{{ deflt.theme|keys|join(',') }}|{{ merge(deflt.theme, page.theme)|length }}",
	// functions handed a whole sequence from the context (also one holding nulls), spread or not
	"{{ max(withnil) }}|{{ min(withnil) }}|{{ max(xs) }}|{{ min(xs) }}|{{ max(is) }}|{{ max(xs, 9) }}|{{ min(withnil, 0) }}|{{ max(withnil|slice(0, 3)) }}|{{ cycle(withnil, 1) }}|{{ range(1, 3)|merge(withnil)|length }}|{{ withnil|length }}",
	"{{ withnil|default([])|join(',') }}|{{ withnil|first }}|{{ withnil|last }}|{{ withnil|sort|join(',') }}|{{ withnil|reverse|join(',') }}|{{ withnil|slice(1, 2)|join(',') }}|{{ withnil|merge([0])|join(',') }}|{{ withnil|json_encode }}|{{ withnil|keys|join }}",
	// encoders and printers over nested maps with non-string keys
	"{{ cfg|json_encode }}|{{ cfg.ports|json_encode }}|{{ cfg.ports|keys|json_encode }}|{{ cfg.list|json_encode }}|{{ [cfg.names]|json_encode }}|{{ {'w': cfg.ports}|json_encode }}|{{ cfg.list|first|keys|join }}",
	"{{ dump(cfg) }}{{ cfg.ports|keys|sort|join(',') }}{{ cfg.names|length }}{% for k, v in cfg.ports %}{{ k }}={{ v }};{% endfor %}{{ cfg.ports|merge({'x': 1})|length }}{{ cfg }}",
	// promoted fields behind nil embedded pointers: reading them must not allocate into the caller's struct
	"{{ emb.Name }}|{{ emb.City }}|{{ emb.Zip }}|{{ emb.City is defined ? 'd' : 'u' }}|{{ emb.Deep.City }}|{{ embv.City }}|{{ embv.Zip|length }}|{{ embv.Deep.City }}",
	"{% for k in [1, 2] %}{{ emb.City|default('none') }}{{ emb['City'] }}{{ emb.C18Addr }}{% endfor %}{{ emb.Deep }}",
	// an import alias / imported name that is also a key of the caller's context (a map, a list, a scalar)
	"{% import 'lib' as m %}{{ m.g(1) }}|{% import 'lib' as m2 %}{{ m2.g(2) }}|{% import 'lib' as xs %}{{ xs.g(3) }}|{% import 'lib' as a %}{{ a.g(4) }}",
	"{% from 'lib' import g as m %}{{ m(1) }}|{% from 'lib' import f as xs, g as n %}{{ n(2) }}",
	"{% for i in [1, 2] %}{% import 'lib' as m %}{{ m.g(i) }}{% endfor %}{{ m|length }}",
	"{% set xs = xs|merge([4]) %}{% set xs = xs|sort %}{{ xs|join(',') }}",
	"{% set m = m|merge({'a': 'over', 'new': 1}) %}{{ m.a }}{{ m.new }}",
	"{% for a in xs %}{{ a }}{% endfor %}|{{ a }}",
	"{% for n, a in m %}{{ n }}{% endfor %}|{{ n }}{{ a }}",
	"{% for xs in xs %}{{ xs }}{% endfor %}|{{ xs|join(',') }}",
	"{% for m, xs in m %}{{ m }}{% endfor %}|{{ m|length }}",
	"{% for x in xs %}{% set x = 0 %}{% set xs = [] %}{{ x }}{% endfor %}{{ xs|join(',') }}",
	"{% for k, v in m %}{% set v = 1 %}{% set k = 'q' %}{% endfor %}{{ m.a }}",
	"{% for k, v in tm %}{% set v = v + 1 %}{{ v }}{% endfor %}",
	"{% for s in ss %}{% for i in is %}{% set s = i %}{% endfor %}{% endfor %}{{ ss|join(',') }}",
	"{% for row in lol %}{% for c in row|sort %}{{ c }}{% endfor %}{% endfor %}",
	"{% for row in lom %}{{ row.n }}{% for c in row.l|default([])|merge([7]) %}{{ c }}{% endfor %}{% endfor %}",
	"{% for t in st.Tags|sort %}{{ t }}{% endfor %}{% for t in pst.Tags|reverse %}{{ t }}{% endfor %}",
	"{% for x in arr %}{{ x }}{% endfor %}{% for x in parr %}{{ x }}{% endfor %}{{ arr|sort|join }}{{ arr|reverse|join }}",
	"{% for x in xs|slice(0, 2) %}{{ loop.index }}{{ x }}{% endfor %}{% for x in xs0 %}x{% else %}empty{% endfor %}",
	"{% include 'inc' %}|{{ xs|join(',') }}{{ n }}{{ a }}",
	"{% include 'inc' with {'xs': [0], 'a': 'q', 'n': 1} %}|{{ xs|join(',') }}{{ n }}{{ a }}",
	"{% include 'inc' with {'xs': xs, 'a': a, 'n': n} only %}|{{ xs|join(',') }}",
	"{% include 'inc2' %}|{{ xs|join(',') }}|{{ m|keys|join(',') }}",
	"{% include 'inc2' with {'xs': xs|slice(0, 2), 'm': m.sub} %}|{{ m.sub|keys|join(',') }}",
	"{% import 'lib' as lib %}{{ lib.f(xs, a, m) }}|{{ xs|join(',') }}{{ a }}{{ m|keys|join(',') }}",
	"{% import 'lib' as lib %}{{ lib.f(xs|slice(0, 2), 'z', m.sub) }}{{ lib.f(y) }}{{ lib.g(n) }}{{ n }}",
	"{% from 'lib' import f as ff %}{{ ff(pst.Tags, a, st.Meta) }}|{{ pst.Tags|join(',') }}",
	"{% do xs|merge([1]) %}{% do xs|sort %}{% do m|merge({'q': 1}) %}{{ xs|join(',') }}",
	"{% apply upper %}{{ ss|sort|join(',') }}{% endapply %}",
	"{{ xs|merge(y)|join(',') }}|{{ xs|slice(0, 2)|merge([9])|join(',') }}|{{ merge(xs, y)|join(',') }}|{{ merge(xs0, y, xs)|join(',') }}",
	"{{ merge(m, m2)|keys|join(',') }}|{{ m|merge(m2)|keys|join(',') }}|{{ merge(tm, {'x': 1})|keys|join(',') }}",
	"{{ cycle(xs, 1) }}{{ cycle(ss, 4) }}{{ max(3, n) }}{{ min(1, f) }}{{ random(3) ? '' : '' }}{{ range(1, n)|join }}",
	"{{ xs[0] }}{{ m['a'] }}{{ m.sub.deep[1] }}{{ 2 in xs ? 'y' : 'n' }}{{ 'a' in m ? 'y' : 'n' }}{{ 'fig' in ss ? 'y' : 'n' }}",
	"{{ pst.Name }}{{ pst.Label }}{{ st.TagCount }}{{ pst.Child.Name }}{{ pst.Meta.k }}{{ st.Meta.l|reverse|join }}{{ pst.AllTags|sort|join(',') }}",
	"{{ dump(xs) }}{{ dump(m) }}{{ xs|json_encode }}{{ m|json_encode }}{{ pst|json_encode }}{{ st|json_encode }}",
	"{{ xs }}{{ m }}{{ st }}{{ arr }}{{ xs ~ ss }}{{ xs == y ? 1 : 0 }}{{ xs|length + ss|length }}",
	"{% set q = xs %}{% set q = q|merge([1]) %}{% set r = q|reverse %}{{ q|join(',') }}{{ r|join(',') }}{{ xs|join(',') }}",
	"{% set q = m.list %}{% set q = q|sort %}{{ q|join(',') }}{{ m.list|join(',') }}",
	"{% if xs|sort|first == 1 %}{{ xs|first }}{% endif %}{% if m|keys|length > 2 %}{{ m|keys|first }}{% endif %}",
	"{{ range(1, 3)|merge(xs)|join(',') }}{{ [1, 2]|merge(xs)|join(',') }}{{ {'a': 1}|merge(m)|keys|join(',') }}",
	"{{ csv|split(',')|sort|join('-') }}{{ ss|join(',')|split(',')|reverse|join('-') }}",
}

// c18PairTemplate: x|f|g, printed in a form that works for every result type
func c18PairTemplate(x string, fs ...string) string {
	return "{{ (" + x + "|" + strings.Join(fs, "|") + ")|json_encode|raw }}"
}

// c18IndepTemplate: "values obtained from one filter are not changed by applying another"
func c18IndepTemplate(x, f, g string) string {
	return "{% set p = " + x + "|" + f + " %}{% set before = p|json_encode %}{% set q = p|" + g + " %}" +
		"{% set q2 = q|merge([123]) %}{% if before == p|json_encode %}same{% else %}CHANGED {{ before|raw }} -> {{ p|json_encode|raw }}{% endif %}"
}

type c18Prog struct {
	Kind string
	Tpls map[string]string
}

func c18MkProg(kind, main string) c18Prog {
	t := map[string]string{"main": main}
	for k, v := range c18Aux {
		t[k] = v
	}
	return c18Prog{Kind: kind, Tpls: t}
}

// c18RenderChecked renders prog over a fresh standard context and compares the snapshots.
func c18RenderChecked(e *Env, p c18Prog) RenderResult {
	r := e.Rep
	ctx := c18Context()
	before := c18Snap(ctx, true)
	res := renderFresh(p.Tpls, "main", ctx)
	after := c18Snap(ctx, true)
	nontrivial := res.Class == "" && res.Out != ""
	r.Seen(p.Kind+":"+p.Tpls["main"], nontrivial)
	if res.Class != "" {
		r.Hit(p.Kind + ":" + res.Class)
	} else {
		r.Hit(p.Kind + ":ok")
	}
	if d := c18Diff(before, after); len(d) > 0 {
		r.Violate(Violation{Key: "caller-data-modified",
			What:   fmt.Sprintf("rendering %s changes the caller's context: %s", truncate(p.Tpls["main"], 100), truncate(d[0], 120)),
			Broken: "C18_frame / C18_sites_ok no longer describe the code (implementation-only oracle: snapshot before/after)",
			Replay: map[string]any{"kind": "snapshot", "templates": p.Tpls, "context": "c18Context() in harness/c18.go (values below)", "diff": d,
				"output": truncate(res.Out, 300), "class": res.Class, "context_values": c18Snap(c18Context(), false)}})
	}
	if res.Class == "panic" {
		r.Hit("panic")
	}
	return res
}

func c18RandomProg(rng *rand.Rand) string {
	var sb strings.Builder
	n := 1 + rng.Intn(4)
	for i := 0; i < n; i++ {
		x := pick(rng, c18Vars)
		chain := x
		for j := rng.Intn(4); j > 0; j-- {
			chain += "|" + pick(rng, c18Filters)
		}
		switch rng.Intn(9) {
		case 0:
			sb.WriteString("{{ " + chain + "|json_encode|raw }}")
		case 1:
			sb.WriteString("{% set " + pick(rng, []string{"xs", "m", "a", "n", "tmp", "ss", "st", "pst"}) + " = " + chain + " %}")
		case 2:
			sb.WriteString("{% for " + pick(rng, []string{"v", "a", "xs", "m", "n"}) + " in " + chain + " %}{{ loop.index }}{% set " + pick(rng, []string{"v", "xs", "w"}) + " = loop.index %}{% endfor %}")
		case 3:
			sb.WriteString("{% for k, " + pick(rng, []string{"v", "a", "xs"}) + " in " + chain + " %}{{ k }}{% endfor %}")
		case 4:
			sb.WriteString("{% include 'inc' with {'xs': " + chain + ", 'a': 1, 'n': 2} %}")
		case 5:
			sb.WriteString("{% import 'lib' as lib %}{{ lib.f(" + chain + ", a, m) }}")
		case 6:
			sb.WriteString("{% do " + chain + " %}")
		case 7:
			sb.WriteString("{% if " + chain + " %}y{% endif %}{{ " + x + "|json_encode|raw }}")
		default:
			sb.WriteString("{{ merge(" + chain + ", " + pick(rng, c18Vars) + ")|json_encode|raw }}")
		}
	}
	return sb.String()
}

// c18SharedRound renders the templates of seq over ONE shared context (serially or concurrently, each on
// its own engine) and checks the snapshot of the shared data and every output against the same render alone.
func c18SharedRound(e *Env, seq []string, conc bool, expect map[string]RenderResult) {
	r := e.Rep
	shared := c18Context()
	before := c18Snap(shared, true)
	k := len(seq)
	outs := make([]RenderResult, k)
	if conc {
		var wg sync.WaitGroup
		for i := range seq {
			wg.Add(1)
			go func(i int) {
				defer wg.Done()
				outs[i] = renderFresh(c18MkProg("x", seq[i]).Tpls, "main", shared)
			}(i)
		}
		wg.Wait()
		r.Hit("shared-concurrent")
	} else {
		for i := range seq {
			outs[i] = renderFresh(c18MkProg("x", seq[i]).Tpls, "main", shared)
		}
		r.Hit("shared-serial")
	}
	after := c18Snap(shared, true)
	r.Seen(fmt.Sprintf("shared:%v:%s", conc, strings.Join(seq, "\x00")), true)
	if d := c18Diff(before, after); len(d) > 0 {
		r.Violate(Violation{Key: "caller-data-modified",
			What:   fmt.Sprintf("renders sharing one context (concurrent=%v) change it: %s", conc, truncate(d[0], 120)),
			Broken: "C18_frame (implementation-only oracle: snapshot around renders that share data)",
			Replay: map[string]any{"kind": "shared", "concurrent": conc, "templates": seq, "aux": c18Aux, "diff": d, "context": "c18Context()"}})
	}
	for i, src := range seq {
		if strings.Contains(src, "random(") {
			continue
		}
		w, ok := expect[src]
		if !ok {
			w = renderFresh(c18MkProg("x", src).Tpls, "main", c18Context())
		}
		if c18MaskAddr(outs[i].Out) != c18MaskAddr(w.Out) || outs[i].Class != w.Class {
			r.Violate(Violation{Key: "shared-data-render-differs",
				What:   fmt.Sprintf("a render sharing its context with others (concurrent=%v) differs from the same render alone", conc),
				Broken: "C18: two renders that share context data cannot influence each other (implementation-only oracle)",
				Replay: map[string]any{"kind": "shared-output", "concurrent": conc, "templates": seq, "index": i, "aux": c18Aux,
					"alone": truncate(w.Out, 300), "shared": truncate(outs[i].Out, 300), "class_alone": w.Class, "class_shared": outs[i].Class}})
		}
	}
}

// (also upper-cased or reversed by a filter of the template: 0XC000…, …000cx0)
var C18AddrRe = regexp.MustCompile(`(?i)0x[0-9a-f]{6,}|[0-9a-f]{6,}x0`)

// c18MaskAddr: printed pointers differ between two context instances (that is C03's finding
// prints-address, not a C18 matter)
func c18MaskAddr(s string) string { return C18AddrRe.ReplaceAllString(s, "0xADDR") }

// c18Replay re-runs one recorded case (file written by ../check: {"property", "key", "case": <Violation.Replay>}).
func c18Replay(e *Env) error {
	b, err := os.ReadFile(e.Replay)
	if err != nil {
		return err
	}
	var f struct {
		Case struct {
			Kind       string          `json:"kind"`
			Templates  json.RawMessage `json:"templates"`
			Concurrent bool            `json:"concurrent"`
			N          int             `json:"n"`
		} `json:"case"`
	}
	if err := json.Unmarshal(b, &f); err != nil {
		return err
	}
	if h, ok := c18ReplayExtra[f.Case.Kind]; ok {
		if err := h(e, f.Case.N, f.Case.Templates); err != nil {
			return err
		}
		for _, v := range e.Rep.Violations {
			fmt.Printf("  %s: %s\n", v.Key, v.What)
		}
		return nil
	}
	switch f.Case.Kind {
	case "snapshot", "indep":
		var tpls map[string]string
		if err := json.Unmarshal(f.Case.Templates, &tpls); err != nil {
			return err
		}
		res := c18RenderChecked(e, c18Prog{Kind: "replay", Tpls: tpls})
		if f.Case.Kind == "indep" && strings.HasPrefix(res.Out, "CHANGED") {
			e.Rep.Violate(Violation{Key: "filter-result-changed-by-later-filter", What: "reproduced: " + truncate(res.Out, 200), Broken: "C18", Replay: map[string]any{"templates": tpls}})
		}
		fmt.Printf("replay %s: output %q (class %q); reproduced: %v\n", f.Case.Kind, truncate(res.Out, 300), res.Class, len(e.Rep.Violations) > 0)
	case "shared", "shared-output":
		var seq []string
		if err := json.Unmarshal(f.Case.Templates, &seq); err != nil {
			return err
		}
		for round := 0; round < 20 && len(e.Rep.Violations) == 0; round++ {
			c18SharedRound(e, seq, f.Case.Concurrent, nil)
		}
		fmt.Printf("replay %s (concurrent=%v): reproduced: %v\n", f.Case.Kind, f.Case.Concurrent, len(e.Rep.Violations) > 0)
	default:
		return fmt.Errorf("C18 replay: unknown case kind %q", f.Case.Kind)
	}
	for _, v := range e.Rep.Violations {
		fmt.Printf("  %s: %s\n", v.Key, v.What)
	}
	return nil
}

func runC18(e *Env) error {
	r := e.Rep
	if e.Replay != "" {
		return c18Replay(e)
	}
	r.Rule = "deep snapshot (values, spare capacity, backing-array/map/pointer identity) of a 33-key context before/after each render: " +
		"(1) 40 scoping programs (set/for/include/macro/do/apply shadowing context keys), (2) x|f|g for every ordered pair of 32 filters over " +
		"18 data shapes (thorough: 46 shapes and triples), (3) in-template independence check p=x|f; q=p|g; p unchanged, (4) random programs, " +
		"(5) serial and concurrent renders sharing one context; non-trivial = renders without error to non-empty output; distinct by template"
	// (1) regression corpus / scoping constructs
	for _, src := range c18Fixed {
		res := c18RenderChecked(e, c18MkProg("fixed", src))
		if res.Class == "parse-error" {
			// a hand-written template that does not parse exercises nothing: that is a defect of this harness
			r.Violate(Violation{Key: "harness-template-does-not-parse", What: fmt.Sprintf("the fixed C18 template %q does not parse: %v", truncate(src, 120), res.Err), Broken: "C18 harness corpus",
				Replay: map[string]any{"kind": "src", "src": src, "err": fmt.Sprint(res.Err)}})
		}
		if r.Full() {
			return nil
		}
	}
	r.Sample(map[string]any{"kind": "fixed", "template": c18Fixed[19]})
	// (2) pairs
	vars := c18CoreVars
	if e.Thorough() {
		vars = c18Vars
	}
	for _, x := range vars {
		for _, f := range c18Filters {
			c18RenderChecked(e, c18MkProg("single", c18PairTemplate(x, f)))
			for _, g := range c18Filters {
				c18RenderChecked(e, c18MkProg("pair", c18PairTemplate(x, f, g)))
				if r.Full() {
					return nil
				}
			}
		}
	}
	r.Sample(map[string]any{"kind": "pair", "template": c18PairTemplate("xs", "slice(0, 2)", "merge([9])")})
	if e.Thorough() {
		short := []string{"slice(0, 2)", "slice(1)", "merge(y)", "merge([9])", "sort", "reverse", "keys", "default(y)", "first", "last"}
		for _, x := range c18CoreVars {
			for _, f := range short {
				for _, g := range short {
					for _, h := range short {
						c18RenderChecked(e, c18MkProg("triple", c18PairTemplate(x, f, g, h)))
					}
				}
			}
			if r.Full() {
				return nil
			}
		}
	}
	// (3) independence of filter results
	listy := []string{"slice(0, 2)", "slice(1)", "merge(y)", "merge([9])", "sort", "reverse", "keys", "default(y)", "split(',')", "raw"}
	for _, x := range c18CoreVars {
		for _, f := range listy {
			for _, g := range c18Filters {
				p := c18MkProg("indep", c18IndepTemplate(x, f, g))
				res := c18RenderChecked(e, p)
				if res.Class == "" && strings.HasPrefix(res.Out, "CHANGED") {
					r.Violate(Violation{Key: "filter-result-changed-by-later-filter",
						What:   fmt.Sprintf("the value of %s|%s changes when %s is applied to it", x, f, g),
						Broken: "C18_slice_window_alias_safe / C18 results independent (implementation-only oracle)",
						Replay: map[string]any{"kind": "indep", "templates": p.Tpls, "output": truncate(res.Out, 400), "context": "c18Context()"}})
				}
				if r.Full() {
					return nil
				}
			}
		}
	}
	r.Sample(map[string]any{"kind": "indep", "template": c18IndepTemplate("xs", "slice(0, 2)", "merge([9])")})
	// (4) random programs
	n := e.N(2500, 150000)
	var progs []string
	for i := 0; i < n && !r.Full(); i++ {
		src := c18RandomProg(e.Rng)
		res := c18RenderChecked(e, c18MkProg("random", src))
		if res.Class == "" && len(progs) < 400 {
			progs = append(progs, src)
		}
		if i == 0 {
			r.Sample(map[string]any{"kind": "random", "template": src, "output": truncate(res.Out, 120), "class": res.Class})
		}
	}
	if r.Full() {
		return nil
	}
	// (5) renders sharing data: serially and concurrently
	progs = append(progs, c18Fixed...)
	expect := map[string]RenderResult{}
	for _, src := range progs {
		expect[src] = renderFresh(c18MkProg("x", src).Tpls, "main", c18Context())
	}
	rounds := e.N(30, 600)
	for round := 0; round < rounds && !r.Full(); round++ {
		k := 2 + e.Rng.Intn(5)
		seq := make([]string, k)
		for i := range seq {
			seq[i] = pick(e.Rng, progs)
		}
		c18SharedRound(e, seq, round%2 == 1, expect)
	}
	// (6), (7) … : records kept by value (c18_records.go); sizes, places, operators (c18_sized.go)
	for _, part := range c18Extra {
		if r.Full() {
			break
		}
		part(e)
	}
	return nil
}
