package main

import (
	"fmt"
	"strings"

	"github.com/semihalev/twig"
)

// C06 — a sandboxed include can never run a filter or function the policy forbids.

func init() { register("C06", runC06) }

// positions in which a forbidden filter (`bad`) or function (`badfn`) can be written
var c06Positions = []struct{ name, src string }{
	{"chain-head", "{{ x|bad|upper }}"},
	{"chain-middle", "{{ x|upper|bad|lower }}"},
	{"chain-tail", "{{ x|upper|bad }}"},
	{"for-seq", "{% for i in xs|bad %}{{ i }}{% endfor %}"},
	{"apply", "{% apply bad %}body{% endapply %}"},
	{"filter-arg", "{{ nul|default(x|bad) }}"},
	{"function-arg", "{{ okfn(x|bad) }}"},
	{"condition", "{% if x|bad %}y{% endif %}"},
	{"elseif", "{% if f %}a{% elseif x|bad %}b{% endif %}"},
	{"array-elem", "{{ [x|bad]|join(',') }}"},
	{"hash-value", "{% set h = {'k': x|bad} %}{{ h.k }}"},
	{"set", "{% set y = x|bad %}{{ y }}"},
	{"include-var", "{% include 'show' with {'v': x|bad} %}"},
	{"ternary-arm", "{{ t ? x|bad : 'n' }}"},
	{"index", "{{ xs[zero|bad] }}"},
	{"test-operand", "{{ x|bad is empty }}"},
	{"binary-operand", "{{ 'a' ~ x|bad }}"},
	{"fn-call", "{{ badfn() }}"},
	{"fn-in-chain", "{{ badfn()|upper }}"},
	{"fn-for-seq", "{% for i in badfn() %}{{ i }}{% endfor %}"},
	{"fn-arg", "{{ okfn(badfn()) }}"},
	{"fn-condition", "{% if badfn() %}y{% endif %}"},
	{"macro-default", "{% macro dm(a = x|bad) %}{{ a }}{% endmacro %}{{ dm() }}"},
	{"macro-arg", "{% macro am(a) %}{{ a }}{% endmacro %}{{ am(x|bad) }}"},
	{"module-call-on-map", "{{ plainmap.badfn() }}"},
	{"module-call-shadowed-by-macro", "{% macro badfn() %}macro{% endmacro %}{{ plainmap.badfn() }}"},
	{"call-shadowed-by-macro-name", "{% macro okfn() %}macro{% endmacro %}{{ okfn(x|bad) }}"},
}

// routes by which the sandboxed template reaches the position
var c06Routes = []string{"direct", "include", "include-only", "include-with", "extends", "import-macro", "from-macro", "parent-block", "local-macro", "nested-include-2", "import-toplevel", "from-toplevel", "extends-bare", "extends-bare-2"}

func c06Templates(route, pos string) map[string]string {
	t := map[string]string{"show": "{{ v }}"}
	switch route {
	case "direct":
		t["box"] = "[" + pos + "]"
	case "include":
		t["box"] = "[{% include 'inner' %}]"
		t["inner"] = pos
	case "include-only":
		t["box"] = "[{% include 'inner' with {'x': x, 'xs': xs, 't': t, 'zero': 0, 'plainmap': plainmap} only %}]"
		t["inner"] = pos
	case "include-with":
		t["box"] = "[{% include 'inner' with {'extra': 1} %}]"
		t["inner"] = pos
	case "extends":
		t["box"] = "{% extends 'layout' %}{% block c %}" + pos + "{% endblock %}"
		t["layout"] = "[{% block c %}{% endblock %}]"
	case "parent-block":
		t["box"] = "{% extends 'layout' %}{% block c %}<{{ parent() }}>{% endblock %}"
		t["layout"] = "[{% block c %}" + pos + "{% endblock %}]"
	case "import-macro":
		t["box"] = "[{% import 'lib' as L %}{{ L.mac(x, xs) }}]"
		t["lib"] = "{% macro mac(x, xs) %}" + strings.ReplaceAll(pos, "{% macro", "{# nested macro #}{% macro") + "{% endmacro %}"
	case "from-macro":
		t["box"] = "[{% from 'lib' import mac %}{{ mac(x, xs) }}]"
		t["lib"] = "{% macro mac(x, xs) %}" + pos + "{% endmacro %}"
	case "local-macro":
		t["box"] = "{% macro mac(x, xs) %}" + pos + "{% endmacro %}[{{ mac(x, xs) }}]"
	case "extends-bare":
		// the sandboxed template defines no block at all: everything it renders is its parent's
		t["box"] = "{% extends 'layout' %}"
		t["layout"] = "[{% block c %}" + pos + "{% endblock %}]"
	case "extends-bare-2":
		t["box"] = "{% extends 'mid' %}"
		t["mid"] = "{% extends 'layout' %}"
		t["layout"] = "[" + pos + "{% block c %}b{% endblock %}]"
	case "import-toplevel":
		// the library's own top-level code runs while it is imported: inside the sandbox too
		t["box"] = "[{% import 'lib' as L %}{{ L.ok() }}]"
		t["lib"] = "{% set x = 'libval' %}{% set xs = ['p', 'q'] %}{% set t = true %}{% set f = false %}{% set zero = 0 %}{% set plainmap = {'k': 1} %}" + pos + "{% macro ok() %}ok{% endmacro %}"
	case "from-toplevel":
		t["box"] = "[{% from 'lib' import ok %}{{ ok() }}]"
		t["lib"] = "{% set x = 'libval' %}{% set xs = ['p', 'q'] %}{% set t = true %}{% set f = false %}{% set zero = 0 %}{% set plainmap = {'k': 1} %}" + pos + "{% macro ok() %}ok{% endmacro %}"
	case "nested-include-2":
		t["box"] = "[{% include 'mid' %}]"
		t["mid"] = "{% include 'inner' only %}{% include 'inner' %}"
		t["inner"] = pos
	}
	return t
}

func runC06(e *Env) error {
	r := e.Rep
	rg := e.Rng
	r.Rule = "a template rendered through `include … sandboxed` reaches a forbidden spy filter/function written in each of 24 syntactic positions through each of 12 routes (direct, nested includes with/without only/with, extends, parent(), import/from macros, local macro, two-level nesting, the top-level code of an imported library) — all 288 combinations, the sandboxed include tag itself rotating through 8 option forms — plus random policies and random programs using spy filters; " +
		"every case is rendered again on engines SET UP differently (c06_setup.go: templates from RegisterString / a loader / ParseTemplate or NewTemplate of the same or of another engine + RegisterTemplate / compiled templates; only the sandboxed target, only what lies below it, or all of them; EnableSandbox before or after registration, DisableSandbox before / after / between renders, a permissive policy replaced by the strict one; cache off / development mode / auto-reload; Render / RenderTo / Load+Template.Render; the policy VALUE in 13 shapes that denote the same allowed set (c06_policy.go: forbidden names absent / listed false / deleted, library defaults edited, permissions withdrawn before or after EnableSandbox or after a render, nil lists, an embedding type, a custom SecurityPolicy implementation)) and must give the base outcome; " +
		"oracles (implementation-only): a forbidden callback is never invoked and the render fails with a security violation; the same program with the callback allowed renders; the including template outside the sandbox may call the same callback; plus the Lean pipeline (incl. trace of invocations); " +
		"non-trivial = every case (each has a sandbox boundary and a forbidden callback); distinct by template set + policy"
	ctx := map[string]any{"x": "val", "xs": []interface{}{"p", "q"}, "t": true, "f": false, "zero": 0, "nul": nil, "plainmap": map[string]interface{}{"k": 1}}
	basePolicy := func(allowBad bool) *PolicySpec {
		p := &PolicySpec{Filters: []string{"upper", "lower", "default", "join", "escape", "length", "okf"},
			Functions: []string{"okfn", "range", "parent", "mac", "dm", "am", "ok"}}
		if allowBad {
			p.Filters = append(p.Filters, "bad")
			p.Functions = append(p.Functions, "badfn")
		}
		return p
	}
	// the include tag that opens the sandbox, with every other option it can carry: `only` and `with` restrict or add
	// variables, they never lift the policy
	allVars := "{'x': x, 'xs': xs, 't': t, 'f': f, 'zero': zero, 'nul': nul, 'plainmap': plainmap}"
	incForms := []string{"{% include 'box' sandboxed %}", "{% include 'box' with " + allVars + " only sandboxed %}", "{% include 'box' with " + allVars + " sandboxed only %}",
		"{% include 'box' with {'extra': 1} sandboxed %}", "{% include 'box' ignore missing sandboxed %}", "{% include 'box' ignore missing with " + allVars + " only sandboxed %}",
		"{% include 'box' sandboxed with " + allVars + " only %}", "{% include 'b' ~ 'ox' sandboxed %}"}
	formTick := 0
	incForm := incForms[0]
	rotor := &c06SetupRotor{}
	isAllowed := func(p *PolicySpec) func(string) bool {
		ok := map[string]bool{}
		for _, f := range p.Filters {
			ok[f] = true
		}
		for _, f := range p.Functions {
			ok[f] = true
		}
		return func(name string) bool { return ok[name] }
	}
	mk := func(tpls map[string]string, allowBad bool, outsideUse bool) *Case {
		main := incForm
		if outsideUse {
			main = "{{ x|bad }}{{ badfn() }}" + main // outside the sandbox the includer keeps its normal permissions
		}
		all := map[string]string{"main": main}
		for k, v := range tpls {
			all[k] = v
		}
		return &Case{Templates: all, Main: "main", Ctx: ctx, Policy: basePolicy(allowBad), SpyFilters: []string{"bad", "okf"}, SpyFunctions: []string{"badfn", "okfn"}, FailAt: -1}
	}
	forbiddenInvoked := func(o Outcome, skip int) bool {
		n := 0
		for _, ev := range o.Spies {
			if ev.Name == "bad" || ev.Name == "badfn" {
				n++
			}
		}
		return n > skip
	}
	for _, route := range c06Routes {
		for _, pos := range c06Positions {
			if r.Full() {
				return nil
			}
			if (route == "import-macro" || route == "from-macro" || route == "local-macro") && strings.Contains(pos.src, "{% macro") {
				continue // a macro definition nested in a macro body is not at the top level of its template
			}
			tpls := c06Templates(route, pos.src)
			incForm = incForms[formTick%len(incForms)]
			formTick++
			r.Hit("include-form:" + incForm[len("{% include "):])
			// 1. forbidden: must fail with a security violation and never invoke the callback
			c := mk(tpls, false, false)
			im, _, _, err := compareCase(e, c, "render-model-c06", "correspondence (Lean pipeline with sandbox flags and event trace vs real engine)")
			if err != nil {
				return err
			}
			r.Seen("forbid:"+route+":"+pos.name, true)
			r.Hit("route:" + route)
			if forbiddenInvoked(im, 0) || im.Class != "security" {
				if r.Violate(Violation{Key: "sandbox-escape", What: fmt.Sprintf("forbidden callback at position %s reached via %s: class %q, invocations %v", pos.name, route, im.Class, im.Spies),
					Broken: "theorem C06_confinement / C06_flag_invariant no longer describes the code (implementation-only oracle: spy counters)",
					Replay: c.replay(im, Outcome{})}) {
					return nil
				}
			}
			// 1b. the same case on engines set up in other ways (who built the templates, which engine calls came
			// before the render): the base outcome is the expected one
			setups := rotor.sweep()
			if im.Class == "security" && !forbiddenInvoked(im, 0) {
				for _, s := range setups {
					if c06CheckSetup(e, c, s, im, isAllowed(c.Policy)) {
						return nil
					}
				}
			}
			// 2. allowed: the same program renders and the callback runs
			c2 := mk(tpls, true, false)
			im2, _, _, err := compareCase(e, c2, "render-model-c06", "correspondence on the allowed variant")
			if err != nil {
				return err
			}
			r.Seen("allow:"+route+":"+pos.name, true)
			if im2.Class != "" {
				if r.Violate(Violation{Key: "sandbox-overblocks", What: fmt.Sprintf("allowed callback at position %s via %s fails: %s (%s)", pos.name, route, im2.Class, truncate(im2.Msg, 120)),
					Broken: "theorem C06_allowed_unchanged no longer describes the code (implementation-only oracle)", Replay: c2.replay(im2, Outcome{})}) {
					return nil
				}
			}
			if im2.Class == "" {
				for i, s := range setups {
					if i%3 == formTick%3 {
						if c06CheckSetup(e, c2, s, im2, isAllowed(c2.Policy)) {
							return nil
						}
					}
				}
			}
			// 3. outside the sandbox the includer may use the callback; inside it stays forbidden
			if rg.Intn(4) == 0 {
				c3 := mk(tpls, false, true)
				im3, _, _, err := compareCase(e, c3, "render-model-c06", "correspondence on the outside-use variant")
				if err != nil {
					return err
				}
				r.Seen("outside:"+route+":"+pos.name, true)
				if im3.Class == "security" && !forbiddenInvoked(im3, 2) {
					if c06CheckSetup(e, c3, rotor.next(), im3, isAllowed(c3.Policy)) {
						return nil
					}
				}
				if forbiddenInvoked(im3, 2) || im3.Class != "security" || len(im3.Spies) < 2 {
					if r.Violate(Violation{Key: "sandbox-boundary", What: fmt.Sprintf("outside use + sandboxed include (%s via %s): class %q, invocations %v", pos.name, route, im3.Class, im3.Spies),
						Broken: "theorem C06_outside_unrestricted / C06_confinement (implementation-only oracle)", Replay: c3.replay(im3, Outcome{})}) {
						return nil
					}
				}
			}
		}
	}
	// a policy that is not an exact-name allow-list (here: a deny-list) and names written in another letter case: the
	// callback registered as "bad" is forbidden, so no spelling may reach it from inside the sandbox
	for _, pos := range []string{"{{ x|Bad }}", "{{ x|BAD|upper }}", "{{ x|upper|bAd }}", "{% for c in xs|Bad %}{{ c }}{% endfor %}", "{% apply BAD %}b{% endapply %}", "{{ nul|default(x|Bad) }}",
		"{{ Badfn() }}", "{{ BADFN()|upper }}", "{{ okfn(Badfn()) }}", "{{ x|bad }}", "{{ badfn() }}", "{% if x|bad %}y{% endif %}"} {
		var spies []string
		res := guarded(func() (string, error) {
			eng := twig.New()
			eng.AddFilter("bad", func(v interface{}, a ...interface{}) (interface{}, error) {
				spies = append(spies, "bad")
				return v, nil
			})
			eng.AddFunction("badfn", func(a ...interface{}) (interface{}, error) { spies = append(spies, "badfn"); return "r", nil })
			eng.AddFunction("okfn", func(a ...interface{}) (interface{}, error) { return "ok", nil })
			eng.RegisterString("main", "{{ x|bad }}{% include 'box' sandboxed %}")
			eng.RegisterString("box", pos)
			eng.EnableSandbox(&c06DenyPolicy{filters: map[string]bool{"bad": true}, functions: map[string]bool{"badfn": true}})
			return eng.Render("main", ctx)
		})
		r.Seen("denylist:"+pos, true)
		r.Hit("deny-list-policy")
		if len(spies) != 1 || res.Class == "panic" || res.Class == "timeout" {
			if r.Violate(Violation{Key: "sandbox-escape", What: fmt.Sprintf("deny-list policy, sandboxed template %q: the forbidden callback ran %d time(s) inside the sandbox (class %q, output %q)", pos, len(spies)-1, res.Class, res.Out),
				Broken: "theorem C06_confinement (implementation-only oracle: a policy is asked about the callback that actually runs)",
				Replay: map[string]any{"kind": "deny-list", "box": pos, "spies": spies, "class": res.Class, "out": res.Out, "err": fmt.Sprint(res.Err)}}) {
				return nil
			}
		}
	}
	// built-in filters the policy does not list, on literals and variables, and the tags that are implemented through a
	// filter: refused inside the sandbox in every spelling, fine outside
	for _, f := range []string{"upper", "lower", "trim", "spaceless", "length", "capitalize", "raw", "escape", "default('d')", "join(',')", "reverse", "first"} {
		name := strings.SplitN(f, "(", 2)[0]
		for _, pos := range []string{"{{ 'Text'|F }}", "{{ x|F }}", "{{ nul|default('Text'|F) }}", "{% apply F %}body{% endapply %}", "{{ ('a' ~ 'B')|F }}", "{% set y = 'Lit'|F %}{{ y }}", "{% if 'Lit'|F %}y{% endif %}", "{% for c in 'ab'|F %}{{ c }}{% endfor %}"} {
			src := strings.ReplaceAll(pos, "F", f)
			if strings.HasPrefix(pos, "{% apply") {
				src = strings.ReplaceAll(pos, "F", name)
			}
			// the policy "every listed built-in but this one" in every shape a policy value can take (c06_policy.go)
			var okFilters []string
			for _, ok := range []string{"upper", "lower", "trim", "spaceless", "length", "capitalize", "raw", "escape", "default", "join", "reverse", "first"} {
				if ok != name {
					okFilters = append(okFilters, ok)
				}
			}
			tpls := map[string]string{"main": "{{ 'Out'|" + f + " }}|{% include 'box' sandboxed %}", "box": src}
			for _, shape := range c06Shapes {
				res := guarded(func() (string, error) {
					eng := twig.New()
					eng.RegisterString("main", tpls["main"])
					eng.RegisterString("box", tpls["box"])
					sp := c06MakePolicy(shape, okFilters, nil, c06Universe(tpls))
					eng.EnableSandbox(sp.Policy)
					if sp.Withdraw != nil {
						if sp.RenderFirst {
							if _, err := eng.Render("main", ctx); err != nil {
								return "", fmt.Errorf("render while the filter was still granted: %w", err)
							}
						}
						sp.Withdraw()
					}
					return eng.Render("main", ctx)
				})
				r.Seen("core-filter:"+src+":"+shape, true)
				r.Hit("unlisted-core-filter")
				r.Hit("policy-shape:" + shape)
				if res.Class != "security" {
					if r.Violate(Violation{Key: "sandbox-escape", What: fmt.Sprintf("the policy (shape %s) does not allow the built-in filter %q, yet the sandboxed template %q renders %q (class %q %v)", shape, name, src, res.Out, res.Class, res.Err),
						Broken: "theorem C06_confinement (implementation-only oracle: built-in filters are subject to the policy like user filters, on literals too; a policy is the set of names it allows, however the value spells that set)",
						Replay: map[string]any{"kind": "core-filter", "box": src, "filter": name, "policy_shape": shape, "allowed_filters": okFilters, "class": res.Class, "out": res.Out, "err": fmt.Sprint(res.Err)}}) {
						return nil
					}
				}
			}
		}
	}
	for _, tagSrc := range []string{"{% spaceless %}<a> <b></b> </a>{% endspaceless %}", "{% if true %}{% spaceless %}<i> </i>{% endspaceless %}{% endif %}", "{% include 'inner' %}"} {
		res := guarded(func() (string, error) {
			eng := twig.New()
			eng.RegisterString("main", "{% include 'box' sandboxed %}")
			eng.RegisterString("box", tagSrc)
			eng.RegisterString("inner", "{% spaceless %}<p> x </p>{% endspaceless %}")
			eng.EnableSandbox(&twig.DefaultSecurityPolicy{AllowedFilters: map[string]bool{"upper": true}, AllowedFunctions: map[string]bool{}, AllowedTags: map[string]bool{"spaceless": true, "if": true, "include": true}})
			return eng.Render("main", ctx)
		})
		r.Seen("filter-backed-tag:"+tagSrc, true)
		if res.Class != "security" {
			if r.Violate(Violation{Key: "sandbox-escape", What: fmt.Sprintf("the policy does not list the spaceless filter, yet the sandboxed template %q renders %q (class %q %v)", tagSrc, res.Out, res.Class, res.Err),
				Broken: "theorem C06_confinement (implementation-only oracle: a tag implemented through a filter applies the policy to that filter)",
				Replay: map[string]any{"kind": "core-filter", "box": tagSrc, "class": res.Class, "out": res.Out}}) {
				return nil
			}
		}
	}
	// the policy in force is the one installed last: renders under policy P1 must not leave anything behind
	// that lets a render under a stricter P2 invoke what P2 forbids (one engine, several renders)
	for _, pos := range []string{"{{ x|bad|upper }}", "{{ x|bad }}", "{% for c in xs|bad %}{{ c }}{% endfor %}", "{{ badfn() }}", "{{ okfn(badfn()) }}", "{% apply bad %}b{% endapply %}"} {
		var spies []string
		res := guarded(func() (string, error) {
			eng := twig.New()
			mkPol := func(allow bool) *twig.DefaultSecurityPolicy {
				p := &twig.DefaultSecurityPolicy{AllowedFilters: map[string]bool{"upper": true}, AllowedFunctions: map[string]bool{"okfn": true}, AllowedTags: map[string]bool{}}
				if allow {
					p.AllowedFilters["bad"], p.AllowedFunctions["badfn"] = true, true
				}
				return p
			}
			eng.AddFilter("bad", func(v interface{}, a ...interface{}) (interface{}, error) {
				spies = append(spies, "bad")
				return v, nil
			})
			eng.AddFunction("badfn", func(a ...interface{}) (interface{}, error) { spies = append(spies, "badfn"); return "r", nil })
			eng.AddFunction("okfn", func(a ...interface{}) (interface{}, error) { return "ok", nil })
			eng.RegisterString("main", "{% include 'box' sandboxed %}")
			eng.RegisterString("box", pos)
			eng.EnableSandbox(mkPol(true))
			if _, err := eng.Render("main", ctx); err != nil {
				return "", fmt.Errorf("allowed render failed: %w", err)
			}
			n1 := len(spies)
			if n1 == 0 {
				return "", fmt.Errorf("allowed render did not invoke the callback")
			}
			eng.EnableSandbox(mkPol(false))
			out, err := eng.Render("main", ctx)
			if len(spies) != n1 || err == nil {
				return "", fmt.Errorf("POLICY-CHANGE-IGNORED: after installing a policy that forbids it the callback ran %d more time(s); output %q, error %v", len(spies)-n1, out, err)
			}
			return "ok", nil
		})
		r.Seen("policy-change:"+pos, true)
		if res.Class != "" {
			if r.Violate(Violation{Key: "sandbox-escape", What: fmt.Sprintf("%s: %v %s", pos, res.Err, truncate(res.Panic, 200)),
				Broken: "theorem C06_confinement (the policy is a parameter of every invocation; implementation-only oracle: policy change between renders)",
				Replay: map[string]any{"kind": "policy-change", "box": pos, "err": fmt.Sprint(res.Err)}}) {
				return nil
			}
		}
	}
	// random programs inside the sandbox with random policies
	n := e.N(500, 40000)
	for i := 0; i < n && !r.Full(); i++ {
		g := NewGen(rg)
		gctx := g.BaseCtx()
		g.Filters = []string{"sf1", "sf2"}
		g.Functions = []string{"sg1", "sg2"}
		body := g.Body(2, BodyOpts{Includes: []string{"partial"}})
		pol := &PolicySpec{Filters: []string{"upper", "lower", "trim", "escape", "e", "raw", "default", "join", "length", "abs", "reverse", "merge", "keys"}, Functions: []string{"range"}}
		allowed := map[string]bool{}
		for _, f := range []string{"sf1", "sf2"} {
			if rg.Intn(2) == 0 {
				pol.Filters = append(pol.Filters, f)
				allowed[f] = true
			}
		}
		for _, f := range []string{"sg1", "sg2"} {
			if rg.Intn(2) == 0 {
				pol.Functions = append(pol.Functions, f)
				allowed[f] = true
			}
		}
		tpls := map[string]string{"main": "{% include 'box' sandboxed %}", "box": plainTpl.nodes(body), "partial": "<{{ n|sf1 }}{{ sg2(1) }}>"}
		c := &Case{Templates: tpls, Main: "main", Ctx: gctx, Policy: pol, SpyFilters: []string{"sf1", "sf2"}, SpyFunctions: []string{"sg1", "sg2"}, FailAt: -1}
		im, _, _, err := compareCase(e, c, "render-model-c06", "correspondence on random sandboxed programs")
		if err != nil {
			return err
		}
		r.Seen("rnd:"+tpls["box"]+fmt.Sprint(pol), true)
		if im.Class != "panic" && im.Class != "timeout" {
			if c06CheckSetup(e, c, rotor.next(), im, isAllowed(pol)) {
				return nil
			}
		}
		r.Hit("random-class:" + im.Class)
		for _, ev := range im.Spies {
			if !allowed[ev.Name] {
				if r.Violate(Violation{Key: "sandbox-escape", What: fmt.Sprintf("callback %s invoked inside the sandbox although the policy does not allow it", ev.Name),
					Broken: "theorem C06_confinement (implementation-only oracle: spy counters)", Replay: c.replay(im, Outcome{})}) {
					return nil
				}
			}
		}
		if i < 1 {
			r.Sample(describeCase(c))
		}
	}
	r.Sample(map[string]any{"main": "{% include 'box' sandboxed %}", "box": "{% extends 'layout' %}{% block c %}<{{ parent() }}>{% endblock %}", "layout": "[{% block c %}{{ x|bad|upper }}{% endblock %}]", "policy": "filters upper,lower,…; bad forbidden"})
	return nil
}

// c06DenyPolicy allows everything except the listed names (exact spelling), unlike the default allow-list policy.
type c06DenyPolicy struct{ filters, functions map[string]bool }

func (p *c06DenyPolicy) IsFunctionAllowed(f string) bool { return !p.functions[f] }
func (p *c06DenyPolicy) IsFilterAllowed(f string) bool   { return !p.filters[f] }
func (p *c06DenyPolicy) IsTagAllowed(string) bool        { return true }
